"""Shared machinery of the checks: Lean build + axiom audit, driver protocol, verdicts, evidence.

Verdict rules (DESIGN.md section 5):
  * a *failing input* is a concrete case on which the REAL code's output fails the property
    (decided by a verified checker run by the Lean driver on the real output, or by the direct
    statement of the property in Python) -> `VIOLATION property=<id> replay=<file>` unless the case
    is classified as a finding listed in known_findings.json (then `KNOWN-FINDING: ...`).
  * a broken Lean build / axiom audit / model-vs-code correspondence without any failing input:
    the property module's `search` is run with a larger budget; if it still finds nothing the
    verdict is `VIOLATION ... no-failing-input-found` and the replay names what no longer checks.
  * infrastructure trouble exits 2.
"""
import collections
import hashlib
import json
import os
import random
import re
import subprocess
import sys
import time

VERIF = os.path.dirname(os.path.dirname(os.path.abspath(__file__)))
LEAN_DIR = os.path.join(VERIF, 'lean')
ALLOWED_AXIOMS = {'propext', 'Classical.choice', 'Quot.sound'}
FORBIDDEN = re.compile(r'\b(sorry|admit|native_decide|bv_decide|implemented_by|unsafe)\b|^axiom\s|maxHeartbeats 0')


class Infra(Exception):
    pass


def _strip_comments(src):
    """remove -- line comments and /- -/ block comments (nesting handled) from Lean source"""
    out = []
    i, depth, n = 0, 0, len(src)
    while i < n:
        if src.startswith('/-', i):
            depth += 1
            i += 2
        elif depth and src.startswith('-/', i):
            depth -= 1
            i += 2
        elif depth:
            if src[i] == '\n':
                out.append('\n')
            i += 1
        elif src.startswith('--', i):
            while i < n and src[i] != '\n':
                i += 1
        elif src[i] == '"':
            j = i + 1
            while j < n and src[j] != '"':
                j += 2 if src[j] == '\\' else 1
            out.append(src[i:j + 1])
            i = j + 1
        else:
            out.append(src[i])
            i += 1
    return ''.join(out)


def lean_imports(path, seen=None):
    """transitive closure of project-local imports of a Lean file"""
    seen = seen if seen is not None else set()
    if path in seen or not os.path.exists(path):
        return seen
    seen.add(path)
    for m in re.finditer(r'^import\s+(ElfiVerif[\w.]*)', open(path).read(), re.M):
        lean_imports(os.path.join(LEAN_DIR, m.group(1).replace('.', '/') + '.lean'), seen)
    return seen


def run(cmd, timeout=1800, cwd=None, input=None):
    return subprocess.run(cmd, cwd=cwd, input=input, capture_output=True, text=True, timeout=timeout)


def _np_default(o):
    import numpy as np
    if isinstance(o, np.bool_):
        return bool(o)
    if isinstance(o, np.integer):
        return int(o)
    if isinstance(o, np.floating):
        return float(o)
    if isinstance(o, np.ndarray):
        return o.tolist()
    raise TypeError('not JSON serializable: %r' % type(o))


class Lean:
    """build, audit and drive the Lean side"""

    def __init__(self, prop):
        self.prop = prop
        self.props_file = os.path.join(LEAN_DIR, 'ElfiVerif', 'Props', prop + '.lean')
        self.module = 'ElfiVerif.Props.' + prop
        self.log = ''

    def lake(self, args, timeout=3000):
        lock = os.path.join(LEAN_DIR, '.build.lock')
        r = run(['flock', lock, 'lake'] + args, cwd=LEAN_DIR, timeout=timeout)
        return r

    def build(self):
        """returns (ok, message).  Rebuilds the property module and the driver (incremental)."""
        t0 = time.time()
        r = self.lake(['build', self.module, 'ElfiVerif.Driver'])
        self.build_s = time.time() - t0
        self.log = r.stdout + r.stderr
        if r.returncode != 0:
            errs = [l for l in self.log.splitlines() if 'error' in l][:5]
            return False, 'lake build failed: ' + ' | '.join(errs)
        return True, 'ok'

    def theorems(self):
        """(qualified name, statement head) of every theorem in Props/<prop>.lean"""
        src = _strip_comments(open(self.props_file).read())
        ns, out = [], []
        for line in src.splitlines():
            m = re.match(r'\s*namespace\s+(\S+)', line)
            if m:
                ns.append(m.group(1))
                continue
            m = re.match(r'\s*end\s+(\S+)', line)
            if m and ns and ns[-1] == m.group(1):
                ns.pop()
                continue
            m = re.match(r'\s*(?:private\s+|protected\s+)?theorem\s+(\S+)', line)
            if m:
                out.append('.'.join(ns + [m.group(1)]))
        return out

    def grep_forbidden(self):
        hits = []
        for path in sorted(lean_imports(self.props_file)):
            src = _strip_comments(open(path).read())
            for k, line in enumerate(src.splitlines(), 1):
                if FORBIDDEN.search(line):
                    hits.append('%s:%d: %s' % (os.path.relpath(path, LEAN_DIR), k, line.strip()[:80]))
        return hits

    def audit(self):
        """#print axioms on every property theorem; returns (axioms dict, problems list)"""
        names = self.theorems()
        os.makedirs(os.path.join(LEAN_DIR, '.audit'), exist_ok=True)
        path = os.path.join(LEAN_DIR, '.audit', self.prop + '.lean')
        with open(path, 'w') as f:
            f.write('import %s\n' % self.module)
            for n in names:
                f.write('#print axioms %s\n' % n)
        r = run(['lake', 'env', 'lean', path], cwd=LEAN_DIR, timeout=1800)
        out = r.stdout + r.stderr
        axioms, problems = {}, []
        # output: "'name' depends on axioms: [a, b]" or "'name' does not depend on any axioms"
        flat = re.sub(r'\s+', ' ', out)
        for n in names:
            m = re.search(r"'%s' depends on axioms: \[([^\]]*)\]" % re.escape(n), flat)
            if m:
                ax = [a.strip() for a in m.group(1).split(',') if a.strip()]
            elif re.search(r"'%s' does not depend on any axioms" % re.escape(n), flat):
                ax = []
            else:
                problems.append('theorem:%s not found by #print axioms' % n)
                continue
            axioms[n] = ax
            bad = [a for a in ax if a not in ALLOWED_AXIOMS]
            if bad:
                problems.append('theorem:%s depends on %s' % (n, bad))
        if r.returncode != 0 and not problems:
            problems.append('audit file failed: ' + out[:300])
        return axioms, problems

    def leanchecker(self):
        r = run(['lake', 'env', 'leanchecker', self.module], cwd=LEAN_DIR, timeout=3000)
        return r.returncode == 0, (r.stdout + r.stderr)[-400:]

    def drive(self, requests, timeout=3000):
        """send requests (list of dicts) to the driver, return list of answers (dicts)"""
        if not requests:
            return []
        data = '\n'.join(json.dumps(r, separators=(',', ':'), default=_np_default) for r in requests) + '\n'
        r = run(['lake', 'env', 'lean', '--run', 'ElfiVerif/Driver.lean'], cwd=LEAN_DIR, input=data,
                timeout=timeout)
        lines = [l for l in r.stdout.splitlines() if l.strip()]
        if r.returncode != 0 or len(lines) != len(requests):
            raise Infra('driver failed (rc=%s, %d answers for %d requests): %s' %
                        (r.returncode, len(lines), len(requests), (r.stderr or r.stdout)[-500:]))
        return [json.loads(l) for l in lines]


def load_known():
    p = os.path.join(VERIF, 'known_findings.json')
    if not os.path.exists(p):
        return {'findings': [], 'fixed': []}
    return json.load(open(p))


def canon(obj):
    return json.dumps(obj, sort_keys=True, default=str)


class Ctx:
    """state of one check run"""

    def __init__(self, prop, tier, seed):
        self.prop, self.tier, self.seed = prop, tier, seed
        self.rng = random.Random((hash_int(prop) * 1000003 + seed) & 0xffffffff)
        self.lean = Lean(prop)
        self.t0 = time.time()
        self.failing = []        # (finding_id or None, case dict, expected, observed, what)
        self.corr_breaks = []    # (name, case, model, code)
        self.proof_problems = []
        self.hist = collections.defaultdict(collections.Counter)
        self.samples = []
        self.evaluations = 0
        self.distinct = set()
        self.extra = {}
        self.known = load_known()
        self.known_ids = {f['id'] for f in self.known['findings'] if f['property'] == prop}
        self.known_hit = collections.Counter()
        self.max_rel_dev = 0.0
        # tie to the source text: modules of the tree under test whose syntax differs from the fingerprints the models were last
        # validated against (tools/anchors.py).  Never a verdict; it only deepens the quick tier's exploration (budget()).
        self.drift = []
        try:
            sys.path.insert(0, os.path.join(VERIF, 'tools'))
            import anchors
            self.drift = anchors.drift(os.environ.get('VERIF_REPO', '/repo'))
        except Exception:
            self.drift = []
        if os.environ.get('VERIF_ESCALATE'):
            self.drift = self.drift or ['<forced by VERIF_ESCALATE>']
        self.extra['source_drift'] = self.drift

    # -- bookkeeping -------------------------------------------------------------------------
    def quick(self):
        return self.tier == 'quick'

    # thorough-tier multiplier for the properties whose cases are cheap (keeps every thorough run at 1-7 minutes)
    THOROUGH_SCALE = dict(C01=3, C02=5, C03=5, C05=4, C08=4, C09=4, C10=4, C12=5, C13=3, C14=4, C17=4, C18=5, C19=4, C20=2)

    DRIFT_SCALE_BY = dict(C06=2)   # file-system heavy cases
    DRIFT_SCALE = 4   # quick tier on a tree whose source text drifted from the recorded fingerprints

    def budget(self, quick, thorough):
        if self.tier == 'quick':
            if self.drift and isinstance(quick, int) and isinstance(thorough, int) and thorough >= 50 and quick >= 10:
                return min(thorough, quick * self.DRIFT_SCALE_BY.get(self.prop, self.DRIFT_SCALE))
            return quick
        k = self.THOROUGH_SCALE.get(self.prop, 1)
        return thorough * k if isinstance(thorough, int) and thorough >= 50 else thorough

    def enough(self):
        """stop exploring once the verdict is settled by a few failing inputs"""
        return len(self.failing) >= 3

    def count(self, key, value):
        self.hist[key][str(value)] += 1

    def case(self, case, nontrivial=True, sample=True):
        """register one explored case (for the evidence counts)"""
        self.evaluations += 1
        self.last_case = case
        if nontrivial:
            self.distinct.add(hashlib.sha1(canon(case).encode()).hexdigest())
        if sample and len(self.samples) < 4 and (self.evaluations % 7 == 1):
            self.samples.append(json.loads(canon(case)))

    def dev(self, a, b):
        d = abs(a - b) / max(1.0, abs(a), abs(b))
        self.max_rel_dev = max(self.max_rel_dev, d)
        return d

    # -- verdict inputs ----------------------------------------------------------------------
    def fail_input(self, case, what, expected=None, observed=None, finding=None):
        """the REAL code fails the property on `case`.  `finding` = id in known_findings.json this
        case is an instance of (decided structurally by the property module), or None."""
        if finding is not None and finding in self.known_ids:
            self.known_hit[finding] += 1
            return
        self.failing.append(dict(case=case, what=what, expected=expected, observed=observed,
                                 finding=finding))

    def corr_break(self, name, case, model, code):
        """model and code disagree (not by itself a violation)"""
        self.corr_breaks.append(dict(name=name, case=case, model=model, code=code))

    # -- output ------------------------------------------------------------------------------
    def write_replay(self, kind, payload):
        os.makedirs(os.path.join(VERIF, 'replays'), exist_ok=True)
        body = dict(property=self.prop, kind=kind, seed=self.seed, tier=self.tier, found_in_search=getattr(self, 'in_search', False), **payload)
        h = hashlib.sha1(canon(body).encode()).hexdigest()[:10]
        path = os.path.join(VERIF, 'replays', '%s-%s.json' % (self.prop, h))
        body['cmd'] = './check %s --replay %s' % (self.prop, os.path.relpath(path, VERIF))
        with open(path, 'w') as f:
            json.dump(body, f, indent=1, default=str)
        return os.path.relpath(path, VERIF)


class Timeout(Exception):
    pass


def with_timeout(sec, fn):
    """run fn() in this process, raising Timeout after `sec` seconds (SIGALRM)"""
    import signal

    def h(*_):
        raise Timeout()
    old = signal.signal(signal.SIGALRM, h)
    signal.setitimer(signal.ITIMER_REAL, sec)
    try:
        return fn()
    finally:
        signal.setitimer(signal.ITIMER_REAL, 0)
        signal.signal(signal.SIGALRM, old)


def hash_int(s):
    return int(hashlib.sha1(s.encode()).hexdigest()[:8], 16)


def jsonable(x):
    """convert numpy things to plain python for replays/evidence"""
    import numpy as np
    if isinstance(x, dict):
        return {str(k): jsonable(v) for k, v in x.items()}
    if isinstance(x, (list, tuple)):
        return [jsonable(v) for v in x]
    if isinstance(x, np.ndarray):
        return jsonable(x.tolist())
    if isinstance(x, (np.integer,)):
        return int(x)
    if isinstance(x, (np.floating,)):
        return float(x)
    if isinstance(x, (np.bool_,)):
        return bool(x)
    if isinstance(x, float) and (x != x or x in (float('inf'), float('-inf'))):
        return repr(x)
    return x
