"""Environment shim: must be imported before elfi.

/venv has numpy 2.x while elfi was written for numpy 1.x.  Two incompatibilities stop large parts of
the code before they reach the logic under study; they are neutralised in the harness process only
(nothing in /repo changes) and are listed in the trusted base (DESIGN.md 4.3):
  * removed aliases np.Inf / np.NINF;
  * float(<1-element ndarray with ndim>=1>) now raises -> a module-global `float` restoring the
    numpy-1 conversion is injected into a few elfi modules (module globals shadow builtins).
The repository under test is taken from $VERIF_REPO (default /repo) and put first on sys.path.
"""
import os
import sys
import warnings

REPO = os.environ.get('VERIF_REPO', '/repo')
if sys.path[0] != REPO:
    sys.path.insert(0, REPO)

warnings.filterwarnings('ignore')
import numpy as np  # noqa: E402

if not hasattr(np, 'Inf'):
    np.Inf = np.inf
if not hasattr(np, 'NINF'):
    np.NINF = -np.inf
if not hasattr(np, 'float_'):
    np.float_ = np.float64

import builtins  # noqa: E402

_builtin_float = builtins.float


class _FloatShimMeta(type):
    def __instancecheck__(cls, obj):
        return isinstance(obj, _builtin_float)

    def __subclasscheck__(cls, sub):
        return issubclass(sub, _builtin_float)


class float_shim(_builtin_float, metaclass=_FloatShimMeta):
    """`float` that converts size-1 ndarrays like numpy 1.x did."""

    def __new__(cls, x=0.0):
        if isinstance(x, np.ndarray) and x.ndim > 0 and x.size == 1:
            x = x.reshape(()).item()
        return _builtin_float(x)


_real_finfo = np.finfo


def _finfo(t=_builtin_float):
    return _real_finfo(_builtin_float if t is float_shim else t)


def install_float_shim():
    import importlib
    np.finfo = _finfo            # np.finfo(float) inside a shimmed module
    for name in ('elfi.methods.bo.gpy_regression', 'elfi.methods.mcmc', 'elfi.methods.posteriors',
                 'elfi.methods.bo.acquisition'):
        mod = importlib.import_module(name)
        mod.float = float_shim


import logging  # noqa: E402
logging.disable(logging.WARNING)

import elfi  # noqa: E402,F401
assert os.path.realpath(elfi.__file__).startswith(os.path.realpath(REPO)), \
    'elfi imported from %s, expected %s' % (elfi.__file__, REPO)
