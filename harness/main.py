"""Entry point:  ./check Cxx --tier quick|thorough   |   ./check Cxx --replay <file>"""
import argparse
import importlib
import json
import os
import sys
import time
import traceback

sys.path.insert(0, os.path.dirname(os.path.abspath(__file__)))
import common  # noqa: E402
from common import Ctx, Infra, VERIF  # noqa: E402


def main():
    ap = argparse.ArgumentParser()
    ap.add_argument('prop')
    ap.add_argument('--tier', default=os.environ.get('VERIF_TIER', 'quick'), choices=['quick', 'thorough'])
    ap.add_argument('--replay')
    ap.add_argument('--no-lean', action='store_true', help='debug: skip build/audit')
    a = ap.parse_args()
    seed = int(os.environ.get('VERIF_SEED', '0') or 0)
    ctx = Ctx(a.prop, a.tier, seed)
    import compat  # noqa: F401  (numpy shims, repo on sys.path)
    mod = importlib.import_module('props.' + a.prop.lower())

    if a.replay:
        body = json.load(open(a.replay if os.path.isabs(a.replay) else os.path.join(VERIF, a.replay)))
        if body.get('kind') == 'no-failing-input-found':
            print('replay names a broken obligation, not an input: %s' % body.get('broken'))
            print(json.dumps(body.get('detail'), indent=1, default=str)[:3000])
            sys.exit(1)
        ctx.lean.build()
        res = mod.replay(ctx, body['case'])
        print(json.dumps(common.jsonable(res), indent=1, default=str)[:4000])
        if isinstance(res, dict) and res.get('note') and not ctx.failing and not ctx.known_hit and 'seed' in body:
            # the case depends on generated state (fitted surrogates, schedules): regenerate it — same seed, same tier, same code path
            print('REPLAY: regenerating the run with VERIF_SEED=%s tier=%s' % (body['seed'], body.get('tier')))
            ctx = Ctx(a.prop, body.get('tier', 'quick'), int(body['seed']))
            ctx.lean.build()
            ctx.driver_ok = True
            mod.run(ctx)
            if body.get('found_in_search') and not ctx.failing and hasattr(mod, 'search'):
                ctx.in_search = True
                mod.search(ctx)
            same = [f for f in ctx.failing if common.canon(common.jsonable(f['case'])) == common.canon(body['case'])]
            if same:
                ctx.failing = same
        if ctx.failing:
            print('REPLAY: property %s FAILS on this case: %s' % (a.prop, ctx.failing[0]['what']))
            sys.exit(1)
        if ctx.known_hit:
            print('REPLAY: case is the listed known finding %s' % list(ctx.known_hit))
            sys.exit(0)
        print('REPLAY: property %s holds on this case' % a.prop)
        sys.exit(0)

    # ---- 1. proof side: build, forbidden-token grep, axiom audit (+ leanchecker in thorough) ----
    obligations, axioms = [], {}
    if not a.no_lean:
        ok, msg = ctx.lean.build()
        if not ok:
            ctx.proof_problems.append(msg)
        hits = ctx.lean.grep_forbidden()
        if hits:
            ctx.proof_problems.append('forbidden tokens: ' + '; '.join(hits[:5]))
        obligations = ctx.lean.theorems()
        if ok:
            axioms, problems = ctx.lean.audit()
            ctx.proof_problems += problems
            if a.tier == 'thorough':
                ok2, out = ctx.lean.leanchecker()
                ctx.extra['leanchecker'] = 'ok' if ok2 else out
                if not ok2:
                    ctx.proof_problems.append('leanchecker: ' + out)
    driver_ok = not any('lake build failed' in p for p in ctx.proof_problems)

    # ---- 2. correspondence + property oracle on the real code ----
    try:
        ctx.driver_ok = driver_ok
        mod.run(ctx)
    except Infra as e:
        print('INFRA: %s' % e)
        sys.exit(2)
    except Exception as e:
        # an exception raised INSIDE the code under test (innermost elfi frame below the harness frames) on a generated case is a
        # failing input, not an infrastructure problem: the property says the operation yields a result
        tb = traceback.extract_tb(e.__traceback__)
        repo = os.path.realpath(os.environ.get('VERIF_REPO', '/repo'))
        in_repo = [f for f in tb if os.path.realpath(f.filename).startswith(repo + os.sep)]
        if in_repo and getattr(ctx, 'last_case', None) is not None and not isinstance(e, (MemoryError, KeyboardInterrupt)):
            f = in_repo[-1]
            traceback.print_exc()
            ctx.fail_input(ctx.last_case, 'the code under test raised %s: %s at %s:%d (%s) on this generated case (or the one generated right after it)'
                           % (type(e).__name__, str(e)[:120], os.path.relpath(f.filename, repo), f.lineno, f.name))
        elif isinstance(e, (TypeError, IndexError, ValueError, KeyError, AttributeError, AssertionError, ZeroDivisionError)) \
                and getattr(ctx, 'last_case', None) is not None:
            # the harness could not even READ what the code produced for a generated case (another type / shape / missing field than
            # the model of the code says): that is a correspondence break on that case, to be followed by the failing-input search
            traceback.print_exc()
            f = tb[-1]
            ctx.corr_break('observation', ctx.last_case, 'an observable of the modelled type/shape',
                           '%s: %s at %s:%d' % (type(e).__name__, str(e)[:120], os.path.basename(f.filename), f.lineno))
        else:
            traceback.print_exc()
            print('INFRA: harness crashed')
            sys.exit(2)

    # ---- 3. broken proof / correspondence without a failing input: search harder ----
    if (ctx.proof_problems or ctx.corr_breaks) and not ctx.failing and hasattr(mod, 'search'):
        try:
            ctx.in_search = True
            mod.search(ctx)
        except Infra as e:
            print('INFRA during search: %s' % e)
        except Exception as e:
            # same reading as above: an exception from inside the code under test on a generated case is a failing input; a harness
            # error while reading an observable leaves the verdict at the break already recorded
            tb = traceback.extract_tb(e.__traceback__)
            repo = os.path.realpath(os.environ.get('VERIF_REPO', '/repo'))
            in_repo = [f for f in tb if os.path.realpath(f.filename).startswith(repo + os.sep)]
            traceback.print_exc()
            if in_repo and getattr(ctx, 'last_case', None) is not None and not isinstance(e, (MemoryError, KeyboardInterrupt)):
                f = in_repo[-1]
                ctx.fail_input(ctx.last_case, 'the code under test raised %s: %s at %s:%d (%s) on this generated case (or the one generated right after it)'
                               % (type(e).__name__, str(e)[:120], os.path.relpath(f.filename, repo), f.lineno, f.name))
            else:
                print('search stopped by a harness error: %s' % type(e).__name__)

    # ---- 4. verdict ----
    lines, rc = [], 0
    for fid, n in sorted(ctx.known_hit.items()):
        what = next(f['what'] for f in ctx.known['findings'] if f['id'] == fid and f['property'] == a.prop)
        lines.append('KNOWN-FINDING: property=%s %s [%s, %d case(s) this run]' % (a.prop, what, fid, n))
    if ctx.failing:
        f = ctx.failing[0]
        path = ctx.write_replay('failing-input', dict(
            broken=None, case=common.jsonable(f['case']), what=f['what'],
            expected=common.jsonable(f['expected']), observed=common.jsonable(f['observed']),
            unlisted_finding_class=f['finding'], other_failing_cases=len(ctx.failing) - 1))
        lines.append('VIOLATION property=%s replay=%s' % (a.prop, path))
        rc = 1
    elif ctx.proof_problems or ctx.corr_breaks:
        broken = (ctx.proof_problems + ['corr:%s.%s' % (a.prop, b['name']) for b in ctx.corr_breaks])
        detail = dict(proof_problems=ctx.proof_problems,
                      correspondence=common.jsonable(ctx.corr_breaks[:3]))
        path = ctx.write_replay('no-failing-input-found', dict(broken=broken[0], all_broken=broken[:10],
                                                             detail=detail))
        lines.append('VIOLATION property=%s replay=%s no-failing-input-found' % (a.prop, path))
        rc = 1

    # ---- 5. evidence ----
    discharged = sum(1 for n in obligations if n in axioms and set(axioms[n]) <= common.ALLOWED_AXIOMS) \
        if not any('lake build failed' in p or 'forbidden' in p for p in ctx.proof_problems) else 0
    meta = getattr(mod, 'META', {})
    cov = dict(
        obligations=len(obligations), discharged=discharged,
        checker_cmd='cd lean && lake build %s && lake env lean .audit/%s.lean   (#print axioms on every theorem of Props/%s.lean; thorough: lake env leanchecker %s)'
                    % (ctx.lean.module, a.prop, a.prop, ctx.lean.module),
        trusted_base=meta.get('trusted_base', []) + [
            'Lean 4.33 kernel; axioms allowed: propext, Classical.choice, Quot.sound (audited per theorem this run)',
            'hand-written Lean model + this correspondence harness + Driver.lean (parsing/printing)',
            'numpy-2 compatibility shim harness/compat.py'],
        theorems=obligations, axioms=axioms,
        partial=meta.get('partial', []),
        evaluations=ctx.evaluations, distinct_nontrivial=len(ctx.distinct),
        rule=meta.get('rule', ''), samples=ctx.samples[:4] or [{'note': 'no case sampled'}],
        histogram={k: dict(v) for k, v in ctx.hist.items()},
        correspondence_breaks=len(ctx.corr_breaks), proof_problems=ctx.proof_problems,
        known_findings_hit=dict(ctx.known_hit), max_rel_dev=ctx.max_rel_dev,
        lean_build_s=round(getattr(ctx.lean, 'build_s', 0.0), 2), **ctx.extra)
    ev = dict(property_id=a.prop, tier=a.tier, seed=seed, level='proof', coverage=cov,
              assumptions=meta.get('assumptions', []), wall_s=round(time.time() - ctx.t0, 2),
              violations=len(ctx.failing) + (1 if rc and not ctx.failing else 0))
    # self-test runs against a scratch copy (VERIF_REPO) never touch the real evidence files
    repo = os.environ.get('VERIF_REPO', '/repo')
    evdir = os.path.join(VERIF, 'evidence') if os.path.realpath(repo) == '/repo' else os.path.join(repo, '.verif-evidence')
    os.makedirs(evdir, exist_ok=True)
    with open(os.path.join(evdir, a.prop + '.json'), 'w') as f:
        json.dump(common.jsonable(ev), f, indent=1, default=str)
    for l in lines:
        print(l)
    print('%s %s tier=%s seed=%d theorems=%d/%d cases=%d distinct=%d corr_breaks=%d wall=%.1fs' % (
        a.prop, 'FAIL' if rc else 'ok', a.tier, seed, discharged, len(obligations), ctx.evaluations,
        len(ctx.distinct), len(ctx.corr_breaks), time.time() - ctx.t0))
    sys.exit(rc)


if __name__ == '__main__':
    main()
