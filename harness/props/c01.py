"""C01 — rejection ABC returns exactly the best simulated draws, row-consistent.

Real `elfi.Rejection(...).sample` on generated models; an OutputPool records every output of every
consumed batch (independent record of what was simulated).  Compared with Model/Rejection.lean
(returned discrepancies, threshold, n_sim, n_batches — never tie order), and the verified checker
`checkExtract` is run by the Lean driver on the real output (rows mapped to draw ids by byte
equality across ALL returned output columns = row consistency)."""
import math
from fractions import Fraction
from fractions import Fraction as F

import numpy as np

import elfi
from common import Timeout, with_timeout

META = dict(
    rule='a case = (model shape, seed, batch_size, n_samples, objective form and value, max_parallel_batches); '
         'non-trivial = at least 2 consumed batches or a tie / inf among consumed discrepancies; distinct by full content',
    trusted_base=['row -> draw-id matching by byte equality over all returned columns (Python, harness)',
                  'IEEE double arithmetic of the batch estimate is reproduced by Lean Float (same C doubles)'],
    assumptions=['discrepancies are not NaN', 'budget >= n_samples (fewer consumed draws than requested is outside the statement)'],
    partial=['with threshold = inf, or when fewer than n accepted draws have a finite discrepancy, the current code '
             'returns uninitialised buffer rows: extract_spec carries the finiteness guard, both excluded inputs are '
             'machine-checked counter-examples and known findings'],
)


def last_col(v):
    """the value a row is ranked by: the discrepancy itself, or its LAST column for a nested (multi-column) discrepancy"""
    a = np.asarray(v, dtype=float)
    return float(a.reshape(-1)[-1]) if a.ndim else float(a)


def key_json(v):
    v = float(v)
    if math.isinf(v):
        return 'inf'
    f = F(v)
    return [f.numerator, f.denominator]


def build_model(case):
    m = elfi.ElfiModel()
    A, p_inf = case['alphabet'], case['p_inf']
    names = []
    for i in range(case['n_params']):
        names.append(elfi.Prior('uniform', 0, 1, model=m, name='t%d' % i))

    def sim(*params, batch_size=1, random_state=None):
        return random_state.rand(batch_size)

    Y = elfi.Simulator(sim, *names, model=m, name='sim', observed=np.array([0.5]))
    if case['summary_shape'] == 'vec':
        S = elfi.Summary(lambda y: y, Y, model=m, name='S')
    else:
        S = elfi.Summary(lambda y: np.column_stack([y, 2 * y, 1 - y]), Y, model=m, name='S')

    def dfun(s, observed=None):
        tok = s if s.ndim == 1 else s[:, 0]
        d = np.floor(tok * A * 0.999999)
        d = np.where(tok > 1 - p_inf, np.inf, d)
        if case.get('two_col'):
            # a nested distance: rows are ranked by the LAST column; the first column is a decoy that is large where the last is small
            return np.column_stack([100.0 - d, d])
        if case.get('int_discrepancy'):
            return d.astype(np.int64)          # a count-valued discrepancy (mismatch counts on discrete data): integer dtype
        return d

    elfi.Discrepancy(dfun, S, model=m, name='d')
    return m


def run_real(case):
    m = build_model(case)
    stored = ['t%d' % i for i in range(case['n_params'])] + ['sim', 'S', 'd']
    pool = elfi.OutputPool(stored)
    extra = ['S'] if case['extra'] else []
    rej = elfi.Rejection(m['d'], batch_size=case['b'], seed=case['seed'], pool=pool, output_names=extra,
                         max_parallel_batches=case['mpb'])
    if case.get('before'):
        # an EARLIER run of the same sampler object with another objective (a finite threshold, or a budget); the pool is
        # emptied afterwards so that it records exactly the batches the run under test consumes
        bf = case['before']
        with_timeout(30.0, lambda: rej.sample(bf['n'], bar=False, **{bf['form']: bf['value']}))
        pool.clear()
    kw = {}
    if case['form'] == 'threshold':
        kw['threshold'] = float('inf') if case['value'] == 'inf' else case['value']
    elif case['form'] == 'quantile':
        kw['quantile'] = case['value']
    elif case['form'] == 'n_sim':
        kw['n_sim'] = case['value']
    if case.get('positional'):
        # the documented positional order: sample(n_samples, threshold, quantile, n_sim)
        args = [kw.get('threshold'), kw.get('quantile'), kw.get('n_sim')]
        while args and args[-1] is None:
            args.pop()
        res = with_timeout(30.0, lambda: rej.sample(case['n'], *args, bar=False))
    else:
        res = with_timeout(30.0, lambda: rej.sample(case['n'], bar=False, **kw))
    return res, pool, stored


def analyse(ctx, case):
    """returns dict for the driver requests, or None if the run was out of domain"""
    res, pool, stored = run_real(case)
    nb_pool = len(pool.stores['d'])
    outs = list(res.outputs.keys())
    # all consumed draws with ids; identity tuple = bytes of the columns that were returned
    cons, ident = [], {}
    batches = []
    for bi in range(nb_pool):
        rows = []
        for r in range(case['b']):
            did = bi * case['b'] + r
            key = last_col(pool.stores['d'][bi][r])
            tup = tuple(np.asarray(pool.stores[k][bi][r], dtype=float).tobytes() for k in outs)      # (values, whatever the dtype: an integer discrepancy comes back as float)
            ident.setdefault(tup, []).append(did)
            cons.append([did, key_json(key)])
            rows.append([did, key_json(key)])
        batches.append(rows)
    out, used, unmatched = [], set(), 0
    for r in range(len(res.outputs['d'])):
        tup = tuple(np.asarray(res.outputs[k][r], dtype=float).tobytes() for k in outs)
        cands = [i for i in ident.get(tup, []) if i not in used]
        if cands:
            used.add(cands[0])
            out.append([cands[0], key_json(last_col(res.outputs['d'][r]))])
        else:
            unmatched += 1
            out.append([None, key_json(last_col(res.outputs['d'][r]))])
    thr_given = None
    if case['form'] == 'threshold':
        thr_given = 'inf' if case['value'] == 'inf' else key_json(case['value'])
    budget = None
    if case['form'] == 'quantile':
        budget = math.ceil(case['n'] / case['value'])
    elif case['form'] == 'n_sim':
        budget = case['value']
    elif case['form'] == 'default':
        budget = math.ceil(case['n'] / .01)        # set_objective: quantile defaults to .01
    keys = [last_col(pool.stores['d'][bi][r]) for bi in range(nb_pool) for r in range(case['b'])]
    acc_fin = [k for k in keys if math.isfinite(k) and (thr_given is None or thr_given == 'inf' or k <= case['value'])]
    info = dict(res=res, nb_pool=nb_pool, cons=cons, out=out, unmatched=unmatched, thr_given=thr_given,
                budget=budget, batches=batches, n_acc_fin=len(acc_fin), keys=keys,
                lens={k: len(v) for k, v in res.outputs.items()})
    return info


def classify(case, info):
    if case['form'] == 'threshold' and case['value'] == 'inf':
        return 'inf-threshold-early-stop'
    # budget modes only: with a finite threshold the unchanged code never stops before it holds n accepted
    # finite draws (theorem threshold_finishes_full), so a short result there is NOT this finding
    if case['form'] != 'threshold' and info['n_acc_fin'] < case['n']:
        return 'inf-discrepancy-uninitialised-rows'
    return None


def direct(ctx, case, info):
    """statements that need no model: counts and budget"""
    res = info['res']
    fid = classify(case, info)
    if res.n_batches != info['nb_pool']:
        ctx.fail_input(case, 'n_batches %d but the pool recorded %d consumed batches' % (res.n_batches, info['nb_pool']),
                       info['nb_pool'], res.n_batches)
    if res.n_sim != case['b'] * info['nb_pool']:
        ctx.fail_input(case, 'n_sim %d != batch_size %d x consumed batches %d' % (res.n_sim, case['b'], info['nb_pool']),
                       case['b'] * info['nb_pool'], res.n_sim)
    if info['budget'] is not None and case['form'] != 'threshold':
        want = -(-info['budget'] // case['b'])
        if info['nb_pool'] != want:
            ctx.fail_input(case, 'budget %d with batch_size %d: consumed %d batches, ceil(budget/batch_size) = %d'
                           % (info['budget'], case['b'], info['nb_pool'], want), want, info['nb_pool'])
    if any(l != case['n'] for l in info['lens'].values()):
        ctx.fail_input(case, 'returned columns have lengths %s, n_samples = %d' % (info['lens'], case['n']),
                       case['n'], info['lens'], finding=fid)
    if info['unmatched']:
        ctx.fail_input(case, '%d returned row(s) are not (the columns of) any single consumed draw' % info['unmatched'],
                       'every returned row = one consumed draw', info['out'], finding=fid)


def gen_case(rng, boundary=None):
    b = rng.randint(1, 8)
    n = rng.choice([rng.randint(1, b), b, rng.randint(b, 12), rng.randint(1, 12)])
    form = rng.choice(['threshold', 'threshold', 'quantile', 'n_sim', 'default'])
    A = rng.randint(1, 5)
    p_inf = rng.choice([0, 0, 0.1, 0.3])
    if form == 'threshold':
        value = rng.choice([0, 0, 1, 2, A - 1, A])
        if rng.random() < .06:
            value = 'inf'
        if value != 'inf':
            value = float(min(value, A - 1)) if rng.random() < .8 else float(value)
    elif form == 'quantile':
        value = rng.choice([0.5, 0.25, 0.1, 0.3, 1.0, 0.75, 0.07])
        while math.ceil(n / value) > 60:
            value = min(1.0, value * 2)
    elif form == 'n_sim':
        value = rng.randint(n, n + 30)
    else:
        value = None
        n = rng.randint(1, 2)           # default quantile 0.01 -> 100..200 simulations
        b = rng.randint(5, 8)
    int_d = p_inf == 0 and rng.random() < .3
    positional = rng.random() < .3
    two_col = form in ('quantile', 'n_sim') and p_inf == 0 and not int_d and rng.random() < .35
    before = None
    if rng.random() < .25:
        # the sampler object has been used before: with a generous finite threshold (leaves a threshold behind), or with a budget
        before = rng.choice([dict(form='threshold', value=float(A), n=rng.randint(1, 4)), dict(form='threshold', value=float(A), n=rng.randint(1, 4)),
                             dict(form='n_sim', value=rng.randint(4, 20), n=rng.randint(1, 4)), dict(form='quantile', value=0.5, n=rng.randint(1, 4))])
    if two_col and before and before['form'] == 'threshold':
        before = dict(form='n_sim', value=rng.randint(4, 20), n=before['n'])      # two-column discrepancies are ranked in budget modes only
    return dict(b=b, n=n, form=form, value=value, alphabet=A, p_inf=p_inf, int_discrepancy=int_d, positional=positional, two_col=two_col, seed=rng.randrange(2**32),
                n_params=rng.randint(1, 3), summary_shape=rng.choice(['vec', 'mat']), extra=rng.random() < .6,
                mpb=rng.choice([1, 1, 2, 3]), before=before)


BOUNDARY = [
    dict(b=3, n=7, form='threshold', value='inf', alphabet=3, p_inf=0, seed=1, n_params=1, summary_shape='vec', extra=True, mpb=1),
    dict(b=2, n=3, form='n_sim', value=4, alphabet=2, p_inf=0.9, seed=3, n_params=1, summary_shape='vec', extra=True, mpb=1),
    dict(b=4, n=4, form='n_sim', value=9, alphabet=1, p_inf=0, seed=5, n_params=2, summary_shape='mat', extra=True, mpb=2),
    dict(b=1, n=1, form='quantile', value=1.0, alphabet=2, p_inf=0, seed=6, n_params=1, summary_shape='vec', extra=False, mpb=1),
    dict(b=5, n=2, form='threshold', value=0.0, alphabet=4, p_inf=0.1, seed=7, n_params=3, summary_shape='mat', extra=True, mpb=3),
    dict(b=3, n=3, form='quantile', value=0.1, alphabet=3, p_inf=0, seed=8, n_params=1, summary_shape='vec', extra=True, mpb=1),
    # the second run of one sampler object: threshold run first, then each budget form (and the other way round)
    dict(b=3, n=4, form='n_sim', value=25, alphabet=4, p_inf=0, seed=9, n_params=1, summary_shape='vec', extra=True, mpb=1,
         before=dict(form='threshold', value=4.0, n=2)),
    dict(b=4, n=3, form='quantile', value=0.1, alphabet=5, p_inf=0, seed=10, n_params=2, summary_shape='mat', extra=False, mpb=2,
         before=dict(form='threshold', value=5.0, n=3)),
    dict(b=6, n=1, form='default', value=None, alphabet=3, p_inf=0, seed=11, n_params=1, summary_shape='vec', extra=True, mpb=1,
         before=dict(form='threshold', value=3.0, n=2)),
    dict(b=3, n=3, form='threshold', value=1.0, alphabet=4, p_inf=0, seed=12, n_params=1, summary_shape='vec', extra=True, mpb=1,
         before=dict(form='n_sim', value=12, n=2)),
]


def process(ctx, cases):
    reqs, meta = [], []
    qreqs, qmeta = [], []
    for case in cases:
        if ctx.enough():
            break
        try:
            import os as _os, time as _time
            _t0 = _time.time()
            info = analyse(ctx, case)
            if _os.environ.get('VERIF_DEBUG') and _time.time() - _t0 > 3:
                print('SLOW', _time.time() - _t0, case)
        except Timeout:
            if _os.environ.get('VERIF_DEBUG'):
                print('TIMEOUT', case)
            ctx.case(case, True)
            ctx.fail_input(case, 'Rejection.sample did not return within 30 s (acceptance is possible for this '
                           'model: every discrepancy value of the alphabet has positive probability)', 'a Sample', 'no return')
            continue
        ties = len(set(info['keys'])) < len(info['keys']) or any(math.isinf(k) for k in info['keys'])
        ctx.case(case, info['nb_pool'] >= 2 or ties)
        ctx.count('form', case['form'])
        ctx.count('n_vs_b', '<' if case['n'] < case['b'] else ('=' if case['n'] == case['b'] else '>'))
        ctx.count('batches', min(info['nb_pool'], 10))
        ctx.count('ties_or_inf', ties)
        direct(ctx, case, info)
        nsim = info['budget'] if case['form'] != 'threshold' else None
        thr = info['thr_given']
        reqs.append(dict(op='C01.run', n=case['n'], b=case['b'], thr=thr, nSim=nsim, mpb=case['mpb'],
                         batches=info['batches']))
        reqs.append(dict(op='C01.check', thr=thr, n=case['n'], consumed=info['cons'], out=info['out'],
                         threshold=key_json(last_col(info['res'].threshold))))
        meta.append((case, info))
        if case['form'] == 'quantile':
            fr = Fraction(str(case['value']))                  # the decimal the user wrote
            qreqs.append(dict(op='C01.qbudget', n=case['n'], p=fr.numerator, q=fr.denominator, b=case['b']))
            qmeta.append((case, info))
    if not ctx.driver_ok:
        return
    # the quantile objective inside the model (theorems quantileBudget_spec / quantileBatches_spec): batches consumed by the real run
    # vs ceil(ceil(n/quantile)/batch_size) over exact rationals; where the FLOAT quotient n/quantile lands just above an integer
    # the exact value is (e.g. 3/0.1 = 30.000000000000004) the code's own float ceiling is the documented behaviour - counted, not compared
    for (case, info), a in zip(qmeta, ctx.lean.drive(qreqs)):
        mb = a.get('ok', {})
        if mb.get('budget') != math.ceil(case['n'] / case['value']):
            ctx.count('quantile.float_boundary', True)
            continue
        ctx.count('quantile.float_boundary', False)
        if mb.get('batches') != info['res'].n_batches:
            ctx.corr_break('quantile.batches', case, mb, info['res'].n_batches)
    ans = ctx.lean.drive(reqs)
    for k, (case, info) in enumerate(meta):
        a, chk = ans[2 * k], ans[2 * k + 1]
        fid = classify(case, info)
        res = info['res']
        if 'ok' not in a or 'ok' not in chk:
            ctx.corr_break('driver', case, [a, chk], None)
            continue
        if not chk['ok']['check']:
            ctx.fail_input(case, 'returned rows are not exactly the n smallest accepted consumed draws '
                           '(ascending, distinct draws, threshold = largest): verified checker says no',
                           'checkExtract = true', dict(out=info['out'], threshold=np.ravel(res.threshold).tolist(),
                                                       consumed=info['cons']), finding=fid)
        mdl = a['ok']
        code = dict(keys=[key_json(last_col(v)) for v in res.outputs['d']], threshold=key_json(last_col(res.threshold)),
                    nSim=res.n_sim, nBatches=res.n_batches)
        if mdl.get('nBatches') is None:
            ctx.corr_break('run.n_batches', case, 'model wants more than the %d consumed batches' % info['nb_pool'], code['nBatches'])
            continue
        for f in ('keys', 'threshold', 'nSim', 'nBatches'):
            if mdl[f] != code[f]:
                ctx.corr_break('run.' + f, case, mdl[f], code[f])
                break


def run(ctx):
    rng = ctx.rng
    cases = list(BOUNDARY) + [gen_case(rng) for _ in range(ctx.budget(250, 5000))]
    process(ctx, cases)


def search(ctx):
    rng = ctx.rng
    process(ctx, [gen_case(rng) for _ in range(2500)])


def replay(ctx, case):
    info = analyse(ctx, case)
    direct(ctx, case, info)
    thr = info['thr_given']
    chk = ctx.lean.drive([dict(op='C01.check', thr=thr, n=case['n'], consumed=info['cons'], out=info['out'],
                               threshold=key_json(last_col(info['res'].threshold)))])[0]
    if not chk.get('ok', {}).get('check'):
        ctx.fail_input(case, 'returned rows are not exactly the n smallest accepted consumed draws', finding=classify(case, info))
    return dict(returned=info['out'], threshold=float(info['res'].threshold), n_batches=info['res'].n_batches,
                consumed=info['cons'][:40])
