"""C02 — seeded runs are pure functions of (model, seed, configuration).

(a) order / stream correspondence: random DAGs with recording operations (every stochastic node draws a known
    number of doubles from the random_state it is handed and logs them): the real sort order
    (nx_constant_topological_sort of the compiled graph), the real execution order and the position of every
    node's draws in the batch generator's stream vs Model/Exec.lean; both orders go through the verified checker;
(b) metamorphic purity on the real code: the same (model, seed, batch index/size, outputs) evaluated after
    histories drawn from {reseed / consume np.random, other generate / Rejection calls on the same and other
    models, the same batch computed twice in a row on one context, other batches in between, a model built with
    permuted insertion order, fresh vs reused ComputationContext, native vs multiprocessing client} must give
    bit-identical outputs.
"""
import hashlib
import itertools

import networkx as nx
import numpy as np

import elfi
import elfi.client
import elfi.clients.native as native
from elfi.executor import Executor, nx_constant_topological_sort
from elfi.utils import get_sub_seed

META = dict(
    rule='(a) a case = random DAG (2-9 nodes, <= 4 stochastic, random names, random requested outputs); (b) a case = (model, '
         'seed incl. 0 and 2^32-1, batch index/size, history of <= 5 unrelated actions, insertion-order permutation, client). '
         'Non-trivial = >= 2 stochastic nodes or a non-empty history; distinct by full content',
    trusted_base=['RandomState.random_sample is chunk-invariant (draw positions are located in the dumped stream)',
                  '"no hidden global state anywhere in the Python process" is explored by the histories of (b), not proved'],
    assumptions=['user operations use only the random_state they are handed'],
    partial=['history / client independence is a metamorphic exploration on the real code; the theorems settle order, cache and stream discipline'],
)


class Rec:
    def __init__(self):
        self.log = []


def rec_op(name, ndraw, rec):
    def f(*args, batch_size=None, random_state=None, **kw):
        tot = np.zeros(batch_size) if batch_size else 0.0
        for a in args:
            tot = tot + np.asarray(a, dtype=float)          # inputs are scalars or arrays of the batch length
        d = None
        if random_state is not None and ndraw:
            d = random_state.random_sample(ndraw)
            tot = tot + d.sum()
        rec.log.append((name, None if d is None else d.tolist()))
        return tot
    return f


def build(rng, rec, order=None, spec=None, case_pair=False):
    """spec: list of (name, kind, parents, ndraw); built in `order` respecting dependencies.
    case_pair: the first two nodes are independent stochastic nodes whose names differ ONLY in letter case"""
    if spec is None:
        n = rng.randint(2, 9)
        letters = 'ABCabcXYZxyz'
        names = []
        while len(names) < n:
            nm = rng.choice(letters) + rng.choice(letters + '0123') + str(rng.randint(0, 9))
            if case_pair and len(names) == 1:
                nm = names[0].swapcase()
            if nm not in names:
                names.append(nm)
        spec = []
        nsto = 0
        for i, nm in enumerate(names):
            parents = rng.sample(names[:i], rng.randint(0, min(i, 3)))
            sto = nsto < 4 and rng.random() < .5
            if case_pair and i < 2:
                parents, sto = [], True
            nsto += sto
            spec.append((nm, 'sim' if sto else 'op', parents, rng.randint(1, 4) if sto else 0))
    m = elfi.ElfiModel(name='c02')
    todo = list(spec) if order is None else [spec[i] for i in order]
    done = set()
    while todo:
        for s in list(todo):
            nm, kind, parents, ndraw = s
            if all(p in done for p in parents):
                if kind == 'sim':
                    elfi.Simulator(rec_op(nm, ndraw, rec), *[m[p] for p in parents], model=m, name=nm)
                else:
                    elfi.Operation(rec_op(nm, 0, rec), *[m[p] for p in parents], model=m, name=nm)
                done.add(nm)
                todo.remove(s)
    return m, spec


def digest(out):
    h = hashlib.sha256()
    for k in sorted(out):
        h.update(k.encode())
        h.update(np.asarray(out[k]).tobytes())
    return h.hexdigest()


def check_order(ctx):
    rng = ctx.rng
    reqs, meta = [], []
    for it in range(ctx.budget(120, 2500)):
        if ctx.enough():
            break
        rec = Rec()
        m, spec = build(rng, rec)
        names = [s[0] for s in spec]
        outputs = rng.sample(names, rng.randint(1, len(names)))
        seed = rng.choice([0, 1, 2**32 - 1, rng.randrange(2**32)])
        case = dict(kind='order', spec=[list(s) for s in spec], outputs=outputs, seed=seed)
        ctx.case(case, sum(1 for s in spec if s[1] == 'sim') >= 2)
        client = elfi.client.get_client()
        cnet = client.compile(m.source_net, list(outputs))
        allnames = sorted(cnet.nodes)
        rk = {n: i for i, n in enumerate(allnames)}
        real_sort = [rk[n] for n in nx_constant_topological_sort(cnet)]
        context = elfi.ComputationContext(batch_size=2, seed=seed)
        loaded = client.load_data(cnet, context, 0)
        real_exec = [rk[n] for n in Executor.get_execution_order(loaded)]
        stored_before = [rk[n] for n in loaded.nodes if 'output' in loaded.nodes[n]]
        rec.log.clear()
        out = client.compute(loaded)
        ran = [rk[n] for n, _ in rec.log]
        # where in the batch generator's stream did each stochastic node draw?
        stream = np.random.RandomState(get_sub_seed(seed, 0)).random_sample(64).tolist()
        positions = []
        for n, d in rec.log:
            if d:
                pos = [i for i in range(len(stream) - len(d) + 1) if stream[i:i + len(d)] == d]
                positions.append([rk[n], pos[0] if pos else -1])
        ctx.count('order.nodes', len(cnet.nodes))
        # direct: execution respects dependencies, each needed op once, draws are consecutive segments of ONE stream
        if len(set(ran)) != len(ran):
            ctx.fail_input(case, 'an operation ran twice in one batch')
        if any(p[1] < 0 for p in positions):
            ctx.fail_input(case, 'a stochastic node did not draw from the single generator seeded by (seed, batch index)')
        else:
            exp, acc = [], 0
            for n, d in rec.log:
                if d:
                    exp.append([rk[n], acc])
                    acc += len(d)
            if positions != exp:
                ctx.fail_input(case, 'stochastic nodes do not read consecutive segments of the batch stream in execution order', exp, positions)
        nd = {s[0]: s for s in spec}
        reqs.append(dict(op='C02.topo', nodes=[rk[n] for n in cnet.nodes], edges=[[rk[u], rk[v]] for u, v in cnet.edges],
                         order=real_sort, toRun=real_exec))
        meta.append(('topo', case, dict(sort=real_sort, exec=real_exec, ran=ran)))
        reqs.append(dict(op='C02.stream', order=stored_before + real_exec,      # nodes that already carry a value come first
                         nodes=[[rk[n], [rk[p] for p in cnet.predecessors(n)], bool(n in nd and nd[n][1] == 'sim'),
                                 (nd[n][3] if n in nd else 0)] for n in cnet.nodes],
                         stored=stored_before))
        meta.append(('stream', case, positions))
    if ctx.driver_ok:
        for (kind, case, real), a in zip(meta, ctx.lean.drive(reqs)):
            m = a.get('ok')
            if m is None:
                ctx.corr_break('driver', case, a, None)
                continue
            if kind == 'topo':
                if m['checkReal'] is not True:
                    ctx.fail_input(case, 'the real sort order is not a dependency-respecting listing of the compiled graph (verified checker)', None, real['sort'])
                if m['topo'] != real['sort']:
                    ctx.corr_break('sort-order', case, m['topo'], real['sort'])
                elif m['exec'] != real['exec']:
                    ctx.corr_break('execution-order', case, m['exec'], real['exec'])
                if [x for x in real['exec'] if x in real['ran']] != real['ran']:
                    ctx.corr_break('ran-order', case, real['exec'], real['ran'])
            else:
                if m.get('positions') != real:
                    ctx.corr_break('stream-positions', case, m.get('positions'), real)


HIST = ['reseed', 'consume', 'other-generate', 'other-model', 'same-batch-twice', 'other-batch', 'rejection']


def check_purity(ctx):
    rng = ctx.rng
    for it in range(ctx.budget(40, 600)):
        if ctx.enough():
            break
        rec = Rec()
        case_pair = it < 3 or rng.random() < .15
        m, spec = build(rng, rec, case_pair=case_pair)
        names = [s[0] for s in spec]
        outputs = rng.sample(names, rng.randint(1, len(names))) if not case_pair else list(names)
        ctx.count('purity.case_only_name_pair', case_pair)
        seed = rng.choice([0, 2**32 - 1, rng.randrange(2**32), rng.randrange(2**32)])
        bs = rng.randint(1, 4)
        idx = rng.randint(0, 3)
        hist = [rng.choice(HIST) for _ in range(rng.randint(0, 5))]
        perm = list(range(len(spec)))
        rng.shuffle(perm)
        case = dict(kind='purity', spec=[list(s) for s in spec], outputs=outputs, seed=seed, batch_size=bs, batch_index=idx,
                    history=hist, insertion_order=perm)
        ctx.case(case, bool(hist))
        for h in hist:
            ctx.count('history', h)
        # a third of the cases run with a NARROW sub-seed range (the real get_sub_seed with high = 8..32 instead of 2**31), so
        # that collisions in the draw stream - and the duplicate-skipping path - occur within the first batches
        narrow = rng.choice([None, None, 8, 16, 32])
        case['sub_seed_range'] = narrow
        ctx.count('sub_seed_range', str(narrow))
        import elfi.loader as _loader
        real_gss = _loader.get_sub_seed
        if narrow:
            _loader.get_sub_seed = lambda sd, i, cache=None, _h=narrow: real_gss(sd, i, high=_h, cache=cache)
        try:
            purity_one(ctx, rng, case, m, spec, names, outputs, seed, bs, idx, hist, perm)
        finally:
            _loader.get_sub_seed = real_gss


def purity_one(ctx, rng, case, m, spec, names, outputs, seed, bs, idx, hist, perm):
    if True:
        # reference: fresh context, nothing before
        ref_ctx = elfi.ComputationContext(batch_size=bs, seed=seed)
        ref = digest(elfi.client.BatchHandler(m, ref_ctx, output_names=list(outputs)).compute(idx))
        # the history, on one long-lived handler
        handler = elfi.client.BatchHandler(m, elfi.ComputationContext(batch_size=bs, seed=seed), output_names=list(outputs))
        other, _ = build(rng, Rec())
        for h in hist:
            if h == 'reseed':
                np.random.seed(rng.randrange(2**31))
            elif h == 'consume':
                np.random.rand(rng.randint(1, 50))
            elif h == 'other-generate':
                m.generate(rng.randint(1, 3), outputs=[rng.choice(names)], seed=rng.randrange(2**31))
            elif h == 'other-model':
                other.generate(2, seed=rng.randrange(2**31))
            elif h == 'same-batch-twice':
                handler.compute(idx)
            elif h == 'other-batch':
                handler.compute(idx + 1 + rng.randint(0, 2))
            elif h == 'rejection':
                handler.compute(0)
        got = digest(handler.compute(idx))
        if got != ref:
            ctx.fail_input(case, 'batch %d computed after the history %s differs from the same batch on a fresh context' % (idx, hist))
            return
        # again, immediately (the same batch twice in a row on one context)
        if digest(handler.compute(idx)) != ref:
            ctx.fail_input(case, 'the same batch computed twice in a row on one context gives different outputs')
            return
        # model built with a permuted insertion order
        m2, _ = build(rng, Rec(), order=perm, spec=spec)
        got2 = digest(elfi.client.BatchHandler(m2, elfi.ComputationContext(batch_size=bs, seed=seed), output_names=list(outputs)).compute(idx))
        if got2 != ref:
            ctx.fail_input(case, 'a model built with another node insertion order gives different seeded outputs')
            return
        # generate() twice with the same seed
        g1 = digest(m.generate(bs, outputs=list(outputs), seed=seed))
        np.random.rand(3)
        g2 = digest(m.generate(bs, outputs=list(outputs), seed=seed))
        if g1 != g2:
            ctx.fail_input(case, 'generate() with the same integer seed is not repeatable')


def mp_model():
    m = elfi.ElfiModel(name='mp')
    t = elfi.Prior('uniform', 0, 1, model=m, name='t')
    s = elfi.Prior('norm', t, 1, model=m, name='s')
    from elfi.examples import ma2
    Y = elfi.Simulator(ma2.MA2, t, s, model=m, name='Y', observed=np.zeros((1, 100)))
    S = elfi.Summary(ma2.autocov, Y, model=m, name='S')
    elfi.Distance('euclidean', S, model=m, name='d')
    return m


def check_clients(ctx):
    """native vs multiprocessing (worker processes execute pickled nets)"""
    import elfi.clients.multiprocessing as mpc
    seed = ctx.rng.randrange(2**32)
    m = mp_model()
    case = dict(kind='clients', seed=seed)
    ctx.case(case, True)
    ref = digest(elfi.Rejection(m['d'], batch_size=20, seed=seed, output_names=['S']).sample(5, n_sim=100, bar=False).outputs)
    np.random.seed(5)
    try:
        elfi.client.set_client(mpc.Client(num_processes=2))
        r1 = elfi.Rejection(m['d'], batch_size=20, seed=seed, output_names=['S'], max_parallel_batches=3).sample(5, n_sim=100, bar=False)
        got = digest(r1.outputs)
    finally:
        try:
            elfi.client.get_client().pool.terminate()
        except Exception:                                          # noqa
            pass
        elfi.client.set_client(native.Client())
    if got != ref:
        ctx.fail_input(case, 'a seeded Rejection run on the multiprocessing client differs from the native client')
    ctx.count('clients', 'native-vs-multiprocessing')
    # a multi-round sampler on a client that keeps several batches in flight (deterministic stand-in for slow worker processes):
    # the seeded result is the native client's
    import random
    from props import c04
    # its own generator: the cases must not depend on how many random choices the earlier parts of the run consumed (their budgets
    # change with the tier and with source drift); every max_parallel_batches value 3..5 occurs twice
    lrng = random.Random(7001 + ctx.seed)
    for k in range(6 if ctx.quick() else 18):
        c = dict(sampler='smc', b=lrng.randint(2, 4), n=lrng.randint(4, 8), form='thresholds', value=[1.5, 0.9], prior='uniform',
                 seed=lrng.randrange(2**32), mpb=3 + k % 3, kind='clients-smc')
        ctx.case(c, True)
        base = c04.run_sampler(dict(c, mpb=1), native.Client())[0]
        lazy = c04.ScheduledClient(random.Random(k), 0, 0, cores=2)
        got2 = c04.run_sampler(c, lazy)[0]
        if got2 != base:
            ctx.fail_input(c, 'a seeded multi-round SMC run on a client with %d batches in flight differs from the native client' % c['mpb'])
        ctx.count('clients', 'native-vs-lazy-parallel (SMC)')


def run(ctx):
    check_order(ctx)
    check_purity(ctx)
    check_clients(ctx)


def search(ctx):
    ctx.tier = 'thorough'
    check_order(ctx)
    if not ctx.failing:
        check_purity(ctx)


def replay(ctx, case):
    return dict(note='DAGs use generated recording callables: rerun the check with the same VERIF_SEED; the node spec is in case.spec')
