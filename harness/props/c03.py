"""C03 — compiled execution equals the dataflow meaning of the user's graph.

Random DAGs are built through the public constructors (Constant / Operation / Prior / Simulator / Summary /
Discrepancy, positional and named edges, nodes wired to parents created later, partial observations, a
become() that re-inserts a node).  Every operation returns a symbolic term recording exactly what it was
called with and counts its invocations.  Compared with Model/Compile.lean:
  * the real compiled net (nodes with operation|output, edges with parameters) vs the model's,
  * the returned outputs vs the model's evaluation of the loaded net AND vs the denotation on the source graph,
  * invocation counts vs the model's `needed` set (each needed operation once, nothing else),
  * rejection of graphs whose observed data depends on a stochastic node.
"""
import itertools

import networkx as nx
import numpy as np

import elfi
import elfi.client
from elfi.utils import observed_name

META = dict(
    rule='a case = (random DAG of 2-9 user nodes with flags, positional/named edges incl. edges from later-created parents, '
         'partial observations, optional become re-insertion; a requested output subset incl. observed twins; a with_values '
         'subset). Non-trivial = at least one twin or one supplied value or one named edge; distinct by full content',
    trusted_base=['symbolic operations: every user operation returns a term recording its call; Priors use a symbolic distribution '
                  'object (the size tuple handed to rvs is read back as batch_size)',
                  'names are ranked by Python string order in the harness; generated names (_X_observed, _batch_size, _meta, '
                  '_random_state) are ranked together with the user names'],
    assumptions=['the model graph is acyclic', 'a node is not passed twice as parent of the same child',
                 'discrepancy nodes have positional parents only; operations accept the keywords they are wired to'],
    partial=['the execution ORDER is C02; here any topological order of the needed nodes gives the same terms (theorem)'],
)

RS, BS, MT = 'rs', 'bs', 'meta'


class Counter:
    def __init__(self):
        self.calls = {}

    def hit(self, name):
        self.calls[name] = self.calls.get(name, 0) + 1


def canon_val(v):
    if isinstance(v, np.random.RandomState):
        return RS
    if isinstance(v, dict) and 'batch_index' in v:
        return MT
    return v


class SymOp:
    """operation returning ('app', name, args, sorted kwargs)"""

    def __init__(self, name, counter):
        self.name, self.counter = name, counter

    def __call__(self, *args, **kwargs):
        self.counter.hit(self.name)
        kw = []
        for k, v in sorted(kwargs.items()):
            v = canon_val(v)
            if k == 'batch_size':
                v = BS
            kw.append((k, v))
        return ('app', self.name, tuple(canon_val(a) for a in args), tuple(kw))


class SymDist:
    """distribution object for elfi.Prior: rvs returns the symbolic term of the Prior node"""

    def __init__(self, name, counter):
        self.name, self.counter = name, counter

    def rvs(self, *params, size=None, random_state=None):
        self.counter.hit(self.name)
        return ('app', self.name, tuple(canon_val(p) for p in params), (('batch_size', BS), ('random_state', RS)))


def build(rng, counter, wide=False):
    m = elfi.ElfiModel(name='g')
    n = rng.randint(2, 9)
    if wide:
        n = rng.randint(13, 16)          # room for a node with more than ten positional parents
    letters = 'ABCabcXYZxyz'
    names = []
    while len(names) < n:
        nm = rng.choice(letters) + rng.choice(letters + '0123_') + str(rng.randint(0, 9))
        if nm not in names:
            names.append(nm)
    level = {nm: rng.random() for nm in names}
    order = list(names)
    rng.shuffle(order)                      # creation order is independent of the dependency order
    created = []
    kinds = {}
    for nm in order:
        lower = [c for c in created if level[c] < level[nm]]
        kind = rng.choice(['Constant', 'Operation', 'Prior', 'Simulator', 'Summary', 'Discrepancy']) if lower else \
            rng.choice(['Constant', 'Operation', 'Prior', 'Simulator'])
        rng.shuffle(lower)
        parents = [m[p] for p in lower[:rng.randint(0 if kind in ('Operation', 'Prior', 'Simulator', 'Constant') else 1, 3)]]
        if wide and len(lower) >= 11 and kind in ('Operation', 'Simulator', 'Summary', 'Discrepancy') and rng.random() < .7:
            parents = [m[p] for p in lower[:rng.randint(11, len(lower))]]          # fan-in 11+: positional index has two digits
        if kind in ('Summary', 'Discrepancy') and not parents:
            parents = [m[lower[0]]]
        obs = ('obs', nm) if rng.random() < .5 else None
        if kind == 'Constant':
            elfi.Constant(('const', nm), model=m, name=nm)
        elif kind == 'Operation':
            elfi.Operation(SymOp(nm, counter), *parents, model=m, name=nm)
        elif kind == 'Prior':
            elfi.Prior(SymDist(nm, counter), *parents[:2], model=m, name=nm)
        elif kind == 'Simulator':
            elfi.Simulator(SymOp(nm, counter), *parents, model=m, name=nm, observed=obs)
        elif kind == 'Summary':
            elfi.Summary(SymOp(nm, counter), *parents, model=m, name=nm, observed=obs if rng.random() < .4 else None)
        else:
            elfi.Discrepancy(SymOp(nm, counter), *parents, model=m, name=nm)
        kinds[nm] = kind
        if kind not in ('Constant', 'Prior') and rng.random() < .2:     # Prior operations do not accept `meta`
            m[nm].uses_meta = True
        created.append(nm)
    if wide and not any(len(m.get_parents(nm)) >= 11 for nm in names):
        # one more node on top of everything, with 11+ positional parents in a random order
        top = 'Zw9' if 'Zw9' not in names else 'Zw8'
        pars = list(created)
        rng.shuffle(pars)
        pars = [m[p] for p in pars[:rng.randint(11, len(pars))]]
        kind = rng.choice(['Operation', 'Simulator', 'Discrepancy'])
        if kind == 'Operation':
            elfi.Operation(SymOp(top, counter), *pars, model=m, name=top)
        elif kind == 'Simulator':
            elfi.Simulator(SymOp(top, counter), *pars, model=m, name=top)
        else:
            elfi.Discrepancy(SymOp(top, counter), *pars, model=m, name=top)
        names.append(top)
        level[top] = 2.0
        kinds[top] = kind
        created.append(top)
    # named edges, possibly from parents created LATER than the child
    for nm in names:
        if kinds[nm] in ('Constant', 'Prior', 'Discrepancy'):
            continue            # (args_to_tuple, the twin of a discrepancy, takes positional parents only)
        cands = [p for p in names if level[p] < level[nm] and not m.source_net.has_edge(p, nm)]
        rng.shuffle(cands)
        free = ['kw%d' % i for i in range(4)]
        rng.shuffle(free)
        for p in cands[:rng.choice([0, 0, 1, 2])]:
            m.add_edge(p, nm, free.pop())        # one parent per keyword
    # re-insert a simulator through become (changes the insertion order of the node dictionary)
    sims = [nm for nm in names if kinds[nm] == 'Simulator']
    if sims and rng.random() < .3:
        nm = rng.choice(sims)
        pars = m.get_parents(nm)
        named = [(p, d['param']) for p, _, d in m.source_net.in_edges(nm, data=True) if isinstance(d['param'], str)]
        new = elfi.Simulator(SymOp(nm, counter), *[m[p] for p in pars], model=m, observed=('obs', nm) if rng.random() < .6 else None)
        for p, kw in named:
            m.add_edge(p, new.name, kw)
        m[nm].become(new)
    return m, names


def describe(m, names, rk, kwrk):
    """source net as the Lean model sees it"""
    nodes, optok = [], {}
    for nm in m.nodes:
        st = m.get_state(nm)['attr_dict']
        d = dict(name=rk[nm], observable=bool(st.get('_observable')), usesObserved=bool(st.get('_uses_observed')),
                 stochastic='_stochastic' in st, usesBatchSize=bool(st.get('_uses_batch_size')), usesMeta=bool(st.get('_uses_meta')))
        if '_operation' in st:
            d['op'] = rk[nm]                       # operation token = the node's own rank (each node has its own symbolic op)
        else:
            d['output'] = rk[nm]
        nodes.append(d)
    edges = [[rk[u], rk[v], (['pos', d['param']] if isinstance(d['param'], int) else ['named', kwrk[d['param']]])]
             for u, v, d in m.source_net.edges(data=True)]
    observed = [[rk[k], rk[k]] for k in m.observed]
    return dict(nodes=nodes, edges=edges, observed=observed)


def term_of(v, rk, kwrk, names_all):
    """real output value -> the model's term JSON"""
    if v == RS or v == BS or v == MT:
        return v
    if isinstance(v, int) and not isinstance(v, bool):
        return BS
    if isinstance(v, np.random.RandomState):
        return RS
    if isinstance(v, dict) and 'batch_index' in v:
        return MT
    if isinstance(v, tuple) and len(v) == 2 and v[0] in ('obs', 'const', 'given'):
        return {'c': rk[v[1]] if v[0] != 'given' else 500000 + rk[v[1]]}
    if isinstance(v, tuple) and len(v) == 4 and v[0] == 'app':
        return {'f': rk[v[1]], 'a': [term_of(a, rk, kwrk, names_all) for a in v[2]],
                'k': [[kwrk[k], term_of(x, rk, kwrk, names_all)] for k, x in sorted(v[3], key=lambda p: kwrk[p[0]])]}
    if isinstance(v, tuple):
        return {'t': [term_of(a, rk, kwrk, names_all) for a in v]}
    return {'?': repr(v)[:60]}


def one(ctx, rng):
    counter = Counter()
    wide = getattr(ctx, '_c03_n', 0) < 3 or rng.random() < .04
    ctx._c03_n = getattr(ctx, '_c03_n', 0) + 1
    m, names = build(rng, counter, wide=wide)
    ctx.count('graph.max_fan_in', min(max([len(m.get_parents(nm)) for nm in names] + [0]), 12))
    twin_names = [observed_name(nm) for nm in m.nodes]
    all_names = sorted(set(list(m.nodes) + twin_names + ['_batch_size', '_meta', '_random_state']))
    rk = {nm: i for i, nm in enumerate(all_names)}
    kws = sorted({'batch_size', 'meta', 'random_state', 'observed'} | {'kw%d' % i for i in range(4)})
    kwrk = {k: i for i, k in enumerate(kws)}
    src = describe(m, names, rk, kwrk)
    # requested outputs: user nodes and twins
    st = {nm: m.get_state(nm)['attr_dict'] for nm in m.nodes}
    twins_avail = [observed_name(nm) for nm in m.nodes if st[nm].get('_observable') or st[nm].get('_uses_observed')]
    pool = list(m.nodes) + twins_avail
    k = rng.randint(1, min(4, len(pool)))
    outputs = rng.sample(pool, k)
    if wide:                                  # the node with the largest fan-in is requested (and not supplied)
        widest = max(names, key=lambda nm: len(m.get_parents(nm)))
        if widest not in outputs:
            outputs.append(widest)
    wv = {}
    if rng.random() < .5 and not wide:
        for nm in rng.sample(list(m.nodes), rng.randint(1, min(2, len(m.nodes)))):
            wv[nm] = ('given', nm)
    case = dict(source=src, names={nm: rk[nm] for nm in m.nodes}, outputs=outputs, with_values=sorted(wv))
    has_named = any(isinstance(d['param'], str) for _, _, d in m.source_net.edges(data=True))
    ctx.case(case, bool(twins_avail) or bool(wv) or has_named)
    ctx.count('nodes', len(m.nodes))
    ctx.count('outputs.twin', sum(1 for o in outputs if o in twins_avail))
    ctx.count('with_values', len(wv))
    # ---- real: compile structure
    real = dict(error=None)
    client = elfi.client.get_client()
    try:
        cnet = client.compile(m.source_net, outputs)
        real['nodes'] = sorted([rk[n], 'operation' if 'operation' in d else ('output' if 'output' in d else 'none')]
                               for n, d in cnet.nodes(data=True))
        real['edges'] = sorted([rk[u], rk[v], (['pos', d['param']] if isinstance(d['param'], int) else ['named', kwrk[d['param']]])]
                               for u, v, d in cnet.edges(data=True))
    except ValueError:
        real['error'] = 'ValueError'
    except nx.NetworkXError as e:
        real['error'] = 'NetworkXError'
    # ---- real: generate
    counter.calls.clear()
    if real['error'] is None:
        try:
            res = m.generate(2, outputs=list(outputs), with_values=dict(wv) if wv else None, seed=3)
            real['results'] = sorted([rk[o], term_of(res[o], rk, kwrk, all_names)] for o in outputs)
            real['calls'] = {rk[k2]: v for k2, v in counter.calls.items()}
        except Exception as e:                                     # noqa
            real['gen_error'] = '%s: %s' % (type(e).__name__, str(e)[:160])
    ctx.count('outcome', real['error'] or real.get('gen_error', 'ok')[:25])
    req = dict(op='C03.run', source=src, twins=[[rk[nm], rk[observed_name(nm)]] for nm in m.nodes],
               bs=rk['_batch_size'], mt=rk['_meta'], rs=rk['_random_state'],
               kw=[kwrk['batch_size'], kwrk['meta'], kwrk['random_state'], kwrk['observed']],
               outputs=[rk[o] for o in outputs], supplied=[[rk[nm], 500000 + rk[nm]] for nm in sorted(wv)], missing=[])
    return case, real, req, dict(stochastic_obs=None)


def process(ctx, n):
    rng = ctx.rng
    batch = []
    for _ in range(n):
        if ctx.enough():
            break
        batch.append(one(ctx, rng))
    if not ctx.driver_ok:
        return
    answers = ctx.lean.drive([b[2] for b in batch])
    for (case, real, req, extra), a in zip(batch, answers):
        m = a.get('ok')
        if m is None:
            ctx.corr_break('driver', case, a, None)
            continue
        if (m.get('error') is not None) != (real['error'] is not None):
            # the model rejects exactly the graphs whose observed data depends on a stochastic node
            if m.get('error') is not None:
                ctx.fail_input(case, 'a graph whose observed data depends on a stochastic node was compiled instead of being rejected',
                               'ValueError', 'compiled')
            else:
                ctx.corr_break('compile.outcome', case, m.get('error'), real['error'])
            continue
        if real['error'] is not None:
            continue
        if sorted(m['nodes']) != real['nodes'] or sorted(m['edges']) != real['edges']:
            which = 'nodes' if sorted(m['nodes']) != real['nodes'] else 'edges'
            ctx.corr_break('compiled-net.' + which, case, sorted(m[which]), real[which])
            # (no `continue`: the property itself is still checked below against the denotation)
        if 'gen_error' in real:
            if all(r[1] is not None for r in m['results']):
                ctx.fail_input(case, 'generate failed (%s) on a graph whose requested outputs all have a dataflow meaning' % real['gen_error'],
                               m['denote'], real['gen_error'])
            continue
        den = sorted(m['denote'])
        res = sorted(m['results'])
        # the property itself: real outputs = denotation on the source graph
        if real['results'] != den:
            bad = [r for r, d in zip(real['results'], den) if r != d][0]
            ctx.fail_input(case, 'output of node %d differs from the dataflow meaning of the graph' % bad[0],
                           [d for d in den if d[0] == bad[0]][0][1], bad[1])
            continue
        if res != real['results']:
            ctx.corr_break('results', case, res, real['results'])
        calls = real['calls']
        # a twin of an observable node runs the SAME operation as the node: expected invocations per operation token
        tw = {b: a for a, b in req['twins']}
        obsv = {nd['name'] for nd in case['source']['nodes'] if nd['observable']}
        exp = {}
        for nid in m['needed']:
            if nid in tw:
                if tw[nid] in obsv:
                    exp[tw[nid]] = exp.get(tw[nid], 0) + 1
            else:
                exp[nid] = exp.get(nid, 0) + 1
        if calls != exp:
            extra_calls = {k: v for k, v in calls.items() if v > exp.get(k, 0)}
            if extra_calls:
                ctx.fail_input(case, 'operations were invoked that the requested outputs do not need, or more often than needed: %s' % extra_calls,
                               exp, calls)
            else:
                ctx.corr_break('needed', case, exp, calls)


def run(ctx):
    process(ctx, ctx.budget(300, 6000))


def search(ctx):
    process(ctx, 3000)


def replay(ctx, case):
    return dict(note='graphs use generated symbolic callables: rerun the check with the same VERIF_SEED; the failing source net is in case.source')
