"""C04 — results do not depend on scheduling / parallelism.

A `ScheduledClient` (a ClientBase implementation installed with elfi.client.set_client) dictates the
answers to `is_ready`, executes outstanding tasks in an arbitrary order at arbitrary moments and
records submit / get_result / remove_task events.  Real Rejection (threshold / quantile / n_sim) and
real SMC (threshold lists / quantile lists) run unmodified on it.

Checks per run:
  direct   : every output array, threshold, n_sim (per population for SMC) is bit-identical to the
             sequential run with the native client; client.tasks is empty at return;
  checker  : the observed event trace is accepted by the verified `checkTrace` (Lean driver): consumed
             in index order, each once, never more than max_parallel_batches outstanding, cancelled
             tasks never fetched, nothing left;
  model    : (Rejection) the Lean engine model run under the OBSERVED action schedule must reproduce
             the event trace exactly and the returned discrepancies.
"""
import math
from fractions import Fraction as F

import numpy as np

import elfi
import elfi.client
import elfi.clients.native as native
from common import Timeout, with_timeout
from props.c01 import build_model, key_json

META = dict(
    rule='a case = (sampler, model, seed, batch_size, n_samples, objective, max_parallel_batches, schedule seed, '
         'readiness bias, eager-execution rate); the is_ready answer sequences of length <= 7/9 are additionally '
         'enumerated exhaustively on a small run. Non-trivial = at least one is_ready answered False or one task '
         'executed out of order or one cancelled task; distinct by full content',
    trusted_base=['ScheduledClient stands for every client: is_ready answers and execution order/timing are arbitrary; '
                  'real thread/process timing of multiprocessing is represented by that oracle',
                  'batch index of a submitted task is taken from BatchHandler.next_index by an instance-level wrapper in the harness'],
    assumptions=['user operations are deterministic functions of their inputs and the batch generator (a worker returning '
                 'different values for the same task is outside the property)'],
    partial=['SMC is covered by the generic theorem (any round-stable sampler) plus the checker and bit-identity on the real '
             'sampler; the concrete SMC population arithmetic is C07'],
)


class ScheduledClient(elfi.client.ClientBase):
    def __init__(self, rng, p_ready, p_eager, cores=1, answers=None):
        self.tasks = {}            # id -> (kallable, args, kwargs)
        self.results = {}          # id -> computed result (executed early)
        self.index = {}            # id -> batch index
        self._next_id = 0
        self.rng, self.p_ready, self.p_eager, self.cores = rng, p_ready, p_eager, cores
        self.answers = list(answers) if answers is not None else None
        self.events = []           # ('s'|'g'|'r', batch index)
        self.polls = []
        self.pending_index = None
        self.out_of_order = 0

    def _maybe_execute_some(self):
        # workers finish outstanding tasks in any order at any time
        todo = [i for i in self.tasks if i not in self.results]
        while todo and self.rng.random() < self.p_eager:
            i = self.rng.choice(todo)
            if i != min(todo):
                self.out_of_order += 1
            k, a, kw = self.tasks[i]
            self.results[i] = k(*a, **kw)
            todo.remove(i)

    def apply(self, kallable, *args, **kwargs):
        i = self._next_id
        self._next_id += 1
        self.tasks[i] = (kallable, args, kwargs)
        self.index[i] = self.pending_index
        self.events.append(('s', self.pending_index))
        self._maybe_execute_some()
        return i

    def apply_sync(self, kallable, *args, **kwargs):
        return kallable(*args, **kwargs)

    def is_ready(self, task_id):
        self._maybe_execute_some()
        if self.answers is not None:
            ans = self.answers.pop(0) if self.answers else True
        else:
            ans = self.rng.random() < self.p_ready
        self.polls.append(ans)
        return ans

    def get_result(self, task_id):
        self.events.append(('g', self.index[task_id]))
        k, a, kw = self.tasks.pop(task_id)
        if task_id in self.results:
            return self.results.pop(task_id)
        return k(*a, **kw)

    def remove_task(self, task_id):
        self.events.append(('r', self.index[task_id]))
        self.tasks.pop(task_id, None)
        self.results.pop(task_id, None)

    def reset(self):
        self.tasks.clear()
        self.results.clear()

    @property
    def num_cores(self):
        return self.cores


def attach(sampler, client):
    """tell the client which batch index each submission has (instance-level wrapper, harness side)"""
    bh = sampler.batches
    orig = bh.submit

    def submit(batch=None):
        client.pending_index = bh.next_index
        return orig(batch)

    bh.submit = submit


def smc_model(case):
    m = elfi.ElfiModel()
    if case['prior'] == 'uniform':
        t = elfi.Prior('uniform', 0, 2, model=m, name='t0')
    else:
        t = elfi.Prior('norm', 1, 1, model=m, name='t0')

    def sim(t, batch_size=1, random_state=None):
        return t + 0.5 * random_state.randn(batch_size)

    Y = elfi.Simulator(sim, t, model=m, name='sim', observed=np.array([1.0]))
    S = elfi.Summary(lambda y: y, Y, model=m, name='S')
    elfi.Distance('euclidean', S, model=m, name='d')
    return m


def run_sampler(case, client):
    elfi.client.set_client(client)
    try:
        if case['sampler'] == 'rejection':
            m = build_model(case)
            pool = elfi.OutputPool(['d'])
            s = elfi.Rejection(m['d'], batch_size=case['b'], seed=case['seed'], pool=pool,
                               output_names=['S'] if case['extra'] else [], max_parallel_batches=case['mpb'])
            if isinstance(client, ScheduledClient):
                attach(s, client)
            kw = {case['form']: case['value']} if case['form'] != 'default' else {}
            res = with_timeout(60, lambda: s.sample(case['n'], bar=False, **kw))
            summ = dict(outputs={k: np.asarray(v).tobytes().hex() for k, v in res.outputs.items()},
                        threshold=float(res.threshold), n_sim=res.n_sim, n_batches=res.n_batches)
            return summ, res, pool
        m = smc_model(case)
        s = elfi.SMC(m['d'], batch_size=case['b'], seed=case['seed'], max_parallel_batches=case['mpb'])
        if isinstance(client, ScheduledClient):
            attach(s, client)
        kw = {case['form']: case['value']}
        res = with_timeout(120, lambda: s.sample(case['n'], bar=False, **kw))
        pops = []
        for p in res.populations:
            pops.append(dict(outputs={k: np.asarray(v).tobytes().hex() for k, v in p.outputs.items()},
                             weights=np.asarray(p.weights).tobytes().hex(), threshold=float(p.threshold), n_sim=p.n_sim))
        return dict(populations=pops, n_sim=res.n_sim, threshold=float(res.threshold)), res, None
    finally:
        elfi.client.set_client(native.Client())


def gen_case(rng, sampler=None):
    sampler = sampler or rng.choice(['rejection', 'rejection', 'smc'])
    if sampler == 'rejection':
        b = rng.randint(1, 5)
        n = rng.randint(1, 8)
        A = rng.randint(2, 5)
        form = rng.choice(['threshold', 'threshold', 'quantile', 'n_sim'])
        if form == 'threshold':
            value = float(rng.randint(0, A - 1))
        elif form == 'quantile':
            value = rng.choice([0.5, 0.25, 0.2, 1.0])
        else:
            value = rng.randint(n, n + 25)
        return dict(sampler='rejection', b=b, n=n, form=form, value=value, alphabet=A, p_inf=rng.choice([0, 0, 0.1]),
                    seed=rng.randrange(2**32), n_params=rng.randint(1, 2), summary_shape='vec', extra=rng.random() < .5,
                    mpb=rng.randint(1, 6), sched_seed=rng.randrange(2**32), p_ready=rng.choice([0, 0.2, 0.5, 0.8, 1]),
                    p_eager=rng.choice([0, 0.3, 0.7]))
    n = rng.randint(3, 12)
    rounds = rng.randint(2, 3)
    form = rng.choice(['thresholds', 'quantiles'])
    if form == 'thresholds':
        value = sorted([rng.choice([2.0, 1.5, 1.0, 0.8, 0.6, 0.5]) for _ in range(rounds)], reverse=True)
    else:
        value = [rng.choice([0.3, 0.5, 0.7]) for _ in range(rounds)]
    return dict(sampler='smc', b=rng.randint(1, 6), n=n, form=form, value=value, prior=rng.choice(['uniform', 'norm']),
                seed=rng.randrange(2**32), mpb=rng.randint(1, 6), sched_seed=rng.randrange(2**32),
                p_ready=rng.choice([0, 0.2, 0.5, 0.8]), p_eager=rng.choice([0, 0.3, 0.7]))


def one(ctx, case, answers=None, baseline_cache={}):
    import random
    key = repr(sorted((k, repr(v)) for k, v in case.items() if k not in ('mpb', 'sched_seed', 'p_ready', 'p_eager')))
    try:
        if key not in baseline_cache:
            seq = dict(case, mpb=1)
            baseline_cache.clear()
            baseline_cache[key] = run_sampler(seq, native.Client())[0]
        base = baseline_cache[key]
        client = ScheduledClient(random.Random(case['sched_seed']), case['p_ready'], case['p_eager'], cores=2, answers=answers)
        summ, res, pool = run_sampler(case, client)
    except Timeout:
        ctx.case(case, True)
        ctx.fail_input(dict(case, answers=answers), 'sampler did not return within the time limit under this schedule', 'a result', 'no return')
        return None
    except ValueError as e:
        ctx.case(case, True)
        ctx.fail_input(dict(case, answers=answers), 'sampler raised under this schedule: %s' % str(e)[:120], 'a result', 'ValueError')
        return None
    cancelled = sum(1 for e in client.events if e[0] == 'r')
    nontriv = (False in client.polls) or client.out_of_order > 0 or cancelled > 0
    full = dict(case, answers=answers)
    ctx.case(full, nontriv)
    ctx.count('sampler', '%s/%s' % (case['sampler'], case['form']))
    ctx.count('mpb', case['mpb'])
    ctx.count('cancelled_tasks', min(cancelled, 5))
    ctx.count('polls_false', min(client.polls.count(False), 5))
    ctx.count('out_of_order_exec', min(client.out_of_order, 3))
    if summ != base:
        diff = [k for k in summ if summ[k] != base.get(k)]
        # known finding (C01's, seen through this oracle): budget mode, fewer than n finite discrepancies -> the rows with an
        # inf discrepancy are uninitialised memory; only those rows may differ
        fid = None
        if case['sampler'] == 'rejection' and case['form'] in ('quantile', 'n_sim') and diff == ['outputs']:
            d = np.asarray(res.outputs['d'], dtype=float)
            fin = np.isfinite(d)
            if not fin.all():
                def rows(o):
                    return {k: np.frombuffer(bytes.fromhex(v), dtype=np.asarray(res.outputs[k]).dtype).reshape(np.asarray(res.outputs[k]).shape)[fin].tobytes()
                            for k, v in o.items()}
                if rows(summ['outputs']) == rows(base['outputs']):
                    fid = 'inf-discrepancy-uninitialised-rows'
        if fid:
            ctx.fail_input(full, 'rows with an inf discrepancy (uninitialised buffer rows) differ from the sequential run', finding=fid)
            return dict(case=full, client=client, summ=summ, res=res, pool=pool)
        ctx.fail_input(full, 'result differs from the sequential run in %s (trace %s)' % (diff, client.events[:40]),
                       {k: (base[k] if not isinstance(base[k], (dict, list)) else '...') for k in diff},
                       {k: (summ[k] if not isinstance(summ[k], (dict, list)) else '...') for k in diff})
    if client.tasks or client.results:
        ctx.fail_input(full, '%d submitted task(s) left in the client when inference returned' % len(client.tasks), 0, len(client.tasks))
    return dict(case=full, client=client, summ=summ, res=res, pool=pool)


def drive(ctx, runs):
    if not ctx.driver_ok:
        return
    reqs, meta = [], []
    for r in runs:
        if r is None:
            continue
        case, client = r['case'], r['client']
        reqs.append(dict(op='C04.check', mpb=case['mpb'], events=[[k, i] for k, i in client.events]))
        meta.append(('check', r))
        if case['sampler'] == 'rejection':
            pool, res = r['pool'], r['res']
            n_sub = max([i for k, i in client.events if k == 's'] + [-1]) + 1
            batches = []
            for bi in range(n_sub):
                if bi in pool.stores['d']:
                    batches.append([[bi * case['b'] + q, key_json(pool.stores['d'][bi][q])] for q in range(case['b'])])
                else:
                    batches.append([])
            acts = ''.join('s' if k == 's' else 'c' for k, i in client.events if k in ('s', 'g'))
            budget = None
            if case['form'] == 'quantile':
                budget = math.ceil(case['n'] / case['value'])
            elif case['form'] == 'n_sim':
                budget = case['value']
            reqs.append(dict(op='C04.run', n=case['n'], b=case['b'], thr=key_json(case['value']) if case['form'] == 'threshold' else None,
                             nSim=budget, mpb=case['mpb'], batches=batches, acts=acts))
            meta.append(('run', r))
    ans = ctx.lean.drive(reqs)
    for (kind, r), a in zip(meta, ans):
        case, client = r['case'], r['client']
        if 'ok' not in a:
            ctx.corr_break('driver', case, a, None)
            continue
        if kind == 'check':
            n_got = sum(1 for e in client.events if e[0] == 'g')
            if a['ok']['consumed'] is None:
                ctx.fail_input(case, 'the client event trace violates the batch bookkeeping (in-order, once, bounded by '
                               'max_parallel_batches=%d, cancelled never fetched, nothing left): %s' % (case['mpb'], client.events[:60]),
                               'checkTrace accepts', client.events[:60])
            elif a['ok']['consumed'] != list(range(n_got)):
                ctx.fail_input(case, 'consumed batch indices %s are not 0..%d' % (a['ok']['consumed'], n_got - 1))
        else:
            res = r['res']
            if not a['ok'].get('accepted'):
                ctx.corr_break('engine.schedule-rejected', case, 'model engine cannot follow the observed action schedule', client.events[:60])
                continue
            if a['ok']['trace'] != [[k, i] for k, i in client.events]:
                ctx.corr_break('engine.trace', case, a['ok']['trace'][:60], client.events[:60])
            elif a['ok']['keys'] != [key_json(v) for v in res.outputs['d']] or a['ok']['nBatches'] != res.n_batches:
                ctx.corr_break('engine.result', case, a['ok']['keys'], [key_json(v) for v in res.outputs['d']])


def exhaustive_cases(ctx, L):
    import itertools
    base = dict(sampler='rejection', b=2, n=3, form='threshold', value=1.0, alphabet=3, p_inf=0, seed=11, n_params=1,
                summary_shape='vec', extra=False, mpb=3, sched_seed=5, p_ready=1, p_eager=0)
    smc = dict(sampler='smc', b=3, n=4, form='thresholds', value=[1.5, 0.8], prior='uniform', seed=7, mpb=3, sched_seed=9,
               p_ready=1, p_eager=0.3)
    out = []
    for answers in itertools.product([False, True], repeat=L):
        out.append((base, list(answers)))
    for answers in itertools.product([False, True], repeat=max(L - 2, 3)):
        out.append((smc, list(answers)))
    return out


def run(ctx):
    rng = ctx.rng
    runs = []
    L = ctx.budget(6, 9)
    n_ex = 0
    for case, answers in exhaustive_cases(ctx, L):
        if ctx.enough():
            break
        runs.append(one(ctx, case, answers=answers))
        n_ex += 1
    ctx.extra['exhaustive_is_ready_sequences'] = dict(length=L, runs=n_ex)
    for _ in range(ctx.budget(60, 1200)):
        if ctx.enough():
            break
        case = gen_case(rng)
        # several schedules for one configuration
        for _ in range(2):
            runs.append(one(ctx, dict(case, mpb=rng.randint(1, 6), sched_seed=rng.randrange(2**32),
                                      p_ready=rng.choice([0, 0.2, 0.5, 0.8]), p_eager=rng.choice([0, 0.3, 0.7]))))
    drive(ctx, runs)


def search(ctx):
    rng = ctx.rng
    runs = []
    for _ in range(600):
        if ctx.enough():
            break
        runs.append(one(ctx, gen_case(rng)))
    drive(ctx, runs)


def replay(ctx, case):
    answers = case.get('answers')
    r = one(ctx, {k: v for k, v in case.items() if k != 'answers'}, answers=answers)
    drive(ctx, [r])
    return dict(events=r['client'].events if r else None)
