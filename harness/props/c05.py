"""C05 — output pools are transparent: real seeded Rejection runs over OutputPool / ArrayPool.

Models with call-counting operations (which batch a call belongs to is read from `meta`); store sets of the
stated form (simulator and/or anything computed from it, optionally with ALL parameters); run sequences over
ONE pool: fill, rerun, extend (more batches than stored), add a store later, remove a store, replace the
summary / distance downstream, close+reopen (ArrayPool).  Checked per run:
  * results bit-identical to the same seeded run without a pool;
  * the pool holds exactly the consumed batches and `pool.get_batch(i)` equals a fresh computation of batch i;
  * a stored node's operation is not invoked for a batch the pool held before the run;
  * the set of operations invoked per batch equals the Lean model's `needed` set for (stored values, missing
    stores) — the compile/load model of C03 run by the driver;
  * a different batch_size or seed is refused.
"""
import os
import shutil
import tempfile

import numpy as np

import elfi
from common import Timeout, with_timeout

META = dict(
    rule='a case = (model shape: 1-2 parameters one possibly hierarchical, 1-2 summaries; store set of the stated form; '
         'in-memory or on-disk pool; batch size; seed; a sequence of 2-5 runs from {fill k, rerun, extend, add-store, '
         'remove-store, replace-summary, replace-distance, reopen}). Non-trivial = sequence with a reuse step; distinct by content',
    trusted_base=['which batch an invocation belongs to is read from the `meta` argument of the counting operations',
                  'the generator-stream part of transparency (stochastic nodes that still run form a prefix of the pool-free '
                  'stochastic order) is a hypothesis of theorem pool_transparent that the stated store forms satisfy; the harness '
                  'only generates those forms'],
    assumptions=['stored node set = simulator and/or nodes computed from it, optionally with ALL parameters (storing parameters '
                 'without the simulator shifts the simulator\'s stream and is outside the statement)'],
    partial=['SMC over a pool is exercised only for same-configuration reruns'],
)


class Calls:
    def __init__(self):
        self.log = []            # (node, batch_index)

    def reset(self):
        del self.log[:]


def make_model(case, calls, summary_tag=0, dist_tag=0, narrow=False):
    m = elfi.ElfiModel(name='pm')
    t1 = elfi.Prior('uniform', 0, 1, model=m, name='t1')
    params = [t1]
    if case['n_params'] == 2:
        params.append(elfi.Prior('norm', t1 if case['hier'] else 0.5, 1, model=m, name='t2'))

    def sim(*p, batch_size=1, random_state=None, meta=None):
        calls.log.append(('sim', meta['batch_index']))
        base = sum(p) + random_state.randn(batch_size)
        if case.get('sim_shape') == 'matF':
            # a table-valued output handed over column-major (e.g. a transposed view): same values, other memory order
            return np.asfortranarray(np.column_stack([base, 2 * base + 1, base - 3]))
        return base

    Y = elfi.Simulator(sim, *params, model=m, name='sim',
                       observed=np.array([[0.7, 2.4, -2.3]]) if case.get('sim_shape') == 'matF' else np.array([0.7]))
    Y.uses_meta = True
    sums = []
    for k in range(case['n_sum']):
        def summ(y, meta=None, k=k):
            if meta is not None:                       # (the observed twin is called without meta)
                calls.log.append(('S%d' % k, meta['batch_index']))
            return y * (k + 1) + summary_tag
        S = elfi.Summary(summ, Y, model=m, name='S%d' % k)
        S.uses_meta = True
        sums.append(S)

    def dist(*s, observed=None, meta=None):
        if meta is not None:
            calls.log.append(('d', meta['batch_index']))
        tot = 0
        for a, o in zip(s, observed):
            tot = tot + np.abs(a - o).reshape(len(a), -1).sum(axis=1)
        return tot + dist_tag

    D = elfi.Discrepancy(dist, *(sums[-1:] if narrow else sums), model=m, name='d')      # narrow: only the LAST summary is used
    D.uses_meta = True
    return m


def run_rejection(m, case, n_batches, pool=None):
    rej = elfi.Rejection(m['d'], batch_size=case['b'], seed=case['seed'], pool=pool, output_names=['S0'])
    res = with_timeout(60, lambda: rej.sample(1, n_sim=n_batches * case['b'], bar=False))    # budget >= n_samples
    return {k: np.asarray(v).tobytes() for k, v in res.outputs.items()}, res.n_batches


def fresh_batch(m, case, idx, names):
    ctx_ = elfi.ComputationContext(batch_size=case['b'], seed=case['seed'])
    bh = elfi.client.BatchHandler(m, ctx_, output_names=names)
    return bh.compute(idx)


def gen_case(rng):
    n_params = rng.randint(1, 2)
    n_sum = rng.randint(1, 2)
    down = ['sim'] + ['S%d' % k for k in range(n_sum)] + ['d']
    stores = sorted(set(rng.sample(down, rng.randint(1, len(down)))))
    if rng.random() < .35:
        stores = ['t1'] + (['t2'] if n_params == 2 else []) + stores       # ALL parameters
    steps = ['fill']
    for _ in range(rng.randint(1, 4)):
        steps.append(rng.choice(['rerun', 'extend', 'add-store', 'remove-store', 'replace-summary', 'replace-distance', 'reopen', 'clear', 'save', 'save']))
    mat = rng.random() < .3
    return dict(n_params=n_params, hier=rng.random() < .5, n_sum=n_sum, stores=stores, disk=rng.random() < (.7 if mat else .4),
                b=rng.randint(2, 5) if mat else rng.randint(1, 5), seed=rng.randrange(2**31), steps=steps, fill=rng.randint(1, 4),
                sim_shape='matF' if mat else 'vec')


def drop(st, keep_file=False):
    """a store taken out of the pool is DELETED when a later step adds a store of the same name again (its file would otherwise be
    picked up, with its old content, by that add_store on a disk pool); otherwise the user just leaves the file where it is"""
    if keep_file:
        if hasattr(st, 'close'):
            st.close()
        return
    if hasattr(st, 'delete'):
        st.delete()
    elif hasattr(st, 'close'):
        st.close()


def check_refusal(ctx, m, pool, case, when):
    """a pool that has a context refuses another batch_size / seed - whether or not it holds batches yet"""
    for kw in (dict(batch_size=case['b'] + 1, seed=case['seed']), dict(batch_size=case['b'], seed=case['seed'] + 1)):
        try:
            elfi.Rejection(m['d'], pool=pool, **kw)
            ctx.fail_input(dict(case, refuse=kw, when=when), 'a pool accepted a batch_size/seed different from the one it was created with (%s)' % when)
            return False
        except ValueError:
            pass
    # ... also when a computation context gives only ONE of the two (the other one is taken from the pool)
    for kw in (dict(seed=case['seed'] + 1), dict(batch_size=case['b'] + 1)):
        try:
            elfi.ComputationContext(pool=pool, **kw)
            ctx.fail_input(dict(case, refuse=kw, when=when), 'a pool accepted a context with a different %s (the other setting left to the pool; %s)' % (list(kw)[0], when))
            return False
        except ValueError:
            pass
    # a context that gives neither takes both from the pool (model: makeContext none none)
    c0 = elfi.ComputationContext(pool=pool)
    if (c0.batch_size, c0.seed) != (case['b'], case['seed']):
        ctx.corr_break('context-adoption', dict(case, when=when), [case['b'], case['seed']], [c0.batch_size, c0.seed])
    ctx.count('refusal', when)
    return True


def one(ctx, case, tmp, reqs, meta):
    calls = Calls()
    stag = dtag = 0
    m = make_model(case, calls)
    if case['disk']:
        pool = elfi.ArrayPool(list(case['stores']), name='p%d' % ctx.evaluations, prefix=tmp)
    else:
        pool = elfi.OutputPool(list(case['stores']), name='o%d' % ctx.evaluations, prefix=tmp)
    ctx.case(case, any(s != 'fill' for s in case['steps']))
    elfi.Rejection(m['d'], batch_size=case['b'], seed=case['seed'], pool=pool)          # sets the pool's context; nothing stored yet
    if not check_refusal(ctx, m, pool, case, 'empty pool with a context'):
        return
    if case['disk'] and case['seed'] % 3 == 0:
        pool.save()
        pool.close()
        pool = elfi.ArrayPool.open(pool.name, prefix=tmp)
        if not check_refusal(ctx, m, pool, case, 'empty pool saved and reopened'):
            return
    ctx.count('pool.kind', 'ArrayPool' if case['disk'] else 'OutputPool')
    ctx.count('stores', '+'.join(case['stores']))
    ctx.count('sim_output', case.get('sim_shape', 'vec'))
    nb = case['fill']
    user_nodes = ['t1'] + (['t2'] if case['n_params'] == 2 else []) + ['sim'] + ['S%d' % k for k in range(case['n_sum'])] + ['d']
    for si, step in enumerate(case['steps']):
        ctx.count('step', step)
        where = dict(case, at_step=si)
        stores_now = [s for s in pool.stores]
        keep = 'add-store' not in case['steps'][si + 1:]          # nobody re-adds a removed store later: its file stays on disk
        if step == 'extend':
            nb += case['b'] % 3 + 1
        elif step == 'add-store':
            cands = [n for n in ['sim'] + ['S%d' % k for k in range(case['n_sum'])] + ['d'] if n not in pool.stores]
            if cands:
                pool.add_store(cands[0])
        elif step == 'remove-store':
            cands = [n for n in pool.stores if n in ('d', 'S0', 'S1') and len(pool.stores) > 1]
            if cands:
                st = pool.remove_store(cands[0])
                drop(st, keep)
        elif step == 'replace-summary':
            stag += 1
            # a changed summary invalidates what was computed FROM it: those stores are dropped by the user
            for n in [s for s in list(pool.stores) if s.startswith('S') or s == 'd']:
                st = pool.remove_store(n)
                drop(st, keep)
            m = make_model(case, calls, stag, dtag)
        elif step == 'replace-distance':
            dtag += 1
            if 'd' in pool.stores:
                st = pool.remove_store('d')
                drop(st, keep)
            m = make_model(case, calls, stag, dtag)
        elif step == 'clear':
            pool.clear()
            if not check_refusal(ctx, m, pool, case, 'pool cleared'):
                return
        elif step == 'save':
            # save() writes the pool out; the SAME pool object stays in use afterwards and must still hold what it held
            holds = lambda: {n: ([i for i in range(64) if i in pool.stores[n]] if pool.stores[n] is not None else None) for n in pool.stores}
            h0 = holds()
            pool.save()
            h1 = holds()
            if h0 != h1:
                ctx.fail_input(where, 'pool.save() changed what the live pool holds: before %s, after %s' % (h0, h1), h0, h1)
                return
        elif step == 'reopen' and case['disk']:
            pool.save()
            pool.close()
            pool = elfi.ArrayPool.open(pool.name, prefix=tmp)
        # stated form: the simulator and/or something computed from it must be stored (parameters alone are outside it)
        if not any(n == 'sim' or n.startswith('S') or n == 'd' for n in pool.stores):
            return
        held_before = {n: set(i for i in range(64) if i in pool.stores[n]) if pool.stores[n] is not None else set() for n in pool.stores}
        calls.reset()
        try:
            out_pool, nbat = run_rejection(m, case, nb, pool=pool)
        except Timeout:
            ctx.fail_input(where, 'run with pool did not return')
            return
        except Exception as e:                                     # noqa
            ctx.fail_input(where, 'run with a pool raised %s: %s' % (type(e).__name__, str(e)[:120]), 'same result as without pool', 'exception')
            return
        log_pool = list(calls.log)
        calls.reset()
        ref_model = make_model(case, Calls(), stag, dtag)
        out_ref, nbat_ref = run_rejection(ref_model, case, nb, pool=None)
        # known finding: the simulator re-ran on parameter values that came from the pool (the priors were skipped,
        # so the simulator's position in the batch generator's stream shifted)
        sim_on_stored_params = any(node == 'sim' and 't1' in held_before and bi in held_before['t1'] for node, bi in log_pool)
        if out_pool != out_ref or nbat != nbat_ref:
            ctx.fail_input(where, 'results with the pool differ from the same seeded run without a pool (step %s)' % step,
                           finding='pool-params-stored-sim-reruns' if sim_on_stored_params else None)
            return
        # stored operations never re-invoked for batches the pool held
        for node, bi in log_pool:
            if node in held_before and bi in held_before[node]:
                ctx.fail_input(where, 'operation of stored node %s was invoked again for batch %d, which the pool already held' % (node, bi))
                return
        if len(set(log_pool)) != len(log_pool):
            dup = [x for x in set(log_pool) if log_pool.count(x) > 1]
            ctx.fail_input(where, 'an operation ran more than once for one batch: %s' % dup[:3])
            return
        # the pool holds exactly the consumed batches, with fresh values
        for n in pool.stores:
            st = pool.stores[n]
            held = [i for i in range(nbat + 3) if st is not None and i in st]
            if held != list(range(nbat)):
                ctx.fail_input(where, 'store %s holds batches %s after a run that consumed batches 0..%d' % (n, held, nbat - 1), list(range(nbat)), held)
                return
        chk = sorted(set([0, nbat - 1]))
        for bi in chk:
            fresh = fresh_batch(ref_model, case, bi, list(pool.stores))
            got = pool.get_batch(bi)
            for n in pool.stores:
                if n not in got or not np.array_equal(np.asarray(got[n]), np.asarray(fresh[n])):
                    shifted = sim_on_stored_params and ('sim', bi) in log_pool and (n == 'sim' or (n, bi) in log_pool)
                    ctx.fail_input(where, 'pool value of %s for batch %d differs from a fresh computation of that batch' % (n, bi),
                                   finding='pool-params-stored-sim-reruns' if shifted else None)
                    return
        # model: which operations run in a batch = `needed` of the loaded net (C03 compile/load model)
        from props import c03
        user_nodes = list(m.nodes)               # includes the private constants of the priors
        names = sorted(set(user_nodes + [elfi.utils.observed_name(n) for n in user_nodes] + ['_batch_size', '_meta', '_random_state']))
        rk = {n: i for i, n in enumerate(names)}
        kws = sorted({'batch_size', 'meta', 'random_state', 'observed'} | {'kw%d' % i for i in range(4)})
        kwrk = {k: i for i, k in enumerate(kws)}
        src = c03.describe(m, None, rk, kwrk)
        outputs = ['d', 't1'] + (['t2'] if case['n_params'] == 2 else []) + ['S0']
        for bi in sorted(set([0, nbat - 1])):
            supplied = [n for n in pool.stores if n in held_before and bi in held_before[n]]
            missing = [n for n in pool.stores if n not in supplied]
            reqs.append(dict(op='C03.run', source=src, twins=[[rk[n], rk[elfi.utils.observed_name(n)]] for n in user_nodes],
                             bs=rk['_batch_size'], mt=rk['_meta'], rs=rk['_random_state'],
                             kw=[kwrk['batch_size'], kwrk['meta'], kwrk['random_state'], kwrk['observed']],
                             outputs=[rk[o] for o in outputs], supplied=[[rk[n], 500000 + rk[n]] for n in supplied],
                             missing=[rk[n] for n in missing]))
            ran = sorted(rk[n] for n, b2 in log_pool if b2 == bi)
            meta.append((dict(where, batch=bi, supplied=supplied), ran, rk))
    # context refusal
    check_refusal(ctx, m, pool, case, 'filled pool')
    if isinstance(pool, elfi.ArrayPool):
        pool.close()
    else:
        pool.delete()                     # a plain OutputPool would be pickled into ./pools by close()


def narrow_scenario(ctx, rng):
    """a pool filled for d = dist(S0, S1) is reused for a run whose target needs only S1: the store of S0 belongs to a node OUTSIDE
    the net of that run (and may come anywhere in the pool's store order)"""
    import itertools
    case = dict(n_params=rng.randint(1, 2), hier=rng.random() < .5, n_sum=2, b=rng.randint(1, 4), seed=rng.randrange(2**31),
                stores=list(rng.choice(list(itertools.permutations(['S0', 'S1', 'sim'] + (['d'] if rng.random() < .5 else []))))),
                fill=rng.randint(1, 3), scenario='narrow-target')
    ctx.case(case, True)
    ctx.count('narrow.first_store', case['stores'][0])
    calls = Calls()
    m = make_model(case, calls)
    pool = elfi.OutputPool(list(case['stores']))
    nb = case['fill']
    try:
        run_rejection(m, case, nb, pool=pool)
        if 'd' in pool.stores:
            pool.remove_store('d')                       # the distance changes: its stored values are dropped
        m2 = make_model(case, calls, 0, 1, narrow=True)
        ref = make_model(case, Calls(), 0, 1, narrow=True)
        for nb2 in (nb, nb + 2):
            calls.reset()
            rej = elfi.Rejection(m2['d'], batch_size=case['b'], seed=case['seed'], pool=pool, output_names=['S1'])
            res = with_timeout(60, lambda: rej.sample(1, n_sim=nb2 * case['b'], bar=False))
            rej0 = elfi.Rejection(ref['d'], batch_size=case['b'], seed=case['seed'], output_names=['S1'])
            res0 = with_timeout(60, lambda: rej0.sample(1, n_sim=nb2 * case['b'], bar=False))
            where = dict(case, batches=nb2)
            if {k: np.asarray(v).tobytes() for k, v in res.outputs.items()} != {k: np.asarray(v).tobytes() for k, v in res0.outputs.items()}:
                ctx.fail_input(where, 'results with a pool that also holds a store of a node outside this run differ from the pool-free run')
                return
            again = [(n, bi) for n, bi in calls.log if n in ('sim', 'S1') and bi < nb]
            if again or any(n == 'S0' for n, bi in calls.log):
                ctx.fail_input(where, 'stored operations were invoked again for batches the pool holds (or an unused one ran): %s' % sorted(set(calls.log))[:6])
                return
            for n in ('S1', 'sim'):
                held = [i for i in range(nb2 + 2) if i in pool.stores[n]]
                if held != list(range(nb2)):
                    ctx.fail_input(where, 'store %s holds batches %s after a run that consumed batches 0..%d' % (n, held, nb2 - 1))
                    return
            nb = nb2
    except Timeout:
        ctx.fail_input(case, 'run with pool did not return')
    finally:
        pool.delete()


def process(ctx, n):
    tmp = tempfile.mkdtemp(prefix='c05-')
    reqs, meta = [], []
    try:
        for _ in range(n):
            if ctx.enough():
                break
            case = gen_case(ctx.rng)
            if _ < 4:
                # every run: a disk pool whose SET OF STORES changes between two saves (the removed store's file stays on disk),
                # then save / close / open and a further run
                case.update(disk=True, stores=['S0', 'd', 'sim'] if _ % 2 else ['d', 'sim'],
                            steps=['fill', ['reopen', 'save'][_ % 2], ['replace-distance', 'remove-store'][_ // 2], 'reopen', 'rerun'])
            one(ctx, case, tmp, reqs, meta)
    finally:
        shutil.rmtree(tmp, ignore_errors=True)
    if ctx.driver_ok and reqs:
        for (case, ran, rk), a in zip(meta, ctx.lean.drive(reqs)):
            m = a.get('ok')
            if m is None or 'needed' not in m:
                ctx.corr_break('driver', case, a, None)
                continue
            inv = {v: k for k, v in rk.items()}
            # only the counting operations are observable: sim, S*, d (priors and twins are not counted)
            need = sorted(x for x in m['needed'] if inv[x] in ('sim', 'S0', 'S1', 'd'))
            if need != ran:
                ctx.corr_break('needed-per-batch', case, [inv[x] for x in need], [inv[x] for x in ran])


# ---- the pool object itself: histories of pool operations against Model/Pool.lean (theorems save_open_roundtrip,
# removed_store_stays_removed, add_batch_records, fill_holds_exactly, refill_changes_nothing, len_contains_after_fill) ----
class _Ctx:
    def __init__(self, b, seed):
        self.batch_size, self.seed = b, seed


def _observe_pool(pool, b):
    names = list(pool.stores.keys())
    stores = []
    for n in names:
        st = pool.stores[n]
        if st is None:
            stores.append(None)
        elif isinstance(st, dict):
            stores.append(sorted([int(i), int(np.asarray(v).ravel()[0])] for i, v in st.items()))
        else:
            stores.append([[i, int(np.asarray(st[i]).ravel()[0])] for i in range(len(st))])
    ctxv = [pool.batch_size, pool.seed] if pool.has_context else None
    return dict(names=names, stores=stores, len=len(pool), ctx=ctxv)


def _exec_pool_op(pool, o, array, b, cls, pname, tmp):
    err, extra = None, {}
    try:
        if o['op'] == 'add_batch':
            pool.add_batch({n: (np.full(b, v) if array else v) for n, v in o['batch']}, o['idx'])
        elif o['op'] == 'get_batch':
            got = pool.get_batch(o['idx'])
            extra = dict(batch=[[n, int(np.asarray(v).ravel()[0])] for n, v in got.items()], contains=o['idx'] in pool)
        elif o['op'] == 'remove_batch':
            pool.remove_batch(o['idx'])
        elif o['op'] == 'add_store':
            pool.add_store(o['node'])
        elif o['op'] == 'remove_store':
            st = pool.remove_store(o['node'])
            if hasattr(st, 'close'):
                st.close()
        elif o['op'] == 'clear':
            pool.clear()
        elif o['op'] == 'set_context':
            pool.set_context(_Ctx(o['b'], o['seed']))
        elif o['op'] == 'save':
            pool.save()
        elif o['op'] == 'open':
            if array:
                for st in pool.stores.values():
                    if hasattr(st, 'close'):
                        st.close()
            pool = cls.open(pname, prefix=tmp)
    except (ValueError, KeyError, AttributeError, TypeError, FileNotFoundError, IndexError) as e:
        err = type(e).__name__
    return pool, err, extra


def _compare_pool(ctx, case, obs, answers):
    for k, (ob, mo) in enumerate(zip(obs, answers)):
        mp = mo['pool']
        mp['stores'] = [sorted(x) if x is not None else None for x in mp['stores']]
        o = case['ops'][k]
        same = ((ob['err'] is None) == (mo['err'] is None) and ob['pool'] == mp
                and (o['op'] != 'get_batch' or (sorted(ob['batch']) == sorted(mo['batch']) and ob['contains'] == mo['contains'])))
        if same:
            continue
        prev0 = obs[k - 1]['pool'] if k else None
        listed = (prev0 is not None and o['op'] == 'open' and ob['err'] is None and case['ops'][k - 1]['op'] == 'save'
                  and case['array'] and _only_empty_stores_lost(prev0, ob['pool']))
        if not listed:
            ctx.corr_break('pool.step', dict(case, at=k), mo, ob)
        # the property on the pool itself: what a store holds for a batch never changes once written; save leaves the live
        # pool as it is; an opened pool holds exactly what the saved one held; a removed store does not come back
        prev = obs[k - 1]['pool'] if k else None
        if prev is not None and o['op'] in ('save', 'get_batch') and ob['pool'] != prev:
            ctx.fail_input(dict(case, at=k), '%s changed the pool: %s -> %s' % (o['op'], prev, ob['pool']), prev, ob['pool'])
        elif prev is not None and o['op'] == 'open' and ob['err'] is None and case['ops'][k - 1]['op'] == 'save' and ob['pool'] != prev \
                and case['array'] and _only_empty_stores_lost(prev, ob['pool']):
            ctx.fail_input(dict(case, at=k), 'ArrayPool: the stores %s, which held no batch at save(), are missing from the opened pool'
                           % [n for n in prev['names'] if n not in ob['pool']['names']], prev, ob['pool'],
                           finding='arraypool-empty-store-dropped-on-open')
        elif prev is not None and o['op'] == 'open' and ob['err'] is None and case['ops'][k - 1]['op'] == 'save' and ob['pool'] != prev:
            ctx.fail_input(dict(case, at=k), 'the pool opened right after save() differs from the saved one: %s -> %s' % (prev, ob['pool']),
                           prev, ob['pool'])
        elif prev is not None and o['op'] == 'add_batch' and ob['err'] is None:
            for n, st_prev in zip(prev['names'], prev['stores']):
                if n in ob['pool']['names'] and st_prev:
                    st_now = ob['pool']['stores'][ob['pool']['names'].index(n)] or []
                    lost = [e for e in st_prev if e not in st_now]
                    if lost:
                        ctx.fail_input(dict(case, at=k), 'add_batch altered what store %s held: %s no longer there' % (n, lost), st_prev, st_now)
                        break
        break


def _only_empty_stores_lost(prev, now):
    """the opened pool equals the saved one except that stores which held NO batch are missing (listed finding)"""
    lost = [n for n in prev['names'] if n not in now['names']]
    if not lost or any(prev['stores'][prev['names'].index(n)] != [] for n in lost):
        return False
    keep = [i for i, n in enumerate(prev['names']) if n not in lost]
    return (now['names'] == [prev['names'][i] for i in keep] and now['stores'] == [prev['stores'][i] for i in keep]
            and now['ctx'] == prev['ctx'])


def check_pool_model(ctx):
    rng = ctx.rng
    tmp = tempfile.mkdtemp(prefix='c05p-')
    reqs, metas = [], []
    try:
        for it in range(ctx.budget(40, 400)):
            array = it % 3 == 2
            b, seed = rng.randint(1, 4), rng.randint(0, 99)
            names = rng.sample(['sim', 'S1', 'S2', 'd', 't1'], rng.randint(1, 4))
            pname = 'p%d' % it
            cls = elfi.ArrayPool if array else elfi.OutputPool
            pool = cls(list(names), name=pname, prefix=tmp)
            ops, obs = [], []
            tok = 10
            if array:
                pool.set_context(_Ctx(b, seed))
            plan = []
            if it < 4:      # forced histories: (save, remove a store whose file stays, save, open) and (save on a live pool, refill)
                first = names[0]
                plan = [dict(op='set_context', b=b, seed=seed)] * (0 if array else 1) + [
                    dict(op='add_batch', idx=0, full=True), dict(op='add_batch', idx=1, full=True), dict(op='save'),
                    dict(op='get_batch', idx=1), dict(op='remove_store', node=first), dict(op='save'), dict(op='open'),
                    dict(op='get_batch', idx=0), dict(op='add_batch', idx=0, full=True), dict(op='add_batch', idx=2 if not array else 2, full=True),
                    dict(op='add_store', node=first), dict(op='save'), dict(op='open'), dict(op='get_batch', idx=2),
                    # a store that holds NO batch when the pool is saved must still be there when it is opened
                    dict(op='add_store', node='fresh'), dict(op='save'), dict(op='open'), dict(op='get_batch', idx=0)]
                if it % 2:
                    plan.insert(3, dict(op='open'))
            n_ops = len(plan) or rng.randint(3, 12)
            for k in range(n_ops):
                cur = list(pool.stores.keys())
                if plan:
                    o = dict(plan[k])
                else:
                    kind = rng.choice(['add_batch'] * 4 + ['get_batch', 'get_batch', 'save', 'save', 'open', 'remove_store', 'add_store',
                                                           'set_context', 'clear', 'remove_batch'])
                    if array and kind in ('clear', 'remove_batch', 'set_context'):
                        kind = 'add_batch'
                    o = dict(op=kind)
                    if kind in ('add_batch', 'get_batch', 'remove_batch'):
                        o['idx'] = len(pool) if (array or rng.random() < 0.5) else rng.randint(0, 4)
                        if kind != 'add_batch' or rng.random() < 0.35:
                            o['idx'] = rng.randint(0, max(len(pool), 1))
                        if array and kind == 'add_batch' and o['idx'] > len(pool):
                            o['idx'] = len(pool)
                        o['full'] = array or rng.random() < 0.7
                    elif kind in ('remove_store', 'add_store'):
                        o['node'] = rng.choice(['sim', 'S1', 'S2', 'd', 't1'])
                    elif kind == 'set_context':
                        o.update(b=b, seed=seed)
                if o['op'] == 'add_batch':
                    tok += 10
                    keys = list(cur) if o.pop('full', True) else [n for n in cur if rng.random() < 0.6]
                    keys = keys + ['other']
                    rng.shuffle(keys)
                    if array:
                        # an NpyStore takes the next batch only: nodes whose store is shorter or longer would be refused by the store
                        # itself (C06), not by the pool - keep every store at the same length
                        lens = {len(pool.stores[n]) if pool.stores[n] is not None else 0 for n in cur}
                        if len(lens) > 1:
                            o = dict(op='get_batch', idx=0)
                    if o['op'] == 'add_batch':
                        o['batch'] = [[n, tok + j] for j, n in enumerate(keys)]
                if array and o['op'] == 'add_store' and os.path.exists(os.path.join(tmp, pname, o['node'] + '.npy')):
                    # an ArrayPool store re-added under the name of a file left behind by a removed store adopts that file's
                    # content (documented NpyStore behaviour, outside the pool model): not part of these histories
                    o = dict(op='get_batch', idx=0)
                if array and o['op'] == 'open' and (not ops or ops[-1]['op'] != 'save' or obs[-1]['err']):
                    o = dict(op='save')
                pool, err, extra = _exec_pool_op(pool, o, array, b, cls, pname, tmp)
                ob = dict(err=err, pool=_observe_pool(pool, b), **extra)
                ops.append(o)
                obs.append(ob)
            if array:
                for st in pool.stores.values():
                    if hasattr(st, 'close'):
                        st.close()
            case = dict(kind='pool-model', array=array, names=names, b=b, seed=seed, ops=ops)
            ctx.case(case, any(o['op'] == 'open' for o in ops))
            for o in ops:
                ctx.count('poolm.op', o['op'])
            ctx.count('poolm.kind', 'ArrayPool' if array else 'OutputPool')
            reqs.append(dict(op='C05.pool', stores=[[n, 'none'] for n in names], ctx=[b, seed] if array else None, ops=ops))
            metas.append((case, obs))
        if not ctx.driver_ok:
            return
        for (case, obs), a in zip(metas, ctx.lean.drive(reqs)):
            if 'ok' not in a:
                ctx.corr_break('pool.driver', case, 'an answer', a)
                continue
            _compare_pool(ctx, case, obs, a['ok'])
    finally:
        shutil.rmtree(tmp, ignore_errors=True)


def run(ctx):
    for _ in range(ctx.budget(12, 100)):
        if not ctx.enough():
            narrow_scenario(ctx, ctx.rng)
    process(ctx, ctx.budget(140, 800))
    check_pool_model(ctx)


def search(ctx):
    process(ctx, 600)


def replay_pool(ctx, case):
    tmp = tempfile.mkdtemp(prefix='c05pr-')
    try:
        array, b = case['array'], case['b']
        cls = elfi.ArrayPool if array else elfi.OutputPool
        pool = cls(list(case['names']), name='rp', prefix=tmp)
        if array:
            pool.set_context(_Ctx(b, case['seed']))
        obs = []
        for o in case['ops']:
            pool, err, extra = _exec_pool_op(pool, o, array, b, cls, 'rp', tmp)
            obs.append(dict(err=err, pool=_observe_pool(pool, b), **extra))
        if array:
            for st in pool.stores.values():
                if hasattr(st, 'close'):
                    st.close()
        a = ctx.lean.drive([dict(op='C05.pool', stores=[[n, 'none'] for n in case['names']], ctx=[b, case['seed']] if array else None,
                                 ops=case['ops'])])[0]
        base = {k: v for k, v in case.items() if k != 'at'}
        _compare_pool(ctx, base, obs, a['ok'])
        return dict(observations=obs)
    finally:
        shutil.rmtree(tmp, ignore_errors=True)


def replay(ctx, case):
    if case.get('kind') == 'pool-model':
        return replay_pool(ctx, case)
    tmp = tempfile.mkdtemp(prefix='c05r-')
    try:
        base = {k: v for k, v in case.items() if k not in ('at_step', 'refuse', 'batch', 'supplied')}
        one(ctx, base, tmp, [], [])
    finally:
        shutil.rmtree(tmp, ignore_errors=True)
    return dict(steps=case.get('steps'))
