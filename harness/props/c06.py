"""C06 — on-disk array stores: real NpyArray/NpyStore/ArrayPool vs Model/Npy.lean.

(a) operation sequences on a real NpyStore with a logging proxy around the file object: what the store
    reports after every operation, numpy.load after every flush/close, and the low-level file events
    (mapped to abstract steps, compared modulo stuttering) versus the model;
(b) crash points: for every low-level file event k of a sequence a forked child performs the sequence
    and os._exit()s immediately before event k (Python's write buffer is lost, exactly as with SIGKILL);
    the file left behind is loaded with numpy and must (i) equal one of the logical contents between
    the last flush and the kill (direct oracle, independent of the model) and (ii) equal the model's
    predicted content for that step prefix (or the previous prefix: the last write may still be buffered);
(b') every history is performed a second time by a PURE WRITER (no len / contains / read between the operations: a read
    creates the memmap, which pushes Python's write buffer to the file and so hides what a killed writer-only process
    leaves behind); numpy.load after every flush/close and the kill-point window oracle (i) are applied to it as well.
"""
import os
import pickle
import re
import shutil
import tempfile

import numpy as np

import elfi
from elfi.store import ArrayPool, NpyArray, NpyStore
from common import Infra

META = dict(
    rule='a case = (dtype, row shape, batch size, operation sequence over set/del/clear/flush/close/reopen/reopenN/pickle); '
         'every low-level file event of the sequence is a kill point (all of them in thorough, a stratified third in '
         'quick); each history runs twice: observed after every operation, and as a pure writer with its own kill points '
         '(always before every flush event, half the sampling rate elsewhere). Non-trivial = sequence with >= 1 append and >= 1 of {overwrite, del, clear, reopen, pickle}; distinct by full content',
    trusted_base=['kill = os._exit() in a forked child immediately before the k-th file-object operation (write / truncate / '
                  'flush, including those numpy.memmap issues): unflushed Python buffers are lost as with SIGKILL',
                  'Linux page cache: completed write/ftruncate/memmap stores are visible to a later reader in program order',
                  'numpy.load / numpy.lib.format as the reader'],
    assumptions=['a kill inside one write(2)/memcpy into the memmap, and power loss, are below the step granularity'],
    partial=['torn single writes and loss of the page cache are not modelled',
             'a file reopened with ANOTHER batch size than it was written with is outside the Lean model (direct oracle only: check_rebatch)'],
)

DTYPES = ['f8', 'i4', 'u1', 'c16']
SHAPES = [(), (3,), (2, 2), (3,), (2, 3)]


class KillNow(Exception):
    pass


class FsProxy:
    """wraps the file object of an NpyArray; logs write/truncate/flush; can exit the process before event k"""

    def __init__(self, fs, log, ctl):
        object.__setattr__(self, '_fs', fs)
        object.__setattr__(self, '_log', log)
        object.__setattr__(self, '_ctl', ctl)

    def _event(self, kind, *info):
        ctl = self._ctl
        if ctl['kill_at'] is not None and ctl['count'] == ctl['kill_at']:
            os._exit(0)
        ctl['count'] += 1
        self._log.append((kind,) + info)

    def _io(self, kinds):
        # the buffering-layer view of the same stream (Model/BufIO.lean): w = buffered write, s = seek, f = flush,
        # d = a write that bypasses the buffer
        self._ctl.setdefault('io', []).append(kinds)

    def write(self, b):
        self._event('write', self._fs.tell(), bytes(b))
        self._io('w')
        return self._fs.write(b)

    def truncate(self, *a):
        self._event('truncate', self._fs.tell() if not a else a[0])
        self._io('fd')                           # BufferedRandom.truncate flushes, then ftruncate(2)
        return self._fs.truncate(*a)

    def flush(self):
        self._event('flush')
        self._io('f')
        return self._fs.flush()

    def seek(self, *a):
        self._io('s')
        return self._fs.seek(*a)

    def close(self):
        self._io('f')
        return self._fs.close()

    def __getattr__(self, name):
        return getattr(self._fs, name)

    def __setattr__(self, name, v):
        setattr(self._fs, name, v)


_FD_OWNER = {}          # file descriptor -> proxy of the store file that owns it (descriptor-level writes bypass the buffer)


def _patch_os():
    def mk(name):
        real = getattr(os, name)

        def f(fd, *a, **kw):
            px = _FD_OWNER.get(fd)
            if px is not None:
                try:
                    live = (not px._fs.closed) and px._fs.fileno() == fd
                except Exception:                                 # noqa
                    live = False
                if live:
                    px._event('direct', name)
                    px._io('d')
            return real(fd, *a, **kw)
        f._c06 = True
        return f
    for name in ('pwrite', 'write', 'pwritev', 'writev', 'ftruncate'):
        if hasattr(os, name) and not getattr(getattr(os, name), '_c06', False):
            setattr(os, name, mk(name))


_patch_os()


def wrap(store, log, ctl):
    arr = store.array
    if arr.fs is not None and not isinstance(arr.fs, FsProxy):
        arr.fs = FsProxy(arr.fs, log, ctl)
        try:
            _FD_OWNER[arr.fs.fileno()] = arr.fs
        except Exception:                                         # noqa
            pass
    return store


def mk_batch(tok, b, shape, dtype, layout='C'):
    """every row of the batch carries the token; for float/complex dtypes entry c of a row additionally carries (c+1)/64 so that
    a permutation of the ELEMENTS inside a batch (wrong memory order) is visible, not only a permutation of rows"""
    a = np.empty((b,) + shape, dtype=dtype)
    a[...] = tok
    if np.dtype(dtype).kind in 'fc' and shape:
        flat = a.reshape(b, -1)
        flat += (np.arange(flat.shape[1]) + 1) / 64.0
        a = flat.reshape((b,) + shape)
    if layout == 'F' and a.ndim >= 2:
        a = np.asfortranarray(a)               # same values, column-major memory (e.g. a transposed view handed in by the user)
    return a


def tokens_of(arr):
    arr = np.asarray(arr)
    flat = arr.reshape(len(arr), -1) if len(arr) else np.zeros((0, 1))
    out = []
    patterned = arr.dtype.kind in 'fc' and arr.ndim >= 2
    for r in flat:
        v = r[0]
        if patterned:
            base = np.floor(np.real(v))
            if not np.all(r == base + (np.arange(len(r)) + 1) / 64.0):
                return 'TORN'
            out.append(int(base))
            continue
        if not np.all(r == v):
            return 'TORN'
        out.append(int(np.real(v)))
    return out


class Runner:
    """executes an op sequence on a real NpyStore; records observations and file events per op"""

    def __init__(self, case, path, kill_at=None, observe=True):
        self.case, self.path, self.observe = case, path, observe
        self.log, self.ctl = [], dict(count=0, kill_at=kill_at)
        self.b, self.shape, self.dtype = case['b'], tuple(case['shape']), np.dtype(case['dtype'])
        self.store = wrap(NpyStore(path, self.b), self.log, self.ctl)
        self.obs = []

    def do(self, op):
        s, err, n0 = self.store, None, len(self.log)
        try:
            k = op['op']
            if k == 'set':
                s[op['i']] = mk_batch(op['tok'], self.b, self.shape, self.dtype, layout=self.case.get('layout', 'C') if op['tok'] % 2 else 'C')
            elif k == 'del':
                del s[op['i']]
            elif k == 'clear':
                s.clear()
            elif k == 'flush':
                s.flush()
            elif k == 'close':
                s.close()
            elif k in ('reopen', 'reopenN'):
                s.close()
                new = NpyStore(self.path, self.b) if k == 'reopen' else NpyStore(self.path, self.b, n_batches=op['n'])
                self.store = wrap(new, self.log, self.ctl)
            elif k == 'pickle':
                data = pickle.dumps(s)
                new = pickle.loads(data)
                self.store = wrap(new, self.log, self.ctl)
                # the original object is dropped; its __del__ closes it (header already flushed by __getstate__)
        except ValueError:
            err = 'ValueError'
        except IndexError:
            err = 'IndexError'
        s = self.store
        if not self.observe:
            # a pure writer: no reads between the operations (a read goes through the memmap, whose creation pushes Python's
            # write buffer to the file - an observer would hide what a writer-only process leaves behind when it is killed)
            ob = dict(err=err, events=self.log[n0:])
            self.obs.append(ob)
            return ob
        ob = dict(err=err, n=len(s), events=self.log[n0:])
        ob['contains'] = [i in s for i in range(len(s) + 2)]
        if not s.array.closed and s.array.initialized:
            try:
                ob['content'] = [tokens_of(s[i]) for i in range(len(s))]
            except Exception as e:                                # noqa
                ob['content'] = 'ERR %s' % type(e).__name__
        else:
            ob['content'] = None
        self.obs.append(ob)
        return ob


def abstract_events(events, hlen, row_bytes, dtype, shape):
    """file events -> abstract steps (strings as the model prints them)"""
    out = []
    for ev in events:
        if ev[0] == 'flush':
            out.append('sync')
        elif ev[0] == 'truncate':
            out.append('trunc %d' % ((ev[1] - hlen) // row_bytes))
        elif ev[0] == 'write':
            off, data = ev[1], ev[2]
            if off == 0 and len(data) == 12:
                out.append('magic')
            elif off == 12:
                m = re.search(rb"'shape': \((\d+)", data)
                out.append('hdr %s' % (m.group(1).decode() if m else '?'))
            elif off >= hlen and len(data) % row_bytes == 0:
                rows = np.frombuffer(data, dtype=dtype).reshape((-1,) + shape)
                out.append('data %d %s' % ((off - hlen) // row_bytes, tokens_of(rows)))
            elif len(data) == 1:
                out.append('mmExtend')
            else:
                out.append('write? %d %d' % (off, len(data)))
    return out


def destutter(steps):
    """drop syncs, memmap bookkeeping and repeated identical header writes"""
    out = []
    for s in steps:
        if s == 'sync' or s.startswith('mmOpen') or s.startswith('mmStore'):
            continue
        if out and s.startswith('hdr') and out[-1] == s:
            continue
        out.append(s)
    return out


def gen_ops(rng, b, maxlen):
    ops, n, tok = [], 0, 1
    L = rng.randint(2, maxlen)
    closed = False
    for _ in range(L):
        r = rng.random()
        if closed:
            # operations other than reopening on a CLOSED store are outside the property's histories
            k = rng.choice(['reopen', 'reopen', 'pickle', 'reopenN', 'close'])
        elif r < .40:
            k = 'set'
        elif r < .52:
            k = 'del'
        elif r < .58:
            k = 'clear'
        elif r < .72:
            k = 'flush'
        elif r < .78:
            k = 'close'
        elif r < .88:
            k = 'reopen'
        elif r < .93:
            k = 'reopenN'
        else:
            k = 'pickle'
        op = dict(op=k)
        if k == 'set':
            # mostly append or overwrite, sometimes out of range
            i = rng.choice([n, n, n, rng.randint(0, max(n - 1, 0)), n + 1])
            op.update(i=i, tok=tok)
            tok += 1
            if i == n and not closed:
                n += 1
        elif k == 'del':
            i = rng.choice([n - 1, n - 1, n - 1, 0, n]) if n else 0
            op['i'] = max(i, 0)
            if n and i == n - 1 and not closed:
                n -= 1
        elif k == 'clear':
            if not closed:
                n = 0
        elif k == 'close':
            closed = True
        elif k in ('reopen', 'pickle'):
            closed = False
        elif k == 'reopenN':
            closed = False
            op['n'] = rng.randint(0, n)
            n = op['n']
        ops.append(op)
    return ops


BOUNDARY = [
    [dict(op='set', i=0, tok=1), dict(op='set', i=1, tok=2), dict(op='flush'), dict(op='del', i=1)],
    [dict(op='set', i=0, tok=1), dict(op='set', i=1, tok=2), dict(op='flush'), dict(op='set', i=2, tok=3),
     dict(op='set', i=0, tok=9)],
    [dict(op='set', i=0, tok=1), dict(op='flush'), dict(op='clear'), dict(op='set', i=0, tok=2), dict(op='reopen')],
    [dict(op='set', i=0, tok=1), dict(op='set', i=1, tok=2), dict(op='reopen'), dict(op='del', i=1), dict(op='set', i=1, tok=3),
     dict(op='flush'), dict(op='reopen')],
    [dict(op='set', i=0, tok=1), dict(op='set', i=1, tok=2), dict(op='set', i=2, tok=3), dict(op='reopenN', n=1),
     dict(op='set', i=1, tok=7), dict(op='flush'), dict(op='set', i=2, tok=8), dict(op='pickle'), dict(op='set', i=3, tok=9)],
    [dict(op='set', i=0, tok=1), dict(op='close'), dict(op='close'), dict(op='pickle'), dict(op='set', i=1, tok=3)],
    [dict(op='flush'), dict(op='clear'), dict(op='reopen'), dict(op='set', i=0, tok=1), dict(op='pickle'), dict(op='del', i=0)],
    # long stores: reopen / pickle round trips with 5-6 batches
    [dict(op='set', i=k, tok=k + 1) for k in range(5)] + [dict(op='reopen'), dict(op='set', i=5, tok=6), dict(op='pickle'), dict(op='reopen')],
    [dict(op='set', i=k, tok=k + 1) for k in range(6)] + [dict(op='flush'), dict(op='reopen'), dict(op='del', i=5), dict(op='reopen')],
]


def logical_history(ops, b, obs):
    """the in-memory list semantics, following the REAL outcomes for reopenN (depends on file content)"""
    return None


def crash_child(case, path, kill_at, observe=True):
    pid = os.fork()
    if pid == 0:
        try:
            r = Runner(case, path, kill_at=kill_at, observe=observe)
            for op in case['ops']:
                r.do(op)
        except BaseException:                                   # noqa
            os._exit(3)
        os._exit(0)
    _, status = os.waitpid(pid, 0)
    return status


def load_tokens(path):
    try:
        return tokens_of(np.load(path))
    except Exception as e:                                        # noqa
        return 'LOADFAIL'


def one_case(ctx, case, tmp, kills=True):
    b = case['b']
    path = os.path.join(tmp, 'a%d.npy' % ctx.evaluations)
    r = Runner(case, path)
    loads = []
    for op in case['ops']:
        ob = r.do(op)
        if op['op'] in ('flush', 'close', 'reopen', 'reopenN', 'pickle') and ob['err'] is None:
            ob['load'] = load_tokens(path)
    arr = r.store.array
    hlen, row_bytes = arr.header_length, (int(np.prod(r.shape)) * r.dtype.itemsize)
    n_events = len(r.log)
    # the same history by a pure writer (no reads in between)
    pathb = path + '.blind.npy'
    rb = Runner(case, pathb, observe=False)
    for op in case['ops']:
        ob = rb.do(op)
        if op['op'] in ('flush', 'close', 'reopen', 'reopenN', 'pickle') and ob['err'] is None:
            ob['load'] = load_tokens(pathb)
    try:
        rb.store.close()
    except Exception:                                             # noqa
        pass
    try:
        os.remove(pathb)
    except OSError:
        pass
    # leave the file as a killed process would (no close/__del__ effects needed for the in-process run)
    kinds = [o['op'] for o in case['ops']]
    nontriv = any(o['op'] == 'set' for o in case['ops']) and any(k in kinds for k in ('del', 'clear', 'reopen', 'pickle', 'reopenN'))
    ctx.case(dict(case, n_file_events=n_events), nontriv)
    ctx.count('ops_len', len(case['ops']))
    for k in kinds:
        ctx.count('op', k)
    for ob in r.obs:
        ctx.count('outcome', ob['err'] or 'ok')
    # ---- the model
    mreq = dict(op='C06.run', b=b, ops=[dict(op=o['op'], **({'i': o['i']} if 'i' in o else {}),
                                              **({'batch': [o['tok']] * b} if 'tok' in o else {}),
                                              **({'n': o['n']} if 'n' in o else {})) for o in case['ops']])
    return dict(case=case, runner=r, blind=rb, path=path, hlen=hlen, row_bytes=row_bytes, n_events=n_events, mreq=mreq)


def spec_contents(case, obs):
    """the in-memory sequence semantics (same as `specStep` of the Lean model, written independently):
    avail = exposed batches, hidden = batches in the file beyond them (after reopenN with a smaller n).
    Returns after each op (avail, all rows a reader of the file should see)."""
    avail, hidden, out = [], [], []
    init = False
    for op, ob in zip(case['ops'], obs):
        k = op['op']
        bt = [op.get('tok')] * case['b']
        if k == 'set':
            if op['i'] < len(avail):
                avail = avail[:op['i']] + [bt] + avail[op['i'] + 1:]
                init = True
            elif op['i'] == len(avail):
                avail, hidden = avail + [bt], hidden[1:]
                init = True
        elif k == 'del':
            if op['i'] + 1 == len(avail):
                avail, hidden = avail[:-1], []
        elif k == 'clear':
            if init:
                avail, hidden = [], []
        elif k == 'reopenN' and init:
            al = avail + hidden
            avail, hidden = al[:op['n']], al[op['n']:]
        elif k == 'reopen' and init:
            avail, hidden = avail + hidden, []
        out.append(([list(x) for x in avail], [t for x in avail + hidden for t in x]))
    return out


def check_case(ctx, info, ans, tmp):
    case, r = info['case'], info['runner']
    broke = [False]

    def corr(name, where, m, c):
        # a model/code disagreement is recorded once per case; the DIRECT oracles below keep running
        if not broke[0]:
            ctx.corr_break(name, where, m, c)
        broke[0] = True

    mdl = ans.get('ok')
    if mdl is None:
        corr('driver', case, ans, None)
        mdl = [dict(err=None, nBatches=None, content=None, load=None, loads=[], steps=None)] * len(case['ops'])
    sp = spec_contents(case, r.obs)
    spec = [s[0] for s in sp]
    rows = [s[1] for s in sp]
    # ---- (a) observations per op: model vs code, and code vs the list semantics
    for j, (op, ob, m) in enumerate(zip(case['ops'], r.obs, mdl)):
        where = dict(case, at_op=j)
        if m['nBatches'] is not None and (ob['err'] != m['err'] or ob['n'] != m['nBatches']):
            corr('op-outcome', where, dict(err=m['err'], n=m['nBatches']), dict(err=ob['err'], n=ob['n']))
        if ob['content'] is not None and m['content'] is not None and ob['content'] != m['content']:
            corr('content', where, m['content'], ob['content'])
        # direct: the store reports exactly the batches of the in-memory sequence
        if ob['content'] is not None and ob['content'] != spec[j]:
            ctx.fail_input(where, 'after op %d (%s) the store reports %s, the in-memory sequence is %s'
                           % (j, op['op'], ob['content'], spec[j]), spec[j], ob['content'])
            return
        if ob['n'] != len(spec[j]) or ob['contains'] != [i < len(spec[j]) for i in range(ob['n'] + 2)]:
            ctx.fail_input(where, 'len/contains after op %d: %d %s, in-memory sequence has %d batches'
                           % (j, ob['n'], ob['contains'], len(spec[j])), len(spec[j]), ob['n'])
            return
        if 'load' in ob:
            # after flush/close the file is a standard .npy that loads to the same content
            # (the file may hold more rows than the store exposes after reopenN with a smaller n)
            if ob['load'] != rows[j]:
                if not (ob['load'] == 'LOADFAIL' and not any(o['op'] == 'set' and rr['err'] is None for o, rr in zip(case['ops'][:j + 1], r.obs))):
                    ctx.fail_input(where, 'after %s at op %d numpy.load gives %s, the in-memory sequence holds %s'
                                   % (op['op'], j, ob['load'], rows[j]), rows[j], ob['load'])
                    return
            if m['load'] is not None and ob['load'] != m['load']:
                corr('load-after-flush', where, m['load'], ob['load'])
        # low-level trace, modulo stuttering
        real = destutter(abstract_events(ob['events'], info['hlen'], info['row_bytes'], r.dtype, r.shape)) if info['hlen'] else []
        pred = destutter(m['steps']) if m['steps'] is not None else real
        if info['hlen'] and real != pred:
            corr('fileops', where, pred, real)
    ctx.count('traces_equal', 'no' if broke[0] else 'yes')
    # ---- (a') the same history performed by a pure writer: same outcomes, and the same file after every flush / close
    rb = info['blind']
    for j, (op, ob, obb) in enumerate(zip(case['ops'], r.obs, rb.obs)):
        where = dict(case, at_op=j, blind=True)
        if obb['err'] != ob['err']:
            ctx.fail_input(where, 'op %d (%s) ends with %r when the store is only written to, and with %r when it is also read in between'
                           % (j, op['op'], obb['err'], ob['err']), ob['err'], obb['err'])
            return
        if 'load' in obb and obb['load'] != rows[j]:
            if not (obb['load'] == 'LOADFAIL' and not any(o['op'] == 'set' and rr['err'] is None for o, rr in zip(case['ops'][:j + 1], r.obs))):
                ctx.fail_input(where, 'writer-only history: after %s at op %d numpy.load gives %s, the in-memory sequence holds %s'
                               % (op['op'], j, obb['load'], rows[j]), rows[j], obb['load'])
                return
    # ---- (b) crash points
    if not info.get('kills'):
        return
    # event index -> (op index, number of that op's events before it)
    ev_op = []
    for j, ob in enumerate(r.obs):
        for q in range(len(ob['events'])):
            ev_op.append((j, q))
    # model prefix loads, aligned with events: model steps per op (mm steps have no event) -> use loads after each
    # *model step*; for the comparison we accept the model's load at ANY step boundary of the same op or the end of
    # the previous op (buffering + invisible memmap steps), and rely on the direct window oracle for the property.
    flush_like = ('flush', 'close', 'reopen', 'reopenN', 'pickle')
    for k in info['kill_points']:
        j, q = ev_op[k] if k < len(ev_op) else (len(case['ops']) - 1, None)
        path_k = os.path.join(tmp, 'k%d_%d.npy' % (ctx.evaluations, k))
        status = crash_child(case, path_k, k)
        got = load_tokens(path_k) if os.path.exists(path_k) else 'NOFILE'
        try:
            os.remove(path_k)
        except OSError:
            pass
        ctx.extra['kills'] = ctx.extra.get('kills', 0) + 1
        # last successful flush-like op strictly before op j
        f = max([i for i in range(j) if case['ops'][i]['op'] in flush_like and r.obs[i]['err'] is None
                 and r.obs[i].get('load') not in (None, 'LOADFAIL')] + [-1])
        where = dict(case, kill_before_event=k, in_op=j)
        if f < 0:
            ctx.count('kill', 'before-first-flush')
            continue
        window = [rows[i] for i in range(f, j + 1)]
        full_ok = got in window
        ctx.count('kill', 'ok' if full_ok else 'bad')
        if not full_ok:
            ctx.fail_input(where, 'killed before file event %d (in op %d = %s, last flush at op %d): numpy.load gives %s, '
                           'logical contents since the flush were %s' % (k, j, case['ops'][j]['op'], f, got, window), window, got)
            return
        # model: content must be one of the model's predicted prefix loads of op j, or the state after op j-1
        cands = [mdl[j - 1]['load']] if j > 0 else [None]
        cands += mdl[j]['loads']
        if got not in cands:
            corr('crash-prefix', where, cands, got)
    # ---- (b') crash points of the pure writer (direct window oracle only)
    ev_opb = []
    for j, ob in enumerate(rb.obs):
        for q in range(len(ob['events'])):
            ev_opb.append((j, q))
    for k in info.get('blind_kill_points', []):
        j, q = ev_opb[k] if k < len(ev_opb) else (len(case['ops']) - 1, None)
        path_k = os.path.join(tmp, 'kb%d_%d.npy' % (ctx.evaluations, k))
        crash_child(case, path_k, k, observe=False)
        got = load_tokens(path_k) if os.path.exists(path_k) else 'NOFILE'
        try:
            os.remove(path_k)
        except OSError:
            pass
        ctx.extra['kills_writer_only'] = ctx.extra.get('kills_writer_only', 0) + 1
        f = max([i for i in range(j) if case['ops'][i]['op'] in flush_like and rb.obs[i]['err'] is None
                 and rb.obs[i].get('load') not in (None, 'LOADFAIL')] + [-1])
        where = dict(case, kill_before_event=k, in_op=j, blind=True)
        if f < 0:
            ctx.count('kill-writer-only', 'before-first-flush')
            continue
        window = [rows[i] for i in range(f, j + 1)]
        ctx.count('kill-writer-only', 'ok' if got in window else 'bad')
        if got not in window:
            ctx.fail_input(where, 'writer-only history killed before file event %d (in op %d = %s, last flush at op %d): numpy.load gives %s, '
                           'logical contents since the flush were %s' % (k, j, case['ops'][j]['op'], f, got, window), window, got)
            return


def process(ctx, cases, kill_fraction):
    tmp = tempfile.mkdtemp(prefix='c06-')
    try:
        infos = []
        for case in cases:
            if ctx.enough():
                break
            info = one_case(ctx, case, tmp)
            n = info['n_events']
            pts = list(range(n + 1))
            if kill_fraction < 1:
                pts = [k for k in pts if ctx.rng.random() < kill_fraction or k in (0, n)]
            info['kills'] = True
            info['kill_points'] = pts
            evb = [e[0] for ob in info['blind'].obs for e in ob['events']]
            # writer-only kill points: always before every flush/close-time event that follows buffered writes, a sample of the rest
            info['blind_kill_points'] = [k for k in range(len(evb) + 1)
                                         if kill_fraction >= 1 or (k < len(evb) and evb[k] == 'flush') or ctx.rng.random() < kill_fraction / 2]
            infos.append(info)
        if not ctx.driver_ok:
            for info in infos:
                info['kill_points'] = info['kill_points']
            answers = [dict(error='no driver')] * len(infos)
        else:
            answers = ctx.lean.drive([i['mreq'] for i in infos])
        if ctx.driver_ok:
            # the buffering discipline (hypothesis of `buffered_kill_is_prefix`) on the event streams of both runs of every history
            ioreqs, iometa = [], []
            for info in infos:
                for which, rr in (('observed', info['runner']), ('writer-only', info['blind'])):
                    kinds = ''.join(rr.ctl.get('io', []))
                    ioreqs.append(dict(op='C06.io', kinds=kinds))
                    iometa.append((info['case'], which, kinds))
            for (case, which, kinds), a in zip(iometa, ctx.lean.drive(ioreqs)):
                m = a.get('ok')
                ctx.count('io.discipline', 'no answer' if m is None else ('kept' if m['disciplined'] else 'BROKEN'))
                if m is None:
                    ctx.corr_break('driver', case, a, None)
                elif not m['disciplined']:
                    ctx.corr_break('io-discipline', dict(case, run=which), 'no write bypasses the buffer while buffered writes are pending',
                                   kinds[:200])
                    break
        for info, a in zip(infos, answers):
            if ctx.enough():
                break
            check_case(ctx, info, a, tmp)
    finally:
        shutil.rmtree(tmp, ignore_errors=True)


def gen_cases(ctx, n):
    rng = ctx.rng
    cases = []
    for ops in BOUNDARY:
        cases.append(dict(b=2, shape=[], dtype='f8', ops=ops))
    for _ in range(n):
        b = rng.randint(1, 4)
        cases.append(dict(b=b, shape=list(rng.choice(SHAPES)), dtype=rng.choice(DTYPES), ops=gen_ops(rng, b, 12), layout=rng.choice(['C', 'F'])))
    return cases


def check_pool(ctx):
    """ArrayPool (directory of NpyStores + pickled pool object): fill, flush, close, open, read back"""
    rng = ctx.rng
    tmp = tempfile.mkdtemp(prefix='c06p-')
    try:
        for it in range(ctx.budget(6, 60)):
            b = rng.randint(1, 4)
            name = 'pool%d' % it
            pool = ArrayPool(['x', 'y'], name=name, prefix=tmp)
            pool.set_context(type('Ctx', (), dict(batch_size=b, seed=it))())
            ref = {}
            nb = rng.randint(1, 5)
            for i in range(nb):
                batch = dict(x=mk_batch(10 * i + 1, b, (), 'f8'), y=mk_batch(10 * i + 2, b, (2,), 'i4'))
                pool.add_batch(batch, i)
                ref[i] = batch
            mode = rng.choice(['save-close-open', 'flush-open', 'close-open'])
            if mode == 'save-close-open':
                pool.save()
                pool.close()
            elif mode == 'flush-open':
                pool.flush()
                pool.save()
            else:
                pool.close()
            p2 = ArrayPool.open(name, prefix=tmp)
            case = dict(kind='ArrayPool', b=b, batches=nb, mode=mode)
            ctx.case(case, nb >= 2)
            ctx.count('pool.mode', mode)
            for i in range(nb):
                got = p2.get_batch(i)
                for k in ('x', 'y'):
                    if k not in got or not np.array_equal(got[k], ref[i][k]):
                        ctx.fail_input(case, 'ArrayPool reopened: batch %d of %s differs from what was added' % (i, k),
                                       ref[i][k].tolist(), None if k not in got else np.asarray(got[k]).tolist())
            for k in ('x', 'y'):
                f = os.path.join(p2.path, k + '.npy')
                arr = np.load(f)
                if len(arr) != nb * b:
                    ctx.fail_input(case, 'ArrayPool file %s loads %d rows, %d were stored' % (k, len(arr), nb * b), nb * b, len(arr))
            p2.close()
            pool.close()
    finally:
        shutil.rmtree(tmp, ignore_errors=True)


def check_rebatch(ctx):
    """a file written with one batch size and reopened with ANOTHER one (the file length need not be a multiple of the new batch
    size: trailing rows that do not fill a batch).  Outside the Lean model (its stores keep one batch size); direct oracle only:
    every operation is either refused and changes nothing, or accepted, and then every exposed batch reads back as the in-memory
    sequence says (the batch just written as written, every other batch unchanged), also after flush + numpy.load."""
    rng = ctx.rng
    tmp = tempfile.mkdtemp(prefix='c06b-')
    try:
        for it in range(ctx.budget(40, 400)):
            b1, b2 = rng.sample([1, 2, 3, 4, 5, 7], 2)
            k = rng.randint(1, 5)
            if it < 6:
                b1, k, b2 = [(7, 5, 10), (3, 3, 2), (2, 3, 4), (5, 1, 3), (3, 2, 4), (4, 3, 5)][it]
            path = os.path.join(tmp, 'r%d.npy' % it)
            st = NpyStore(path, b1)
            for i in range(k):
                st[i] = mk_batch(i + 1, b1, (), 'f8')
            st.close()
            rows = [float(i + 1) for i in range(k) for _ in range(b1)]
            st = NpyStore(path, b2)
            exp = [rows[i * b2:(i + 1) * b2] for i in range(len(rows) // b2)]
            ops = []
            case = dict(kind='rebatch', b_written=b1, batches_written=k, b_reopened=b2, ops=ops)
            ctx.case(case, len(rows) % b2 != 0)
            ctx.count('rebatch.tail_rows', len(rows) % b2)
            tok = 50

            def observe(what):
                if len(st) != len(exp):
                    ctx.fail_input(dict(case), '%s: the store reports %d batches, the in-memory sequence has %d' % (what, len(st), len(exp)), len(exp), len(st))
                    return False
                for i in range(len(exp)):
                    got = np.asarray(st[i]).tolist()
                    if got != exp[i]:
                        ctx.fail_input(dict(case), '%s: batch %d reads back as %s, the in-memory sequence holds %s' % (what, i, got, exp[i]), exp[i], got)
                        return False
                return True
            if not observe('after reopening with batch size %d' % b2):
                continue
            ok = True
            for _ in range(rng.randint(1, 4)):
                kind = rng.choice(['append', 'append', 'overwrite', 'del', 'flush', 'reopen'])
                tok += 1
                new = [float(tok)] * b2
                try:
                    if kind == 'append':
                        ops.append(['set', len(exp), tok])
                        st[len(exp)] = np.array(new)
                        exp = exp + [new]
                    elif kind == 'overwrite' and exp:
                        i = rng.randrange(len(exp))
                        ops.append(['set', i, tok])
                        st[i] = np.array(new)
                        exp = exp[:i] + [new] + exp[i + 1:]
                    elif kind == 'del' and exp:
                        ops.append(['del', len(exp) - 1])
                        del st[len(exp) - 1]
                        exp = exp[:-1]
                    elif kind == 'flush':
                        ops.append(['flush'])
                        st.flush()
                        got = np.load(path).tolist()
                        flat = [v for bt in exp for v in bt]
                        if got[:len(flat)] != flat:
                            ctx.fail_input(dict(case), 'after flush numpy.load starts with %s, the in-memory sequence is %s' % (got[:len(flat)], flat), flat, got)
                            ok = False
                    elif kind == 'reopen':
                        ops.append(['reopen', len(exp)])
                        st.close()
                        st = NpyStore(path, b2, n_batches=len(exp))
                except (IndexError, ValueError) as e:
                    ops[-1].append('refused:' + type(e).__name__)            # refused: nothing may have changed
                    ctx.count('rebatch.refused', kind)
                if not ok or not observe('after %s' % ops[-1] if ops else 'start'):
                    break
            st.close()
    finally:
        shutil.rmtree(tmp, ignore_errors=True)


def check_rebatch_model(ctx):
    """re-batched stores INSIDE the Lean model (Model/NpyRebatch.lean, theorems rebatch_view / rebatch_refines /
    rebatch_tail_untouched): a flushed file of any row count reopened with any batch size, then a history of whole-batch
    set / del / clear / flush operations.  Compared with the real NpyStore per operation: refused or not, the batches exposed
    afterwards, and after every flush what numpy.load returns; the driver also evaluates the reference semantics `specRunT`
    of the theorem on the same history (model = spec is the theorem; both are compared with the code)."""
    rng = ctx.rng
    tmp = tempfile.mkdtemp(prefix='c06m-')
    reqs, metas = [], []
    try:
        for it in range(ctx.budget(40, 400)):
            b1, b2 = rng.sample([1, 2, 3, 4, 5, 7], 2)
            k = rng.randint(0 if it % 9 == 8 else 1, 5)
            if it < 6:
                b1, k, b2 = [(7, 5, 10), (3, 3, 2), (2, 3, 4), (5, 1, 3), (3, 2, 4), (4, 3, 5)][it]
            path = os.path.join(tmp, 'm%d.npy' % it)
            st = NpyStore(path, b1)
            rows = []
            for i in range(max(k, 1)):
                vals = [100 * (i + 1) + r for r in range(b1)]
                st[i] = np.array(vals, dtype='f8')
                rows += vals
            if k == 0:
                del st[0]
                rows = []
            st.close()
            st = NpyStore(path, b2)
            n = len(rows) // b2
            ops, obs = [], []
            view = [np.asarray(st[i]).tolist() for i in range(len(st))]
            tok = 1000
            for _ in range(rng.randint(1, 6)):
                kind = rng.choice(['append', 'append', 'overwrite', 'overwrite', 'del', 'del_other', 'flush', 'clear', 'far'])
                tok += 10
                batch = [tok + r for r in range(b2)]
                cur = len(st)
                if kind == 'append':
                    op = dict(op='set', i=cur, batch=batch)
                elif kind == 'overwrite':
                    op = dict(op='set', i=rng.randrange(cur) if cur else 0, batch=batch)
                elif kind == 'far':
                    op = dict(op='set', i=cur + rng.randint(1, 2), batch=batch)
                elif kind == 'del':
                    op = dict(op='del', i=max(cur - 1, 0))
                elif kind == 'del_other':
                    op = dict(op='del', i=rng.choice([0, cur, cur + 1]))
                elif kind == 'clear' and rng.random() < 0.4:
                    op = dict(op='clear')
                else:
                    op = dict(op='flush')
                err = False
                try:
                    if op['op'] == 'set':
                        st[op['i']] = np.array(op['batch'], dtype='f8')
                    elif op['op'] == 'del':
                        del st[op['i']]
                    elif op['op'] == 'clear':
                        st.clear()
                    else:
                        st.flush()
                except (IndexError, ValueError):
                    err = True
                ob = dict(err=err, content=[np.asarray(st[i]).tolist() for i in range(len(st))])
                if op['op'] == 'flush' and not err:
                    ob['load'] = np.load(path).tolist()
                ops.append(op)
                obs.append(ob)
            st.close()
            final = np.load(path).tolist()
            case = dict(kind='rebatch-model', b_written=b1, batches_written=k, b_reopened=b2, ops=ops)
            ctx.case(case, len(rows) % b2 != 0)
            ctx.count('rebatchm.tail_rows', len(rows) % b2)
            for o in ops:
                ctx.count('rebatchm.op', o['op'])
            reqs.append(dict(op='C06.rebatch', rows=[int(v) for v in rows], b=b2, ops=ops))
            metas.append((case, view, obs, final))
        if not ctx.driver_ok:
            return
        for (case, view, obs, final), a in zip(metas, ctx.lean.drive(reqs)):
            if 'ok' not in a:
                ctx.corr_break('rebatch.driver', case, 'an answer', a)
                continue
            a = a['ok']
            if view != a['view'] or a['view'] != a['chunks']:
                ctx.corr_break('rebatch.view', case, a['view'], view)
                want = a['chunks']
                if view != want:
                    ctx.fail_input(case, 'a file reopened with batch size %d exposes %s; its rows cut into complete batches are %s'
                                   % (case['b_reopened'], view, want), want, view)
                continue
            for k, (ob, mo, sp) in enumerate(zip(obs, a['model'], a['spec'])):
                ctx.count('rebatchm.refused', ob['err'])
                if (mo['err'], mo['content']) != (sp['err'], sp['content']):
                    ctx.corr_break('rebatch.model_vs_spec', dict(case, at=k), sp, mo)       # would contradict the theorem
                    break
                if ob['err'] != mo['err'] or ob['content'] != mo['content']:
                    ctx.corr_break('rebatch.step', dict(case, at=k), dict(err=mo['err'], content=mo['content']), ob)
                    # the property itself, stated on the in-memory sequence: a refused operation changes nothing; an accepted
                    # one yields the sequence with that batch written / dropped
                    prev = obs[k - 1]['content'] if k else view
                    o = case['ops'][k]
                    if ob['err']:
                        exp = prev
                    elif o['op'] == 'set':
                        exp = prev[:o['i']] + [[float(v) for v in o['batch']]] + prev[o['i'] + 1:]
                    elif o['op'] == 'del':
                        exp = prev[:-1]
                    elif o['op'] == 'clear':
                        exp = []
                    else:
                        exp = prev
                    if ob['content'] != exp:
                        ctx.fail_input(dict(case, at=k), 'after operation %d (%s) the re-batched store exposes %s, the in-memory sequence is %s'
                                       % (k, o['op'], ob['content'], exp), exp, ob['content'])
                    break
                if 'load' in ob and mo['load'] is not None and ob['load'] != mo['load']:
                    ctx.corr_break('rebatch.load', dict(case, at=k), mo['load'], ob['load'])
                    flat = [v for bt in ob['content'] for v in bt]
                    if ob['load'][:len(flat)] != flat:
                        ctx.fail_input(dict(case, at=k), 'after flush numpy.load starts with %s, the store exposes %s'
                                       % (ob['load'][:len(flat)], flat), flat, ob['load'])
                    break
    finally:
        shutil.rmtree(tmp, ignore_errors=True)


def check_stale_handle(ctx):
    """TWO live handles on one file: a store is pickled and unpickled while the original object stays alive (a pool handed to a worker,
    a copy kept by the caller); batches are appended through the copy, the copy is flushed / closed, and only then the idle original
    is flushed, closed or garbage-collected.  An idle handle has nothing to write: after every flush or close numpy.load gives the
    in-memory sequence, and a store reopened at the end reports exactly its batches."""
    import gc
    import pickle
    rng = ctx.rng
    tmp = tempfile.mkdtemp(prefix='c06h-')
    try:
        for it in range(6 if ctx.quick() else 40):
            b = rng.choice([1, 2, 5])
            k1, k2 = rng.randint(1, 3), rng.randint(1, 3)
            end = ['close', 'flush+close', 'gc'][it % 3]
            first = ['flush', 'none'][(it // 3) % 2]
            path = os.path.join(tmp, 'h%d' % it)
            case = dict(kind='stale-handle', b=b, written_through_original=k1, appended_through_copy=k2, original_before_pickle=first, original_ended_by=end)
            ctx.case(case, True)
            ctx.count('stale_handle.end', end)
            a = NpyStore(path, b)
            rows = []
            for i in range(k1):
                a[i] = mk_batch(i + 1, b, (), 'f8')
                rows += [float(i + 1)] * b
            if first == 'flush':
                a.flush()
            c = pickle.loads(pickle.dumps(a))
            for i in range(k1, k1 + k2):
                c[i] = mk_batch(i + 1, b, (), 'f8')
                rows += [float(i + 1)] * b
            c.flush()
            c.close()
            got = np.load(path + '.npy').tolist()
            if got != rows:
                ctx.fail_input(case, 'after the copy was flushed and closed numpy.load gives %d rows, %d were written' % (len(got), len(rows)), rows, got)
                continue
            if end == 'close':
                a.close()
            elif end == 'flush+close':
                a.flush()
                a.close()
            else:
                del a
                gc.collect()
            got = np.load(path + '.npy').tolist()
            re = NpyStore(path, b)
            n_re = len(re)
            re.close()
            if got != rows or n_re != k1 + k2:
                ctx.fail_input(case, 'after the idle original handle ended (%s) numpy.load gives %d rows and a reopened store reports %d batches; '
                               '%d rows / %d batches were written' % (end, len(got), n_re, len(rows), k1 + k2), rows, got)
    finally:
        shutil.rmtree(tmp, ignore_errors=True)


def run(ctx):
    process(ctx, gen_cases(ctx, ctx.budget(220, 1500)), ctx.budget(0.34, 1.0))
    check_pool(ctx)
    check_rebatch(ctx)
    check_rebatch_model(ctx)
    check_stale_handle(ctx)


def search(ctx):
    process(ctx, gen_cases(ctx, 1500), 1.0)


def replay(ctx, case):
    tmp = tempfile.mkdtemp(prefix='c06r-')
    try:
        base = {k: case[k] for k in ('b', 'shape', 'dtype', 'ops')}
        info = one_case(ctx, base, tmp)
        info['kills'] = True
        info['kill_points'] = [case['kill_before_event']] if 'kill_before_event' in case else list(range(info['n_events'] + 1))
        nb = sum(len(ob['events']) for ob in info['blind'].obs)
        info['blind_kill_points'] = list(range(nb + 1))
        if 'kill_before_event' in case:
            if case.get('blind'):
                info['kill_points'], info['blind_kill_points'] = [], [case['kill_before_event']]
            else:
                info['blind_kill_points'] = []
        a = ctx.lean.drive([info['mreq']])[0]
        check_case(ctx, info, a, tmp)
        return dict(observations=[dict(op=o, err=ob['err'], n=ob['n'], content=ob['content'], load=ob.get('load'))
                                  for o, ob in zip(base['ops'], info['runner'].obs)])
    finally:
        shutil.rmtree(tmp, ignore_errors=True)
