"""C07 — SMC-ABC populations: real elfi.SMC vs Model/Smc.lean + independent recomputation of every
population's weights / covariance / threshold from the populations' own data."""
import math

import numpy as np
import scipy.stats as ss

import compat
import elfi
from common import Timeout, with_timeout
from elfi.methods.utils import weighted_sample_quantile, weighted_var

compat.install_float_shim()

META = dict(
    rule='a case = (prior family uniform / normal / hierarchical normal-on-uniform / scale-parent / a user-written bounded Distribution class with pdf only, in 1-2 dimensions, seed, batch size, '
         'population size, a HISTORY of 1-2 sample() calls on one sampler each with a threshold list or a quantile list of 1-3 '
         'rounds). Non-trivial = >= 2 rounds in total; distinct by content',
    trusted_base=['scipy.stats for the prior densities and for the normal components of the mixture (diagonal covariance)',
                  'numeric comparison at 1e-9 relative (float arithmetic of the real code is not modelled)'],
    assumptions=['thresholds decrease slowly enough for the runs to terminate (drawn from pilot discrepancy quantiles)'],
    partial=['AdaptiveDistanceSMC / AdaptiveThresholdSMC are outside the property', 'the Lean model carries the round / reference '
             'structure (which earlier population each quantity refers to); the densities are evaluated numerically by the harness'],
)


def wq_ref(x, alpha, w):
    """the definition, independent of elfi's function: the least sample value whose cumulative normalised weight reaches alpha
    (same float normalisation as a straightforward implementation, so exact ties are decided identically)"""
    x, w = np.asarray(x, dtype=float), np.asarray(w, dtype=float)
    order = np.argsort(x, kind='stable')
    if alpha == 0:
        return float(x[order[0]])
    cw = np.cumsum((w / np.sum(w))[order])
    cw[-1] = 1.0
    k = int(np.argmax(cw >= alpha))
    return float(x[order][k])


class BoxPrior(elfi.Distribution):
    """a user-written bounded prior that implements `rvs` and `pdf` only (its log density is the inherited log(pdf))"""

    @classmethod
    def rvs(this, lo, width, size=1, random_state=None):
        return ss.uniform.rvs(lo, width, size=size, random_state=random_state)

    @classmethod
    def pdf(this, x, lo, width):
        return ss.uniform.pdf(x, lo, width)


def make_model(kind, dim):
    m = elfi.ElfiModel(name='smc')
    if kind == 'custom':
        ps = [elfi.Prior(BoxPrior, 0.3, 1.0, model=m, name='t%d' % i) for i in range(dim)]
    elif kind == 'uniform':
        ps = [elfi.Prior('uniform', -1, 3, model=m, name='t%d' % i) for i in range(dim)]
    elif kind == 'scales':
        # two parameters on very different scales (a rate in 1/1000 units next to a count): population variances 1e9 apart
        ps = [elfi.Prior('uniform', 0, 1000, model=m, name='t0'), elfi.Prior('uniform', 0, 0.05, model=m, name='t1')]
    elif kind == 'normal':
        ps = [elfi.Prior('norm', 0.5, 1.5, model=m, name='t%d' % i) for i in range(dim)]
    elif kind == 'hier-scale':
        # the parent is the SCALE of the child: outside the parent's support the child's log density is nan, not -inf
        t0 = elfi.Prior('uniform', 0.2, 1.0, model=m, name='t0')
        ps = [t0, elfi.Prior('norm', 0.5, t0, model=m, name='t1')]
    else:
        t0 = elfi.Prior('uniform', 0, 2, model=m, name='t0')
        ps = [t0, elfi.Prior('norm', t0, 1, model=m, name='t1')][:max(dim, 2)]

    def sim(*p, batch_size=1, random_state=None):
        if kind == 'scales':
            return (p[0] / 1000 + 20 * p[1]) / 2 + 0.5 * random_state.randn(batch_size)
        return sum(p) / len(p) + 0.5 * random_state.randn(batch_size)

    Y = elfi.Simulator(sim, *ps, model=m, name='Y', observed=np.array([0.8]))
    S = elfi.Summary(lambda y: y, Y, model=m, name='S')
    elfi.Distance('euclidean', S, model=m, name='d')
    return m, [p.name for p in ps]


def prior_logpdf(kind, theta):
    theta = np.atleast_2d(theta)
    if kind == 'custom':
        return np.sum(ss.uniform.logpdf(theta, 0.3, 1.0), axis=1)
    if kind == 'uniform':
        return np.sum(ss.uniform.logpdf(theta, -1, 3), axis=1)
    if kind == 'scales':
        return ss.uniform.logpdf(theta[:, 0], 0, 1000) + ss.uniform.logpdf(theta[:, 1], 0, 0.05)
    if kind == 'normal':
        return np.sum(ss.norm.logpdf(theta, 0.5, 1.5), axis=1)
    if kind == 'hier-scale':
        with np.errstate(all='ignore'):
            return ss.uniform.logpdf(theta[:, 0], 0.2, 1.0) + ss.norm.logpdf(theta[:, 1], 0.5, theta[:, 0])
    return ss.uniform.logpdf(theta[:, 0], 0, 2) + ss.norm.logpdf(theta[:, 1], theta[:, 0], 1)


def gm_logpdf(theta, means, cov, w):
    theta, means = np.atleast_2d(theta), np.atleast_2d(means)
    w = np.asarray(w, dtype=float) / np.sum(w)
    sd = np.sqrt(np.diag(np.atleast_2d(cov)))
    dens = np.zeros(len(theta))
    for m_, w_ in zip(means, w):
        dens += w_ * np.prod(ss.norm.pdf(theta, m_, sd), axis=1)
    return np.log(dens)


def gen_case(rng):
    kind = rng.choice(['uniform', 'normal', 'hier', 'hier-scale', 'custom', 'scales'])
    dim = 2 if kind.startswith('hier') or kind == 'scales' else rng.randint(1, 2)
    calls = []
    for _ in range(rng.choice([1, 1, 2])):
        if rng.random() < .5:
            qs = [rng.choice([0.3, 0.5, 0.7]) for _ in range(rng.randint(1, 3))]
            if rng.random() < .3:
                qs[0] = rng.choice([0.9, 1.0])          # a first-round budget barely above n_samples
            calls.append(dict(quantiles=qs))
        else:
            ths = sorted([rng.choice([2.0, 1.5, 1.2, 1.0, 0.8, 0.6]) for _ in range(rng.randint(1, 3))], reverse=True)
            calls.append(dict(thresholds=ths))
    return dict(prior=kind, dim=dim, seed=rng.randrange(2**31), b=rng.randint(2, 12), n=rng.randint(4, 25), calls=calls)


def one(ctx, case, reqs, meta):
    m, pnames = make_model(case['prior'], case['dim'])
    smc = elfi.SMC(m['d'], batch_size=case['b'], seed=case['seed'])
    prev_thr = None
    pops = None
    try:
        for c in case['calls']:
            if 'thresholds' in c:
                ths = c['thresholds']
                if prev_thr is not None:
                    ths = [min(t, prev_thr * 0.95) * (0.9 ** i) for i, t in enumerate(ths)]
                res = with_timeout(120, lambda: smc.sample(case['n'], list(ths), bar=False) if case['seed'] % 3 == 0 else smc.sample(case['n'], thresholds=list(ths), bar=False))     # positionally, too
                c['used_thresholds'] = list(ths)
            else:
                res = with_timeout(120, lambda: smc.sample(case['n'], None, list(c['quantiles']), bar=False) if case['seed'] % 3 == 0 else smc.sample(case['n'], quantiles=list(c['quantiles']), bar=False))
            pops = res.populations
            prev_thr = float(pops[-1].threshold)
            c['in_force'] = [None if t is None else float(t) for t in smc.objective['thresholds']]
    except Timeout:
        ctx.case(case, True)
        ctx.count('outcome', 'timeout')
        return
    except RuntimeError as e:                                      # all weights zero etc.
        ctx.case(case, True)
        ctx.count('outcome', 'RuntimeError')
        return
    except (IndexError, KeyError, TypeError, ValueError) as e:
        ctx.case(case, True)
        ctx.fail_input(case, 'SMC.sample raised %s: %s on this history of calls' % (type(e).__name__, str(e)[:100]))
        return
    total_rounds = len(pops)
    ctx.case(case, total_rounds >= 2)
    ctx.count('outcome', 'ok')
    ctx.count('rounds', total_rounds)
    ctx.count('prior', case['prior'])
    # --- direct statement of the property, population by population
    call_of, idx_in_call = [], []
    for ci, c in enumerate(case['calls']):
        k = len(c.get('thresholds', c.get('quantiles')))
        call_of += [ci] * k
        idx_in_call += list(range(k))
    nsim = 0
    refs = []
    for r, pop in enumerate(pops):
        where = dict(case, population=r)
        theta = np.column_stack([pop.outputs[p] for p in pnames])
        d = np.asarray(pop.discrepancies)
        nsim += pop.n_sim
        if len(d) != case['n'] or theta.shape[0] != case['n']:
            ctx.fail_input(where, 'population %d has %d particles, n_samples = %d' % (r, len(d), case['n']))
            return
        if np.any(d > pop.threshold + 1e-12):
            ctx.fail_input(where, 'population %d holds a discrepancy above its threshold %r' % (r, float(pop.threshold)))
            return
        lp = prior_logpdf(case['prior'], theta)
        if not np.all(np.isfinite(lp)):
            ctx.fail_input(where, 'population %d holds a particle with zero prior density' % r)
            return
        c = case['calls'][call_of[r]]
        if 'thresholds' in c:
            want = c.get('used_thresholds', c['thresholds'])[idx_in_call[r]]
            if not (pop.threshold <= want + 1e-12):
                ctx.fail_input(where, 'population %d: threshold %r exceeds the user threshold %r' % (r, float(pop.threshold), want))
                return
        elif r == 0:
            # the very first round of a quantile run has a simulation budget ceil(n / q0), consumed in whole batches (C01)
            q0 = c['quantiles'][0]
            want_sim = case['b'] * math.ceil(math.ceil(case['n'] / q0) / case['b'])
            if pop.n_sim != want_sim or not np.all(np.isfinite(d)):
                ctx.fail_input(where, 'first population of a quantile run: %d simulations (budget ceil(n/q) = %d in batches of %d -> %d), finite discrepancies: %s'
                               % (pop.n_sim, math.ceil(case['n'] / q0), case['b'], want_sim, bool(np.all(np.isfinite(d)))), want_sim, int(pop.n_sim))
                return
        elif r > 0:
            want = wq_ref(pops[r - 1].discrepancies, c['quantiles'][idx_in_call[r]], pops[r - 1].weights)
            used = c['in_force'][r] if r < len(c.get('in_force', [])) else None
            if used is None or not math.isclose(used, float(want), rel_tol=1e-12, abs_tol=0):
                ctx.fail_input(where, 'population %d: the threshold in force %r is not the %r-quantile %r of the population immediately before (weighted by its weights)'
                               % (r, used, c['quantiles'][idx_in_call[r]], float(want)), float(want), used)
                return
            if not np.all(d <= want + 1e-12):
                ctx.fail_input(where, 'population %d: discrepancies exceed the %r-quantile %r of the previous population' % (r, c['quantiles'][idx_in_call[r]], float(want)))
                return
        w = np.asarray(pop.weights, dtype=float)
        if r == 0:
            ok = np.allclose(w, 1.0)
            refs.append(None)
        else:
            # which earlier population reproduces the weights?  (must be r-1)
            match = []
            for q in range(r):
                pq = pops[q]
                mq = np.column_stack([pq.outputs[p] for p in pnames])
                wq = lp - gm_logpdf(theta, mq, pq.cov, pq.weights)
                if np.allclose(w, np.exp(wq), rtol=1e-8, atol=1e-300):
                    match.append(q)
            ok = (r - 1) in match
            refs.append(match)
        if not ok:
            ctx.fail_input(where, 'weights of population %d are not prior / Gaussian-mixture density of population %d (they match populations %s)'
                           % (r, r - 1, refs[-1]), r - 1, refs[-1])
            return
        cov_exp = 2 * np.diag(np.atleast_1d(weighted_var(theta, w)))
        if not np.allclose(np.atleast_2d(pop.cov), cov_exp, rtol=1e-9):
            ctx.fail_input(where, 'cov of population %d is not twice the weighted sample variance' % r)
            return
    if res.n_sim != nsim or res.n_sim != smc.state['n_sim']:
        ctx.fail_input(case, 'reported n_sim %d is not the total over all rounds %d' % (res.n_sim, nsim), nsim, res.n_sim)
        return
    # exact-rational model of the weights of one later population (prior and component densities from scipy as a table)
    if total_rounds >= 2:
        from fractions import Fraction as F

        def q(v):
            f = F(float(v))
            return [f.numerator, f.denominator]
        r = total_rounds - 1
        prev, cur = pops[r - 1], pops[r]
        th = np.column_stack([cur.outputs[p] for p in pnames])[:6]
        mq = np.column_stack([prev.outputs[p] for p in pnames])
        sd = np.sqrt(np.diag(np.atleast_2d(prev.cov)))
        kern = [[q(np.prod(ss.norm.pdf(x, m_, sd))) for m_ in mq] for x in th]
        pri = [q(math.exp(v)) for v in prior_logpdf(case['prior'], th)]
        reqs.append(dict(op='C07.weights', prior=pri, kernel=kern, w=[q(v) for v in np.asarray(prev.weights, dtype=float)]))
        meta.append(('weights', dict(case, population=r), [float(v) for v in np.asarray(cur.weights, dtype=float)[:6]]))
    reqs.append(dict(op='C07.history', calls=[dict(quantiles='quantiles' in c,
                                                   rounds=[[1000 * ci + i, 1] for i in range(len(c.get('thresholds', c.get('quantiles'))))])
                                              for ci, c in enumerate(case['calls'])]))
    meta.append(('history', case, refs))


def process(ctx, n):
    reqs, meta = [], []
    forced = [[dict(thresholds=[1.5, 1.0]), dict(thresholds=[0.8, 0.6])],
              [dict(quantiles=[0.5, 0.5]), dict(quantiles=[0.5])],
              [dict(thresholds=[2.0, 1.2, 0.8]), dict(quantiles=[0.5, 0.7])],
              [dict(quantiles=[0.7, 0.5]), dict(thresholds=[0.6])]]
    for i in range(n):
        if ctx.enough():
            break
        case = gen_case(ctx.rng)
        if i < len(forced):                      # every run covers continued sampling after a multi-round call
            case['calls'] = [dict(c) for c in forced[i]]
            if i in (1, 2):
                case.update(prior='hier-scale', dim=2)
            else:
                case.update(prior='custom', dim=1 + i % 2)         # a user-written bounded prior class with `pdf` only
        elif i == len(forced) + 4:               # parameters on scales 1e4.5 apart: every population's covariance, every weight
            case.update(prior='scales', dim=2, calls=[dict(quantiles=[0.5, 0.5, 0.5])])
        elif i == len(forced) + 3:               # first-round budget barely above n with a batch size that does not divide it
            case.update(n=10, b=7, calls=[dict(quantiles=[0.9, 0.5])])
        elif i < len(forced) + 3:                # unit weights, population size a power of two, dyadic quantile: the cumulative
            case['n'] = [8, 16, 32][i - len(forced)]      # weight ties EXACTLY with alpha
            case['calls'] = [dict(quantiles=[0.5, [0.5, 0.25, 0.75][i - len(forced)]])]
        one(ctx, case, reqs, meta)
    if ctx.driver_ok and reqs:
        for (kind, case, refs), a in zip(meta, ctx.lean.drive(reqs)):
            m = a.get('ok')
            if m is None:
                ctx.corr_break('driver', case, a, None)
                continue
            if kind == 'weights':
                mw = [v[0] / v[1] for v in m['weights']]
                if not np.allclose(mw, refs, rtol=1e-9, atol=1e-300):
                    ctx.corr_break('importance-weights', case, mw, refs)
                continue
            mrefs = [p['ref'] for p in m['pops']]
            if len(mrefs) != len(refs) or any((mr is None) != (rr is None) or (mr is not None and mr not in rr) for mr, rr in zip(mrefs, refs)):
                ctx.corr_break('weight-reference', case, mrefs, refs)


def run(ctx):
    process(ctx, ctx.budget(25, 500))


def search(ctx):
    process(ctx, 300)


def replay(ctx, case):
    base = {k: v for k, v in case.items() if k != 'population'}
    one(ctx, base, [], [])
    return dict(calls=base.get('calls'))
