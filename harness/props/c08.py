"""C08 — joint model prior: real ModelPrior.pdf / logpdf / rvs / gradient_logpdf vs scipy evaluated directly
and vs Model/Prior.lean (lookup-by-name wiring + reduce)."""
import itertools
import math
from fractions import Fraction as F

import numpy as np
import scipy.stats as ss

import compat
import elfi
from elfi.model.extensions import ModelPrior

compat.install_float_shim()

META = dict(
    rule='a case = (hierarchy of 1-5 parameter nodes from {uniform, norm, expon, beta, gamma, truncnorm} with constant or '
         'parameter-valued arguments, parents possibly DECLARED in another order than they are passed, an ordering of '
         'parameter_names, optionally an ancestrally closed subset; query points inside / on the boundary / outside the support; '
         'scalar, vector and matrix shaped queries). Non-trivial = a hierarchical prior or a non-default order/subset; distinct by content',
    trusted_base=['scipy.stats densities are the conditional densities (the model takes them as a table)',
                  'gradient_logpdf is a central difference (h=1e-5): compared with the analytic derivative at 1e-4'],
    assumptions=['a requested subset contains the parameter parents of its members (otherwise "given its parents\' values at that point" is undefined)'],
    partial=['densities themselves are scipy\'s'],
)

FAMS = ['uniform', 'norm', 'expon', 'beta', 'gamma', 'truncnorm', 't']


def q2j(x):
    f = F(float(x))
    return [f.numerator, f.denominator]


def j2f(j):
    return j[0] / j[1]


def dist_args(fam, rng, parent=None):
    """returns list of args (numbers or the name of a parent) and a function giving scipy frozen dist for parent value"""
    if fam == 'uniform':
        return [parent if parent else rng.choice([0.0, -1.0]), rng.choice([1.0, 2.0])]
    if fam == 'norm':
        return [parent if parent else rng.choice([0.0, 1.0]), rng.choice([0.5, 1.0, 2.0])]
    if fam == 'expon':
        return [parent if parent else 0.0, rng.choice([1.0, 2.0])]
    if fam == 'beta':
        return [rng.choice([2.0, 3.0]), rng.choice([2.0, 1.5])]
    if fam == 'gamma':
        return [rng.choice([2.0, 3.0]), parent if parent else 0.0, 1.0]
    return [-1.0, 2.0, parent if parent else 0.0, 1.0]          # truncnorm(a, b, loc, scale)


def build(rng):
    n = rng.randint(1, 5)
    names = []
    while len(names) < n:
        nm = rng.choice('abmtxZ') + str(rng.randint(0, 9))
        if nm not in names:
            names.append(nm)
    spec = []
    for i, nm in enumerate(names):
        fam = rng.choice(FAMS)
        parent = rng.choice(names[:i]) if i and rng.random() < .5 and fam != 'beta' else None
        if fam == 't':
            # Student t with THREE arguments (df, loc, scale); loc and scale may both be parameters, and the scale parent may have been
            # created BEFORE or AFTER the loc parent (positional order vs creation order)
            pos = [s_[0] for s_ in spec if s_[1] in ('beta', 'gamma') and not any(isinstance(a, str) for a in s_[2])]     # positive parameters
            scale = rng.choice(pos) if pos and rng.random() < .7 else rng.choice([0.5, 1.0, 2.0])
            loc = rng.choice([n_ for n_ in names[:i] if n_ != scale] or [0.0]) if i and rng.random() < .7 else rng.choice([0.0, 1.0])
            spec.append((nm, 't', [4.0, loc, scale]))
            continue
        spec.append((nm, fam, dist_args(fam, rng, parent)))
    # declaration order may differ from dependency order for the constants only (parents must exist first)
    m = elfi.ElfiModel(name='pr')
    for nm, fam, args in spec:
        elfi.Prior(fam, *[(m[a] if isinstance(a, str) else a) for a in args], model=m, name=nm)
    return m, spec


def cond_density(spec_entry, xval, values, log=False):
    nm, fam, args = spec_entry
    a = [(values[v] if isinstance(v, str) else v) for v in args]
    d = getattr(ss, fam)
    return float(d.logpdf(xval, *a)) if log else float(d.pdf(xval, *a))


def closed_subsets(spec):
    names = [s[0] for s in spec]
    par = {s[0]: [a for a in s[2] if isinstance(a, str)] for s in spec}
    out = []
    for r in range(1, len(names) + 1):
        for sub in itertools.combinations(names, r):
            if all(all(p in sub for p in par[n]) for n in sub):
                out.append(list(sub))
    return out


def points(rng, spec, order):
    """query points: a draw-like inside point, boundary and outside variants"""
    vals = {}
    for nm, fam, args in spec:
        a = [(vals[v] if isinstance(v, str) else v) for v in args]
        d = getattr(ss, fam)(*a)
        vals[nm] = float(d.ppf(rng.choice([0.2, 0.5, 0.8])))
    pts = [dict(vals)]
    for _ in range(4):
        v = dict(vals)
        nm, fam, args = rng.choice(spec)
        a = [(v[x] if isinstance(x, str) else x) for x in args]
        d = getattr(ss, fam)(*a)
        lo, hi = d.support()
        kind = rng.choice(['lo', 'hi', 'below', 'above', 'inside'])
        if kind == 'lo' and math.isfinite(lo):
            v[nm] = float(lo)
        elif kind == 'hi' and math.isfinite(hi):
            v[nm] = float(hi)
        elif kind == 'below' and math.isfinite(lo):
            v[nm] = float(lo) - 0.5
        elif kind == 'above' and math.isfinite(hi):
            v[nm] = float(hi) + 0.5
        else:
            v[nm] = float(d.ppf(rng.random() * 0.9 + 0.05))
        pts.append(v)
    return [[p[n] for n in order] for p in pts], pts


def check(ctx):
    rng = ctx.rng
    reqs, meta = [], []
    for it in range(ctx.budget(40, 700)):
        if ctx.enough():
            break
        m, spec = build(rng)
        names = [s[0] for s in spec]
        subs = closed_subsets(spec)
        sub = rng.choice(subs) if rng.random() < .4 else list(m.parameter_names)
        order = list(sub)
        if rng.random() < .6:
            rng.shuffle(order)
        default = order == list(m.parameter_names)
        case = dict(spec=[[s[0], s[1], s[2]] for s in spec], parameter_names=order)
        hier = any(isinstance(a, str) for s in spec for a in s[2])
        ctx.case(case, hier or not default)
        ctx.count('n_params', len(spec))
        ctx.count('request', 'default' if default else ('subset' if len(order) < len(names) else 'reordered'))
        try:
            prior = ModelPrior(m, parameter_names=None if default else order)
        except Exception as e:                                    # noqa
            ctx.fail_input(case, 'ModelPrior could not be built: %s' % str(e)[:100])
            continue
        sspec = {s[0]: s for s in spec}
        X, pts = points(rng, spec, order)
        bad = False
        for x, pv in zip(X, pts):
            with np.errstate(all='ignore'):
                exp = np.prod([cond_density(sspec[n], pv[n], pv) for n in order])
                lexp = sum(cond_density(sspec[n], pv[n], pv, log=True) for n in order)
                got = float(np.ravel(prior.pdf(np.array(x)))[0])
                lgot = float(np.ravel(prior.logpdf(np.array(x)))[0])
            where = dict(case, x=x)
            if math.isnan(exp) or math.isnan(lexp):
                ctx.count('point', 'conditional density undefined (invalid argument from a parent outside its support)')
                continue
            if not math.isclose(got, exp, rel_tol=1e-9, abs_tol=1e-300) or (exp == 0) != (got == 0):
                ctx.fail_input(where, 'pdf %r differs from the product of the conditional densities %r (requested %s)' % (got, exp, order), exp, got)
                bad = True
                break
            if not ((math.isinf(lexp) and lexp < 0 and math.isinf(lgot) and lgot < 0) or math.isclose(lgot, lexp, rel_tol=1e-9, abs_tol=1e-9)):
                ctx.fail_input(where, 'logpdf %r differs from the sum of the conditional log densities %r' % (lgot, lexp), lexp, lgot)
                bad = True
                break
            # model: lookup-by-name wiring + reduce, with the scipy values as the table
            nodes, table = [], []
            rk = {n: i for i, n in enumerate(sorted(names))}
            for n in order:
                nm, fam, args = sspec[n]
                nodes.append(dict(name=rk[n], parents=[(['param', rk[a]] if isinstance(a, str) else ['const', q2j(a)]) for a in args]))
                key = [q2j(pv[n])] + [q2j(pv[a] if isinstance(a, str) else a) for a in args]
                table.append([rk[n], key, q2j(cond_density(sspec[n], pv[n], pv))])
            reqs.append(dict(op='C08.joint', nodes=nodes, x=[q2j(v) for v in x], table=table, log=False))
            meta.append((where, got))
        if bad:
            continue
        # shapes: scalar / vector / matrix queries
        Xa = np.array(X)
        with np.errstate(all='ignore'):
            mat = np.asarray(prior.pdf(Xa))
            row = prior.pdf(Xa[0])
            if mat.shape != (len(Xa),) or np.ndim(row) != (0 if len(order) > 1 else 1) or not math.isclose(float(np.ravel(row)[0]), float(mat[0]), rel_tol=1e-12):
                ctx.fail_input(case, 'scalar / vector / matrix queries give inconsistently shaped answers: matrix %s, single row ndim %d'
                               % (mat.shape, np.ndim(row)))
                continue
        # one prior object, consecutive queries of the SAME point in other shapes / dtypes (an answer must depend on the query at
        # hand only, never on the previous one): shape () / (d,) -> one value, shape (1, d) -> one row
        d = len(order)
        x0 = np.array(X[0], dtype=float)
        shapes = [(d,), (1, d)] if d > 1 else [(), (1,), (1, 1)]
        hist_bad = None
        with np.errstate(all='ignore'):
            for fn_name in ('pdf', 'logpdf'):
                fn = getattr(prior, fn_name)
                ref = float(np.ravel(fn(x0.reshape(shapes[0])))[0])
                for s1 in shapes:
                    for s2 in shapes:
                        fn(x0.reshape(s1))
                        r2 = fn(x0.reshape(s2))
                        want_nd = 0 if (len(s2) == 0 or (len(s2) == 1 and d > 1)) else 1
                        v2 = float(np.ravel(r2)[0])
                        if np.ndim(r2) != want_nd or np.size(r2) != 1 or not (v2 == ref or (math.isnan(v2) and math.isnan(ref))
                                                                             or math.isclose(v2, ref, rel_tol=1e-12)):
                            hist_bad = '%s of the point in shape %s right after the same point in shape %s: answer of shape %s value %r, expected ndim %d value %r' \
                                % (fn_name, s2, s1, np.shape(r2), v2, want_nd, ref)
                # another dtype whose bytes equal those of a different float point
                xi = np.ones(d, dtype=np.int64)
                a = np.ravel(fn(xi.astype(float)))[0]
                fn(xi.view(np.float64))
                b = np.ravel(fn(xi))[0]
                if not (a == b or (np.isnan(a) and np.isnan(b))):
                    hist_bad = '%s of the integer-typed point %s gives %r right after a query of the float point with the same bytes; alone it gives %r' \
                        % (fn_name, xi.tolist(), float(b), float(a))
        ctx.count('query_history', 'same point, other shape / dtype, consecutive')
        if hist_bad:
            ctx.fail_input(dict(case, x=X[0]), 'consecutive queries on one ModelPrior: ' + hist_bad)
            continue
        # matrix-shaped gradient query with zero-density rows in ANY position: row i is the gradient at row i
        with np.errstate(all='ignore'):
            order_rows = list(range(len(Xa)))
            rng.shuffle(order_rows)
            Xg = Xa[order_rows]
            G = np.asarray(prior.gradient_logpdf(Xg))
            G = G.reshape(len(Xg), -1)
            lrow = np.ravel(prior.logpdf(Xg))
            for i in range(len(Xg)):
                if math.isfinite(lrow[i]):
                    gi = np.ravel(prior.gradient_logpdf(Xg[i]))
                    if np.all(np.isfinite(gi)) and not np.allclose(G[i], gi, rtol=1e-6, atol=1e-8):
                        ctx.fail_input(dict(case, X=Xg.tolist(), row=i), 'row %d of a matrix-shaped gradient query is %s, the gradient at that point alone is %s '
                                       '(rows with zero density elsewhere in the matrix)' % (i, G[i].tolist(), gi.tolist()), gi.tolist(), G[i].tolist())
                        break
        if ctx.failing:
            continue
        # rvs: positive density, right shape
        rs = np.random.RandomState(rng.randrange(2**31))
        with np.errstate(all='ignore'):
            draws = prior.rvs(size=6, random_state=rs)
            dens = np.asarray(prior.pdf(draws.reshape(6, -1)))
        if draws.shape != ((6, len(order)) if len(order) > 1 else (6,)) or not np.all(dens > 0):
            ctx.fail_input(case, 'draws from the joint prior have shape %s / non-positive density %s' % (draws.shape, dens.tolist()))
            continue
        # gradient of the log density at the inside point
        x0 = np.array(X[0])
        with np.errstate(all='ignore'):
            g = np.atleast_1d(prior.gradient_logpdf(x0))
            h = 1e-6
            num = []
            for i in range(len(order)):
                e = np.zeros(len(order))
                e[i] = h
                num.append((float(np.ravel(prior.logpdf(x0 + e))[0]) - float(np.ravel(prior.logpdf(x0 - e))[0])) / (2 * h))
        if np.all(np.isfinite(num)) and not np.allclose(g, num, rtol=1e-3, atol=1e-3):
            ctx.fail_input(dict(case, x=X[0]), 'gradient_logpdf %s disagrees with the derivative of logpdf %s' % (g.tolist(), num))
    if ctx.driver_ok:
        for (case, got), a in zip(meta, ctx.lean.drive(reqs)):
            mv = a.get('ok', {}).get('joint')
            if mv is None or not math.isclose(j2f(mv), got, rel_tol=1e-9, abs_tol=1e-300):
                ctx.corr_break('joint', case, None if mv is None else j2f(mv), got)


def run(ctx):
    check(ctx)


def search(ctx):
    ctx.tier = 'thorough'
    check(ctx)


def replay(ctx, case):
    m = elfi.ElfiModel(name='pr')
    for nm, fam, args in case['spec']:
        elfi.Prior(fam, *[(m[a] if isinstance(a, str) else a) for a in args], model=m, name=nm)
    order = case['parameter_names']
    prior = ModelPrior(m, parameter_names=None if order == list(m.parameter_names) else order)
    out = {}
    if 'x' in case:
        sspec = {s[0]: s for s in case['spec']}
        pv = dict(zip(order, case['x']))
        with np.errstate(all='ignore'):
            exp = np.prod([cond_density(sspec[n], pv[n], pv) for n in order])
            got = float(np.ravel(prior.pdf(np.array(case['x'])))[0])
        out = dict(expected=exp, got=got)
        if not math.isclose(got, exp, rel_tol=1e-9, abs_tol=1e-300):
            ctx.fail_input(case, 'pdf differs from the product of the conditional densities')
    return out
