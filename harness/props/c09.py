"""C09 — MCMC kernels: real elfi.methods.mcmc.metropolis / nuts vs Model/Mcmc.lean + direct statements."""
import math
from fractions import Fraction as F

import numpy as np

import compat
import elfi.methods.mcmc as mcmc
from common import Timeout, with_timeout

compat.install_float_shim()

META = dict(
    rule='metropolis: (a) scripted generator on an integer lattice (sigma=1, integer normals, log-target = k*ln2 / -inf / '
         '+inf / nan from a table, uniforms off the power-of-two grid) compared state by state with the Lean model; (b) real '
         'generator on smooth / truncated / NaN-pocket targets compared bit for bit with an independently written chain. '
         'nuts: every _build_tree_nuts call of real runs is logged (leaf slice tests, divergence tests, U-turn outcomes, '
         'uniforms) and replayed by the Lean tree model, which must reproduce proposal leaf, n_sub, sub_ok and the number of '
         'uniforms consumed. Non-trivial = a chain with >= 1 rejection and >= 1 acceptance / a tree of depth >= 1; distinct by content',
    trusted_base=['numpy RandomState stream order inside metropolis/nuts (randn then rand per iteration) - validated by the independent replay',
                  'floating-point evaluation of exp/inner products is taken from the real run (logged outcomes), not modelled'],
    assumptions=['uniform draws lie in [0,1)', 'the start point has a log-target that is neither inf nor nan'],
    partial=['"reproduces the target\'s moments" is a statistical statement: checked by a fixed-seed z-test and labelled a test',
             'NUTS step-size adaptation arithmetic is not modelled (the tree building and acceptance logic is)'],
)

LN2 = math.log(2.0)


class Scripted(np.random.RandomState):
    zs, us = [], []

    def __init__(self, seed=None):
        super().__init__(0)
        self.iz = self.iu = 0

    def randn(self, *shape):
        z = np.array(self.zs[self.iz], dtype=float).reshape(shape)
        self.iz += 1
        return z

    def rand(self, *a):
        u = self.us[self.iu]
        self.iu += 1
        return u


def tv_float(v):
    if v == 'nan':
        return float(np.float64(np.inf) - np.float64(np.inf))      # a COMPUTED nan (a fresh object each time), as a log of a negative number would be
    if v == 'ninf':
        return float(-np.exp(np.float64(800.0)))                  # a computed -inf
    return {'pinf': np.inf}.get(v, v * LN2 if not isinstance(v, str) else None)


def lattice_case(rng):
    d = rng.randint(1, 3)
    n = rng.randint(1, 40)
    w = rng.randint(0, 8)
    table = {}
    R = 3
    import itertools
    for pos in itertools.product(range(-R, R + 1), repeat=d):
        r = rng.random()
        table[pos] = 'ninf' if r < .12 else ('nan' if r < .18 else ('pinf' if r < .2 else rng.randint(-6, 3)))
    table[(0,) * d] = rng.randint(-2, 2)
    default = rng.choice(['ninf', 'ninf', 'nan'])
    draws = []
    for _ in range(n + w):
        z = [rng.choice([-2, -1, -1, 0, 1, 1, 2]) for _ in range(d)]
        u = F(rng.randint(0, 15), 16) + F(1, 64) if rng.random() < .9 else F(0)
        draws.append((z, u))
    return dict(kind='lattice', d=d, n=n, warmup=w, table=[[list(k), v] for k, v in table.items()], default=default,
                draws=[[z, [u.numerator, u.denominator]] for z, u in draws])


def run_lattice(case):
    table = {tuple(k): v for k, v in case['table']}
    default = case['default']

    def target(x):
        return tv_float(table.get(tuple(int(round(v)) for v in x), default))

    Scripted.zs = [z for z, _ in case['draws']]
    Scripted.us = [float(F(u[0], u[1])) for _, u in case['draws']]
    orig = np.random.RandomState
    np.random.RandomState = Scripted
    try:
        out = mcmc.metropolis(case['n'], np.zeros(case['d']), target, np.ones(case['d']), warmup=case['warmup'], seed=0)
    finally:
        np.random.RandomState = orig
    return [[int(v) for v in row] for row in out], target


def reference_metropolis(n, x0, target, sigma, warmup, rs):
    """independently written random-walk Metropolis replaying the same generator"""
    x = np.array(x0, dtype=float)
    tx = target(x)
    out = []
    for i in range(n + warmup):
        prop = x + sigma * rs.randn(*x.shape)
        tp = target(prop)
        u = rs.rand()
        with np.errstate(all='ignore'):
            ok = (not (np.exp(tp - tx) < u)) and math.isfinite(tp)
        if ok:
            x, tx = prop, tp
        out.append(x.copy())
    return np.array(out[warmup:])


TARGETS = {
    'gauss': lambda x: -0.5 * float(np.sum(x ** 2)),
    'box': lambda x: -0.5 * float(np.sum(x ** 2)) if np.all(np.abs(x) < 1.0) else -np.inf,
    'halfline': lambda x: -float(np.sum(x)) if np.all(x > 0) else -np.inf,
    'nanpocket': lambda x: (float(np.log(np.float64(-1.0))) if 0.5 < x[0] < 0.8 else -0.5 * float(np.sum(x ** 2))),     # computed nan
    'gamma': lambda x: float(np.sum(np.log(np.asarray(x, dtype=float)) - x)),      # Gamma(2,1) per coordinate: nan (log of a negative number) outside the support
}


def check_metropolis(ctx):
    rng = ctx.rng
    reqs, meta = [], []
    for it in range(ctx.budget(150, 2500)):
        if ctx.enough():
            break
        case = lattice_case(rng)
        chain, target = run_lattice(case)
        # non-trivial: at least one move and one stay
        moves = sum(1 for a, b in zip(chain, chain[1:]) if a != b)
        ctx.case(case, 0 < moves < max(len(chain) - 1, 1))
        ctx.count('metro.lattice.d', case['d'])
        # direct: independent replay with the same scripted draws
        Scripted.zs = [z for z, _ in case['draws']]
        Scripted.us = [float(F(u[0], u[1])) for _, u in case['draws']]
        ref = reference_metropolis(case['n'], np.zeros(case['d']), target, np.ones(case['d']), case['warmup'], Scripted())
        ref = [[int(v) for v in r] for r in ref]
        if chain != ref or len(chain) != case['n']:
            ctx.fail_input(case, 'metropolis chain differs from the random-walk Metropolis chain of the same draws (or wrong length %d)'
                           % len(chain), ref[:20], chain[:20])
        bad = [x for x in chain if not math.isfinite(target(np.array(x, dtype=float)))]
        if bad:
            ctx.fail_input(case, 'chain visits a state whose log-target is inf/nan: %s' % bad[:3], 'finite log-target', bad[:3])
        reqs.append(dict(op='C09.metro', start=[0] * case['d'], table=case['table'], default=case['default'],
                         draws=case['draws'], n=case['n'], warmup=case['warmup']))
        meta.append((case, chain))
    # real generator
    for it in range(ctx.budget(40, 600)):
        if ctx.enough():
            break
        name = rng.choice(list(TARGETS))
        d = rng.randint(1, 3)
        seed = rng.randrange(2**31)
        n, w = rng.randint(1, 200), rng.randint(0, 20)
        sigma = np.array([rng.choice([0.3, 1.0, 2.5]) for _ in range(d)])
        # the initial point as a user may well hand it over: float64, an integer array (a grid point), single precision - the chain is
        # the algorithm's chain of real-valued states whatever the dtype of the start
        init = ['float64', 'int64', 'float32'][it % 3] if it >= 3 else 'float64'
        if init == 'int64':
            x0 = (np.zeros(d, dtype=np.int64) if name in ('gauss', 'box', 'nanpocket') else np.ones(d, dtype=np.int64))
        elif init == 'float32':
            x0 = np.full(d, 0.25, dtype=np.float32)
        else:
            x0 = np.full(d, 0.2)
        ctx.count('metro.real.init_dtype', init)
        case = dict(kind='real', target=name, d=d, seed=seed, n=n, warmup=w, sigma=sigma.tolist(), init=init, x0=x0.tolist())
        tgt = TARGETS[name]
        with np.errstate(all='ignore'):
            out = mcmc.metropolis(n, x0, tgt, sigma, warmup=w, seed=seed)
            out2 = mcmc.metropolis(n, x0, tgt, sigma, warmup=w, seed=seed)
            ref = reference_metropolis(n, x0.astype(np.float64), tgt, sigma, w, np.random.RandomState(seed))
        ctx.case(case, n >= 5)
        ctx.count('metro.real.target', name)
        if out.shape != (n, d) or not np.array_equal(out, ref):
            ctx.fail_input(case, 'metropolis output differs from the independently written chain on the same RandomState stream',
                           ref[:5].tolist(), out[:5].tolist())
        if not np.array_equal(out, out2):
            ctx.fail_input(case, 'metropolis is not deterministic in its seed')
        vals = [tgt(x) for x in out]
        if not all(math.isfinite(v) for v in vals):
            ctx.fail_input(case, 'metropolis returned a state outside the support (log-target inf/nan)')
    if ctx.driver_ok:
        for (case, chain), a in zip(meta, ctx.lean.drive(reqs)):
            if a.get('ok', {}).get('chain') != chain:
                ctx.corr_break('metropolis', case, a.get('ok', {}).get('chain', a)[:20] if isinstance(a.get('ok', {}).get('chain'), list) else a, chain[:20])


# ------------------------------------------------------------------------------------------
GRADS = {
    'gauss': lambda x: -x,
    'box': lambda x: -x,
    'halfline': lambda x: -np.ones_like(x),
}


class TreeLog:
    def __init__(self):
        self.tops, self.stack = [], []


class LogRS(np.random.RandomState):
    """RandomState whose rand() draws are copied to a sink while a top-level tree is being built"""
    sink = None

    def rand(self, *a):
        u = super().rand(*a)
        if LogRS.sink is not None:
            LogRS.sink.append(float(u))
        return u


def nuts_with_log(name, d, seed, n_iter, max_depth, n_adapt):
    tgt, grad = TARGETS[name], GRADS[name]
    log = TreeLog()
    orig = mcmc._build_tree_nuts

    def wrapper(params, momentum, log_slicevar, step, depth, log_joint0, target, grad_target, random_state):
        rec = dict(depth=depth, fwd=step > 0, children=[])
        top = not log.stack
        if top:
            log.tops.append(rec)
            draws = []
            LogRS.sink = draws
        else:
            log.stack[-1]['children'].append(rec)
        log.stack.append(rec)
        try:
            out = orig(params, momentum, log_slicevar, step, depth, log_joint0, target, grad_target, random_state)
        finally:
            log.stack.pop()
            if top:
                LogRS.sink = None
                rec['us'] = draws
        rec['params1'] = np.array(out[4], copy=True)
        rec['n_sub'], rec['sub_ok'] = int(out[5]), bool(out[6])
        return out

    mcmc._build_tree_nuts = wrapper
    orig_rs = np.random.RandomState
    np.random.RandomState = LogRS
    try:
        with np.errstate(all='ignore'):
            x0 = np.full(d, 0.3)
            samples = with_timeout(60, lambda: mcmc.nuts(n_iter, x0, tgt, grad, n_adapt=n_adapt, max_depth=max_depth, seed=seed))
    finally:
        mcmc._build_tree_nuts = orig
        np.random.RandomState = orig_rs
        LogRS.sink = None
    return samples, log.tops, tgt


def tree_request(top):
    """abstract a logged top-level tree into the tables of the Lean replay"""
    sign = 1 if top['fwd'] else -1
    leaves = []

    def walk(rec):
        if rec['depth'] == 0:
            leaves.append(rec)
            rec['pos'] = sign * len(leaves)
            rec['lo'] = rec['hi'] = rec['pos']
        else:
            for ch in rec['children']:
                walk(ch)
            rec['lo'] = min(ch['lo'] for ch in rec['children'])
            rec['hi'] = max(ch['hi'] for ch in rec['children'])
    walk(top)
    sle = [[l['pos'], l['n_sub'] == 1] for l in leaves]
    nd = [[l['pos'], l['sub_ok']] for l in leaves]
    ut = []

    def walk2(rec):
        if rec['depth'] > 0:
            for ch in rec['children']:
                walk2(ch)
            if len(rec['children']) == 2 and rec['children'][1]['sub_ok']:
                ut.append([rec['lo'], rec['hi'], rec['sub_ok']])
    walk2(top)
    pos = [l['pos'] for l in leaves if np.array_equal(l['params1'], top['params1'])]
    us = [[F(u).numerator, F(u).denominator] for u in top['us']]
    return dict(op='C09.tree', depth=top['depth'], fwd=top['fwd'], start=0, sliceLe=sle, noDiverge=nd, uturn=ut, us=us), \
        dict(prop=pos, nOk=top['n_sub'], subOk=top['sub_ok'], used=len(top['us']), leaves=len(leaves))


def check_nuts(ctx):
    rng = ctx.rng
    reqs, meta = [], []
    for it in range(ctx.budget(10, 120)):
        if ctx.enough():
            break
        name = rng.choice(list(GRADS))
        d = rng.randint(1, 3)
        seed = rng.randrange(2**31)
        n_iter = rng.choice([20, 60, 150])
        max_depth = rng.randint(1, 5)
        n_adapt = rng.choice([0, n_iter // 2, n_iter // 4])
        case = dict(kind='nuts', target=name, d=d, seed=seed, n_iter=n_iter, max_depth=max_depth, n_adapt=n_adapt)
        try:
            samples, tops, tgt = nuts_with_log(name, d, seed, n_iter, max_depth, n_adapt)
            with np.errstate(all='ignore'):
                again = mcmc.nuts(n_iter, np.full(d, 0.3), TARGETS[name], GRADS[name], n_adapt=n_adapt, max_depth=max_depth, seed=seed)
        except Timeout:
            ctx.fail_input(case, 'nuts did not return within 60 s')
            continue
        except (ValueError, SystemExit) as e:
            ctx.count('nuts.init_failed', type(e).__name__)
            continue
        ctx.case(case, True)
        ctx.count('nuts.target', name)
        if samples.shape != (n_iter, d):
            ctx.fail_input(case, 'nuts returned %s states, %d requested' % (samples.shape, n_iter), n_iter, list(samples.shape))
        if it < 4:
            # the same start handed over as an integer array / in single precision: same real-valued chain
            with np.errstate(all='ignore'):
                try:
                    xs = np.full(d, 0.5)
                    a64 = mcmc.nuts(30, xs, TARGETS[name], GRADS[name], n_adapt=10, max_depth=3, seed=seed)
                    a32 = mcmc.nuts(30, xs.astype(np.float32), TARGETS[name], GRADS[name], n_adapt=10, max_depth=3, seed=seed)
                    i64 = mcmc.nuts(30, np.zeros(d), TARGETS['gauss'], GRADS['gauss'], n_adapt=10, max_depth=3, seed=seed)
                    iint = mcmc.nuts(30, np.zeros(d, dtype=np.int64), TARGETS['gauss'], GRADS['gauss'], n_adapt=10, max_depth=3, seed=seed)
                    ctx.count('nuts.init_dtype', 'float32+int64')
                    if not np.allclose(a64, a32, rtol=0, atol=1e-6) or not np.array_equal(i64, iint):
                        ctx.fail_input(dict(case, init='float32/int64 start'), 'nuts started from the same point given in another dtype returns another chain '
                                       '(states stored in the precision of the start)', i64[:4].tolist(), iint[:4].tolist())
                except (ValueError, SystemExit, TypeError) as e:
                    ctx.count('nuts.init_dtype_failed', type(e).__name__)
        if not np.array_equal(samples, again):
            ctx.fail_input(case, 'nuts is not deterministic in its seed')
        vals = [tgt(x) for x in samples]
        if not all(math.isfinite(v) for v in vals):
            k = [i for i, v in enumerate(vals) if not math.isfinite(v)][0]
            ctx.fail_input(case, 'nuts returned state %d = %s whose log-target is %r' % (k, samples[k].tolist(), vals[k]))
        picks = tops if len(tops) <= 60 else [tops[i] for i in sorted(rng.sample(range(len(tops)), 60))]
        for top in picks:
            rq, exp = tree_request(top)
            ctx.count('nuts.tree_depth', top['depth'])
            reqs.append(rq)
            meta.append((dict(case, tree_depth=top['depth'], fwd=top['fwd']), exp))
    ctx.extra['nuts_trees_replayed'] = len(reqs)
    if ctx.driver_ok:
        for (case, exp), a in zip(meta, ctx.lean.drive(reqs)):
            m = a.get('ok')
            if m is None:
                ctx.corr_break('nuts.tree', case, a, exp)
                continue
            # a tree whose n_sub is 0 may carry any proposal (it is never accepted): compare the proposal only if n_sub > 0
            same = m['nOk'] == exp['nOk'] and m['subOk'] == exp['subOk'] and m['used'] == exp['used'] and \
                (exp['nOk'] == 0 or m['prop'] in exp['prop'])
            if not same:
                ctx.corr_break('nuts.tree', case, m, exp)
            # direct: a tree that reports acceptable leaves proposes a leaf that passed the slice test
            if exp['nOk'] > 0 and not exp['prop']:
                ctx.fail_input(case, 'the sub-tree proposal is not one of its leaves')


def check_moments(ctx):
    """statistical TEST (not a theorem): fixed seeds, generous thresholds"""
    with np.errstate(all='ignore'):
        x = mcmc.metropolis(20000, np.zeros(1), TARGETS['gauss'], np.array([2.4]), warmup=500, seed=12345)[:, 0]
        ess = mcmc.eff_sample_size(x.reshape(1, -1))
        z = abs(x.mean()) / (x.std() / math.sqrt(ess))
        case = dict(kind='moments', sampler='metropolis', target='N(0,1)', seed=12345)
        ctx.case(case, True)
        if z > 5 or abs(x.var() - 1) > 0.15:
            ctx.fail_input(case, 'Metropolis moments off on N(0,1): mean %.3f (z=%.1f), var %.3f' % (x.mean(), z, x.var()))
        y = mcmc.metropolis(20000, np.full(1, 0.5), TARGETS['halfline'], np.array([1.5]), warmup=500, seed=777)[:, 0]
        case = dict(kind='moments', sampler='metropolis', target='Exp(1)', seed=777)
        ctx.case(case, True)
        if abs(y.mean() - 1) > 0.15 or abs(y.var() - 1) > 0.3:
            ctx.fail_input(case, 'Metropolis moments off on Exp(1): mean %.3f var %.3f' % (y.mean(), y.var()))
        s = mcmc.nuts(3000, np.full(2, 0.3), TARGETS['gauss'], GRADS['gauss'], seed=4242)[1500:]
        case = dict(kind='moments', sampler='nuts', target='N(0,I2)', seed=4242)
        ctx.case(case, True)
        if np.any(np.abs(s.mean(axis=0)) > 0.2) or np.any(np.abs(s.var(axis=0) - 1) > 0.3):
            ctx.fail_input(case, 'NUTS moments off on N(0,I): mean %s var %s' % (s.mean(axis=0), s.var(axis=0)))
    ctx.extra['moment_tests'] = 'labelled a test, not a theorem'


def run(ctx):
    check_metropolis(ctx)
    check_nuts(ctx)
    check_moments(ctx)


def search(ctx):
    ctx.tier = 'thorough'
    check_metropolis(ctx)
    if not ctx.failing:
        check_nuts(ctx)
    if not ctx.failing:
        check_moments(ctx)


def replay(ctx, case):
    if case['kind'] == 'lattice':
        chain, target = run_lattice(case)
        Scripted.zs = [z for z, _ in case['draws']]
        Scripted.us = [float(F(u[0], u[1])) for _, u in case['draws']]
        ref = reference_metropolis(case['n'], np.zeros(case['d']), target, np.ones(case['d']), case['warmup'], Scripted())
        ref = [[int(v) for v in r] for r in ref]
        if chain != ref:
            ctx.fail_input(case, 'metropolis chain differs from the random-walk Metropolis chain of the same draws')
        if any(not math.isfinite(target(np.array(x, dtype=float))) for x in chain):
            ctx.fail_input(case, 'chain visits a state whose log-target is inf/nan')
        return dict(chain=chain, reference=ref)
    if case['kind'] == 'real':
        tgt = TARGETS[case['target']]
        with np.errstate(all='ignore'):
            x0 = np.array(case['x0'], dtype=case.get('init', 'float64')) if 'x0' in case else np.full(case['d'], 0.2)
            out = mcmc.metropolis(case['n'], x0, tgt, np.array(case['sigma']), warmup=case['warmup'], seed=case['seed'])
            ref = reference_metropolis(case['n'], x0.astype(np.float64), tgt, np.array(case['sigma']), case['warmup'], np.random.RandomState(case['seed']))
        if not np.array_equal(out, ref):
            ctx.fail_input(case, 'metropolis output differs from the independently written chain')
        return dict(first=out[:5].tolist(), reference=ref[:5].tolist())
    if case['kind'] == 'nuts':
        samples, tops, tgt = nuts_with_log(case['target'], case['d'], case['seed'], case['n_iter'], case['max_depth'], case['n_adapt'])
        if not all(math.isfinite(tgt(x)) for x in samples):
            ctx.fail_input(case, 'nuts returned a state outside the support')
        return dict(n=len(samples))
    check_moments(ctx)
    return {}
