"""C10 — BOLFI posterior and the fast GP path: real GPyRegression / BolfiPosterior vs the definitions,
vs GPy itself and vs the Float instantiation of Model/Bolfi.lean."""
import math
import struct

import numpy as np
import scipy.stats as ss

import compat
from elfi.methods.bo.gpy_regression import GPyRegression
from elfi.methods.posteriors import BolfiPosterior

compat.install_float_shim()

META = dict(
    rule='a case = (dimension 1-3, bounds, evidence set of 6-30 points, optimiser on/off, a SEQUENCE of phases on one surrogate '
         'from {sample-phase (is_sampling=True), fit-phase (library-path predict), update(more evidence) with/without optimisation, optimize()}, threshold at a low quantile of '
         'the evidence, query points inside / outside / exactly on the bounds, scalar / 1-D / 2-D shaped). '
         'Non-trivial = dimension >= 2 or a sequence with >= 2 sampling phases; distinct by content',
    trusted_base=['GPy\'s GP algebra as the reference for the fast path (compared at 1e-7)', 'scipy.stats.norm logcdf/pdf/cdf',
                  'float comparison with tolerance; the Float instantiation of the gradient term in the Lean driver (same term as the theorem over the reals)'],
    assumptions=['default kernel (RBF + bias), single query point on the fast path (as the property says)'],
    partial=['GPy and scipy numerics are trusted primitives; multi-point calls of the fast path are not claimed'],
)


class BoxPrior:
    def __init__(self, bounds):
        self.b = np.array(bounds)

    def logpdf(self, x):
        x = np.asarray(x).reshape(-1, len(self.b))
        vol = np.prod(self.b[:, 1] - self.b[:, 0])
        return np.full(len(x), -math.log(vol))

    def gradient_logpdf(self, x):
        x = np.asarray(x)
        return np.zeros_like(x, dtype=float)

    def rvs(self, size=None, random_state=None):
        rs = random_state or np.random
        u = rs.uniform(size=(size or 1, len(self.b)))
        return self.b[:, 0] + u * (self.b[:, 1] - self.b[:, 0])


def unbits(n):
    return struct.unpack('<d', struct.pack('<Q', n))[0]


def evidence(rng, d, n, bounds):
    X = np.array([[rng.uniform(lo, hi) for lo, hi in bounds] for _ in range(n)])
    y = np.sum((X - 0.3) ** 2, axis=1) + 0.1 * np.array([rng.gauss(0, 1) for _ in range(n)]) + 0.5
    return X, y


def gpy_reference(gp, x):
    x = np.atleast_2d(x)
    mu, var = gp._gp.predict(x)
    gmu, gvar = gp._gp.predictive_gradients(x)
    return float(mu[0, 0]), float(var[0, 0]), gmu[0, :, 0], gvar[0]


def check(ctx):
    rng = ctx.rng
    reqs, meta = [], []
    for it in range(ctx.budget(20, 150)):
        if ctx.enough():
            break
        d = rng.randint(1, 3)
        bounds = [(rng.choice([-1.0, 0.0]), rng.choice([1.0, 2.0])) for _ in range(d)]
        if rng.random() < .4 or it in (3, 4):           # bounds that are not exactly representable / a zero bound next to a tiny negative number
            bounds = [(rng.choice([0.1, -0.3, 0.0]), rng.choice([0.3, 0.7, 1.1])) for _ in range(d)]
        names = ['p%d' % i for i in range(d)]
        n0 = rng.randint(6, 20)
        X, y = evidence(rng, d, n0, bounds)
        items = list(zip(names, bounds))
        if rng.random() < .5 or it in (1, 4):
            items = items[::-1]                      # the bounds dictionary written in another order than the parameter names
        gp = GPyRegression(names, bounds=dict(items), max_opt_iters=rng.choice([10, 40]))
        if [tuple(b) for b in gp.bounds] != [tuple(b) for b in bounds]:
            ctx.case(dict(dim=d, bounds=bounds, dict_order=[k for k, _ in items]), True)
            ctx.fail_input(dict(dim=d, bounds=bounds, dict_order=[k for k, _ in items]), 'the surrogate pairs the parameters %s with the bounds %s, declared were %s'
                           % (names, [tuple(b) for b in gp.bounds], dict(items)))
            continue
        first_opt = rng.random() < .7
        phases = ['sample'] + [rng.choice(['sample', 'fit', 'update', 'update-opt', 'optimize']) for _ in range(rng.randint(1, 4))] + ['sample']
        # every run starts with the three shortest histories that change the surrogate BETWEEN two sampling phases without a
        # library-path prediction in between
        if it < 3:
            first_opt = False
            phases = [['sample', 'optimize', 'sample'], ['sample', 'update', 'sample'], ['sample', 'update-opt', 'sample', 'optimize', 'sample']][it]
        gp.update(X, y, optimize=first_opt)
        case = dict(dim=d, bounds=bounds, n_evidence=n0, phases=phases)
        ctx.case(case, d >= 2 or phases.count('sample') >= 2)
        ctx.count('dim', d)
        Xall, yall = X.copy(), y.copy()
        bad = False
        for ph in phases:
            ctx.count('phase', ph)
            if ph in ('update', 'update-opt'):
                Xn, yn = evidence(rng, d, rng.randint(1, 4), bounds)
                gp.is_sampling = False
                gp.update(Xn, yn, optimize=ph == 'update-opt')
                Xall, yall = np.r_[Xall, Xn], np.r_[yall, yn]
                if not (np.array_equal(gp.X, Xall) and np.array_equal(gp.Y.ravel(), yall)):
                    ctx.fail_input(dict(case, at=ph), 'adding evidence changed or reordered earlier evidence (X/Y are not old ++ new)')
                    bad = True
                    break
                continue
            if ph == 'optimize':
                gp.is_sampling = False
                gp.optimize()
                continue
            if ph == 'fit':
                gp.is_sampling = False
                gp.predict(np.array([[0.1] * d]))
                continue
            # sampling phase: the accelerated single-point path vs GPy
            gp.is_sampling = True
            thr = float(np.quantile(yall, rng.choice([0.05, 0.2, 0.5]))) if rng.random() < .75 else rng.choice([0.0, 0.0, -0.25])
            ctx.count('threshold', 'zero' if thr == 0 else ('negative' if thr < 0 else 'quantile'))
            post = BolfiPosterior(gp, threshold=thr, prior=BoxPrior(bounds))
            if post.threshold != thr:
                ctx.fail_input(dict(case, at=ph, threshold=thr), 'the posterior was requested with threshold %r but uses %r' % (thr, float(post.threshold)), thr, float(post.threshold))
                bad = True
                break
            for q in range(6):
                x = np.array([rng.uniform(lo, hi) for lo, hi in bounds])
                try:
                    mu_f, var_f = gp.predict(x)
                    gmu_f, gvar_f = gp.predictive_gradients(x)
                except ValueError as e:
                    ctx.fail_input(dict(case, at=ph, x=x.tolist()), 'the accelerated prediction raised ValueError (%s) in a sampling phase after %s' % (str(e)[:80], phases))
                    bad = True
                    break
                mu, var, gmu, gvar = gpy_reference(gp, x)
                where = dict(case, at=ph, x=x.tolist())
                if not (math.isclose(float(np.ravel(mu_f)[0]), mu, rel_tol=1e-7, abs_tol=1e-9) and math.isclose(float(np.ravel(var_f)[0]), var, rel_tol=1e-7, abs_tol=1e-9)
                        and np.allclose(np.ravel(gmu_f), gmu, rtol=1e-6, atol=1e-8) and np.allclose(np.ravel(gvar_f), gvar, rtol=1e-6, atol=1e-8)):
                    ctx.fail_input(where, 'the accelerated prediction differs from the Gaussian-process library: mean %r vs %r, var %r vs %r, grad mean %s vs %s, grad var %s vs %s'
                                   % (float(np.ravel(mu_f)[0]), mu, float(np.ravel(var_f)[0]), var, np.ravel(gmu_f).tolist(), gmu.tolist(),
                                      np.ravel(gvar_f).tolist(), gvar.tolist()))
                    bad = True
                    break
                # log posterior = logPhi((t-mu)/sd) + log prior; gradient = derivative
                # (the surrogate's own prediction in this phase: its agreement with the library was checked just above; using the
                #  library's numbers here would amplify their 1e-7 agreement by |z| in the deep tail)
                mu_s, var_s = float(np.ravel(mu_f)[0]), float(np.ravel(var_f)[0])
                lp = float(np.ravel(post.logpdf(x))[0])
                exp = float(ss.norm.logcdf((thr - mu_s) / math.sqrt(var_s))) + float(post.prior.logpdf(x)[0])
                if not math.isclose(lp, exp, rel_tol=1e-9, abs_tol=1e-9):
                    ctx.fail_input(where, 'log posterior %r differs from logPhi((threshold-mean)/sd) + log prior = %r' % (lp, exp), exp, lp)
                    bad = True
                    break
                g = np.ravel(post.gradient_logpdf(x))
                # central differences at several step sizes: in the deep tail (|z| ~ 100, tiny predictive variance) the smallest step is
                # dominated by rounding noise of the prediction and the largest by curvature; the analytic gradient has to agree with ONE
                # of them (a wrong formula is off by percents at every step size)
                nums = []
                for h in (1e-6, 1e-5, 1e-4):
                    nums.append(np.array([(float(np.ravel(post.logpdf(x + h * e))[0]) - float(np.ravel(post.logpdf(x - h * e))[0])) / (2 * h) for e in np.eye(d)]))
                h = 1e-4
                num = min(nums, key=lambda v: float(np.max(np.abs(v - g))) if np.all(np.isfinite(v)) and np.all(np.isfinite(g)) else float('inf'))
                # the numerical derivative is a usable reference only where it is stable in the step size (it is not at the bottom of
                # a needle-shaped surrogate, gradients ~1e7): otherwise this oracle abstains (the Float instantiation still compares)
                fin = [v for v in nums if np.all(np.isfinite(v))]
                spread = max([float(np.max(np.abs(a_ - b_))) for a_ in fin for b_ in fin] + [0.0])
                stable = spread <= 5e-3 * max(1e-6, float(np.max(np.abs(num))))
                ctx.count('derivative.reference', 'stable' if stable else 'abstain')
                if not np.all(np.isfinite(g)) and math.isfinite(lp):
                    ctx.fail_input(where, 'gradient_logpdf is %s at a point inside the bounds where logpdf = %r is finite (derivative ~ %s)' % (g.tolist(), lp, num.tolist()), num.tolist(), [str(v) for v in g])
                    bad = True
                    break
                inside_h = all(lo + 2 * h < xi < hi - 2 * h for xi, (lo, hi) in zip(x, bounds))
                if inside_h and stable and not np.allclose(g, num, rtol=2e-3, atol=2e-4 + 2e-3 * float(np.max(np.abs(num)))):
                    ctx.fail_input(where, 'gradient_logpdf %s is not the derivative of logpdf %s' % (g.tolist(), num.tolist()), num.tolist(), g.tolist())
                    bad = True
                    break
                z = (thr - mu_s) / math.sqrt(var_s)
                reqs.append(dict(op='C10.grad', t=thr, mean=mu_s, var=var_s, gradMean=[float(v) for v in np.ravel(gmu_f)], gradVar=[float(v) for v in np.ravel(gvar_f)],
                                 logpdf=float(ss.norm.logpdf(z)), logcdf=float(ss.norm.logcdf(z))))
                meta.append(('grad', where, g.tolist()))
                reqs.append(dict(op='C10.r2', x=x.tolist(), X=gp.X.tolist()))
                meta.append(('r2', where, None))
                if q == 0:
                    reqs.append(dict(op='C10.fastmean', x=x.tolist(), X=gp.X.tolist(), var=gp._rbf_var, factor=gp._rbf_factor, bias=gp._rbf_bias,
                                     alpha=[float(v) for v in np.ravel(gp._rbf_woodbury)]))
                    meta.append(('fastmean', where, (float(np.ravel(mu_f)[0]), [float(v) for v in np.ravel(gmu_f)])))
            if bad:
                break
            # deep tail: a threshold 45 sd below the prediction (cdf underflows in float, log cdf does not)
            xt = np.array([rng.uniform(lo + .1, hi - .1) for lo, hi in bounds])
            mu, var, gmu, gvar = gpy_reference(gp, xt)
            deep = BolfiPosterior(gp, threshold=mu - 45 * math.sqrt(var), prior=BoxPrior(bounds))
            lp = float(np.ravel(deep.logpdf(xt))[0])
            g = np.ravel(deep.gradient_logpdf(xt))
            ctx.count('query', 'deep-tail')
            if math.isfinite(lp) and not np.all(np.isfinite(g)):
                ctx.fail_input(dict(case, at=ph, x=xt.tolist(), threshold=deep.threshold), 'gradient_logpdf is %s at a point inside the bounds where logpdf = %r is finite'
                               % (g.tolist(), lp))
                bad = True
                break
            # bounds: outside -> -inf and zero gradient; on a face -> finite; shapes
            out = np.array([hi + 0.5 for lo, hi in bounds])
            face = np.array([bounds[0][1]] + [0.5 * (lo + hi) for lo, hi in bounds[1:]])
            corner = np.array([lo for lo, hi in bounds])
            v_out = float(np.ravel(post.logpdf(out))[0])
            if not (math.isinf(v_out) and v_out < 0) or np.any(np.ravel(post._gradient_unnormalized_loglikelihood(out)) != 0):
                ctx.fail_input(dict(case, x=out.tolist()), 'outside the bounds the log posterior is %r (expected -inf, zero gradient)' % v_out)
                bad = True
                break
            hi_corner = np.array([hi for lo, hi in bounds])
            for pt in (face, corner, hi_corner):
                if not math.isfinite(float(np.ravel(post.logpdf(pt))[0])):
                    ctx.fail_input(dict(case, x=pt.tolist()), 'a point exactly on the bounds gets log posterior -inf (bounds are inclusive)')
                    bad = True
            # the neighbours of a bound: the closest double inside is inside, the closest double outside is outside
            for k in range(d):
                for side, bnd in (('lo', bounds[k][0]), ('hi', bounds[k][1])):
                    inner = np.array([0.5 * (lo + hi) for lo, hi in bounds])
                    outward = -math.inf if side == 'lo' else math.inf
                    p_out, p_in = inner.copy(), inner.copy()
                    p_out[k] = np.nextafter(bnd, outward) if bnd != 0 else math.copysign(1e-18, outward)
                    p_in[k] = np.nextafter(bnd, -outward)
                    v_out, v_in = float(np.ravel(post.logpdf(p_out))[0]), float(np.ravel(post.logpdf(p_in))[0])
                    ctx.count('query', 'bound-neighbour')
                    if not (math.isinf(v_out) and v_out < 0) or not math.isfinite(v_in):
                        ctx.fail_input(dict(case, x_outside=p_out.tolist(), x_inside=p_in.tolist(), bound=[k, side, bnd]),
                                       'next to the %s bound %r of coordinate %d: the closest number outside gets log posterior %r (expected -inf), '
                                       'the closest number inside %r (expected finite)' % (side, bnd, k, v_out, v_in))
                        bad = True
                        break
                    reqs.append(dict(op='C10.inside', bounds=[list(b) for b in bounds], x=p_out.tolist()))
                    meta.append(('inside', dict(case, x=p_out.tolist()), False))
                    reqs.append(dict(op='C10.inside', bounds=[list(b) for b in bounds], x=p_in.tolist()))
                    meta.append(('inside', dict(case, x=p_in.tolist()), True))
                if bad:
                    break
            if bad:
                break
                reqs.append(dict(op='C10.inside', bounds=[list(b) for b in bounds], x=pt.tolist()))
                meta.append(('inside', dict(case, x=pt.tolist()), True))
            reqs.append(dict(op='C10.inside', bounds=[list(b) for b in bounds], x=out.tolist()))
            meta.append(('inside', dict(case, x=out.tolist()), False))
            # shapes: a (1, d) row on the fast path; several rows / a scalar on the library path (the fast path is single-point)
            inner = np.array([lo + 0.6 * (hi - lo) for lo, hi in bounds])
            one_row = np.asarray(post._unnormalized_loglikelihood(inner[None, :])) + post.prior.logpdf(inner)
            flat = np.asarray(post._unnormalized_loglikelihood(inner)) + float(post.prior.logpdf(inner)[0])
            if one_row.shape != (1,) or flat.shape != (() if d > 1 else (1,)) or not math.isclose(float(one_row[0]), float(np.ravel(flat)[0]), rel_tol=1e-12):
                ctx.fail_input(dict(case, x=inner.tolist()), 'a (1, d) shaped and a flat query of the same point give %s and %s' % (one_row.tolist(), flat.tolist()))
                bad = True
                break
            # several query points in ONE call, inside and outside mixed (on a copy of the surrogate, so that this phase of the real
            # one stays without a library-path call): every row is what the single-point call gives
            gp2 = gp.copy()
            gp2.is_sampling = False
            post2 = BolfiPosterior(gp2, threshold=thr, prior=BoxPrior(bounds))
            inner2 = np.array([lo + 0.3 * (hi - lo) for lo, hi in bounds])
            pts2 = np.array([inner, out, inner2, corner])
            gm2 = np.asarray(post2.gradient_logpdf(pts2))
            lm2 = np.asarray(post2.logpdf(pts2))
            g_each = np.array([np.ravel(post2.gradient_logpdf(p_)) for p_ in pts2])
            l_each = np.array([float(np.ravel(post2.logpdf(p_))[0]) for p_ in pts2])
            ctx.count('query', 'mixed-batch')
            if gm2.shape != (4, d) or not np.allclose(gm2, g_each, rtol=1e-3, atol=1e-9) or not np.allclose(lm2, l_each, rtol=1e-6, equal_nan=False):
                ctx.fail_input(dict(case, at=ph, x=pts2.tolist()), 'a query of several points (inside and outside the bounds mixed) gives gradients %s / log densities %s, '
                               'the points one by one give %s / %s' % (gm2.tolist(), lm2.tolist(), g_each.tolist(), l_each.tolist()))
                bad = True
                break
            if rng.random() < .6 or it < 3:            # leave most sampling phases WITHOUT a library-path call afterwards
                continue
            gp.is_sampling = False
            pts = np.array([face, out, corner, inner])
            mat = np.asarray(post.logpdf(pts))
            gmat = np.asarray(post.gradient_logpdf(pts))
            each = [float(np.ravel(post.logpdf(p_))[0]) for p_ in pts]
            if mat.shape != (4,) or gmat.shape != (4, d) or not np.allclose(mat, each, rtol=1e-6, equal_nan=False) or np.any(gmat[1] != 0):
                ctx.fail_input(dict(case, x=pts.tolist()), 'a 2-D shaped query gives %s, the rows one by one give %s' % (mat.tolist(), each))
                bad = True
            if d == 1:
                sc = post._unnormalized_loglikelihood(float(inner[0])) + float(post.prior.logpdf(inner)[0])
                if np.ndim(sc) != 0 or not math.isclose(float(sc), each[3], rel_tol=1e-9):
                    ctx.fail_input(dict(case, x=float(inner[0])), 'a scalar query gives %r, expected the scalar %r' % (sc, each[3]))
                    bad = True
            mu_i, var_i = gp.predict(inner)
            z_i = abs(float((thr - np.ravel(mu_i)[0]) / math.sqrt(float(np.ravel(var_i)[0]))))
            ctx.count('phase.consistency', 'compared' if z_i < 30 else 'abstain (|z| >= 30)')
            # (beyond |z| = 30 the 1e-7 agreement of the two prediction paths is amplified by z**2 in the log density)
            if z_i < 30 and abs(float(np.ravel(flat)[0]) - each[3]) > 1e-6 * max(1, abs(each[3])):
                ctx.fail_input(dict(case, x=inner.tolist()), 'the log posterior differs between the sampling phase (%r) and the fitting phase (%r)' % (float(np.ravel(flat)[0]), each[3]))
                bad = True
            if bad:
                break
    if ctx.driver_ok:
        for (kind, case, real), a in zip(meta, ctx.lean.drive(reqs)):
            m = a.get('ok')
            if m is None:
                ctx.corr_break('driver', case, a, None)
                continue
            m = {k: ([unbits(v) for v in val] if isinstance(val, list) else val) for k, val in m.items()}
            if kind == 'grad':
                if not np.allclose(m['grad'], real, rtol=1e-6, atol=1e-9):
                    ctx.corr_break('coded-gradient', case, m['grad'], real)
            elif kind == 'inside':
                if m['inside'] != real:
                    ctx.corr_break('within-bounds', case, m['inside'], real)
            elif kind == 'fastmean':
                sc = max([abs(v) for v in real[1]] + [1e-12])
                if not math.isclose(m['mean'][0], real[0], rel_tol=1e-8, abs_tol=1e-9) or not np.allclose(m['gradMean'], real[1], rtol=1e-7, atol=1e-8 * sc):
                    ctx.corr_break('fast-mean', case, dict(mean=m['mean'][0], grad=m['gradMean']), dict(mean=real[0], grad=real[1]))
            elif kind == 'r2':
                if not np.allclose(m['fast'], m['direct'], rtol=1e-9, atol=1e-9):
                    ctx.corr_break('r2', case, m['fast'][:3], m['direct'][:3])


def run(ctx):
    check(ctx)


def search(ctx):
    ctx.tier = 'thorough'
    check(ctx)


def replay(ctx, case):
    return dict(note='surrogates are fitted from generated evidence: rerun the check with the same VERIF_SEED')
