"""C11 — Bayesian optimisation simulates only inside the bounds and trains on what it ran.

Real acquisition objects on real GPs (direct oracle: shape (n, d), every row inside the bounds), with the
optimiser's end points and the truncated-normal draws intercepted and replayed through Model/Bo.lean
(`minimizeOut`, `acquireBase`, `randMaxVarPick`, exact comparison); real BayesianOptimization runs on a
ScheduledClient (every schedule is an is_ready answer sequence + execution order), with the parameters each
batch was simulated with, the acquire calls and the surrogate's evidence recorded and compared with the Lean
engine under the observed schedule; gradients of LCBSC / MaxVar against central differences and against the
Float instantiation of the terms the theorems are about.
"""
import contextlib
import math
import random
import struct

import numpy as np
import scipy.optimize
import scipy.stats as ss

import compat
import elfi
import elfi.client
import elfi.clients.native as native
import elfi.methods.bo.acquisition as acqmod
from common import Timeout, with_timeout
from elfi.methods.bo.acquisition import LCBSC, ExpIntVar, MaxVar, RandMaxVar, UniformAcquisition
from elfi.methods.bo.gpy_regression import GPyRegression
from elfi.model.extensions import ModelPrior
from props.c04 import ScheduledClient, attach

compat.install_float_shim()

META = dict(
    rule='acquire cases = (acquisition class of LCBSC / MaxVar / RandMaxVar / ExpIntVar / Uniform, dimension 1-2, bounds, prior inside '
         'or WIDER than the bounds, noise none / 0 / scalar / per-parameter with a zero entry, n, t, optimiser end points moved '
         'outside the box with probability 1/3). BO cases = (batch_size, batches_per_acquisition, initial evidence as count / '
         'precomputed dict / 0, update_interval, acquisition class, noise, max_parallel_batches, schedule seed, readiness bias) run '
         'under >= 2 schedules each, plus (LCBSC / Uniform) one asynchronous-acquisition run under the laziest workers with a prior wider than the bounds. '
         ' Non-trivial = a case with noise, an out-of-box optimiser end point, or a parallel schedule with a '
         'False is_ready answer; distinct by content',
    trusted_base=['scipy L-BFGS-B end points and truncnorm draws are inputs of the model (intercepted, any value covered by the theorems)',
                  'GPy (the surrogate) is a deterministic function of the evidence sequence', 'ScheduledClient stands for every worker timing',
                  'floats compared exactly where the model replays the same IEEE operations, at 1e-6 for gradient formulas'],
    assumptions=['the initial (prior-drawn) evidence is not "acquired": the in-bounds claim is checked for acquisition index >= 0'],
    partial=['truncnorm.rvs staying inside its truncation interval is a float property of scipy (checked on every real draw, not proved)',
             'MaxVar gradient theorem takes Owen\'s T partial derivatives as hypotheses'],
)


def bits(x):
    return struct.unpack('<Q', struct.pack('<d', float(x)))[0]


def unbits(n):
    return struct.unpack('<d', struct.pack('<Q', n))[0]


def inside(x, bounds):
    return all(lo <= xi <= hi for xi, (lo, hi) in zip(np.ravel(x), bounds))


# ------------------------------------------------------------------ model / GP builders

def make_model(d, bounds, wide, calls=None):
    m = elfi.ElfiModel(name='bo')
    ps = []
    for i, (lo, hi) in enumerate(bounds):
        if wide:
            ps.append(elfi.Prior('norm', 0.5 * (lo + hi), (hi - lo), model=m, name='t%d' % i))
        else:
            ps.append(elfi.Prior('uniform', lo, hi - lo, model=m, name='t%d' % i))

    def sim(*p, batch_size=1, random_state=None, meta=None):
        if calls is not None:
            calls.append((meta['batch_index'], np.column_stack([np.asarray(q, dtype=float).reshape(-1) for q in p]).copy()))
        return sum((np.asarray(q) - 0.3) ** 2 for q in p) + 0.05 * random_state.randn(batch_size) + 0.2

    Y = elfi.Simulator(sim, *ps, model=m, name='sim', observed=np.array([0.2]))
    Y.uses_meta = True
    elfi.Distance('euclidean', Y, model=m, name='d')
    return m


def make_gp(rng, d, bounds, n):
    names = ['t%d' % i for i in range(d)]
    X = np.array([[rng.uniform(lo, hi) for lo, hi in bounds] for _ in range(n)])
    y = np.sum((X - 0.3) ** 2, axis=1) + 0.05 * np.array([rng.gauss(0, 1) for _ in range(n)]) + 0.2
    items = list(zip(names, bounds))
    if rng.random() < .5:
        items = items[::-1]                          # dictionary order is not parameter order
    gp = GPyRegression(names, bounds=dict(items), max_opt_iters=30)
    gp.update(X, y, optimize=True)
    return gp


@contextlib.contextmanager
def intercept(rng, p_outside, bounds):
    """record (and sometimes push outside the box) what scipy's optimiser returns; record truncnorm draws and the
    values minimize() hands back"""
    rec = dict(opt=[], mins=[], draws=[])
    real_min = scipy.optimize.minimize
    real_tn = ss.truncnorm.rvs
    real_elfi_min = acqmod.minimize

    def fake_min(fun, x0, *a, **kw):
        r = real_min(fun, x0, *a, **kw)
        x = np.array(r['x'], dtype=float)
        if rng.random() < p_outside:
            i = rng.randrange(len(x))
            lo, hi = bounds[i]
            x[i] = rng.choice([lo - rng.random(), hi + rng.random(), lo - 1e-12, hi + 1e-12])
            r['x'] = x
        if rec['opt'] and not rec['opt'][-1]['closed']:
            rec['opt'][-1]['locs'].append(np.array(r['x'], dtype=float).copy())
            rec['opt'][-1]['vals'].append(float(np.ravel(r['fun'])[0]))
        return r

    def fake_elfi_min(*a, **kw):
        rec['opt'].append(dict(locs=[], vals=[], closed=False))
        out = real_elfi_min(*a, **kw)
        rec['opt'][-1]['closed'] = True
        rec['opt'][-1]['out'] = np.array(out[0], dtype=float).copy()
        return out

    def fake_tn(a, b, loc=0, scale=1, size=1, random_state=None):
        out = real_tn(a, b, loc=loc, scale=scale, size=size, random_state=random_state)
        rec['draws'].append(np.array(out, dtype=float).copy())
        return out

    scipy.optimize.minimize = fake_min
    ss.truncnorm.rvs = fake_tn
    acqmod.minimize = fake_elfi_min
    try:
        yield rec
    finally:
        scipy.optimize.minimize = real_min
        ss.truncnorm.rvs = real_tn
        acqmod.minimize = real_elfi_min


# ------------------------------------------------------------------ A. acquire() on real acquisition objects

ACQ = ['lcbsc', 'lcbsc', 'maxvar', 'randmaxvar', 'randmaxvar', 'expintvar', 'uniform']


def acquire_case(ctx, rng, reqs, meta, kind=None, forced=None):
    d = rng.randint(1, 2)
    bounds = [(rng.choice([-1.0, 0.0]), rng.choice([1.0, 2.0])) for _ in range(d)]
    kind = kind or rng.choice(ACQ)
    if rng.random() < (.6 if kind == 'uniform' else .3):
        bounds = [(0.5, 2.0)] + bounds[1:]
    wide = rng.random() < .5
    n = rng.choice([1, 1, 2, 3, 5]) if kind != 'uniform' else rng.choice([5, 10])
    t = rng.randint(0, 6)
    noise = rng.choice([None, 0, 0.05, 'dict']) if kind == 'lcbsc' else None
    if forced:
        d, bounds, noise, n = forced['d'], forced['bounds'], forced['noise'], forced['n']
        wide = forced.get('wide', wide)
    names = ['t%d' % i for i in range(d)]
    if noise == 'dict':
        noise = {nm: rng.choice([0, 0.1, 0.02]) for nm in names}
    case = dict(part='acquire', acq=kind, dim=d, bounds=bounds, wide_prior=wide, n=n, t=t, noise=noise, seed=rng.randrange(2**31),
                gp_points=rng.randint(6, 14), p_outside=rng.choice([0, 1 / 3, 1 / 3]))
    if kind == 'randmaxvar':
        case.update(n=rng.choice([1, 2, 5, 10, 25]), n_samples=rng.choice([20, 50]), init_from_prior=rng.random() < .5)
        if forced:
            case.update(n=forced['n'], n_samples=50)
    gp = make_gp(rng, d, bounds, case['gp_points'])
    prior = ModelPrior(make_model(d, bounds, wide))
    kw = dict(seed=case['seed'], n_inits=3, max_opt_iters=30)
    if kind == 'lcbsc':
        acq = LCBSC(gp, prior=prior, noise_var=noise, exploration_rate=rng.choice([10, 2]), **kw)
    elif kind == 'maxvar':
        acq = MaxVar(gp, prior, quantile_eps=.1, **kw)
    elif kind == 'randmaxvar':
        acq = RandMaxVar(gp, prior, quantile_eps=.1, sampler='metropolis', n_samples=case['n_samples'], init_from_prior=case['init_from_prior'], **kw)
    elif kind == 'expintvar':
        acq = ExpIntVar(gp, prior, quantile_eps=.1, integration='grid', d_grid=.5, **kw)
    else:
        acq = UniformAcquisition(gp, prior=prior, seed=case['seed'])
    nontriv = bool(noise) or wide or case['p_outside'] > 0
    ctx.case(case, nontriv)
    ctx.count('acquire.class', kind)
    ctx.count('acquire.noise', 'dict' if isinstance(noise, dict) else str(noise))
    try:
        with intercept(rng, case['p_outside'], bounds) as rec, np.errstate(all='ignore'):
            x = with_timeout(120, lambda: acq.acquire(case['n'], t))
    except Timeout:
        ctx.fail_input(case, 'acquire did not return')
        return
    except ValueError as e:
        if kind == 'randmaxvar' and case['n'] > 1 and case['n'] > case['n_samples'] - case['n_samples'] // 2:
            ctx.count('acquire.refused', 'n > n_samples - warmup')       # the documented refusal
            return
        ctx.fail_input(case, 'acquire raised ValueError: %s' % str(e)[:100])
        return
    x = np.asarray(x, dtype=float)
    if x.shape != (case['n'], d):
        ctx.fail_input(case, 'acquire(%d) returned an array of shape %s, expected %s' % (case['n'], x.shape, (case['n'], d)), [case['n'], d], list(x.shape))
        return
    out = [r.tolist() for r in x if not inside(r, bounds)]
    if out:
        ctx.fail_input(case, 'acquire returned point(s) outside the bounds %s: %s' % (bounds, out[:3]), 'inside', out[:3])
        return
    if kind == 'uniform':
        us = np.random.RandomState(case['seed']).uniform(size=(case['n'], d))
        for u, row in zip(us, x):
            reqs.append(dict(op='C11.uniform', bounds=[[bits(lo), bits(hi)] for lo, hi in bounds], us=[bits(v) for v in u]))
            meta.append(('uniform', case, row.copy()))
    n_out = sum(1 for o in rec['opt'] for l in o['locs'] if not inside(l, bounds))
    ctx.count('acquire.optimiser_end_outside', min(n_out, 3))
    bj = [[bits(lo), bits(hi)] for lo, hi in bounds]
    # model: minimize() = clip(loc of the first smallest value)
    for o in rec['opt']:
        if o['locs'] and not any(math.isnan(v) for v in o['vals']):
            reqs.append(dict(op='C11.minimize', bounds=bj, locs=[[bits(v) for v in l] for l in o['locs']], vals=[bits(v) for v in o['vals']]))
            meta.append(('minimize', case, o['out']))
    # model: tile + noise
    if kind == 'lcbsc' and rec['opt']:
        xhat = rec['opt'][-1]['out']
        nv = acq.noise_var
        if nv is None:
            stds = None
        else:
            nv = np.tile(nv, d) if np.ndim(nv) == 0 else np.asarray(nv, dtype=float)
            stds = [math.sqrt(v) for v in nv]
        if stds is None or all(s == 0 for s in stds):
            if not np.array_equal(x, np.tile(xhat, (case['n'], 1))):
                ctx.corr_break('acquire.tile', case, np.tile(xhat, (case['n'], 1)).tolist(), x.tolist())
        else:
            cols = iter(rec['draws'])
            draws = np.zeros((case['n'], d))
            for i, s in enumerate(stds):
                if s != 0:
                    draws[:, i] = next(cols)
            reqs.append(dict(op='C11.noise', bounds=bj, stds=[bits(s) for s in stds], xhat=[bits(v) for v in xhat],
                             draws=[[bits(v) for v in r] for r in draws], n=case['n']))
            meta.append(('noise', case, x))
            for i, s in enumerate(stds):
                if s != 0 and not all(bounds[i][0] <= v <= bounds[i][1] for v in draws[:, i]):
                    ctx.count('acquire.truncnorm_escaped', 1)


def pick_case(ctx, rng, reqs, meta):
    """RandMaxVar on a SCRIPTED chain (distinct labelled states inside the bounds): which states come back"""
    bounds = [(0.0, 1.0)]
    nS = rng.choice([10, 20, 50])
    warm = rng.choice([None, 0, 3, nS // 2])
    n = rng.choice([1, 2, 3, nS // 2, nS // 2 + 1, nS - 1, nS])
    case = dict(part='randmaxvar-pick', n_samples=nS, warmup=warm, n=n, seed=rng.randrange(2**31))
    ctx.case(case, n > 1)
    gp = make_gp(rng, 1, bounds, 8)
    prior = ModelPrior(make_model(1, bounds, False))
    acq = RandMaxVar(gp, prior, quantile_eps=.1, sampler='metropolis', n_samples=nS, warmup=warm, seed=case['seed'])
    chain = np.array([[(k + 0.5) / (nS + 1)] for k in range(nS)])
    perms = []
    real_metro = acqmod.mcmc.metropolis
    real_perm = acq.random_state.permutation

    class RS:
        def __getattr__(self, a):
            return getattr(acq_rs, a)

        def permutation(self, arr):
            out = real_perm(arr)
            perms.append([int(round(float(v[0]) * (nS + 1) - 0.5)) for v in out])
            return out
    acq_rs = acq.random_state
    acqmod.mcmc.metropolis = lambda *a, **kw: chain.copy()
    acq.random_state = RS()
    w = acq._warmup
    try:
        try:
            x = np.asarray(acq.acquire(n))
            got = [int(round(float(v[0]) * (nS + 1) - 0.5)) for v in x]
        except ValueError:
            got = None
    finally:
        acqmod.mcmc.metropolis = real_metro
        acq.random_state = acq_rs
    ctx.count('pick.outcome', 'refused' if got is None else 'returned')
    if got is not None and len(got) != n:
        ctx.fail_input(case, 'RandMaxVar.acquire(%d) with n_samples=%d, warmup=%d returned %d points' % (n, nS, w, len(got)), n, len(got))
        return
    perm = [p - w for p in perms[0]] if perms else []
    reqs.append(dict(op='C11.pick', nSamples=nS, warmup=w, n=n, perm=perm, fixed=True))
    meta.append(('pick', case, got))


# ------------------------------------------------------------------ B. BayesianOptimization runs under schedules

def gen_bo(rng, init=None):
    d = rng.randint(1, 2)
    bounds = [(0.0, rng.choice([1.0, 2.0])) for _ in range(d)]
    b = rng.randint(1, 3)
    bpa = rng.randint(1, 3)
    init = init or rng.choice(['count', 'count', 'dict', 'zero'])
    n_init = rng.choice([b * k for k in range(1, 5)]) if init == 'count' else (rng.randint(2 * b + 1, 3 * b + 4) if init == 'dict' else 0)
    acq = rng.choice(['lcbsc', 'lcbsc', 'lcbsc', 'uniform', 'randmaxvar'])
    if init == 'zero' and acq == 'randmaxvar':
        acq = 'lcbsc'            # the MaxVar family sets its threshold from the observed discrepancies: needs some evidence
    noise = rng.choice([0, 0.05, 'dict']) if acq == 'lcbsc' else 0
    if noise == 'dict':
        noise = {('t%d' % i): rng.choice([0, 0.1]) for i in range(d)}
    extra = rng.randint(2, 5) * b
    if init == 'dict':
        bpa, extra = rng.choice([1, 1, 2]), rng.randint(4, 6) * b          # several acquisitions after the precomputed evidence
    return dict(part='bo', dim=d, bounds=bounds, b=b, bpa=bpa, init=init, n_init=n_init, acq=acq, noise=noise,
                n_evidence=n_init + extra, update_interval=rng.choice([1, 3, 10]), seed=rng.randrange(2**31))


def run_bo(case, client, sched=None):
    calls, events = [], []
    d, bounds, b = case['dim'], case['bounds'], case['b']
    m = make_model(d, bounds, bool(case.get('wide')), calls)
    names = ['t%d' % i for i in range(d)]
    pre = None
    if case['init'] == 'dict':
        r = np.random.RandomState(case['seed'] % 1000)
        P = case['n_init']
        pre = {nm: r.uniform(lo, hi, P) for nm, (lo, hi) in zip(names, bounds)}
        pre['d'] = np.sqrt(sum((pre[nm] - 0.3) ** 2 for nm in names)) + 0.2
    pool = elfi.OutputPool(names + ['d'])
    elfi.client.set_client(client)
    try:
        kw = {}
        if case['acq'] != 'lcbsc':
            kw = {}
        bo = elfi.BayesianOptimization(m['d'], batch_size=b, initial_evidence=pre if pre is not None else case['n_init'],
                                       update_interval=case['update_interval'], bounds=dict(list(zip(names, bounds))[::-1] if case['seed'] % 2 else zip(names, bounds)),
                                       acq_noise_var=case['noise'], batches_per_acquisition=case['bpa'], seed=case['seed'],
                                       max_parallel_batches=case.get('mpb', 1), pool=pool, async_acq=bool(case.get('async_acq')))
        bo.target_model.max_opt_iters = 30
        prior = ModelPrior(m)
        if case['acq'] == 'uniform':
            bo.acquisition_method = UniformAcquisition(bo.target_model, prior=prior, seed=case['seed'])
        elif case['acq'] == 'randmaxvar':
            bo.acquisition_method = RandMaxVar(bo.target_model, prior, quantile_eps=.2, sampler='metropolis', n_samples=40, seed=case['seed'])
        bo.acquisition_method.n_inits = 3
        bo.acquisition_method.max_opt_iters = 30
        if isinstance(client, ScheduledClient):
            attach(bo, client)
            events = client.events
        n_pre = bo.n_precomputed_evidence
        acqs, upd = [], []
        real_acq = bo.acquisition_method.acquire

        def acquire(n, t=None):
            x = real_acq(n, t=t)
            events.append(('a', int(t), (bo.target_model.n_evidence - n_pre) // b, bo.batches.num_pending))
            acqs.append((int(t), int(n), np.array(x, dtype=float).copy()))
            return x
        bo.acquisition_method.acquire = acquire
        real_upd = bo.target_model.update

        def update(x, y, optimize=False):
            upd.append((bo.target_model.n_evidence, bool(optimize), bo.state['last_GP_update']))
            return real_upd(x, y, optimize)
        bo.target_model.update = update
        idx = [int(bo._get_acquisition_index(i)) for i in range(12)]
        with np.errstate(all='ignore'):
            with_timeout(240, lambda: bo.infer(n_evidence=case['n_evidence'], bar=False))
        gp = bo.target_model
        return dict(X=np.array(gp.X), Y=np.array(gp.Y).ravel(), calls=calls, events=list(events), acqs=acqs, upd=upd, idx=idx, pre=pre, pool=pool,
                    n_evidence=bo.n_evidence, gp_n=gp.n_evidence, n_pre=n_pre, n_initial=bo.n_initial_evidence,
                    polls=list(getattr(client, 'polls', [])), tasks_left=len(getattr(client, 'tasks', {})),
                    n_batches=bo.state['n_batches'], names=names)
    finally:
        elfi.client.set_client(native.Client())


def bo_case(ctx, rng, reqs, meta, case=None):
    case = case or gen_bo(rng)
    names = ['t%d' % i for i in range(case['dim'])]
    b, bounds = case['b'], case['bounds']
    runs = []
    try:
        base = run_bo(dict(case, mpb=1), native.Client())
        for k in range(2):
            c2 = dict(case, mpb=rng.randint(2, 4), sched_seed=rng.randrange(2**31), p_ready=rng.choice([0, 0.3, 0.7]), p_eager=rng.choice([0, 0.4]))
            if k == 0:
                c2.update(mpb=3, p_ready=0, p_eager=0)          # the laziest workers: nothing is ever ready before it is waited for
            client = ScheduledClient(random.Random(c2['sched_seed']), c2['p_ready'], c2['p_eager'], cores=2)
            runs.append((c2, run_bo(c2, client)))
        if case['acq'] != 'randmaxvar':
            # asynchronous acquisition under the laziest workers (several batches in flight while the run crosses from the initial
            # evidence to acquisitions), with a prior wider than the bounds so that a prior draw is distinguishable from an acquisition
            c3 = dict(case, mpb=3, sched_seed=rng.randrange(2**31), p_ready=rng.choice([0, 0, 0.3]), p_eager=0, async_acq=True, wide=True)
            client = ScheduledClient(random.Random(c3['sched_seed']), c3['p_ready'], c3['p_eager'], cores=2)
            runs.append((c3, run_bo(c3, client)))
            ctx.count('bo.async', 'yes')
    except Timeout:
        ctx.case(case, True)
        ctx.fail_input(case, 'BayesianOptimization.fit did not return within the time limit')
        return
    ctx.count('bo.acq', case['acq'])
    ctx.count('bo.init', case['init'])
    for c2, r in [(dict(case, mpb=1), base)] + runs:
        par = c2.get('mpb', 1) > 1
        ctx.case(c2, par and (False in r['polls'] or bool(case['noise'])))
        n_init_batches = (r['n_initial'] - r['n_pre']) // b
        # 1. acquired points are simulated inside the bounds
        for bi, params in r['calls']:
            if bi >= n_init_batches:
                bad = [p.tolist() for p in params if not inside(p, bounds)]
                if bad:
                    ctx.fail_input(c2, 'batch %d was simulated at acquired parameters outside the bounds %s: %s' % (bi, bounds, bad[:2]))
                    return
        for t, n, x in r['acqs']:
            if x.shape != (n, case['dim']):
                ctx.fail_input(c2, 'acquire(%d, t=%d) returned shape %s' % (n, t, x.shape), [n, case['dim']], list(x.shape))
                return
        # 2. the evidence is precomputed ++ the consumed batches, in index order
        nb = r['n_batches']
        rows = [np.column_stack([r['pre'][nm] for nm in names])] if r['pre'] is not None else []
        ys = [np.asarray(r['pre']['d'])] if r['pre'] is not None else []
        for bi in range(nb):
            bt = r['pool'].get_batch(bi)
            rows.append(np.column_stack([np.asarray(bt[nm], dtype=float).reshape(-1) for nm in names]))
            ys.append(np.asarray(bt['d'], dtype=float).reshape(-1))
        Xexp, Yexp = np.vstack(rows), np.concatenate(ys)
        if r['X'].shape != Xexp.shape or not (np.array_equal(r['X'], Xexp) and np.array_equal(r['Y'], Yexp)):
            ctx.fail_input(c2, 'the surrogate\'s evidence (%d rows) is not precomputed ++ consumed batches 0..%d (%d rows) in order'
                           % (len(r['X']), nb - 1, len(Xexp)))
            return
        if not (r['n_evidence'] == r['gp_n'] == len(Xexp) == r['n_pre'] + b * nb):
            ctx.fail_input(c2, 'n_evidence %d / surrogate %d / rows %d / precomputed + simulated %d disagree'
                           % (r['n_evidence'], r['gp_n'], len(Xexp), r['n_pre'] + b * nb))
            return
        # the parameters each batch was simulated with are the rows that went into the surrogate
        sim_of = dict(r['calls'])
        for bi in range(nb):
            if bi in sim_of and not np.array_equal(sim_of[bi], Xexp[r['n_pre'] + bi * b: r['n_pre'] + (bi + 1) * b]):
                ctx.fail_input(c2, 'batch %d was simulated at other parameters than the surrogate was trained on' % bi)
                return
        # 3. synchronous acquisition: same evidence as the sequential run, nothing outstanding at acquire
        is_async = bool(c2.get('async_acq'))
        if r is not base and not is_async and (r['X'].shape != base['X'].shape or not (np.array_equal(r['X'], base['X']) and np.array_equal(r['Y'], base['Y']))):
            k = next((i for i in range(min(len(r['X']), len(base['X']))) if not np.array_equal(r['X'][i], base['X'][i])), None)
            ctx.fail_input(c2, 'with synchronous acquisition the fitted evidence differs from the sequential run (first differing row %s; events %s)'
                           % (k, r['events'][:40]))
            return
        for ev in r['events']:
            if ev[0] == 'a' and ev[3] != 0 and not is_async:
                ctx.fail_input(c2, 'acquire(t=%d) was called with %d batch(es) still outstanding (synchronous acquisition)' % (ev[1], ev[3]))
                return
        if r['tasks_left']:
            ctx.fail_input(c2, '%d task(s) left in the client' % r['tasks_left'])
            return
        # model: acquisition index, _should_optimize, engine under the observed schedule
        for i, t in enumerate(r['idx']):
            reqs.append(dict(op='C11.acqindex', b=b, bpa=case['bpa'], nInitial=r['n_initial'], nPre=r['n_pre'], i=i))
            meta.append(('idx', c2, t))
        last = r['n_initial']
        for n_gp, opt, last_upd in r['upd'][(1 if r['pre'] is not None else 0):]:
            reqs.append(dict(op='C11.shouldopt', b=b, nInitial=r['n_initial'], lastUpdate=last_upd, interval=case['update_interval'], nGp=n_gp))
            meta.append(('opt', c2, opt))
        if r is not base:
            acts = ''.join('s' if e[0] == 's' else 'c' for e in r['events'] if e[0] in ('s', 'g'))
            reqs.append(dict(op='C11.engine', nInit=n_init_batches, bpa=case['bpa'], total=nb, sync=not is_async, mpb=c2['mpb'], acts=acts))
            # which acquisition slice each batch ran with (by value)
            labels = []
            for bi in range(nb):
                lab = None
                if bi >= n_init_batches and bi in sim_of:
                    for (t, n, x), evn in zip(r['acqs'], [e for e in r['events'] if e[0] == 'a']):
                        for s in range(case['bpa']):
                            if np.array_equal(x[s * b:(s + 1) * b], sim_of[bi]) and t == (bi - n_init_batches) // case['bpa'] and s == (bi - n_init_batches) % case['bpa']:
                                lab = [t, s, evn[2]]
                labels.append([bi, lab])
            meta.append(('engine', c2, dict(events=[list(e) for e in r['events']], labels=labels, is_async=is_async)))


# ------------------------------------------------------------------ C. gradients

def grad_case(ctx, rng, reqs, meta, kind=None):
    d = rng.randint(1, 2)
    bounds = [(rng.choice([-1.0, 0.0]), rng.choice([1.0, 2.0])) for _ in range(d)]
    kind = kind or rng.choice(['lcbsc', 'maxvar'])
    wide = rng.random() < .5
    gp = make_gp(rng, d, bounds, rng.randint(6, 14))
    prior = ModelPrior(make_model(d, bounds, wide))
    t = rng.randint(0, 5)
    case = dict(part='gradient', acq=kind, dim=d, bounds=bounds, wide_prior=wide, t=t)
    ctx.case(case, d >= 2 or kind == 'maxvar')
    ctx.count('gradient.class', kind)
    if kind == 'lcbsc':
        acq = LCBSC(gp, prior=prior, exploration_rate=rng.choice([10, 3]), seed=1)
    else:
        acq = MaxVar(gp, prior, quantile_eps=rng.choice([.05, .3]), seed=1)
        acq.eps = float(np.percentile(gp.Y, acq.quantile_eps * 100))
    for _ in range(6):
        x = np.array([rng.uniform(lo + .05, hi - .05) for lo, hi in bounds])
        with np.errstate(all='ignore'):
            g = np.ravel(acq.evaluate_gradient(x, t))
            h = 1e-5
            num = np.array([(float(np.ravel(acq.evaluate(x + h * e, t))[0]) - float(np.ravel(acq.evaluate(x - h * e, t))[0])) / (2 * h) for e in np.eye(d)])
        where = dict(case, x=x.tolist())
        scale = float(np.max(np.abs(num))) if np.all(np.isfinite(num)) else 0.0
        if np.all(np.isfinite(num)) and not np.allclose(g, num, rtol=5e-3, atol=1e-7 + 5e-3 * scale):
            ctx.fail_input(where, '%s.evaluate_gradient %s is not the derivative of evaluate %s' % (type(acq).__name__, g.tolist(), num.tolist()), num.tolist(), g.tolist())
            return
        mean, var = gp.predict(x, noiseless=True)
        gm, gv = gp.predictive_gradients(x)
        mean, var, gm, gv = float(np.ravel(mean)[0]), float(np.ravel(var)[0]), np.ravel(gm), np.ravel(gv)
        if kind == 'lcbsc':
            reqs.append(dict(op='C11.lcbsc', beta=bits(acq._beta(t)), mean=bits(mean), var=bits(var), gm=[bits(v) for v in gm], gv=[bits(v) for v in gv]))
            meta.append(('lcbsc', where, (float(np.ravel(acq.evaluate(x, t))[0]), g.tolist())))
        else:
            s2 = float(gp.noise)
            a = (acq.eps - mean) / math.sqrt(s2 + var)
            bb = math.sqrt(s2) / math.sqrt(s2 + 2 * var)
            phiA = float(ss.norm.cdf(a))
            tAB = (phiA - float(ss.skewnorm.cdf(acq.eps, bb, loc=mean, scale=math.sqrt(s2 + var)))) / 2
            p = float(np.ravel(prior.pdf(x))[0])
            glp = np.ravel(prior.gradient_logpdf(x))
            reqs.append(dict(op='C11.maxvar', eps=bits(acq.eps), s2=bits(s2), mean=bits(mean), var=bits(var), gm=[bits(v) for v in gm],
                             gv=[bits(v) for v in gv], p=bits(p), glp=[bits(v) for v in glp], phiA=bits(phiA),
                             phiAB=bits(float(ss.norm.cdf(a * bb))), tAB=bits(tAB)))
            meta.append(('maxvar', where, (float(np.ravel(acq.evaluate(x))[0]), g.tolist())))


# ------------------------------------------------------------------ drive

def drive(ctx, reqs, meta):
    if not ctx.driver_ok or not reqs:
        return
    for (kind, case, real), a in zip(meta, ctx.lean.drive(reqs)):
        m = a.get('ok')
        if m is None:
            ctx.corr_break('driver', case, a, None)
            continue
        if kind == 'minimize':
            out = None if m['out'] is None else [unbits(v) for v in m['out']]
            if out is None or not np.array_equal(np.array(out), real) or m['inbox'] is not True:
                ctx.corr_break('minimize', case, out, real.tolist())
        elif kind == 'noise':
            out = np.array([[unbits(v) for v in r] for r in m['rows']])
            if out.shape != real.shape or not np.array_equal(out, real):
                ctx.corr_break('add-noise', case, out.tolist(), real.tolist())
        elif kind == 'uniform':
            out = [unbits(v) for v in m['point']]
            if not np.allclose(out, real, rtol=1e-15, atol=0) or m['inbox'] is not True:
                ctx.corr_break('uniform-point', case, out, real.tolist())
        elif kind == 'pick':
            if m['picked'] != real:
                ctx.corr_break('randmaxvar-pick', case, m['picked'], real)
        elif kind == 'idx':
            if m['t'] != real:
                ctx.corr_break('acquisition-index', case, m['t'], real)
        elif kind == 'opt':
            if m['opt'] != real:
                ctx.corr_break('should-optimize', case, m['opt'], real)
        elif kind == 'engine':
            if not m.get('accepted'):
                ctx.corr_break('engine.schedule-rejected', case, 'the model engine cannot follow the observed schedule', real['events'][:50])
            elif m['log'] != real['events']:
                ctx.corr_break('engine.events', case, m['log'][:50], real['events'][:50])
            elif m['ev'] != real['labels'] or (m['ev'] != m['seq'] and not real.get('is_async')):
                ctx.corr_break('engine.evidence', case, m['ev'], real['labels'])
        elif kind in ('lcbsc', 'maxvar'):
            val, g = real
            mv = unbits(m['val'][0])
            mg = [unbits(v) for v in m['grad']]
            tol = 1e-6 if kind == 'lcbsc' else 1e-5
            sc = max([abs(v) for v in g] + [1e-300])
            if not math.isclose(mv, val, rel_tol=tol, abs_tol=1e-12) or not np.allclose(mg, g, rtol=tol, atol=tol * sc + 1e-14):
                ctx.corr_break('%s-formula' % kind, case, dict(val=mv, grad=mg), dict(val=val, grad=g))


def process(ctx, n_acq, n_pick, n_bo, n_grad):
    rng = ctx.rng
    reqs, meta = [], []
    for k in ACQ[:0] + ['lcbsc', 'maxvar', 'randmaxvar', 'expintvar', 'uniform']:
        if not ctx.enough():
            acquire_case(ctx, rng, reqs, meta, kind=k)
    # per-parameter noise with zero and positive entries in every position, parameters with DIFFERENT (disjoint) bounds
    for fz in (dict(d=2, bounds=[(-1.0, 1.0), (3.0, 4.0)], noise={'t0': 0, 't1': 0.3}, n=5),
               dict(d=2, bounds=[(3.0, 4.0), (-1.0, 1.0)], noise={'t0': 0.3, 't1': 0}, n=5),
               dict(d=2, bounds=[(-2.0, -1.0), (5.0, 6.0)], noise={'t0': 0.2, 't1': 0.5}, n=4)):
        if not ctx.enough():
            acquire_case(ctx, rng, reqs, meta, kind='lcbsc', forced=fz)
    # RandMaxVar with a prior much wider than the box (the chain wants to leave it), long chains, many points
    for fz in (dict(d=1, bounds=[(0.0, 1.0)], noise=None, n=20, wide=True), dict(d=2, bounds=[(0.0, 1.0), (-1.0, 1.0)], noise=None, n=20, wide=True)):
        if not ctx.enough():
            acquire_case(ctx, rng, reqs, meta, kind='randmaxvar', forced=fz)
    for _ in range(n_acq):
        if ctx.enough():
            break
        acquire_case(ctx, rng, reqs, meta)
    for _ in range(n_pick):
        if ctx.enough():
            break
        pick_case(ctx, rng, reqs, meta)
    for k in range(n_grad):
        if ctx.enough():
            break
        grad_case(ctx, rng, reqs, meta, kind=['maxvar', 'lcbsc', 'maxvar'][k % 3])
    for k in range(n_bo):
        if ctx.enough():
            break
        bo_case(ctx, rng, reqs, meta, case=gen_bo(rng, init=['dict', 'count', 'dict', 'zero'][k % 4]))
    drive(ctx, reqs, meta)


def run(ctx):
    if ctx.tier == 'quick':
        process(ctx, 14, 8, 4, 15)
    else:
        process(ctx, 300, 120, 60, 150)


def search(ctx):
    process(ctx, 60, 30, 15, 30)


def replay(ctx, case):
    return dict(note='cases are generated from the seed (GP evidence, schedules): rerun the check with the same VERIF_SEED', part=case.get('part'))
