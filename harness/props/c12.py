"""C12 — distance nodes and the adaptive scale: real elfi.Distance / AdaptiveDistance /
Rejection._update_distances vs Model/Distance.lean, plus the direct statement (scipy metric per row)."""
import fractions
import itertools
import math
from fractions import Fraction as F

import numpy as np
import scipy.spatial.distance as ssd

import elfi
from common import Timeout, with_timeout

META = dict(
    rule='cases: (data set, partition into add_data calls) for the adaptive scale — every ordered partition for <= 6 '
         'rows; (metric, kwargs, summary shapes, batch size) for distance nodes; (updates, batch sizes) for nested '
         'distances; seeded adaptive Rejection runs for the re-sort. Non-trivial = >= 2 rows and (a partition with >= 2 '
         'parts | >= 2 summaries or a vector summary | >= 1 update); distinct by full content',
    trusted_base=['scipy.spatial.distance pairwise metric functions as the reference for each metric (the model takes the metric as a parameter)',
                  'the real add_data runs on Fraction object arrays (np.sqrt dispatched to a symbolic sqrt); float rounding not modelled'],
    assumptions=['summaries are scalars or vectors per row (as the Distance docstring requires)', 'every add_data call gets at least one row'],
    partial=['sqrt is abstract: newest_is_scaled_euclid is stated for squared distances'],
)


class Sqrt:
    """symbolic sqrt(q) so that np.sqrt works on Fraction object arrays"""

    def __init__(self, q):
        self.q = F(q)

    def __rtruediv__(self, other):
        return InvSqrt(self.q, F(other))

    def __pow__(self, k):
        assert k == 2
        return self.q


class InvSqrt:
    def __init__(self, q, c):
        self.q, self.c = q, c

    def __pow__(self, k):
        assert k == 2
        return self.c * self.c / self.q


fractions.Fraction.sqrt = lambda self: Sqrt(self)


def q2j(q):
    q = F(q)
    return [q.numerator, q.denominator]


def j2q(j):
    return F(j[0], j[1])


def ocol(vals):
    a = np.empty(len(vals), dtype=object)
    for i, v in enumerate(vals):
        a[i] = v
    return a


def new_adaptive(n_sum=1, vector=False):
    if vector:
        # ONE vector-valued summary (an n x k array) instead of k scalar ones
        m = elfi.ElfiModel()
        t = elfi.Prior('uniform', 0, 1, model=m, name='t')
        Y = elfi.Simulator(lambda t, batch_size=1, random_state=None: np.zeros((batch_size, n_sum)), t, model=m, name='Y',
                           observed=np.zeros((1, n_sum)))
        S = elfi.Summary(lambda y: y, Y, model=m, name='S0')
        d = elfi.AdaptiveDistance(S, model=m, name='d')
        return m, d
    m = elfi.ElfiModel()
    t = elfi.Prior('uniform', 0, 1, model=m, name='t')
    Y = elfi.Simulator(lambda t, batch_size=1, random_state=None: np.zeros((batch_size, n_sum)), t, model=m, name='Y',
                       observed=np.zeros((1, n_sum)))
    S = [elfi.Summary(lambda y, j=j: y[:, j], Y, model=m, name='S%d' % j) for j in range(n_sum)]
    d = elfi.AdaptiveDistance(*S, model=m, name='d')
    return m, d


def compositions(n):
    """all ordered partitions of n into positive parts"""
    for mask in range(1 << (n - 1)):
        parts, cur = [], 1
        for i in range(n - 1):
            if mask >> i & 1:
                parts.append(cur)
                cur = 1
            else:
                cur += 1
        parts.append(cur)
        yield parts


# ------------------------------------------------------------------------------------------
def check_welford(ctx):
    rng = ctx.rng
    reqs, meta = [], []
    datasets = []
    for n in range(1, ctx.budget(5, 7) + 1):
        datasets.append(([F(rng.randint(-4, 4), rng.choice([1, 2, 3])) for _ in range(n)], 'all'))
    for _ in range(ctx.budget(25, 400)):
        n = rng.randint(2, 40)
        datasets.append(([F(rng.randint(-9, 9), rng.choice([1, 1, 2, 5])) for _ in range(n)], 'random'))
    for data, mode in datasets:
        n = len(data)
        if mode == 'all':
            comps = list(compositions(n))
        else:
            comps = []
            for _ in range(ctx.budget(3, 10)):
                cuts = sorted(rng.sample(range(1, n), rng.randint(0, min(n - 1, 6))))
                comps.append([b - a for a, b in zip([0] + cuts, cuts + [n])])
        mean = sum(data) / n
        m2 = sum((x - mean) ** 2 for x in data)
        for comp in comps:
            if ctx.enough():
                return
            _, d = new_adaptive(1)
            parts, pos = [], 0
            for k in comp:
                parts.append(data[pos:pos + k])
                pos += k
            for p in parts:
                d.add_data(ocol(p))
            st = d.state['store']
            got = (F(st[0]), F(np.ravel(st[1])[0]), F(np.ravel(st[2])[0]))       # (np.ravel: robust against a scalar where an array is expected)
            sc = np.ravel(d.state['scale'])[0]
            case = dict(kind='welford', data=[q2j(x) for x in data], partition=comp)
            ctx.case(case, n >= 2 and len(comp) >= 2)
            ctx.count('welford.parts', min(len(comp), 8))
            if got != (n, mean, m2):
                ctx.fail_input(case, 'Welford store (N, mean, M2) = %s after this partition, definition gives %s'
                               % ([str(g) for g in got], [str(n), str(mean), str(m2)]), [str(n), str(mean), str(m2)], [str(g) for g in got])
            if not isinstance(sc, Sqrt) or sc.q != m2 / n:
                ctx.fail_input(case, 'scale^2 = %s but the population variance of all added rows is %s'
                               % (getattr(sc, 'q', sc), m2 / n), str(m2 / n), str(getattr(sc, 'q', sc)))
            reqs.append(dict(op='C12.welford', parts=[[q2j(x) for x in p] for p in parts]))
            meta.append((case, got, sc))
    # the SAME code on floats with a location that is large relative to the spread (the exact run cannot see cancellation
    # introduced by an algebraically equal rewrite): scale vs the exact population standard deviation of the float inputs
    import math
    for _ in range(ctx.budget(20, 300)):
        if ctx.enough():
            break
        n = rng.randint(4, 40)
        off = rng.choice([0.0, 1e3, 1e6, 1e8])
        xs = [off + rng.gauss(0, 1) for _ in range(n)]
        cuts = sorted(rng.sample(range(1, n), rng.randint(0, min(n - 1, 5))))
        comp = [b - a for a, b in zip([0] + cuts, cuts + [n])]
        _, d = new_adaptive(1)
        pos = 0
        for k in comp:
            d.add_data(np.array(xs[pos:pos + k]).reshape(-1, 1))
            pos += k
        xq = [F(v) for v in xs]
        mq = sum(xq) / n
        var = float(sum((v - mq) ** 2 for v in xq) / n)
        got_sc = float(np.ravel(d.state['scale'])[0])
        case = dict(kind='welford-floats', data=xs, partition=comp)
        ctx.case(case, len(comp) >= 2)
        ctx.count('welford.float_offset', '%g' % off)
        if var > 0 and not math.isclose(got_sc, math.sqrt(var), rel_tol=1e-5):
            ctx.fail_input(case, 'adaptive scale on floats = %r, the population standard deviation of the same rows is %r' % (got_sc, math.sqrt(var)),
                           math.sqrt(var), got_sc)
    if ctx.driver_ok:
        for (case, got, sc), a in zip(meta, ctx.lean.drive(reqs)):
            if 'ok' not in a:
                ctx.corr_break('welford', case, a, None)
                continue
            mdl = (j2q(a['ok']['cnt']), j2q(a['ok']['mean']), j2q(a['ok']['m2']))
            if mdl != got or j2q(a['ok']['scaleSq']) != getattr(sc, 'q', None):
                ctx.corr_break('welford', case, [str(v) for v in mdl], [str(v) for v in got])


# ------------------------------------------------------------------------------------------
def dyadic(rng):
    return rng.randint(-16, 16) / 4.0


def make_distance_model(shapes, obs_rows, metric, kw):
    """summaries S_i with shape 'vec' (n,) or ('mat', m); observed twins are computed by elfi from the observed data"""
    m = elfi.ElfiModel()
    t = elfi.Prior('uniform', 0, 1, model=m, name='t')
    width = sum(1 if s == 'vec' else s[1] for s in shapes)
    Y = elfi.Simulator(lambda t, batch_size=1, random_state=None: np.zeros((batch_size, width)), t, model=m, name='Y',
                       observed=np.array([obs_rows]))
    S, col = [], 0
    for i, s in enumerate(shapes):
        if s == 'vec':
            S.append(elfi.Summary(lambda y, c=col: y[:, c], Y, model=m, name='S%d' % i))
            col += 1
        else:
            S.append(elfi.Summary(lambda y, c=col, w=s[1]: y[:, c:c + w], Y, model=m, name='S%d' % i))
            col += s[1]
    d = elfi.Distance(metric, *S, model=m, name='d', **kw)
    return m, d


def check_distance_nodes(ctx):
    rng = ctx.rng
    reqs, meta = [], []
    for it in range(ctx.budget(100, 1500)):
        if ctx.enough():
            break
        n = rng.choice([1, 1, 2, 3, 5])
        shapes = [rng.choice(['vec', 'vec', ('mat', 1), ('mat', 2), ('mat', 3)]) for _ in range(rng.randint(1, 3))]
        width = sum(1 if s == 'vec' else s[1] for s in shapes)
        mname = rng.choice(['euclidean', 'cityblock', 'sqeuclidean', 'chebyshev', 'minkowski', 'seuclidean',
                            'mahalanobis', 'custom'])
        kw, ref = {}, None
        if mname == 'minkowski':
            kw['p'] = rng.choice([1, 1.5, 3])
            ref = lambda a, b, p=kw['p']: ssd.minkowski(a, b, p)
        elif mname == 'seuclidean':
            kw['V'] = np.array([rng.choice([0.25, 1.0, 4.0]) for _ in range(width)])
            ref = lambda a, b, V=kw['V']: ssd.seuclidean(a, b, V)
        elif mname == 'mahalanobis':
            A = np.array([[rng.uniform(-1, 1) for _ in range(width)] for _ in range(width)])
            kw['VI'] = A @ A.T + np.eye(width)
            ref = lambda a, b, VI=kw['VI']: ssd.mahalanobis(a, b, VI)
        elif mname == 'custom':
            ref = lambda a, b: float(np.sum(np.abs(a - b) ** 3))
        else:
            ref = getattr(ssd, mname)
            if mname in ('euclidean', 'cityblock', 'sqeuclidean', 'chebyshev') and rng.random() < .4:
                kw['w'] = np.array([rng.choice([0.25, 1.0, 2.0, 3.0]) for _ in range(width)])       # the metric's weight keyword
                ref = lambda a, b, w=kw['w'], f=getattr(ssd, mname): f(a, b, w=w)
        if mname == 'minkowski' and rng.random() < .4:
            kw['w'] = np.array([rng.choice([0.25, 1.0, 2.0]) for _ in range(width)])
            ref = lambda a, b, p=kw['p'], w=kw['w']: ssd.minkowski(a, b, p, w=w)
        metric = mname if mname != 'custom' else (lambda X, Y: np.sum(np.abs(X - Y) ** 3, axis=1, keepdims=rng.random() < .5))
        obs_row = [dyadic(rng) for _ in range(width)]
        data = [[dyadic(rng) for _ in range(width)] for _ in range(n)]
        try:
            m, d = make_distance_model(shapes, obs_row, metric, dict(kw))
        except Exception as e:                                    # noqa
            case = dict(kind='distance', metric=mname, kw={k: np.asarray(v).tolist() for k, v in kw.items()},
                        shapes=[s if s == 'vec' else list(s) for s in shapes], n=n, data=data, observed=obs_row)
            ctx.case(case, True)
            ctx.fail_input(case, 'constructing the distance node with the metric\'s keyword arguments failed: %s: %s'
                           % (type(e).__name__, str(e)[:100]), 'a distance node', 'exception')
            continue
        wv, col = {}, 0
        sj = []
        for i, s in enumerate(shapes):
            if s == 'vec':
                wv['S%d' % i] = np.array([r[col] for r in data])
                sj.append(dict(vec=[q2j(F(r[col])) for r in data]))
                col += 1
            else:
                wv['S%d' % i] = np.array([r[col:col + s[1]] for r in data])
                sj.append(dict(mat=[[q2j(F(v)) for v in r[col:col + s[1]]] for r in data]))
                col += s[1]
        case = dict(kind='distance', metric=mname, kw={k: np.asarray(v).tolist() for k, v in kw.items()},
                    shapes=[s if s == 'vec' else list(s) for s in shapes], n=n, data=data, observed=obs_row)
        ctx.case(case, n >= 2 and (len(shapes) >= 2 or width >= 2))
        ctx.count('distance.metric', mname)
        ctx.count('distance.n', n)
        exp = np.array([ref(np.array(r), np.array(obs_row)) for r in data])
        try:
            got = np.asarray(d.generate(batch_size=n, with_values=wv))
            bad = got.shape != (n,) or not np.allclose(got, exp, rtol=1e-9, atol=1e-12)
            obs = got.tolist()
        except Exception as e:                                    # noqa
            bad, obs = True, '%s: %s' % (type(e).__name__, str(e)[:100])
        if bad:
            ctx.fail_input(case, 'distance node output differs from the metric applied row by row to the stacked summaries '
                           '(expected shape (%d,))' % n, exp.tolist(), obs)
        if mname in ('cityblock', 'sqeuclidean', 'chebyshev') and 'w' not in kw:
            # the observed twins elfi computed: S_i(observed) -> shapes (1,) or (1, m)
            oj, col = [], 0
            for s in shapes:
                if s == 'vec':
                    oj.append(dict(vec=[q2j(F(obs_row[col]))]))
                    col += 1
                else:
                    oj.append(dict(mat=[[q2j(F(v)) for v in obs_row[col:col + s[1]]]]))
                    col += s[1]
            reqs.append(dict(op='C12.dist', metric=mname, summaries=sj, observed=oj))
            meta.append((case, obs))
    if ctx.driver_ok:
        for (case, obs), a in zip(meta, ctx.lean.drive(reqs)):
            mdl = a.get('ok', {})
            mv = [float(j2q(v)) for v in mdl['vec']] if 'vec' in mdl else mdl
            if mv != obs:
                ctx.corr_break('distance', case, mv, obs)


# ------------------------------------------------------------------------------------------
def check_nested(ctx):
    rng = ctx.rng
    for it in range(ctx.budget(40, 600)):
        if ctx.enough():
            break
        k = rng.randint(1, 3)
        vector = it % 4 == 3            # one vector-valued summary: the n x k array reaches the distance as it is
        m, d = new_adaptive(k, vector)
        obs = np.zeros(k)
        rounds = rng.randint(1, 3)
        prev_cols, prev_q = [], None
        q = np.array([[rng.uniform(-3, 3) for _ in range(k)] for _ in range(rng.choice([1, 1, 2, 4]))])
        case = dict(kind='nested', n_summaries=k, rounds=rounds, query=q.tolist(), data=[], vector_summary=vector)
        ok = True
        for r in range(rounds):
            data = np.array([[rng.uniform(-5, 5) * (1 + 3 * j) for j in range(k)] for _ in range(rng.randint(2, 12))])
            case['data'].append(data.tolist())
            cuts = sorted(rng.sample(range(1, len(data)), rng.randint(0, min(len(data) - 1, 3))))
            for a, b in zip([0] + cuts, cuts + [len(data)]):
                if vector:
                    d.add_data(data[a:b].copy())
                else:
                    d.add_data(*[data[a:b, j] for j in range(k)])
            scale = data.std(axis=0)
            d.update_distance()
            if vector:
                given = q.copy()
                res = m.generate(batch_size=len(q), outputs=['d', 'S0'], with_values={'S0': given})
                out = np.asarray(res['d'])
                # evaluating a distance must not alter the summaries it is computed from (they are outputs of the same batch)
                if not np.array_equal(given, q) or not np.array_equal(np.asarray(res['S0']), q):
                    ctx.fail_input(case, 'evaluating the adaptive distance changed the summary values of the batch: %s -> %s'
                                   % (q.tolist(), np.asarray(res['S0']).tolist()), q.tolist(), np.asarray(res['S0']).tolist())
                    ok = False
                    break
            else:
                out = np.asarray(d.generate(batch_size=len(q), with_values={'S%d' % j: q[:, j] for j in range(k)}))
            exp_new = np.sqrt((((q - obs) / scale) ** 2).sum(axis=1))
            if out.shape != (len(q), r + 2):
                ctx.fail_input(case, 'nested distance has shape %s after %d update(s) for %d row(s), expected (%d, %d)'
                               % (out.shape, r + 1, len(q), len(q), r + 2), [len(q), r + 2], list(out.shape))
                ok = False
                break
            if not np.allclose(out[:, -1], exp_new, rtol=1e-9):
                ctx.fail_input(case, 'newest adaptive distance is not the Euclidean distance of summaries / population std',
                               exp_new.tolist(), out[:, -1].tolist())
                ok = False
                break
            if not np.allclose(d.state['scale'], scale, rtol=1e-9):
                ctx.fail_input(case, 'adaptive scale differs from the population std of the added rows', scale.tolist(),
                               np.asarray(d.state['scale']).tolist())
                ok = False
                break
            if r == 0:
                exp0 = np.sqrt(((q - obs) ** 2).sum(axis=1))
                if not np.allclose(out[:, 0], exp0, rtol=1e-12):
                    ctx.fail_input(case, 'first (unscaled) distance changed', exp0.tolist(), out[:, 0].tolist())
            if prev_cols and not np.array_equal(out[:, :-1], prev_cols[-1]):
                ctx.fail_input(case, 'earlier nested distances changed after a later update', prev_cols[-1].tolist(), out[:, :-1].tolist())
                ok = False
                break
            prev_cols.append(out.copy())
        ctx.case(case, True)
        ctx.count('nested.rounds', rounds)
        ctx.count('nested.batch', len(q))
        ctx.count('nested.vector_summary', vector)


# ------------------------------------------------------------------------------------------
def adaptive_rejection(seed, b, n, n_sim):
    m = elfi.ElfiModel()
    t = elfi.Prior('uniform', 0, 1, model=m, name='t')

    def sim(t, batch_size=1, random_state=None):
        return np.column_stack([t + 0.1 * random_state.randn(batch_size), 10 * t + 5 * random_state.randn(batch_size)])

    Y = elfi.Simulator(sim, t, model=m, name='Y', observed=np.array([[0.5, 5.0]]))
    elfi.Summary(lambda y: y[:, 0], Y, model=m, name='S1')
    elfi.Summary(lambda y: y[:, 1], Y, model=m, name='S2')
    elfi.AdaptiveDistance(m['S1'], m['S2'], model=m, name='d')
    rej = elfi.Rejection(m['d'], batch_size=b, seed=seed, output_names=['S1', 'S2'])
    res = with_timeout(30, lambda: rej.sample(n, n_sim=n_sim, bar=False))
    sc = 1.0 / np.asarray(m['d'].state['w'][-1])
    return res, sc


def check_resort(ctx):
    rng = ctx.rng
    reqs, meta = [], []
    for it in range(ctx.budget(25, 400)):
        if ctx.enough():
            break
        b = rng.randint(1, 6)
        n = rng.randint(2, 8)
        n_sim = rng.randint(n + 1, n + 25)
        case = dict(kind='adaptive-rejection', seed=rng.randrange(2**31), b=b, n=n, n_sim=n_sim)
        ctx.case(case, True)
        ctx.count('resort.n', n)
        try:
            res, sc = adaptive_rejection(case['seed'], b, n, n_sim)
        except Timeout:
            ctx.fail_input(case, 'adaptive Rejection did not return within 30 s')
            continue
        obs = np.array([0.5, 5.0])
        dcol = np.asarray(res.outputs['d'])
        rec = np.sqrt(((res.outputs['S1'] - obs[0]) / sc[0]) ** 2 + ((res.outputs['S2'] - obs[1]) / sc[1]) ** 2)
        what = None
        if dcol.shape != (n,) or not np.allclose(rec, dcol, rtol=1e-9):
            what = 'row i of the discrepancy is not the newest distance of row i of the returned summaries'
        elif np.any(np.diff(dcol) < 0):
            what = 'returned discrepancies are not ascending after the adaptive update'
        elif not np.isclose(res.threshold, dcol.max()):
            what = 'threshold %r is not the largest returned discrepancy %r' % (res.threshold, dcol.max())
        if what:
            ctx.fail_input(case, what, rec.tolist(), dcol.tolist(), finding='adaptive-resort-misaligned')
        reqs.append(dict(op='C12.resort', ds=[q2j(F(float(v))) for v in rec]))
        meta.append((case, dcol))
    if ctx.driver_ok:
        for (case, dcol), a in zip(meta, ctx.lean.drive(reqs)):
            mv = [float(j2q(v)) for v in a.get('ok', {}).get('d', [])]
            # the model sorts the recomputed distances of the returned rows: equal to the returned column iff aligned+sorted
            if not np.allclose(mv, sorted(dcol.tolist()), rtol=1e-9) or (not np.allclose(mv, dcol, rtol=1e-9)):
                ctx.corr_break('resort', case, mv, dcol.tolist())


def run(ctx):
    check_welford(ctx)
    check_distance_nodes(ctx)
    check_nested(ctx)
    check_resort(ctx)


def search(ctx):
    ctx.tier = 'thorough'
    run(ctx)


def replay(ctx, case):
    k = case['kind']
    if k == 'welford':
        data = [j2q(v) for v in case['data']]
        _, d = new_adaptive(1)
        pos = 0
        for c in case['partition']:
            d.add_data(ocol(data[pos:pos + c]))
            pos += c
        n = len(data)
        mean = sum(data) / n
        m2 = sum((x - mean) ** 2 for x in data)
        st = d.state['store']
        got = (F(st[0]), F(st[1][0]), F(st[2][0]))
        if got != (n, mean, m2):
            ctx.fail_input(case, 'Welford store differs from the definition')
        return dict(got=[str(g) for g in got], expected=[str(n), str(mean), str(m2)])
    if k == 'adaptive-rejection':
        res, sc = adaptive_rejection(case['seed'], case['b'], case['n'], case['n_sim'])
        obs = np.array([0.5, 5.0])
        rec = np.sqrt(((res.outputs['S1'] - obs[0]) / sc[0]) ** 2 + ((res.outputs['S2'] - obs[1]) / sc[1]) ** 2)
        dcol = np.asarray(res.outputs['d'])
        if dcol.shape != rec.shape or not np.allclose(rec, dcol) or np.any(np.diff(dcol) < 0) or not np.isclose(res.threshold, dcol.max()):
            ctx.fail_input(case, 'discrepancy column misaligned / unsorted / threshold not max', finding='adaptive-resort-misaligned')
        return dict(d=dcol.tolist(), recomputed=rec.tolist(), threshold=float(res.threshold))
    if k == 'distance':
        shapes = [s if s == 'vec' else tuple(s) for s in case['shapes']]
        kw = {a: np.array(v) if isinstance(v, list) else v for a, v in case['kw'].items()}
        name = case['metric']
        if name == 'custom':
            return dict(note='custom callables are not serialised; rerun the check with the same VERIF_SEED')
        m, d = make_distance_model(shapes, case['observed'], name, dict(kw))
        data = case['data']
        wv, col = {}, 0
        for i, s in enumerate(shapes):
            w = 1 if s == 'vec' else s[1]
            wv['S%d' % i] = np.array([r[col] for r in data]) if s == 'vec' else np.array([r[col:col + w] for r in data])
            col += w
        ref = {'minkowski': lambda a, b: ssd.minkowski(a, b, kw['p']), 'seuclidean': lambda a, b: ssd.seuclidean(a, b, kw['V']),
               'mahalanobis': lambda a, b: ssd.mahalanobis(a, b, kw['VI'])}.get(name) or getattr(ssd, name)
        exp = np.array([ref(np.array(r), np.array(case['observed'])) for r in data])
        try:
            got = np.asarray(d.generate(batch_size=len(data), with_values=wv))
            bad = got.shape != exp.shape or not np.allclose(got, exp)
            obs = got.tolist()
        except Exception as e:                                   # noqa
            bad, obs = True, str(e)[:100]
        if bad:
            ctx.fail_input(case, 'distance node output differs from the row-wise metric', exp.tolist(), obs)
        return dict(expected=exp.tolist(), observed=obs)
    return dict(note='replay by rerunning the check with the same VERIF_SEED')
