"""C13 — weighted statistics and the mixture proposal: real elfi.methods.utils vs Model/Stats.lean.

The real numpy code is executed on exact rationals (`fractions.Fraction` in dtype=object arrays), so
its results are compared with the `Rat` model for EQUALITY; the property is also evaluated directly
on the real outputs (independent Python statement with Fractions / scipy)."""
import itertools
from fractions import Fraction as F

import math

import numpy as np
import scipy.stats as ss

from elfi.methods.utils import (GMDistribution, compute_ess, normalize_weights, weighted_sample_quantile,
                                weighted_var)

META = dict(
    rule='cases: (x, w, alpha) for the quantile incl. every cumulative-weight boundary and midpoint, ties and zero '
         'weights; (x, w) for variance / ESS; (means shape, weights, x shape, cov kind) for the mixture density; '
         '(size, predicate, seed) for the constrained sampler. Non-trivial = at least 2 sample points (quantile: '
         'additionally a tie, a zero weight or a boundary alpha); distinct by full content',
    trusted_base=['scipy.stats.multivariate_normal as the component density (the mixture model takes it as a parameter N)',
                  'exact execution of the real numpy code on Fraction object arrays (float rounding not modelled); '
                  'a float re-run of every quantile case on dyadic weights must give the same element'],
    assumptions=['weights non-negative with positive sum, alpha in [0,1], x and weights of equal length (the property\'s domain)'],
    partial=['gm_pdf_sum is stated under the guard "not exactly one component in >= 2 dimensions" (np.squeeze '
             'mangles that shape: known finding gm-single-component-squeeze, counter-example theorem included)',
             'termination of the constrained sampler is not claimed (partial correctness)'],
)


def q2j(q):
    q = F(q)
    return [q.numerator, q.denominator]


def j2q(j):
    return F(j[0], j[1])


def oarr(l):
    a = np.empty(len(l), dtype=object)
    for i, v in enumerate(l):
        a[i] = v
    return a


# ------------------------------------------------------------------------------------------
def real_quantile(x, w, alpha):
    try:
        r = weighted_sample_quantile(oarr(x), alpha, None if w is None else oarr(w))
        return F(r)
    except IndexError:
        return None


def quantile_cases(ctx):
    rng = ctx.rng
    out = []
    # exhaustive small: all x in alphabet^n, all w in {0,1,2}^n not all zero, n<=3 (quick) / 4 (thorough)
    nmax = ctx.budget(3, 4)
    for n in range(1, nmax + 1):
        for x in itertools.product([1, 2, 3][:max(2, n)], repeat=n):
            for w in itertools.product([0, 1, 2], repeat=n):
                if sum(w) == 0:
                    continue
                out.append(([F(v) for v in x], [F(v) for v in w], 'exh'))
    for _ in range(ctx.budget(150, 3000)):
        n = rng.randint(1, 12)
        x = [F(rng.choice([-2, 0, 1, 3, 5, 7]), rng.choice([1, 1, 2])) for _ in range(n)]
        w = [F(rng.choice([0, 1, 1, 2, 3, 5]), rng.choice([1, 1, 2, 4])) for _ in range(n)]
        if sum(w) == 0:
            w[rng.randrange(n)] = F(1)
        out.append((x, w if rng.random() < .85 else None, 'rand'))
    return out


def alphas_for(x, w):
    ww = w if w is not None else [F(1)] * len(x)
    s = sum(ww)
    order = sorted(range(len(x)), key=lambda i: x[i])
    cs, acc = [F(0)], F(0)
    for i in order:
        acc += ww[i] / s
        cs.append(acc)
    # 0 and 1 themselves and their close neighbours: "alpha is 0" is an exact statement, a tiny positive alpha
    # must already skip every zero-weight minimum (and 1 - tiny must not yet reach a zero-weight maximum)
    al = {F(0), F(1), F(1, 10 ** 9), F(1, 10 ** 15), 1 - F(1, 10 ** 9)}
    # weights=None makes the real code compute k/n in floats: an exact boundary alpha = k/n is then a
    # rounding question (not modelled) unless n is a power of two
    exact = w is not None or (len(x) & (len(x) - 1)) == 0
    for a, b in zip(cs, cs[1:]):
        if exact:
            al.add(b)
        al.add((a + b) / 2)
    return sorted(al)


def check_quantile(ctx):
    reqs, meta = [], []
    for x, w, kind in quantile_cases(ctx):
        if ctx.enough():
            break
        ww = w if w is not None else [F(1)] * len(x)
        S = sum(ww)
        als = alphas_for(x, w)
        prev = None
        for al in als:
            case = dict(fn='weighted_sample_quantile', x=[q2j(v) for v in x], w=None if w is None else [q2j(v) for v in w],
                        alpha=q2j(al))
            q = real_quantile(x, w, al)
            nontriv = len(x) >= 2 and (len(set(x)) < len(x) or 0 in ww or al in als)
            ctx.case(case, nontriv)
            ctx.count('quantile.n', len(x))
            ctx.count('quantile.kind', kind + ('' if w is not None else '-noweights'))
            # direct statement of the property
            if q is None:
                ctx.fail_input(case, 'weighted quantile raised for a valid input', 'an element', None)
            else:
                wle = sum(b for a, b in zip(x, ww) if a <= q) / S
                wlt = sum(b for a, b in zip(x, ww) if a < q) / S
                if q not in x or not (wle >= al) or not (wlt <= al):
                    ctx.fail_input(case, 'quantile %s: weight<=q %s, weight<q %s, alpha %s (element of sample: %s)'
                                   % (q, wle, wlt, al, q in x), 'weight{<=q} >= alpha >= weight{<q}', str(q))
                if prev is not None and q < prev:
                    ctx.fail_input(case, 'quantile not monotone in alpha: %s then %s' % (prev, q), None, str(q))
                prev = q
                # scale invariance
                if w is not None:
                    q3 = real_quantile(x, [3 * v for v in w], al)
                    if q3 != q:
                        ctx.fail_input(case, 'quantile changes when weights are multiplied by 3: %s vs %s' % (q, q3), str(q), str(q3))
                # float path on the same data (weights made dyadic-exact where possible): same element expected
                # only compared when every cumulative sum is exactly representable
                if w is not None and all(v.denominator in (1, 2, 4) for v in ww) and S.denominator == 1 \
                        and S.numerator in (1, 2, 4, 8, 16):
                    qf = weighted_sample_quantile(np.array([float(v) for v in x]), float(al),
                                                  np.array([float(v) for v in w]))
                    ctx.count('quantile.float_rerun', 'done')
                    if F(float(qf)) != q:
                        ctx.corr_break('quantile.float-vs-exact', case, str(q), float(qf))
            reqs.append(dict(op='C13.quantile', x=case['x'], w=case['w'], alpha=case['alpha']))
            meta.append((case, q))
    if ctx.driver_ok:
        for (case, q), a in zip(meta, ctx.lean.drive(reqs)):
            mq = a.get('ok', {}).get('q', 'ERR') if 'ok' in a else 'ERR'
            mq = None if mq is None else (mq if mq == 'ERR' else j2q(mq))
            if mq != q:
                ctx.corr_break('quantile', case, str(mq), str(q))


# ------------------------------------------------------------------------------------------
def check_var_ess(ctx):
    rng = ctx.rng
    reqs, meta = [], []
    for _ in range(ctx.budget(150, 3000)):
        n = rng.randint(1, 10)
        x = [F(rng.randint(-6, 6), rng.choice([1, 1, 2, 3])) for _ in range(n)]
        w = [F(rng.choice([0, 1, 1, 2, 3, 5]), rng.choice([1, 1, 2, 4])) for _ in range(n)]
        if rng.random() < .1:
            w = [F(1)] * n
        case = dict(fn='weighted_var', x=[q2j(v) for v in x], w=[q2j(v) for v in w])
        ctx.case(case, n >= 2)
        ctx.count('var.n', n)
        S, S2 = sum(w), sum(v * v for v in w)
        # direct formula
        exp = None
        if S != 0 and S - S2 / S != 0:
            mu = sum(a * b for a, b in zip(x, w)) / S
            exp = sum(b * (a - mu) ** 2 for a, b in zip(x, w)) / (S - S2 / S)
        try:
            got = weighted_var(oarr(x), oarr(w))
            got = F(got)
        except ZeroDivisionError:
            got = None
        if exp != got:
            ctx.fail_input(case, 'weighted_var = %s, reliability-weights formula gives %s' % (got, exp), str(exp), str(got))
        reqs.append(dict(op='C13.wvar', x=case['x'], w=case['w']))
        meta.append(('wvar', case, got))
        # 2-column input: column-wise
        if n >= 2 and rng.random() < .3 and exp is not None:
            y = [F(rng.randint(-3, 3)) for _ in range(n)]
            X = np.empty((n, 2), dtype=object)
            for i in range(n):
                X[i, 0], X[i, 1] = x[i], y[i]
            got2 = weighted_var(X, oarr(w))
            muy = sum(a * b for a, b in zip(y, w)) / S
            expy = sum(b * (a - muy) ** 2 for a, b in zip(y, w)) / (S - S2 / S)
            if [F(got2[0]), F(got2[1])] != [exp, expy]:
                ctx.fail_input(dict(case, y=[q2j(v) for v in y]), 'weighted_var on 2 columns is not column-wise', [str(exp), str(expy)], [str(v) for v in got2])
        # default weights (float ones): tolerance
        if n >= 2 and rng.random() < .3:
            gotn = float(weighted_var(np.array([float(v) for v in x])))
            m = sum(x) / n
            expn = float(sum((a - m) ** 2 for a in x) / (n - 1))
            if ctx.dev(gotn, expn) > 1e-9:
                ctx.fail_input(dict(fn='weighted_var', x=case['x'], w=None), 'weighted_var(weights=None) = %r, unbiased sample variance = %r' % (gotn, expn), expn, gotn)
        # the SAME function on floats, location large relative to the spread: the value must still be the formula's value (the exact
        # rational run above cannot see cancellation; here the exact value of the float inputs is the reference)
        if n >= 3 and rng.random() < .35:
            off = rng.choice([0.0, 1e3, 1e6, 1e8])
            xf = np.array([off + rng.gauss(0, 1) for _ in range(n)])
            wf = np.array([rng.choice([0.0, 1.0, 1.0, 2.0, 0.5, 3.0]) for _ in range(n)])
            if off == 0.0 and rng.random() < .5:              # integer dtypes (counts) instead of floats
                xf = np.array([rng.randint(-9, 9) for _ in range(n)], dtype=np.int64)
                wf = np.array([rng.choice([0, 1, 1, 2, 3]) for _ in range(n)], dtype=np.int64)
                ctx.count('var.int_dtype', True)
            xq, wq = [F(float(v)) for v in xf], [F(float(v)) for v in wf]
            Sq, S2q = sum(wq), sum(v * v for v in wq)
            if Sq != 0 and Sq - S2q / Sq != 0:
                muq = sum(a * b for a, b in zip(xq, wq)) / Sq
                expq = sum(b * (a - muq) ** 2 for a, b in zip(xq, wq)) / (Sq - S2q / Sq)
                ctx.count('var.float_offset', '%g' % off)
                if expq > 0:
                    gotf = float(weighted_var(xf, wf))
                    if not math.isclose(gotf, float(expq), rel_tol=1e-5, abs_tol=0):
                        ctx.fail_input(dict(fn='weighted_var', x=xf.tolist(), w=wf.tolist(), floats=True),
                                       'weighted_var on floats = %r, the reliability-weights formula evaluated exactly on the same inputs gives %r' % (gotf, float(expq)),
                                       float(expq), gotf)
        # ESS
        case2 = dict(fn='compute_ess', w=[q2j(v) for v in w])
        ctx.case(case2, n >= 2)
        try:
            e = F(compute_ess(oarr(w)))
        except ValueError:
            e = 'ValueError'
        expe = 'ValueError' if S == 0 else S * S / S2
        if e != expe:
            ctx.fail_input(case2, 'compute_ess = %s, (sum w)^2/sum w^2 = %s' % (e, expe), str(expe), str(e))
        reqs.append(dict(op='C13.ess', w=case2['w']))
        meta.append(('ess', case2, e))
        # the same statistic on machine numbers: weights on extreme scales (likelihood-type weights exp(-400), unnormalised
        # counts) and integer-typed weights whose squares leave the dtype's range - ESS does not depend on the scale
        wi = [rng.choice([0, 1, 1, 2, 3, 7]) for _ in range(n)]
        if sum(wi) > 0:
            exp_ess = F(sum(wi)) ** 2 / F(sum(v * v for v in wi))
            variants = [('float64 x 1e-170', np.array(wi, dtype=float) * 1e-170), ('float64 x 1e170', np.array(wi, dtype=float) * 1e170),
                        ('int32 x 50000', np.array(wi, dtype=np.int32) * np.int32(50000)), ('int64 x 4e9', np.array(wi, dtype=np.int64) * np.int64(4 * 10**9))]
            name, arr = variants[len(meta) % 4]
            ctx.count('ess.machine_numbers', name)
            with np.errstate(all='ignore'):
                try:
                    got_ess = float(compute_ess(arr))
                except Exception as ex:                       # noqa
                    got_ess = 'raised %s' % type(ex).__name__
            if not (isinstance(got_ess, float) and math.isclose(got_ess, float(exp_ess), rel_tol=1e-9)):
                ctx.fail_input(dict(fn='compute_ess', w=arr.tolist(), dtype=str(arr.dtype), machine=True),
                               'compute_ess of %s weights = %r, (sum w)^2/sum w^2 = %r' % (name, got_ess, float(exp_ess)), float(exp_ess), got_ess)
    # negative weights are rejected
    for w in ([F(1), F(-1), F(3)], [F(-2)]):
        case2 = dict(fn='compute_ess', w=[q2j(v) for v in w])
        try:
            e = F(compute_ess(oarr(w)))
        except ValueError:
            e = 'ValueError'
        ctx.case(case2, False)
        if e != 'ValueError':
            ctx.fail_input(case2, 'negative weights accepted', 'ValueError', str(e))
        reqs.append(dict(op='C13.ess', w=case2['w']))
        meta.append(('ess', case2, e))
    if ctx.driver_ok:
        for (kind, case, got), a in zip(meta, ctx.lean.drive(reqs)):
            v = a.get('ok', {}).get('v', 'ERR')
            if kind == 'wvar':
                mv = None if v == 'div0' else (v if v == 'ERR' else j2q(v))
            else:
                mv = v if isinstance(v, str) else j2q(v)
            if mv != got:
                ctx.corr_break(kind, case, str(mv), str(got))


# ------------------------------------------------------------------------------------------
def classify_gm(k, d, shape_kind):
    if shape_kind == 'mat' and k == 1 and d >= 2:
        return 'gm-single-component-squeeze'
    return None


def check_gm(ctx):
    rng = ctx.rng
    reqs, meta = [], []
    for it in range(ctx.budget(120, 2000)):
        if ctx.enough():
            break
        shape_kind = rng.choice(['mat', 'mat', 'mat', 'vec', 'scalar'])
        if shape_kind == 'scalar':
            k, d = 1, 1
            means = np.array(float(rng.randint(-3, 3)))
        elif shape_kind == 'vec':
            k, d = rng.randint(1, 5), 1
            means = np.array([float(rng.randint(-3, 3)) + 0.5 * j for j in range(k)])
        else:
            k, d = rng.choice([1, 2, 2, 3, 6]), rng.choice([1, 2, 2, 3, 4])
            means = np.array([[float(rng.randint(-3, 3)) + 0.25 * j for _ in range(d)] for j in range(k)])
        weights = None if rng.random() < .3 else [float(rng.choice([0, 1, 1, 2, 3])) for _ in range(k)]
        if weights is not None and sum(weights) == 0:
            weights[0] = 1.0
        covk = rng.choice(['scalar', 'matrix']) if d > 1 else 'scalar'
        if covk == 'scalar':
            cov = rng.choice([1.0, 0.5, 2.0])
        else:
            A = np.array([[rng.uniform(-1, 1) for _ in range(d)] for _ in range(d)])
            cov = A @ A.T + np.eye(d)
        xk = rng.choice(['point', 'rows']) if d > 1 else rng.choice(['scalar', 'vec', 'rows'])
        n = rng.randint(1, 4)
        pts = [[rng.uniform(-3, 3) for _ in range(d)] for _ in range(n)]
        if xk == 'point':
            x, pts = np.array(pts[0]), pts[:1]
        elif xk == 'scalar':
            x, pts = pts[0][0], pts[:1]
        elif xk == 'vec':
            x = np.array([p[0] for p in pts])
        else:
            x = np.array(pts)
        case = dict(fn='GMDistribution.pdf', shape=shape_kind, k=k, d=d, means=means.tolist(), weights=weights,
                    cov=cov if covk == 'scalar' else cov.tolist(), x=np.asarray(x).tolist(), xkind=xk)
        ctx.case(case, k >= 2 or d >= 2)
        ctx.count('gm.shape', '%s k=%d d=%d' % (shape_kind, min(k, 2), min(d, 2)))
        ww = np.ones(k) if weights is None else np.array(weights)
        ww = ww / ww.sum()
        rows = np.atleast_2d(means.reshape(k, d))
        exp = np.array([sum(ww[j] * ss.multivariate_normal.pdf(p, mean=rows[j], cov=cov) for j in range(k)) for p in pts])
        finding = classify_gm(k, d, shape_kind)
        try:
            got = np.atleast_1d(GMDistribution.pdf(x, means, cov=cov, weights=weights))
            lg = np.atleast_1d(GMDistribution.logpdf(x, means, cov=cov, weights=weights))
            bad = got.shape != exp.shape or not np.allclose(got, exp, rtol=1e-9, atol=1e-300) \
                or not np.allclose(lg, np.log(exp), rtol=1e-9, atol=1e-12)
            obs = got.tolist()
        except Exception as e:                                       # noqa
            bad, obs = True, '%s: %s' % (type(e).__name__, str(e)[:80])
        if bad:
            ctx.fail_input(case, 'mixture pdf/logpdf differs from the weighted sum of component normal densities',
                           exp.tolist(), obs, finding=finding)
        elif xk in ('point', 'scalar') and np.ndim(GMDistribution.pdf(x, means, cov=cov, weights=weights)) != 0:
            ctx.fail_input(case, 'a single query point does not give a scalar density', 'ndim 0', 'ndim>0')
        # shape model vs _normalize_params
        try:
            m2, w2 = GMDistribution._normalize_params(means, weights)
            comps = [[float(v)] for v in m2] if m2.ndim == 1 else [[float(v) for v in r] for r in m2]
        except ValueError:
            comps = 'ValueError'
        mj = q2j(F(float(means))) if shape_kind == 'scalar' else (
            [q2j(F(v)) for v in means.tolist()] if shape_kind == 'vec' else [[q2j(F(v)) for v in r] for r in means.tolist()])
        reqs.append(dict(op='C13.gmShape', kind=shape_kind, means=mj, d=d))
        meta.append((case, comps, rows.tolist(), finding))
    if ctx.driver_ok:
        for (case, comps, rows, finding), a in zip(meta, ctx.lean.drive(reqs)):
            if 'ok' not in a:
                ctx.corr_break('gmShape', case, a, comps)
                continue
            sq = [[float(j2q(v)) for v in c] for c in a['ok']['squeezed']]
            it = [[float(j2q(v)) for v in c] for c in a['ok']['intended']]
            if sq != comps:
                ctx.corr_break('gmShape.squeezed', case, sq, comps)
            if it != rows:
                ctx.corr_break('gmShape.intended', case, it, rows)
            if (sq != it) != (finding is not None):
                ctx.corr_break('gmShape.guard', case, [sq, it], finding)


# ------------------------------------------------------------------------------------------
def check_rvs(ctx):
    rng = ctx.rng
    reqs, meta = [], []
    for it in range(ctx.budget(60, 1000)):
        if ctx.enough():
            break
        d = rng.choice([1, 2, 3])
        k = rng.randint(2, 5)
        means = np.array([[rng.uniform(-1, 1) for _ in range(d)] for _ in range(k)])
        size = rng.choice([1, 2, 5, 17, 40])
        lo = rng.choice([-0.5, 0.0, 0.5, -5.0])
        seed = rng.randrange(2**31)
        rounds = []

        def prior_logpdf(x, rounds=rounds, lo=lo):
            x2 = np.asarray(x).reshape(len(x), -1)
            okm = np.all(x2 > lo, axis=1)
            rounds.append((np.array(x, copy=True), okm.copy()))
            return np.where(okm, 0.0, -np.inf)

        case = dict(fn='GMDistribution.rvs', d=d, k=k, means=means.tolist(), size=size, lower=lo, seed=seed)
        ctx.case(case, True)
        out = GMDistribution.rvs(means if d > 1 else means[:, 0], cov=0.5, size=size, prior_logpdf=prior_logpdf,
                                 random_state=np.random.RandomState(seed))
        ctx.count('rvs.rounds', min(len(rounds), 6))
        o2 = np.asarray(out).reshape(len(out), -1)
        if len(out) != size or not np.all(o2 > lo):
            ctx.fail_input(case, 'constrained sampler returned %d points for size=%d, all satisfy constraint: %s'
                           % (len(out), size, bool(np.all(o2 > lo))), size, len(out))
        reqs.append(dict(op='C13.rvs', ok=[[bool(b) for b in okm] for _, okm in rounds], size=size))
        meta.append((case, rounds, np.asarray(out)))
    if ctx.driver_ok:
        for (case, rounds, out), a in zip(meta, ctx.lean.drive(reqs)):
            mo = a.get('ok', {}).get('out')
            if mo is None:
                ctx.corr_break('rvs', case, a, 'returned %d rows' % len(out))
                continue
            try:
                pred = np.array([rounds[t][0][j] for t, j in mo])
                same = pred.shape[0] == out.shape[0] and np.array_equal(pred.reshape(out.shape), out)
            except IndexError:
                same = False
            # number of candidates requested per round must be what the model asks for (size - accepted so far)
            acc, sizes_ok = 0, True
            for xs, okm in rounds:
                if len(xs) != case['size'] - acc:
                    sizes_ok = False
                acc += int(okm.sum())
            if not same or not sizes_ok:
                ctx.corr_break('rvs', case, mo[:6], out[:3].tolist())


def run(ctx):
    check_quantile(ctx)
    check_var_ess(ctx)
    check_gm(ctx)
    check_rvs(ctx)


def search(ctx):
    ctx.tier = 'thorough'
    check_quantile(ctx)
    if not ctx.failing:
        check_var_ess(ctx)
    if not ctx.failing:
        check_gm(ctx)
    if not ctx.failing:
        check_rvs(ctx)


def replay(ctx, case):
    fn = case['fn']
    if fn == 'weighted_sample_quantile':
        x = [j2q(v) for v in case['x']]
        w = None if case['w'] is None else [j2q(v) for v in case['w']]
        al = j2q(case['alpha'])
        q = real_quantile(x, w, al)
        ww = w or [F(1)] * len(x)
        S = sum(ww)
        ok = q is not None and q in x and sum(b for a, b in zip(x, ww) if a <= q) / S >= al >= sum(b for a, b in zip(x, ww) if a < q) / S
        if not ok:
            ctx.fail_input(case, 'quantile %s violates the definition' % q)
        return dict(q=str(q))
    if fn == 'GMDistribution.pdf':
        means = np.array(case['means'])
        k, d = case['k'], case['d']
        cov = case['cov'] if not isinstance(case['cov'], list) else np.array(case['cov'])
        x = np.array(case['x']) if case['xkind'] != 'scalar' else case['x']
        pts = np.asarray(case['x'], dtype=float).reshape(-1, d)
        ww = np.ones(k) if case['weights'] is None else np.array(case['weights'])
        ww = ww / ww.sum()
        rows = means.reshape(k, d)
        exp = np.array([sum(ww[j] * ss.multivariate_normal.pdf(p, mean=rows[j], cov=cov) for j in range(k)) for p in pts])
        try:
            got = np.atleast_1d(GMDistribution.pdf(x, means, cov=cov, weights=case['weights']))
            bad = got.shape != exp.shape or not np.allclose(got, exp, rtol=1e-9)
            obs = got.tolist()
        except Exception as e:                                       # noqa
            bad, obs = True, '%s: %s' % (type(e).__name__, str(e)[:80])
        if bad:
            ctx.fail_input(case, 'mixture pdf differs from the weighted sum of component densities', exp.tolist(), obs,
                           finding=classify_gm(k, d, case['shape']))
        return dict(expected=exp.tolist(), observed=obs)
    if fn in ('weighted_var', 'compute_ess'):
        w = [j2q(v) for v in case['w']] if case.get('w') else None
        if fn == 'compute_ess':
            S, S2 = sum(w), sum(v * v for v in w)
            try:
                e = F(compute_ess(oarr(w)))
            except ValueError:
                e = 'ValueError'
            exp = 'ValueError' if S == 0 or min(w) < 0 else S * S / S2
            if e != exp:
                ctx.fail_input(case, 'compute_ess = %s, expected %s' % (e, exp))
            return dict(got=str(e), expected=str(exp))
        x = [j2q(v) for v in case['x']]
        S, S2 = sum(w), sum(v * v for v in w)
        mu = sum(a * b for a, b in zip(x, w)) / S
        exp = sum(b * (a - mu) ** 2 for a, b in zip(x, w)) / (S - S2 / S)
        got = F(weighted_var(oarr(x), oarr(w)))
        if got != exp:
            ctx.fail_input(case, 'weighted_var = %s, expected %s' % (got, exp))
        return dict(got=str(got), expected=str(exp))
    if fn == 'GMDistribution.rvs':
        means = np.array(case['means'])
        lo = case['lower']
        out = GMDistribution.rvs(means if case['d'] > 1 else means[:, 0], cov=0.5, size=case['size'],
                                 prior_logpdf=lambda x: np.where(np.all(np.asarray(x).reshape(len(x), -1) > lo, axis=1), 0.0, -np.inf),
                                 random_state=np.random.RandomState(case['seed']))
        o2 = np.asarray(out).reshape(len(out), -1)
        if len(out) != case['size'] or not np.all(o2 > lo):
            ctx.fail_input(case, 'constrained sampler output wrong')
        return dict(n=len(out))
    return {}
