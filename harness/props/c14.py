"""C14 — editing, copying and saving a model: real ElfiModel vs Model/GraphEdit.lean + direct statements."""
import os
import shutil
import tempfile

import networkx as nx
import numpy as np

import elfi

META = dict(
    rule='a case = an edit sequence (<= 10 steps) through the public API: add (Constant/Operation/Prior/Simulator/Summary/'
         'Discrepancy, node and constant arguments, optional named edge, optional observed data), become (fresh replacement, '
         'replacement with/without observed data, replacement depending on a descendant), remove_node, interleaved with copy() '
         'and save()/load() probes in which the copy is mutated (parameter flags, observed data, node removal, become) and the '
         'original is compared before/after. Non-trivial = contains a become or a remove; distinct by full content',
    trusted_base=['pickle for save/load of user callables', 'names are ranked by Python string order in the harness (model names are numbers)'],
    assumptions=['a node is not passed twice as parent of the same child'],
    partial=['networkx internals are modelled at the level of (nodes, one edge per ordered pair, node attribute dictionaries)'],
)

CLASSES = ['Constant', 'Operation', 'Prior', 'Simulator', 'Summary', 'Discrepancy']


class OpFn:
    """picklable deterministic operation (module level so that save()/load() work)"""

    def __init__(self, tag):
        self.tag = tag

    def __call__(self, *args, batch_size=1, random_state=None, observed=None, **kw):
        tot = np.zeros(batch_size) + self.tag
        for a in args:
            a = np.asarray(a, dtype=float)
            tot = tot + (a.reshape(len(a), -1).sum(axis=1) if a.ndim > 0 and len(a) == batch_size else float(np.sum(a)))
        if random_state is not None:
            tot = tot + random_state.rand(batch_size)
        return tot


def op_fn(tag):
    return OpFn(tag)


class Session:
    """drives one real model and records the equivalent low-level op list for the Lean model"""

    def __init__(self, rng):
        self.rng = rng
        self.m = elfi.ElfiModel(name='m')
        self.ops = []            # low-level ops with REAL names (translated to ids later)
        self.snaps = []          # real observation after each low-level op group
        self.optok = {}          # id(operation object) -> token
        self.obstok = {}         # id(observed data) -> token
        self.counter = 0
        self.user_nodes = []

    # ---- observation of the real model
    def tok_of_op(self, state):
        op = state.get('_operation', state.get('_output', None))
        key = id(op) if not isinstance(op, (int, float)) else ('v', op)
        if key not in self.optok:
            self.optok[key] = len(self.optok) + 1
        return self.optok[key]

    def observe(self, model=None):
        m = model or self.m
        nodes = {}
        for n in m.nodes:
            st = m.get_state(n)['attr_dict']
            nodes[n] = (CLASSES.index(st['_class'].__name__) if st['_class'].__name__ in CLASSES else 9,
                        self.tok_of_op(st), '_parameter' in st)
        edges = sorted((u, v, d['param']) for u, v, d in m.source_net.edges(data=True))
        obs = {k: self.obstok.setdefault(id(v), len(self.obstok) + 1) for k, v in m.observed.items()}
        return dict(nodes=nodes, edges=edges, observed=obs, parameter_names=list(m.parameter_names),
                    acyclic=nx.is_directed_acyclic_graph(m.source_net))

    # ---- edits
    def new_name(self):
        self.counter += 1
        return '%s%02d' % (self.rng.choice('abXyZ'), self.counter)

    def add(self, kind=None, depend_on=None):
        rng, m = self.rng, self.m
        kind = kind or rng.choice(CLASSES)
        name = self.new_name()
        existing = [n for n in self.user_nodes if n in m.nodes]
        npar = 0 if kind == 'Constant' else rng.randint(0 if kind in ('Operation', 'Prior') else 1, 3)
        parents = []
        if depend_on is not None:
            parents.append(m[depend_on])
        pool = [n for n in existing if n != depend_on]
        rng.shuffle(pool)
        for _ in range(npar):
            if pool and rng.random() < .7:
                parents.append(m[pool.pop()])
            else:
                parents.append(float(rng.randint(1, 5)))
        before = set(m.nodes)
        observed = None
        try:
            if kind == 'Constant':
                node = elfi.Constant(float(rng.randint(1, 9)), model=m, name=name)
            elif kind == 'Prior':
                pr = [p if not isinstance(p, float) else p for p in parents][:2]
                node = elfi.Prior(rng.choice(['uniform', 'norm']), *pr, model=m, name=name)
                parents = pr
            elif kind == 'Simulator':
                observed = np.array([float(rng.randint(1, 9))]) if rng.random() < .7 else None
                node = elfi.Simulator(op_fn(self.counter), *parents, model=m, name=name, observed=observed)
            elif kind == 'Summary':
                if not parents:
                    parents = [1.0]
                node = elfi.Summary(op_fn(self.counter), *parents, model=m, name=name)
            elif kind == 'Discrepancy':
                if not parents:
                    parents = [1.0]
                node = elfi.Discrepancy(op_fn(self.counter), *parents, model=m, name=name)
            else:
                node = elfi.Operation(op_fn(self.counter), *parents, model=m, name=name)
            err = None
        except ValueError:
            err = 'ValueError'
        if err is None:
            self.user_nodes.append(name)
            st = m.get_state(name)['attr_dict']
            lo = dict(op='add', name=name, cls=CLASSES.index(kind), opTok=self.tok_of_op(st), parameter='_parameter' in st)
            if name in m.observed:
                lo['observed'] = self.obstok.setdefault(id(m.observed[name]), len(self.obstok) + 1)
            self.ops.append(lo)
            # parents in constructor order: private constants are created on the fly
            new_priv = [n for n in m.nodes if n not in before and n != name]
            for p in parents:
                if isinstance(p, float):
                    pn = [n for n in new_priv if n not in [o.get('name') for o in self.ops if o['op'] == 'add']][0]
                    pst = m.get_state(pn)['attr_dict']
                    self.ops.append(dict(op='add', name=pn, cls=0, opTok=self.tok_of_op(pst), parameter=False))
                    self.ops.append(dict(op='edge', src=pn, dst=name, param=None))
                else:
                    self.ops.append(dict(op='edge', src=p.name, dst=name, param=None))
            # sometimes an extra NAMED edge from an existing node
            cands = [n for n in existing if n not in [getattr(p, 'name', None) for p in parents] and n != name]
            if cands and kind != 'Constant' and rng.random() < .25:
                src = rng.choice(cands)
                m.add_edge(src, name, 'kw%d' % rng.randint(0, 2))
                self.ops.append(dict(op='edge', src=src, dst=name, param=['named', m.source_net[src][name]['param']]))
        self.snaps.append((len(self.ops), self.observe(), dict(kind='add', what=kind, name=name, err=err)))
        return name if err is None else None

    def remove(self):
        m = self.m
        cands = [n for n in self.user_nodes if n in m.nodes]
        if not cands:
            return
        name = self.rng.choice(cands)
        pre = self.observe()
        m.remove_node(name)
        self.ops.append(dict(op='remove', name=name))
        self.snaps.append((len(self.ops), self.observe(), dict(kind='remove', name=name, pre=pre)))

    def become(self, dependent=False):
        m, rng = self.m, self.rng
        cands = [n for n in self.user_nodes if n in m.nodes]
        if not cands:
            return
        node = rng.choice(cands)
        dep = None
        if dependent:
            desc = [d for d in nx.descendants(m.source_net, node) if d in self.user_nodes]
            dep = rng.choice(desc) if desc else node
        kind = rng.choice(['Operation', 'Prior', 'Simulator', 'Summary'])
        upd = self.add(kind=kind, depend_on=dep)
        if upd is None:
            return
        pre = self.observe()
        try:
            m[node].become(m[upd])
            err = None
        except ValueError:
            err = 'ValueError'
        except nx.NetworkXError:
            err = 'NetworkXError'
        self.ops.append(dict(op='become', node=node, upd=upd))
        self.snaps.append((len(self.ops), self.observe(), dict(kind='become', node=node, upd=upd, dependent=dependent, pre=pre, err=err)))


def ranks(names):
    return {n: i for i, n in enumerate(sorted(names))}


def to_model_ops(ops, rk):
    nm = lambda n: [rk[n], n.startswith('_')]
    out = []
    for o in ops:
        o = dict(o)
        for k in ('name', 'src', 'dst', 'node', 'upd'):
            if k in o:
                o[k] = nm(o[k])
        if o['op'] == 'edge' and o['param'] is not None:
            o['param'] = ['named', o['param_id']] if 'param_id' in o else o['param']
        out.append(o)
    return out


def canon_real(snap, rk, kwrank):
    nodes = sorted([[rk[n], n.startswith('_')], c, o, p] for n, (c, o, p) in snap['nodes'].items())
    edges = sorted([[rk[u], u.startswith('_')], [rk[v], v.startswith('_')], (['pos', p] if isinstance(p, int) else ['named', kwrank[p]])]
                   for u, v, p in snap['edges'])
    obs = sorted([[rk[n], n.startswith('_')], t] for n, t in snap['observed'].items())
    return dict(nodes=nodes, edges=edges, observed=obs, parameterNames=[rk[n] for n in snap['parameter_names']])


def canon_model(m):
    return dict(nodes=sorted(m['nodes']), edges=sorted(m['edges']), observed=sorted(m['observed']), parameterNames=m['parameterNames'])


def direct_checks(ctx, case, snaps):
    """the property, stated directly on the real observations"""
    for _, snap, info in snaps:
        where = dict(case, at=dict((k, v) for k, v in info.items() if k != 'pre'))
        if info.get('err') is None and not snap['acyclic']:
            ctx.fail_input(where, 'the model graph is cyclic after a successful %s' % info['kind'], 'acyclic', 'cycle')
            return
        flagged = sorted(n for n, (c, o, p) in snap['nodes'].items() if p)
        if snap['parameter_names'] != flagged:
            ctx.fail_input(where, 'parameter_names %s is not the sorted list of parameter nodes %s' % (snap['parameter_names'], flagged), flagged, snap['parameter_names'])
            return
        if any(k not in snap['nodes'] for k in snap['observed']):
            ctx.fail_input(where, 'observed data left behind for a node that is not in the model: %s' % [k for k in snap['observed'] if k not in snap['nodes']])
            return
        if any(u not in snap['nodes'] or v not in snap['nodes'] for u, v, _ in snap['edges']):
            ctx.fail_input(where, 'an edge joins a node that does not exist')
            return
        dangling = [n for n in snap['nodes'] if n.startswith('_') and not any(n in (u, v) for u, v, _ in snap['edges'])]
        if info['kind'] in ('remove', 'become') and info.get('err') is None and dangling:
            ctx.fail_input(where, 'private constant(s) %s left behind without any edge after %s' % (dangling, info['kind']), [], dangling,
                           finding='private-constant-of-named-edge-left-behind' if False else None)
            return
        if info['kind'] == 'remove':
            if info['name'] in snap['nodes'] or info['name'] in snap['observed']:
                ctx.fail_input(where, 'removed node (or its observed data) is still present')
                return
        if info['kind'] == 'become' and info.get('err') is None:
            pre, node, upd = info['pre'], info['node'], info['upd']
            kids_pre = sorted((v, p) for u, v, p in pre['edges'] if u == node)
            kids = sorted((v, p) for u, v, p in snap['edges'] if u == node)
            par_upd = sorted((u, p) for u, v, p in pre['edges'] if v == upd)
            par = sorted((u, p) for u, v, p in snap['edges'] if v == node)
            ok = kids == kids_pre and par == par_upd and upd not in snap['nodes'] and \
                snap['nodes'][node] == pre['nodes'][upd] and snap['observed'].get(node) == pre['observed'].get(upd)
            if not ok:
                ctx.fail_input(where, 'become: children kept %s, parents taken %s, state taken %s, observed taken %s (old %s, replacement %s, now %s), replacement gone %s'
                               % (kids == kids_pre, par == par_upd, snap['nodes'][node] == pre['nodes'][upd],
                                  snap['observed'].get(node) == pre['observed'].get(upd), pre['observed'].get(node),
                                  pre['observed'].get(upd), snap['observed'].get(node), upd not in snap['nodes']))
                return


def gen_outputs(m, seed=7):
    try:
        nodes = [n for n in m.nodes]
        out = m.generate(3, outputs=nodes, seed=seed)
        return {k: np.asarray(v).tobytes() for k, v in out.items()}
    except Exception as e:                                         # noqa
        return 'ERR %s' % type(e).__name__


def copy_probe(ctx, case, sess, tmp):
    """copy / save+load: same seeded outputs; mutating the copy leaves the original alone"""
    m, rng = sess.m, sess.rng
    if not nx.is_directed_acyclic_graph(m.source_net) or not m.nodes:
        return
    how = rng.choice(['copy', 'copy', 'save-load'])
    before = sess.observe()
    g0 = gen_outputs(m)
    if how == 'copy':
        k = m.copy()
    else:
        m.save(prefix=tmp)
        k = elfi.ElfiModel.load(m.name, prefix=tmp)
    where = dict(case, probe=how)
    gk = gen_outputs(k)
    if isinstance(g0, dict) and gk != g0:
        ctx.fail_input(where, 'a %s of the model does not generate the same seeded outputs as the original' % how)
        return
    # mutate the copy
    names = [n for n in k.nodes if not n.startswith('_')]
    muts = []
    for _ in range(rng.randint(1, 3)):
        mu = rng.choice(['params', 'observed', 'remove', 'become', 'flag'])
        try:
            if mu == 'params':
                k.parameter_names = [n for n in names if n in k.nodes and rng.random() < .5]
            elif mu == 'observed' and names:
                k.observed[rng.choice(names)] = np.array([99.0])
            elif mu == 'remove':
                cands = [n for n in names if n in k.nodes]
                if cands:
                    k.remove_node(rng.choice([n for n in cands if n in k.observed] or cands))
            elif mu == 'become':
                cands = [n for n in names if n in k.nodes]
                if cands:
                    k[rng.choice(cands)].become(elfi.Operation(op_fn(1000), model=k))
            elif names:
                k[rng.choice([n for n in names if n in k.nodes] or names)].uses_meta = True
        except Exception:                                          # noqa
            pass
        muts.append(mu)
    after = sess.observe()
    g1 = gen_outputs(m)
    ctx.count('copy.probe', how)
    for mu in muts:
        ctx.count('copy.mutation', mu)
    if after != before or g1 != g0:
        diff = [f for f in ('nodes', 'edges', 'observed', 'parameter_names') if after[f] != before[f]]
        ctx.fail_input(dict(where, mutations=muts), 'changing the %s (%s) altered the ORIGINAL model: %s%s'
                       % (how, muts, diff, '' if g1 == g0 else ' and its seeded outputs'), None, diff,
                       finding=None)


def one(ctx, tmp):
    rng = ctx.rng
    sess = Session(rng)
    steps = []
    for _ in range(rng.randint(2, 5)):
        sess.add()
        steps.append('add')
    case = dict(steps=steps)
    for _ in range(rng.randint(1, 6)):
        r = rng.random()
        if r < .35:
            sess.add()
            steps.append('add')
        elif r < .6:
            sess.become(dependent=rng.random() < .2)
            steps.append('become')
        elif r < .8:
            sess.remove()
            steps.append('remove')
        else:
            copy_probe(ctx, dict(steps=list(steps), ops=sess.ops), sess, tmp)
            steps.append('copy-probe')
    case = dict(steps=steps, ops=sess.ops)
    ctx.case(case, 'become' in steps or 'remove' in steps)
    for s in steps:
        ctx.count('step', s)
    direct_checks(ctx, case, sess.snaps)
    return sess, case


def run_cases(ctx, n):
    tmp = tempfile.mkdtemp(prefix='c14-')
    try:
        batch = []
        for _ in range(n):
            if ctx.enough():
                break
            sess, case = one(ctx, tmp)
            names = set()
            for o in sess.ops:
                for k in ('name', 'src', 'dst', 'node', 'upd'):
                    if k in o:
                        names.add(o[k])
            for _, snap, _ in sess.snaps:
                names.update(snap['nodes'])
            rk = ranks(names)
            kws = sorted({p for _, snap, _ in sess.snaps for _, _, p in snap['edges'] if isinstance(p, str)} |
                         {o['param'][1] for o in sess.ops if o['op'] == 'edge' and o['param']})
            kwrank = {k: i for i, k in enumerate(kws)}
            mops = []
            for o in to_model_ops(sess.ops, rk):
                if o['op'] == 'edge' and o['param'] is not None:
                    o['param'] = ['named', kwrank[o['param'][1]]]
                mops.append(o)
            batch.append((sess, case, rk, kwrank, mops))
        if ctx.driver_ok:
            answers = ctx.lean.drive([dict(op='C14.run', ops=mops) for _, _, _, _, mops in batch])
            for (sess, case, rk, kwrank, mops), a in zip(batch, answers):
                res = a.get('ok')
                if res is None:
                    ctx.corr_break('driver', case, a, None)
                    continue
                for upto, snap, info in sess.snaps:
                    m = res[upto - 1]
                    real = canon_real(snap, rk, kwrank)
                    mdl = canon_model(m['model'])
                    if info['kind'] == 'become' and (info.get('err') is not None) != (m['err'] is not None):
                        ctx.corr_break('become.outcome', dict(case, at=upto), m['err'], info.get('err'))
                        break
                    if real != mdl:
                        f = [k for k in real if real[k] != mdl[k]]
                        ctx.corr_break('structure.' + f[0], dict(case, at=upto, step=info['kind']), mdl[f[0]], real[f[0]])
                        break
    finally:
        shutil.rmtree(tmp, ignore_errors=True)
        for f in os.listdir('.'):
            if f.endswith('.pkl') and f.startswith('m'):
                pass


def _st_sim(t, batch_size=1, random_state=None):
    return np.column_stack([t + random_state.randn(batch_size), 10 * t + 5 * random_state.randn(batch_size)])


def _st_col0(y):
    return y[:, 0]


def _st_col1(y):
    return y[:, 1]


def check_stateful_saveload(ctx):
    """save / load (and copy, then save / load) of a model whose nodes carry STATE that refers back to node objects: an
    AdaptiveDistance that has been through adaptation rounds (its operation is a bound method of the node reference, its state
    holds the scales and the nested distance functions).  The loaded model has the same structure and generates the same
    seeded outputs, the adapted scales included; saving does not alter the original."""
    rng = ctx.rng
    tmp = tempfile.mkdtemp(prefix='c14s-')
    try:
        for it in range(3 if ctx.quick() else 12):
            k, rounds = 1 + it % 2, 1 + (it // 2) % 2
            seed = rng.randrange(2 ** 31)
            m = elfi.ElfiModel(name='st%d' % it)
            t = elfi.Prior('uniform', 0, 2, model=m, name='t')
            Y = elfi.Simulator(_st_sim, t, model=m, name='Y', observed=np.array([[1.0, 10.0]]))
            S = [elfi.Summary([_st_col0, _st_col1][j], Y, model=m, name='S%d' % j) for j in range(k)]
            elfi.Distance('euclidean', *S, model=m, name='d')
            m['d'].become(elfi.AdaptiveDistance(*[m['S%d' % j] for j in range(k)], model=m))
            m['d'].init_state()
            for r in range(rounds):
                m['d'].init_adaptation_round()
                data = m.generate(10 + 5 * r, ['S%d' % j for j in range(k)], seed=seed + r)
                m['d'].add_data(*[data['S%d' % j] for j in range(k)])
                m['d'].update_distance()
            case = dict(kind='stateful-saveload', n_summaries=k, adaptation_rounds=rounds, seed=seed)
            ctx.case(case, True)
            ctx.count('stateful_saveload.rounds', rounds)
            before = m.generate(6, seed=seed)
            for label, src in (('the model', m), ('a copy of the model', m.copy())):
                src.name = 'st%d%s' % (it, 'c' if src is not m else '')
                try:
                    src.save(prefix=tmp)
                    loaded = elfi.load_model(src.name, prefix=tmp)
                    after = loaded.generate(6, seed=seed)
                except Exception as e:            # noqa
                    ctx.fail_input(case, 'save / load / generate of %s with an adapted AdaptiveDistance raised %s: %s' % (label, type(e).__name__, str(e)[:100]))
                    break
                if sorted(loaded.nodes) != sorted(m.nodes) or any(loaded.get_parents(n) != m.get_parents(n) for n in m.nodes) \
                        or loaded.parameter_names != m.parameter_names:
                    ctx.fail_input(case, 'structure of %s differs after save / load' % label)
                    break
                bad = [key for key in before if not np.array_equal(np.asarray(before[key]), np.asarray(after.get(key)))]
                if bad:
                    ctx.fail_input(case, 'seeded outputs %s of %s differ after save / load (adapted distance state)' % (bad, label),
                                   {key: np.asarray(before[key]).tolist() for key in bad}, {key: np.asarray(after.get(key)).tolist() for key in bad})
                    break
            again = m.generate(6, seed=seed)
            if any(not np.array_equal(np.asarray(before[key]), np.asarray(again[key])) for key in before):
                ctx.fail_input(case, 'saving altered the original model: its seeded outputs changed')
    finally:
        shutil.rmtree(tmp, ignore_errors=True)


def run(ctx):
    run_cases(ctx, ctx.budget(150, 3000))
    check_stateful_saveload(ctx)


def search(ctx):
    run_cases(ctx, 2500)


def replay(ctx, case):
    return dict(note='edit sequences use generated callables and random private names: rerun the check with the same VERIF_SEED; '
                     'the low-level op list of the failing case is in the replay file under case.ops')
