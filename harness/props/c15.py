"""C15 — batch sub-seeds: real `elfi.utils.get_sub_seed` vs Model/SubSeed.lean + direct oracle."""
import itertools
import signal

import numpy as np

import elfi.utils as eu
from common import Infra

META = dict(
    rule='a case = (stream kind, seed/stream, high, request history over one shared cache dict); '
         'non-trivial = history with >= 2 requests of which at least one is served from a non-empty '
         'cache or a repeated / decreasing index, or a stream with a forced collision; distinct by full content',
    trusted_base=[
        'numpy RandomState.randint(high, size=k, dtype=uint32) is chunk-invariant (re-validated every run, see coverage.chunk_invariance_checks)',
        'the cached RandomState is represented by its stream position (compared with the real generator state every case)'],
    assumptions=['one cache dict is used with one master seed and one value of high (as in elfi)'],
    partial=[],
)


class Timeout(Exception):
    pass


def with_timeout(sec, fn):
    def h(*_):
        raise Timeout()
    old = signal.signal(signal.SIGALRM, h)
    signal.setitimer(signal.ITIMER_REAL, sec)
    try:
        return fn()
    finally:
        signal.setitimer(signal.ITIMER_REAL, 0)
        signal.signal(signal.SIGALRM, old)


class ScriptedRS(np.random.RandomState):
    """a RandomState whose randint pops values from a script (forced collisions)"""
    script = []

    def __init__(self, seed=None):
        super().__init__(0)
        self.pos = 0

    def randint(self, high, size=None, dtype=int):
        n = int(size)
        if self.pos + n > len(self.script):
            raise Timeout()          # script exhausted = would not terminate
        out = np.array(self.script[self.pos:self.pos + n], dtype=dtype)
        self.pos += n
        return out


def call_real(seed, i, high, cache):
    try:
        return int(with_timeout(10.0, lambda: eu.get_sub_seed(seed, i, high=high, cache=cache)))
    except ValueError:
        return 'ValueError'
    except TypeError:
        return 'TypeError'
    except Timeout:
        return 'Timeout'


def real_history(seed, high, reqs, scripted=None, foreign=False):
    """run a request history on the real code with one shared cache; returns results, cache summary.
    `foreign`: before every request other callers use get_sub_seed too (cache-less, another master seed, a second cache) -
    the derived seed must not depend on that either"""
    cache = {}
    cache2 = {}
    res = []
    if scripted is not None:
        ScriptedRS.script = scripted
        orig = np.random.RandomState
        np.random.RandomState = ScriptedRS
    try:
        for k, i in enumerate(reqs):
            if foreign:
                j = (3 * k + 1) % max(1, min(high, 7))
                if k % 3 == 0:
                    call_real(seed + 1, j, high, None)
                elif k % 3 == 1:
                    call_real(seed, j, high, cache2)
                else:
                    call_real(seed + 7, j, high, cache2 if k % 2 else None)
            res.append(call_real(seed, i, high, cache))
        # cache summary: seen set, and the position of the cached generator
        summ = None
        if cache:
            seen = sorted(int(x) for x in cache['seen'])
            rs = cache['random_state']
            if scripted is not None:
                pos = getattr(rs, 'pos', None)      # (a generator that is not the scripted class: reported as a correspondence break)
            else:
                pos = None
            summ = dict(seen=seen, pos=pos, state=rs.get_state() if scripted is None else None)
        # cache-less answers for the same indices
        nocache = [call_real(seed, i, high, None) for i in reqs]
    finally:
        if scripted is not None:
            np.random.RandomState = orig
    return res, summ, nocache


def stream_of(seed, high, n):
    return [int(x) for x in np.random.RandomState(seed).randint(high, size=n, dtype='uint32')]


def direct_oracle(ctx, case, high, reqs, res, nocache):
    """the property stated directly on the real outputs"""
    by_idx = {}
    for i, r, r0 in zip(reqs, res, nocache):
        if i >= high:
            if r != 'ValueError' or r0 != 'ValueError':
                ctx.fail_input(case, 'index %d >= high %d not rejected (got %r / %r)' % (i, high, r, r0),
                               'ValueError', [r, r0])
            continue
        if i < 0:
            continue
        if r != r0:
            ctx.fail_input(case, 'index %d: cached answer %r differs from cache-less answer %r' % (i, r, r0), r0, r)
        for v in (r, r0):
            if isinstance(v, int) and not (0 <= v < high):
                ctx.fail_input(case, 'index %d: derived seed %r outside [0,%d)' % (i, v, high), None, v)
            if not isinstance(v, int):
                ctx.fail_input(case, 'index %d < high %d not served: %r' % (i, high, v), 'a seed', v)
        by_idx.setdefault(i, set()).update([r, r0])
    vals = {}
    for i, vs in by_idx.items():
        for v in vs:
            if isinstance(v, int):
                if v in vals and vals[v] != i:
                    ctx.fail_input(case, 'indices %d and %d receive the same derived seed %d' % (vals[v], i, v),
                                   'distinct', v)
                vals[v] = i


def gen_history(rng, max_idx, max_len, high):
    n = rng.randint(1, max_len)
    kind = rng.choice(['inc', 'dec', 'rep', 'jump', 'mixed', 'mixed'])
    idx = [rng.randint(0, max_idx) for _ in range(n)]
    if kind == 'inc':
        idx.sort()
    elif kind == 'dec':
        idx.sort(reverse=True)
    elif kind == 'rep':
        idx = [idx[0]] * n if rng.random() < .5 else [idx[k // 2] for k in range(n)]
    elif kind == 'jump':
        idx = [x if k % 2 else max_idx - x for k, x in enumerate(idx)]
    if high <= max_idx + 1 and rng.random() < .3:
        idx[rng.randrange(n)] = high + rng.randint(0, 2)     # out-of-range request in the middle
    return kind, idx


def nontrivial(reqs, stream_prefix):
    if len(reqs) < 2:
        return False
    reuse = any(reqs[k] > reqs[k - 1] for k in range(1, len(reqs)))
    back = any(reqs[k] <= reqs[k - 1] for k in range(1, len(reqs)))
    coll = len(set(stream_prefix)) < len(stream_prefix)
    return reuse or back or coll


def check_chunk_invariance(ctx):
    n = 0
    for high in (1, 2, 3, 7, 2**31, 2**32):
        for seed in (0, 1, ctx.rng.randrange(2**32)):
            whole = stream_of(seed, high, 64)
            rs = np.random.RandomState(seed)
            parts, left = [], 64
            while left:
                k = min(left, ctx.rng.randint(1, 9))
                parts += [int(x) for x in rs.randint(high, size=k, dtype='uint32')]
                left -= k
            n += 1
            if parts != whole:
                raise Infra('randint is not chunk-invariant for high=%d: model assumption void' % high)
    ctx.extra['chunk_invariance_checks'] = n


def compare(ctx, cases):
    """cases: list of dict(case, stream, high, reqs, res, summ, nocache).  Ask the model."""
    if not ctx.driver_ok:
        return
    reqs = []
    for c in cases:
        reqs.append(dict(op='C15.serve', stream=c['stream'], high=c['high'],
                         reqs=[r for r in c['reqs']], cached=True))
        reqs.append(dict(op='C15.serve', stream=c['stream'], high=c['high'],
                         reqs=[r for r in c['reqs']], cached=False))
    ans = ctx.lean.drive(reqs)
    for k, c in enumerate(cases):
        a, a0 = ans[2 * k], ans[2 * k + 1]
        if 'ok' not in a or 'ok' not in a0:
            ctx.corr_break('serve', c['case'], a, 'driver error')
            continue
        a, a0 = a['ok'], a0['ok']
        if a['maxPos'] > len(c['stream']):
            raise Infra('stream too short for the model run')
        if a['results'] != c['res']:
            ctx.corr_break('serve.cached', c['case'], a['results'], c['res'])
        if a0['results'] != c['nocache']:
            ctx.corr_break('serve.nocache', c['case'], a0['results'], c['nocache'])
        # cache state: seen set and generator position
        if c['summ'] is not None and a['cache'] is not None:
            if sorted(a['cache']['seen']) != c['summ']['seen']:
                ctx.corr_break('cache.seen', c['case'], sorted(a['cache']['seen']), c['summ']['seen'])
            pos = a['cache']['pos']
            if c['summ']['pos'] is not None:
                if pos != c['summ']['pos']:
                    ctx.corr_break('cache.pos', c['case'], pos, c['summ']['pos'])
            elif c['summ']['state'] is None:
                ctx.corr_break('cache.generator', c['case'], 'a generator created for this cache', 'a generator of another class/origin')
            else:
                rs = np.random.RandomState(0)
                rs.set_state(c['summ']['state'])
                nxt = [int(x) for x in rs.randint(c['high'], size=3, dtype='uint32')]
                if nxt != c['stream'][pos:pos + 3] and pos + 3 <= len(c['stream']):
                    ctx.corr_break('cache.pos', c['case'], c['stream'][pos:pos + 3], nxt)
        elif (c['summ'] is None) != (a['cache'] is None):
            ctx.corr_break('cache.presence', c['case'], a['cache'], c['summ'] and c['summ']['seen'])


def hash_reqs(reqs):
    return sum((k + 1) * (r + 2) for k, r in enumerate(reqs))


def one_case(ctx, kind, seed, high, reqs, scripted=None, tag=''):
    need = max([r for r in reqs if r < high] + [0]) + 1
    if scripted is None:
        # enough of the real stream: grow until it holds `need` distinct values (+ margin)
        n = max(64, 4 * need)
        while True:
            stream = stream_of(seed, high, n)
            if len(set(stream)) >= min(need, high) or n > 10**6:
                break
            n *= 2
        stream = stream_of(seed, high, n + 8)
    else:
        stream = scripted
    foreign = (hash_reqs(reqs) + seed) % 3 == 0 and scripted is None      # a third of the real-generator histories
    case = dict(kind=kind, seed=seed, high=high, reqs=reqs, scripted=scripted, tag=tag, foreign_lookups=foreign)
    res, summ, nocache = real_history(seed, high, reqs, scripted, foreign=foreign)
    ctx.count('foreign_lookups', foreign)
    ctx.case(case, nontrivial(reqs, stream[:need + 2]))
    ctx.count('stream', kind)
    ctx.count('history_len', len(reqs))
    ctx.count('high', high if high < 100 else '2^%d' % (high.bit_length() - 1))
    for r in res:
        ctx.count('answer', r if isinstance(r, str) else 'seed')
    direct_oracle(ctx, case, high, reqs, res, nocache)
    return dict(case=case, stream=stream, high=high, reqs=reqs, res=res, summ=summ, nocache=nocache)


def run(ctx):
    check_chunk_invariance(ctx)
    rng = ctx.rng
    cases = []
    # (1) exhaustive for small `high`: all seeds in a range, all index sequences up to a length
    max_high, max_len, seeds = ctx.budget((4, 3, 4), (5, 4, 8))
    n_exh = 0
    for high in range(1, max_high + 1):
        for seed in range(seeds):
            for L in range(1, max_len + 1):
                for reqs in itertools.product(range(0, high + 1), repeat=L):
                    if ctx.enough():
                        break
                    cases.append(one_case(ctx, 'real-exhaustive', seed, high, list(reqs)))
                    n_exh += 1
    ctx.extra['exhaustive_small_high'] = dict(max_high=max_high, max_len=max_len, seeds=seeds, histories=n_exh)
    # (2) real generator, big ranges
    for _ in range(ctx.budget(60, 1500)):
        if ctx.enough():
            break
        high = rng.choice([2**31, 2**31, 2**32, 1000, 50])
        seed = rng.choice([0, 1, 2**32 - 1, rng.randrange(2**32), rng.randrange(2**32)])
        kind, reqs = gen_history(rng, min(high - 1, rng.choice([5, 40, 300, ctx.budget(600, 2000)])),
                                 rng.choice([3, 8, 30]), high)
        cases.append(one_case(ctx, 'real', seed, high, reqs, tag=kind))
    # (3) scripted streams with forced collisions
    for _ in range(ctx.budget(150, 3000)):
        if ctx.enough():
            break
        high = rng.randint(1, 8)
        body = [rng.randrange(high) for _ in range(rng.randint(0, 14))]
        if rng.random() < .5 and body:
            body = [body[0]] * rng.randint(1, 4) + body       # burst of identical values
        tail = list(range(high))
        rng.shuffle(tail)
        script = body + tail + tail + [0] * 12                # termination guaranteed
        nvals = high
        if len(cases) % 5 == 4:
            # the same forced collisions in a WIDE range (the values drawn stay small): distinctness must not depend on the range
            high = rng.choice([2**24, 2**25, 2**31, 2**32])
            ctx.count('scripted.wide_range', '2^%d' % (high.bit_length() - 1))
        kind, reqs = gen_history(rng, nvals - 1, rng.choice([2, 4, 7]), high) if high != nvals else \
            gen_history(rng, high - 1 if rng.random() < .8 else high, rng.choice([2, 4, 7]), high)
        cases.append(one_case(ctx, 'scripted', 0, high, reqs, scripted=script, tag=kind))
    compare(ctx, cases)


def search(ctx):
    """larger budget on the real code only (direct oracle), around what broke"""
    rng = ctx.rng
    for _ in range(4000):
        high = rng.randint(1, 9)
        body = [rng.randrange(high) for _ in range(rng.randint(0, 20))]
        tail = list(range(high))
        rng.shuffle(tail)
        script = body + tail + tail + [0] * 12
        kind, reqs = gen_history(rng, high, rng.choice([2, 4, 7, 10]), high)
        one_case(ctx, 'scripted-search', 0, high, reqs, scripted=script, tag=kind)
        if ctx.failing:
            return
    for _ in range(300):
        high = rng.choice([2**31, 2**32, 97])
        kind, reqs = gen_history(rng, min(high - 1, 500), 12, high)
        one_case(ctx, 'real-search', rng.randrange(2**32), high, reqs, tag=kind)
        if ctx.failing:
            return


def replay(ctx, case):
    c = one_case(ctx, case['kind'], case['seed'], case['high'], case['reqs'], scripted=case.get('scripted'))
    return dict(results=c['res'], cacheless=c['nocache'])
