"""C16 — result objects: real Sample / BolfiSample / eff_sample_size / gelman_rubin_statistic vs Model/Results.lean."""
import csv
import itertools
import json
import math
import os
import pickle
import shutil
import tempfile
from fractions import Fraction as F
from fractions import Fraction

import numpy as np

from elfi.methods.mcmc import eff_sample_size, gelman_rubin_statistic
from elfi.methods.results import BolfiSample, Sample
from elfi.methods.utils import weighted_sample_quantile

META = dict(
    rule='cases: Sample objects built from known arrays (1-4 parameters given in scrambled dict order, 1-50 samples, weights '
         'none / positive / with zeros), BolfiSample from (1-4 chains x 4-40 iterations x 1-3 parameters, warm-up 0..N-1), '
         'chains for ESS / R-hat (1-4 chains x 4-70 draws, every length incl. those whose FFT padding is odd for other pad '
         'rules), affine maps a in {-2, 1/2, 3}, chain permutations; save->read round trips for pkl / json / csv. '
         'Non-trivial = >= 2 parameters or >= 2 chains or weights given; distinct by content',
    trusted_base=['the FFT autocovariance of the code vs the direct sums of the model: compared at 1e-9 relative',
                  'pickle / json / csv modules for the round trips (exercised on the real code, not proved)'],
    assumptions=['finite sample values; chains of one common length'],
    partial=['serialisation round trips are a test of the real code, not a theorem', 'sqrt in R-hat: the model is R-hat squared'],
)


def q2j(x):
    f = F(x)
    return [f.numerator, f.denominator]


def j2f(j):
    return j[0] / j[1]


def textbook_ess(chains):
    """independent direct-sum implementation (BDA3 / Stan): no FFT"""
    ch = np.atleast_2d(np.asarray(chains, dtype=float))
    m, n = ch.shape
    means = ch.mean(axis=1)
    W = ch.var(axis=1, ddof=1).mean()
    B = 0.0 if m == 1 else n * means.var(ddof=1)
    vp = ((n - 1.0) * W + B) / n
    s = 0.0
    for t in range(1, n):
        ac = np.mean([np.sum((ch[c, :n - t] - means[c]) * (ch[c, t:] - means[c])) / (n - t) for c in range(m)])
        rho = 1.0 - (W - ac) / vp
        if rho >= 0:
            s += rho
        else:
            break
    return m * n / (1.0 + 2.0 * s)


def check_diagnostics(ctx):
    rng = ctx.rng
    reqs, meta = [], []
    lengths = list(range(4, ctx.budget(40, 71)))
    for it in range(ctx.budget(120, 2000)):
        if ctx.enough():
            break
        m = rng.randint(1, 4)
        n = lengths[it % len(lengths)] if it < 2 * len(lengths) else rng.randint(4, 70)
        ch = np.array([[rng.randint(-8, 8) / 2.0 for _ in range(n)] for _ in range(m)])
        # make it chain-like (autocorrelated) half of the time
        if rng.random() < .5:
            ch = np.cumsum(ch, axis=1) / 4.0
        case = dict(kind='diagnostics', chains=ch.tolist())
        ctx.case(case, m >= 2)
        ctx.count('diag.chains', m)
        ess = float(eff_sample_size(ch))
        ref = textbook_ess(ch)
        if not math.isclose(ess, ref, rel_tol=1e-8, abs_tol=1e-10):
            ctx.fail_input(case, 'eff_sample_size = %r but the textbook formula (direct autocovariance sums) gives %r for %d chains of %d draws'
                           % (ess, ref, m, n), ref, ess)
            continue
        rhat = float(gelman_rubin_statistic(ch)) if n >= 4 else None
        # invariances on the real code
        a, b = rng.choice([-2.0, 0.5, 3.0]), rng.randint(-4, 4) / 2.0
        e2 = float(eff_sample_size(a * ch + b))
        if not math.isclose(e2, ess, rel_tol=1e-7):
            ctx.fail_input(dict(case, a=a, b=b), 'ESS changes under the affine map x -> %r x + %r: %r vs %r' % (a, b, e2, ess), ess, e2)
        # a location that is large relative to the spread (an algebraically equal but cancelling rewrite would show here)
        big = rng.choice([1e4, 1e6])
        e_big = float(eff_sample_size(ch + big))
        if not math.isclose(e_big, ess, rel_tol=1e-5):
            ctx.fail_input(dict(case, shift=big), 'ESS changes under the shift x -> x + %g: %r vs %r' % (big, e_big, ess), ess, e_big)
        if rhat is not None and math.isfinite(rhat):
            r_big = float(gelman_rubin_statistic(ch + big))
            if not math.isclose(r_big, rhat, rel_tol=1e-5):
                ctx.fail_input(dict(case, shift=big), 'split R-hat changes under the shift x -> x + %g: %r vs %r' % (big, r_big, rhat), rhat, r_big)
        perm = list(range(m))
        rng.shuffle(perm)
        e3 = float(eff_sample_size(ch[perm]))
        if not math.isclose(e3, ess, rel_tol=1e-9):
            ctx.fail_input(dict(case, perm=perm), 'ESS changes when chains are reordered: %r vs %r' % (e3, ess), ess, e3)
        if rhat is not None and math.isfinite(rhat):
            r2 = float(gelman_rubin_statistic(a * ch + b))
            r3 = float(gelman_rubin_statistic(ch[perm]))
            if not math.isclose(r2, rhat, rel_tol=1e-7) or not math.isclose(r3, rhat, rel_tol=1e-9):
                ctx.fail_input(dict(case, a=a, b=b, perm=perm), 'split R-hat changes under affine map / chain reordering: %r %r vs %r' % (r2, r3, rhat))
            # textbook split R-hat
            h = n // 2
            s = ch[:, :2 * h].reshape(2 * m, h)
            W = s.var(axis=1, ddof=1).mean()
            B = h * s.mean(axis=1).var(ddof=1)
            tb = math.sqrt((((h - 1.0) * W + B) / h) / W) if W > 0 else float('nan')
            if math.isfinite(tb) and not math.isclose(rhat, tb, rel_tol=1e-9):
                ctx.fail_input(case, 'split R-hat %r differs from the textbook formula %r' % (rhat, tb), tb, rhat)
        reqs.append(dict(op='C16.diag', chains=[[q2j(v) for v in c] for c in ch.tolist()]))
        meta.append((case, ess, rhat))
    if ctx.driver_ok:
        for (case, ess, rhat), a in zip(meta, ctx.lean.drive(reqs)):
            m = a.get('ok')
            if m is None:
                ctx.corr_break('driver', case, a, None)
                continue
            me = j2f(m['ess']) if m['ess'][1] else float('nan')
            if not math.isclose(me, ess, rel_tol=1e-8, abs_tol=1e-10):
                ctx.corr_break('ess', case, me, ess)
            if rhat is not None and math.isfinite(rhat) and m['rhatSq'][1] and not math.isclose(j2f(m['rhatSq']), rhat ** 2, rel_tol=1e-8):
                ctx.corr_break('rhat', case, j2f(m['rhatSq']), rhat ** 2)
            ctx.dev(me, ess)


def check_samples(ctx):
    rng = ctx.rng
    reqs, meta = [], []
    qreqs, qmeta = [], []
    tmp = tempfile.mkdtemp(prefix='c16-')
    try:
        for it in range(ctx.budget(80, 1200)):
            if ctx.enough():
                break
            d = rng.randint(1, 4)
            n = rng.randint(1, 50)
            if it < 4:
                n = [40, 80, 40, 80][it]          # cumulative weight of the first / second sample equals 0.025 exactly
            pnames = sorted(rng.sample(['alpha', 'b', 'Zeta', 't1', 't10', 't2', 'mu'], d))
            cols = {p: np.array([rng.randint(-20, 20) / 4.0 for _ in range(n)]) for p in pnames}
            if it < 4:
                cols = {p: np.array(rng.sample(range(-2 * n, 2 * n), n)) / 4.0 for p in pnames}      # distinct values
            extra = {'d': np.abs(np.array([rng.randint(0, 20) / 4.0 for _ in range(n)])), 'S1': np.arange(n) * 1.0}
            keys = list(cols) + list(extra)
            rng.shuffle(keys)                                  # the outputs dict order is NOT the parameter order
            outputs = {k: (cols[k] if k in cols else extra[k]) for k in keys}
            wkind = rng.choice(['none', 'pos', 'zeros']) if it >= 4 else 'none'
            w = None if wkind == 'none' else np.array([rng.choice([1, 2, 3] if wkind == 'pos' else [0, 0, 1, 2]) * 1.0 for _ in range(n)])
            if w is not None and w.sum() == 0:
                w[0] = 1.0
            s = Sample(method_name='t', outputs=outputs, parameter_names=list(pnames), discrepancy_name='d', weights=w, n_sim=3 * n, seed=1)
            case = dict(kind='sample', parameters=pnames, n=n, weights=wkind, output_order=keys)
            ctx.case(case, d >= 2 or w is not None)
            ctx.count('sample.weights', wkind)
            if list(s.samples.keys()) != pnames or not np.array_equal(s.samples_array, np.column_stack([cols[p] for p in pnames])):
                ctx.fail_input(case, 'sample columns are not the parameter columns in parameter-name order', pnames, list(s.samples.keys()))
                continue
            for p in pnames:
                exp_mean = float(np.sum(cols[p] * (w if w is not None else 1.0)) / (np.sum(w) if w is not None else n))
                if not math.isclose(float(s.sample_means[p]), exp_mean, rel_tol=1e-12, abs_tol=1e-12):
                    ctx.fail_input(case, 'sample mean of %s is %r, weighted average is %r' % (p, float(s.sample_means[p]), exp_mean), exp_mean, float(s.sample_means[p]))
                mean, lo, hi = s.sample_means_and_95CIs[p]
                if lo != weighted_sample_quantile(cols[p], 0.025, weights=w) or hi != weighted_sample_quantile(cols[p], 0.975, weights=w) \
                        or lo not in cols[p] or hi not in cols[p] or lo > hi:
                    ctx.fail_input(case, 'interval of %s is not the pair of weighted 2.5%%/97.5%% quantiles of the stored samples' % p)
                # the definition itself, in exact arithmetic (weights are small integers): the smallest sample whose cumulative
                # normalised weight reaches alpha.  Where a cumulative weight EQUALS alpha the float sum may fall on either side
                # (both neighbours accepted) - except for 40 / 80 unit weights, where 1/40 and 2/80 are computed exactly
                for alpha_q, got_q in ((Fraction(25, 1000), lo), (Fraction(975, 1000), hi)):
                    wi = [Fraction(1)] * n if w is None else [Fraction(int(v)) for v in w]
                    order_x = sorted(range(n), key=lambda i: cols[p][i])
                    tot, cum, allowed = sum(wi), Fraction(0), None
                    for pos, i in enumerate(order_x):
                        cum += wi[i]
                        if cum / tot >= alpha_q:
                            allowed = {float(cols[p][i])}
                            exact_float = w is None and n in (40, 80) and alpha_q == Fraction(25, 1000)
                            if cum / tot == alpha_q and not exact_float:
                                nxt = [j for j in order_x[pos + 1:] if wi[j] > 0]
                                if nxt:
                                    allowed.add(float(cols[p][nxt[0]]))
                            break
                    if allowed is not None:
                        qreqs.append(dict(op='C13.quantile', x=[q2j(v) for v in cols[p]], w=None if w is None else [q2j(v) for v in w],
                                          alpha=[alpha_q.numerator, alpha_q.denominator]))
                        qmeta.append((case, p, float(alpha_q), sorted(allowed), float(got_q)))
                    if allowed is not None and float(got_q) not in allowed:
                        ctx.fail_input(case, 'interval bound %r of %s is not the weighted %s-quantile of the stored samples by its definition (%s)'
                                       % (float(got_q), p, float(alpha_q), sorted(allowed)), sorted(allowed), float(got_q))
                reqs.append(dict(op='C16.wmean', v=[q2j(v) for v in cols[p]], w=None if w is None else [q2j(v) for v in w]))
                meta.append((case, float(s.sample_means[p])))
            # save -> read round trips
            for kind in ('pkl', 'json', 'csv'):
                fn = os.path.join(tmp, 's%d.%s' % (it, kind))
                s.save(fn)
                ok = True
                if kind == 'pkl':
                    s2 = pickle.load(open(fn, 'rb'))
                    ok = list(s2.samples.keys()) == pnames and all(np.array_equal(s2.samples[p], cols[p]) for p in pnames) and \
                        (w is None) == (s2.weights is None) and (w is None or np.array_equal(s2.weights, w))
                elif kind == 'json':
                    dct = json.load(open(fn))
                    ok = list(dct['samples'].keys()) == pnames and all(np.array_equal(np.array(dct['samples'][p]), cols[p]) for p in pnames) \
                        and dct['n_samples'] == n and np.array_equal(np.array(dct['discrepancies']), extra['d']) and \
                        (dct['weights'] is None) == (w is None) and (w is None or np.array_equal(np.array(dct['weights']), w))
                else:
                    rows = list(csv.reader(open(fn)))
                    ok = rows[0] == pnames and len(rows) == n + 1 and all(
                        [float(v) for v in r] == [float(cols[p][i]) for p in pnames] for i, r in enumerate(rows[1:]))
                if not ok:
                    ctx.fail_input(dict(case, file=kind), 'saving to %s and reading back does not give the same samples' % kind)
    finally:
        shutil.rmtree(tmp, ignore_errors=True)
    if ctx.driver_ok:
        for (case, got), a in zip(meta, ctx.lean.drive(reqs)):
            m = a.get('ok', {}).get('mean')
            if m is None or not math.isclose(j2f(m), got, rel_tol=1e-12, abs_tol=1e-12):
                ctx.corr_break('weighted-mean', case, None if m is None else j2f(m), got)
        # the interval bounds against the MODEL's weighted quantile (exact rationals; theorem ci95_spec): the model's value is the
        # definitional one; the code's must equal it unless a cumulative weight ties with the level in exact arithmetic
        for (case, p, alpha, allowed, got), a in zip(qmeta, ctx.lean.drive(qreqs)):
            q = a.get('ok', {}).get('q')
            mq = None if q is None else j2f(q)
            if mq is None or mq not in allowed or (len(allowed) == 1 and mq != got):
                ctx.corr_break('interval-quantile', dict(case, parameter=p, alpha=alpha), mq, got)


def check_bolfi(ctx):
    rng = ctx.rng
    reqs, meta = [], []
    for it in range(ctx.budget(80, 1200)):
        if ctx.enough():
            break
        c, N, d = rng.randint(1, 4), rng.randint(4, 40), rng.randint(1, 3)
        w = rng.choice([0, 1, N - 1, rng.randint(0, N - 1), rng.randint(0, N - 1), N, N + rng.randint(1, 3)])      # incl. warm-up >= chain length: nothing left
        chains = np.array([[[100 * ci + it2 + 0.25 * p for p in range(d)] for it2 in range(N)] for ci in range(c)])
        pnames = ['p%d' % i for i in range(d)]
        bs = BolfiSample(method_name='BOLFI', chains=chains, parameter_names=pnames, warmup=w, threshold=0.1, n_sim=10, seed=1)
        case = dict(kind='bolfi', n_chains=c, n_iter=N, dim=d, warmup=w)
        ctx.case(case, c >= 2)
        ctx.count('bolfi.warmup', 'zero' if w == 0 else ('N-1' if w == N - 1 else ('>=N' if w >= N else 'mid')))
        ok = True
        for p in range(d):
            col = np.asarray(bs.outputs[pnames[p]])
            exp = np.concatenate([chains[ci, w:, p] for ci in range(c)])
            if col.shape != exp.shape or not np.array_equal(col, exp):
                ok = False
        if not ok or bs.n_samples != c * max(N - w, 0):
            ctx.fail_input(case, 'BOLFI sample is not "every chain without exactly its warm-up prefix, chain by chain"')
        reqs.append(dict(op='C16.bolfi', chains=[[[q2j(v) for v in st] for st in ch] for ch in chains.tolist()], warmup=w))
        meta.append((case, np.column_stack([np.asarray(bs.outputs[p]) for p in pnames]).tolist()))
    if ctx.driver_ok:
        for (case, rows), a in zip(meta, ctx.lean.drive(reqs)):
            m = a.get('ok', {}).get('rows')
            if m is None or [[j2f(v) for v in r] for r in m] != rows:
                ctx.corr_break('bolfi', case, None if m is None else len(m), len(rows))


def run(ctx):
    check_diagnostics(ctx)
    check_samples(ctx)
    check_bolfi(ctx)


def search(ctx):
    ctx.tier = 'thorough'
    run(ctx)


def replay(ctx, case):
    if case.get('kind') == 'diagnostics':
        ch = np.array(case['chains'])
        ess, ref = float(eff_sample_size(ch)), textbook_ess(ch)
        if not math.isclose(ess, ref, rel_tol=1e-8, abs_tol=1e-10):
            ctx.fail_input(case, 'eff_sample_size = %r, textbook = %r' % (ess, ref))
        return dict(ess=ess, textbook=ref)
    return dict(note='rerun the check with the same VERIF_SEED')
