"""C17 — regression adjustment and model comparison: real adjust_posterior / compare_models vs Model/Adjust.lean."""
import math
from fractions import Fraction as F

import numpy as np

import elfi
from elfi.methods.model_selection import compare_models
from elfi.methods.post_processing import LinearAdjustment, adjust_posterior
from elfi.methods.results import Sample

META = dict(
    rule='adjustment: hand-built Samples (5-60 rows, 1-3 summaries, 1-2 parameters, 0-20% non-finite entries placed '
         'independently in summaries and in EACH parameter, a row whose summaries equal the observed ones, invertible integer '
         'affine re-expressions of the summaries, re-use of one adjustment object for two samples); model comparison: 2-4 models '
         'with 3-30 samples each, integer (tied) and continuous discrepancies, prior weights, model permutations. '
         'Non-trivial = a non-finite entry or >= 2 parameters or >= 3 models; distinct by content',
    trusted_base=['sklearn LinearRegression returns the least-squares minimiser (checked against numpy.linalg.lstsq every case); '
                  'the slope vector is a parameter of the model'],
    assumptions=['design matrix of full column rank (unique minimiser)', 'model comparison: no tie between discrepancies of '
                 'DIFFERENT models at the cut when permutation equivariance is asserted'],
    partial=['compare_permutes is checked on the real code for tie-free inputs, not proved'],
)


def q2j(x):
    f = F(x)
    return [f.numerator, f.denominator]


def j2f(j):
    return j[0] / j[1]


def fv(x):
    return q2j(x) if math.isfinite(x) else 'nonfinite'


def make_model(obs):
    m = elfi.ElfiModel(name='adj')
    t = elfi.Prior('uniform', 0, 1, model=m, name='t0')
    Y = elfi.Simulator(lambda t, batch_size=1, random_state=None: np.zeros((batch_size, len(obs))), t, model=m, name='Y',
                       observed=np.array([obs]))
    for k in range(len(obs)):
        elfi.Summary(lambda y, k=k: y[:, k], Y, model=m, name='S%d' % k)
    return m


def gen_sample(rng, n, k, p, obs, nonfinite=True):
    S = np.array([[rng.randint(-12, 12) / 4.0 for _ in range(k)] for _ in range(n)])
    S[0] = obs                                             # a draw whose summaries equal the observed ones
    slopes = np.array([[rng.randint(-3, 3) / 2.0 for _ in range(k)] for _ in range(p)])
    th = [1.0 + S @ slopes[i] + np.array([rng.randint(-4, 4) / 8.0 for _ in range(n)]) for i in range(p)]
    if nonfinite:
        for _ in range(rng.randint(0, max(1, n // 5))):
            r = rng.randrange(1, n)
            which = rng.choice(['summary'] + ['param%d' % i for i in range(p)])
            val = rng.choice([np.inf, -np.inf, np.nan])
            if which == 'summary':
                S[r, rng.randrange(k)] = val
            else:
                th[int(which[5:])][r] = val
    return S, th


def to_sample(S, th, k, p):
    outputs = {'t%d' % i: th[i] for i in range(p)}
    for j in range(k):
        outputs['S%d' % j] = S[:, j]
    return Sample(method_name='rej', outputs=outputs, parameter_names=['t%d' % i for i in range(p)], n_sim=10 * len(S), seed=1)


def expected_adjust(S, th_i, obs):
    X = S - np.array(obs)
    mask = np.isfinite(X).all(axis=1) & np.isfinite(th_i)
    A = np.column_stack([np.ones(mask.sum()), X[mask]])
    coef, *_ = np.linalg.lstsq(A, th_i[mask], rcond=None)
    return th_i[mask] - X[mask] @ coef[1:], mask, coef[1:], np.linalg.matrix_rank(A) == A.shape[1]


def check_adjust(ctx):
    rng = ctx.rng
    reqs, meta = [], []
    for it in range(ctx.budget(80, 1200)):
        if ctx.enough():
            break
        n, k, p = rng.randint(8, 60), rng.randint(1, 3), rng.randint(1, 2)
        obs = [rng.randint(-4, 4) / 2.0 for _ in range(k)]
        S, th = gen_sample(rng, n, k, p, obs)
        m = make_model(obs)
        snames = ['S%d' % j for j in range(k)]
        case = dict(kind='adjust', n=n, k=k, p=p, observed=obs, summaries=S.tolist(), parameters=[t.tolist() for t in th])
        nonfin = not (np.isfinite(S).all() and all(np.isfinite(t).all() for t in th))
        ctx.case(case, nonfin or p >= 2)
        ctx.count('adjust.nonfinite', nonfin)
        ctx.count('adjust.params', p)
        with np.errstate(all='ignore'):
            res = adjust_posterior(to_sample(S, th, k, p), m, snames)
        full_rank = True
        for i in range(p):
            exp, mask, beta, fr = expected_adjust(S, th[i], obs)
            full_rank = full_rank and fr
            got = np.asarray(res.outputs['t%d' % i])
            if not fr:
                continue
            if got.shape != exp.shape or not np.allclose(got, exp, rtol=1e-8, atol=1e-9):
                ctx.fail_input(dict(case, parameter=i), 'adjusted t%d differs from accepted value - least-squares slope x (simulated - observed summaries) on '
                               'the rows where summaries and THIS parameter are finite (%d rows expected, %d returned)' % (i, len(exp), len(got)),
                               exp[:6].tolist(), got[:6].tolist())
                break
            if mask[0] and not math.isclose(got[0], th[i][0], rel_tol=0, abs_tol=1e-9):
                ctx.fail_input(dict(case, parameter=i), 'the draw whose summaries equal the observed ones was changed: %r -> %r' % (th[i][0], got[0]))
                break
            reqs.append(dict(op='C17.mask', X=[[fv(v) for v in row] for row in (S - np.array(obs)).tolist()], theta=[fv(v) for v in th[i]]))
            meta.append(('mask', dict(case, parameter=i), [bool(b) for b in mask]))
            # exact adjust with dyadic beta on the finite rows (model arithmetic)
            beta_d = [rng.randint(-4, 4) / 2.0 for _ in range(k)]
            la = th[i][mask] - (S[mask] - np.array(obs)) @ np.array(beta_d)
            reqs.append(dict(op='C17.adjust', theta=[q2j(v) for v in th[i][mask]], summaries=[[q2j(v) for v in r] for r in S[mask].tolist()],
                             observed=[q2j(v) for v in obs], beta=[q2j(v) for v in beta_d]))
            meta.append(('adjust', dict(case, parameter=i), la.tolist()))
        if not full_rank or ctx.failing:
            continue
        # a requested subset / another order of the parameters: each requested parameter is adjusted on ITS OWN finite rows
        if p >= 2:
            req = rng.choice([['t1'], ['t1', 't0'], ['t0']])
            ctx.count('adjust.requested', '+'.join(req))
            try:
                with np.errstate(all='ignore'):
                    res_s = adjust_posterior(to_sample(S, th, k, p), m, snames, parameter_names=list(req))
            except ValueError as e:
                ctx.fail_input(dict(case, parameter_names=req), 'adjust_posterior(parameter_names=%s) raised ValueError: %s' % (req, str(e)[:80]))
                continue
            for nm in req:
                i = int(nm[1:])
                exp, mask, beta, fr = expected_adjust(S, th[i], obs)
                got = np.asarray(res_s.outputs[nm])
                if fr and (got.shape != exp.shape or not np.allclose(got, exp, rtol=1e-8, atol=1e-9)):
                    ctx.fail_input(dict(case, parameter_names=req, parameter=i), 'with parameter_names=%s the adjusted %s is not computed on the rows where the summaries '
                                   'and %s itself are finite (%d rows expected, %d returned)' % (req, nm, nm, len(exp), len(got)), exp[:6].tolist(), got[:6].tolist())
                    break
            if ctx.failing:
                continue
        # affine re-expression of the summaries (simulated and observed alike)
        if np.isfinite(S).all():
            while True:
                A = np.array([[rng.randint(-2, 2) for _ in range(k)] for _ in range(k)], dtype=float)
                if abs(np.linalg.det(A)) > 0.5:
                    break
            c = np.array([rng.randint(-3, 3) for _ in range(k)], dtype=float) * rng.choice([1.0, 1.0, 1e4])     # incl. a location far from the spread
            S2 = S @ A + c
            obs2 = (np.array(obs) @ A + c).tolist()
            with np.errstate(all='ignore'):
                res2 = adjust_posterior(to_sample(S2, th, k, p), make_model(obs2), snames)
            for i in range(p):
                a1, a2 = np.asarray(res.outputs['t%d' % i]), np.asarray(res2.outputs['t%d' % i])
                if a1.shape != a2.shape or not np.allclose(a1, a2, rtol=1e-6, atol=1e-7):
                    ctx.fail_input(dict(case, A=A.tolist(), c=c.tolist()), 'an invertible affine re-expression of the summaries changes the adjusted values')
                    break
        # one adjustment object re-used for a second sample
        if rng.random() < .5:
            adj = LinearAdjustment()
            S_b, th_b = gen_sample(rng, n, k, p, obs, nonfinite=False)
            with np.errstate(all='ignore'):
                adjust_posterior(to_sample(S, th, k, p), m, snames, adjustment=adj)
                r_b = adjust_posterior(to_sample(S_b, th_b, k, p), m, snames, adjustment=adj)
            for i in range(p):
                exp_b, _, _, fr = expected_adjust(S_b, th_b[i], obs)
                got_b = np.asarray(r_b.outputs['t%d' % i])
                if fr and (got_b.shape != exp_b.shape or not np.allclose(got_b, exp_b, rtol=1e-8, atol=1e-9)):
                    ctx.fail_input(dict(case, reuse=True), 'a re-used adjustment object adjusts the second sample with the slopes of the first fit',
                                   exp_b[:5].tolist(), got_b[:5].tolist(), finding='adjustment-refit-keeps-first-models')
                    break
    if ctx.driver_ok:
        for (kind, case, real), a in zip(meta, ctx.lean.drive(reqs)):
            m = a.get('ok')
            if m is None:
                ctx.corr_break('driver', case, a, None)
            elif kind == 'mask' and m['mask'] != real:
                ctx.corr_break('mask', case, m['mask'], real)
            elif kind == 'adjust' and [j2f(v) for v in m['adjusted']] != real:
                ctx.corr_break('adjust', case, [j2f(v) for v in m['adjusted']][:5], real[:5])


def check_compare(ctx):
    rng = ctx.rng
    reqs, meta = [], []
    for it in range(ctx.budget(120, 2000)):
        if ctx.enough():
            break
        nm = rng.randint(2, 4)
        tied = rng.random() < .4
        models = []
        for i in range(nm):
            n = rng.randint(3, 30)
            d = np.array([rng.randint(0, 12) / 2.0 if tied else rng.randint(0, 10**6) / 1024.0 + i / 4096.0 for _ in range(n)])
            models.append((d, rng.randint(n, 10 * n)))
        priors = None if rng.random() < .5 else [rng.randint(1, 4) / 4.0 for _ in range(nm)]
        samples = [Sample(method_name='rej', outputs={'t': np.zeros(len(d)), 'd': d}, parameter_names=['t'], discrepancy_name='d',
                          n_sim=ns, seed=1) for d, ns in models]
        case = dict(kind='compare', models=[dict(d=d.tolist(), n_sim=ns) for d, ns in models], priors=priors, tied=tied)
        ctx.case(case, nm >= 3 or priors is not None)
        ctx.count('compare.models', nm)
        ctx.count('compare.tied', tied)
        p = np.asarray(compare_models(samples, model_priors=priors))
        n_min = min(len(d) for d, _ in models)
        allv = np.concatenate([d for d, _ in models])
        cut = np.sort(allv)[n_min - 1]
        tie_at_cut = tied and (np.sum(allv <= cut) != n_min)
        if not math.isclose(float(p.sum()), 1.0, rel_tol=1e-12) or np.any(p < 0):
            ctx.fail_input(case, 'model probabilities %s do not sum to one' % p.tolist())
            continue
        if not tie_at_cut:
            raw = np.array([np.sum(d <= cut) / ns * (priors[i] if priors else 1.0) for i, (d, ns) in enumerate(models)])
            exp = raw / raw.sum()
            if not np.allclose(p, exp, rtol=1e-12):
                ctx.fail_input(case, 'probabilities %s are not proportional to (share among the %d jointly smallest)/n_sim x prior = %s'
                               % (p.tolist(), n_min, exp.tolist()), exp.tolist(), p.tolist())
                continue
            perm = list(range(nm))
            rng.shuffle(perm)
            p2 = np.asarray(compare_models([samples[i] for i in perm], model_priors=None if priors is None else [priors[i] for i in perm]))
            if not np.allclose(p2, p[perm], rtol=1e-12):
                ctx.fail_input(dict(case, perm=perm), 'probabilities do not permute with the models')
                continue
            reqs.append(dict(op='C17.compare', models=[dict(d=[q2j(v) for v in d], nSim=ns) for d, ns in models],
                             priors=None if priors is None else [q2j(v) for v in priors]))
            meta.append((case, p.tolist()))
    if ctx.driver_ok:
        for (case, real), a in zip(meta, ctx.lean.drive(reqs)):
            m = a.get('ok', {}).get('p')
            if m is None or not np.allclose([j2f(v) for v in m], real, rtol=1e-12):
                ctx.corr_break('compare_models', case, None if m is None else [j2f(v) for v in m], real)


def run(ctx):
    check_adjust(ctx)
    check_compare(ctx)


def search(ctx):
    ctx.tier = 'thorough'
    run(ctx)


def replay(ctx, case):
    if case.get('kind') == 'compare':
        samples = [Sample(method_name='rej', outputs={'t': np.zeros(len(m['d'])), 'd': np.array(m['d'])}, parameter_names=['t'],
                          discrepancy_name='d', n_sim=m['n_sim'], seed=1) for m in case['models']]
        p = np.asarray(compare_models(samples, model_priors=case['priors']))
        if not math.isclose(float(p.sum()), 1.0, rel_tol=1e-12):
            ctx.fail_input(case, 'probabilities do not sum to one')
        return dict(p=p.tolist())
    if case.get('kind') == 'adjust':
        S, th, obs = np.array(case['summaries']), [np.array(t) for t in case['parameters']], case['observed']
        k, p = case['k'], case['p']
        with np.errstate(all='ignore'):
            res = adjust_posterior(to_sample(S, th, k, p), make_model(obs), ['S%d' % j for j in range(k)])
        out = {}
        for i in range(p):
            exp, mask, beta, fr = expected_adjust(S, th[i], obs)
            got = np.asarray(res.outputs['t%d' % i])
            out['t%d' % i] = dict(expected_rows=len(exp), returned_rows=len(got))
            if fr and (got.shape != exp.shape or not np.allclose(got, exp, rtol=1e-8, atol=1e-9)):
                ctx.fail_input(case, 'adjusted t%d differs from the formula' % i)
        return out
    return {}
