"""C18 — vectorize / external_operation: real elfi.tools vs Model/Tools.lean + direct statement."""
import re

import numpy as np

import elfi
from elfi.utils import get_sub_seed

META = dict(
    rule='vectorize: a case = (arity, constant mask, dtype, a HISTORY of 1-3 calls of ONE wrapped callable with input kinds '
         'drawn from {1-D array, 2-D array, python scalar, numpy scalar, 0-d array, list, wrong-length array}, optional '
         'batch_size, keyword arguments, meta). external_operation: (command template over positional/keyword inputs, dtype, '
         'batch size, uses_meta, seed). Non-trivial = a call with >= 2 rows or a history of >= 2 calls; distinct by full content',
    trusted_base=['subprocess/echo for the external command; numpy array conversion of the per-row outputs'],
    assumptions=['the wrapped operation is a pure function of its arguments'],
    partial=['the seed-differs-between-rows claim needs index_in_batch to reach prepare_seed (node declares uses_meta); without '
             'it every row gets the same seed: known finding external-seed-same-without-meta'],
)

KINDS = ['arr1', 'arr2', 'pyscalar', 'npscalar', 'arr0', 'list', 'wrong']


def make_input(rng, kind, n, tag):
    """returns (python object, model json, row tokens or None)"""
    if kind == 'arr1':
        a = np.array([100 * tag + i for i in range(n)], dtype=float)
        return a, dict(arr=[repr(float(v)) for v in a])
    if kind == 'arr2':
        a = np.array([[100 * tag + i, -i] for i in range(n)], dtype=float)
        return a, dict(arr=[repr(v.tolist()) for v in a])
    if kind == 'wrong':
        a = np.array([100 * tag + i for i in range(n + 1 + rng.randint(0, 1))], dtype=float)
        return a, dict(arr=[repr(float(v)) for v in a])
    if kind == 'pyscalar':
        v = 7.5 + tag
        return v, dict(scalar=repr(v))
    if kind == 'npscalar':
        v = np.float64(3.25 + tag)
        return v, dict(scalar=repr(float(v)))
    if kind == 'arr0':
        v = np.array(2.0 + tag)
        return v, dict(scalar=repr(float(v)))
    v = [1.0 + tag, 2.0]
    return v, dict(scalar=repr(v))


def tok(x):
    """token of what the operation received, comparable with the model's tokens"""
    if isinstance(x, np.ndarray) and x.ndim > 0:
        return ('wholeArr', [repr(v.tolist()) if isinstance(v, np.ndarray) else repr(float(v)) for v in x])
    if isinstance(x, np.ndarray):
        return ('whole', repr(float(x)))
    if isinstance(x, list):
        return ('whole', repr(x))
    return ('val', repr(float(x)))


def check_vectorize(ctx):
    rng = ctx.rng
    reqs, meta = [], []
    for it in range(ctx.budget(250, 4000)):
        if ctx.enough():
            break
        arity = rng.randint(0, 4)
        mask = sorted(rng.sample(range(arity), rng.randint(0, arity))) if arity and rng.random() < .6 else None
        dtype = rng.choice([None, None, float, object, False])
        # the FORM of the operation's output: the same kind for every row, or a kind that depends on the row (the first row
        # the narrowest: an int before floats, a short string before longer ones), or a vector per row
        outkind = ['mixed_num', 'mixed_str', 'vec'][it] if it < 3 else rng.choice(['float'] * 4 + ['mixed_num', 'mixed_str', 'vec'])
        if outkind == 'mixed_str' and dtype is float:
            dtype = None
        if it < 3:
            dtype = None
        ctx.count('vec.output_kind', outkind)
        log = []

        def outfn(k, s):
            if outkind == 'mixed_num':
                return int(round(s)) if k == 0 else s + 0.5
            if outkind == 'mixed_str':
                return 'lo' if k == 0 else 'higher%d' % k
            if outkind == 'vec':
                return np.array([s, 2 * s + 0.25])
            return s

        def op(*args, **kw):
            log.append((args, {k: (dict(v) if k == 'meta' else v) for k, v in kw.items()}))
            s = 0.0
            for a in args:
                s += float(np.sum(a))
            o = outfn(len(log) - 1, s)
            return o if dtype is not False else dict(value=o)

        f = elfi.tools.vectorize(op, mask, dtype=dtype) if mask is not None or dtype is not None else elfi.tools.vectorize(op)
        ncalls = rng.choice([1, 2, 2, 3])
        mask0 = None if mask is None else list(mask)
        hist = []
        for c in range(ncalls):
            n = rng.randint(1, 4) if outkind == 'float' else rng.randint(2, 4)
            kinds = [rng.choice(KINDS if rng.random() < .25 else KINDS[:-1]) for _ in range(arity)]
            if c >= 1 and hist and rng.random() < .5:
                # the same callable again, now with batch arrays wherever the previous call had a scalar (and vice versa)
                kinds = [('arr1' if k_ in ('pyscalar', 'npscalar', 'arr0', 'list') else rng.choice(['pyscalar', 'arr1'])) for k_ in hist[-1]['kinds']]
            objs, mj = [], []
            for k, kind in enumerate(kinds):
                o, j = make_input(rng, kind, n, k + 1)
                objs.append(o)
                mj.append(j)
            use_bs = rng.random() < .35
            kwargs = {}
            if use_bs:
                kwargs['batch_size'] = n if rng.random() < .8 else n + 1
            if rng.random() < .3:
                kwargs['extra'] = 'kw'
            use_meta = rng.random() < .3
            if use_meta:
                kwargs['meta'] = dict(batch_index=3)
            del log[:]
            try:
                out = f(*objs, **kwargs)
                err = None
            except ValueError:
                out, err = None, 'ValueError'
            except Exception as e:                                   # noqa
                out, err = None, type(e).__name__
            calls = [dict(args=[tok(a) for a in args], kw={k: (v if k != 'meta' else dict(v)) for k, v in kw.items()}) for args, kw in log]
            hist.append(dict(n=n, kinds=kinds, kwargs={k: (v if k != 'meta' else 'meta') for k, v in kwargs.items()}, err=err))
            case = dict(fn='vectorize', arity=arity, mask=mask0, dtype=str(dtype), history=list(hist))
            ctx.case(case, n >= 2 or c >= 1)
            ctx.count('vec.call_in_history', c + 1)
            ctx.count('vec.outcome', err or 'ok')
            for kd in kinds:
                ctx.count('vec.kind', kd)
            # ---- direct statement (the mask as the caller wrote it: the call must not depend on what earlier calls did to it)
            consts = set(mask0 or [])
            arr_lens = [len(o) for k, o in enumerate(objs) if k not in consts and isinstance(o, np.ndarray) and o.ndim > 0]
            exp_n = kwargs.get('batch_size', arr_lens[0] if arr_lens else 1)
            mismatch = any(l != exp_n for l in arr_lens)
            if mismatch:
                if err != 'ValueError':
                    ctx.fail_input(case, 'call %d: inputs of different batch lengths %s (batch_size %s) were not rejected: %r'
                                   % (c, arr_lens, kwargs.get('batch_size'), err or 'returned'), 'ValueError', err)
                reqs.append(dict(op='C18.vec', consts=mask0 or [], inputs=mj, bs=kwargs.get('batch_size')))
                meta.append((case, 'ValueError', None))
                continue
            if err is not None:
                ctx.fail_input(case, 'call %d raised %s for consistent inputs' % (c, err), 'a result', err)
                continue
            exp_calls = []
            for i in range(exp_n):
                args = []
                for k, o in enumerate(objs):
                    if k in consts or not (isinstance(o, np.ndarray) and o.ndim > 0):
                        args.append(tok(o))
                    else:
                        args.append(tok(o[i]) if not (isinstance(o[i], np.ndarray) and o[i].ndim > 0) else ('val*', repr(o[i].tolist())))
                exp_calls.append(args)
            got_calls = [[(t if not (t[0] == 'wholeArr' and False) else t) for t in cl['args']] for cl in calls]
            # rows of 2-D inputs arrive as 1-D arrays: token them the same way
            norm = lambda t: ('val*', t[1][0] if False else repr([float(eval(v)) if not v.startswith('[') else eval(v) for v in t[1]])) if t[0] == 'wholeArr' else t
            ok = len(out) == exp_n and len(calls) == exp_n
            if ok:
                for i in range(exp_n):
                    for k, o in enumerate(objs):
                        got = log[i][0][k]
                        if k in consts or not (isinstance(o, np.ndarray) and o.ndim > 0):
                            same = got is o
                        else:
                            same = np.array_equal(got, o[i])
                        if not same:
                            ok = False
                    kw = log[i][1]
                    # batch_size is consumed by run_vectorized; every other keyword argument passes through unchanged
                    exp_kw = {k: v for k, v in kwargs.items() if k not in ('batch_size', 'meta')}
                    if {k: v for k, v in kw.items() if k != 'meta'} != exp_kw:
                        ok = False
                    if use_meta and (kw.get('meta', {}).get('index_in_batch') != i or kw['meta'].get('batch_index') != 3):
                        ok = False
            if not ok:
                ctx.fail_input(case, 'call %d: the wrapped operation was not applied row by row (expected %d calls with row i of every '
                               'non-constant array input, constants and keywords unchanged); got %d calls' % (c, exp_n, len(calls)),
                               exp_calls[:3], [cl['args'] for cl in calls[:3]])
                continue
            # result = per-row outputs
            exp_out = [outfn(i, sum(float(np.sum(a)) for a in log[i][0])) for i in range(exp_n)]
            same_el = lambda a, b: bool(np.array_equal(np.asarray(a), np.asarray(b)))
            if dtype is False:
                good = isinstance(out, np.ndarray) and out.dtype == object and len(out) == exp_n and \
                    all(same_el(o['value'], e) for o, e in zip(out, exp_out))
            else:
                # entry i of the result IS the operation's output for row i (whatever array type numpy picks for the whole)
                good = isinstance(out, np.ndarray) and len(out) == exp_n and all(same_el(out[i], exp_out[i]) for i in range(exp_n)) and \
                    (dtype is None or out.dtype == np.dtype(dtype))
            if not good:
                ctx.fail_input(case, 'call %d: returned array is not the array of per-row outputs' % c, [np.asarray(e).tolist() for e in exp_out], np.asarray(out).tolist())
            reqs.append(dict(op='C18.vec', consts=mask0 or [], inputs=mj, bs=kwargs.get('batch_size')))
            meta.append((case, None, [[('row' if not (k in consts or not (isinstance(o, np.ndarray) and o.ndim > 0)) else 'whole')
                                       for k, o in enumerate(objs)] for _ in range(exp_n)]))
    if ctx.driver_ok:
        for (case, err, shape), a in zip(meta, ctx.lean.drive(reqs)):
            m = a.get('ok', {})
            if err == 'ValueError':
                if m.get('error') != 'ValueError':
                    ctx.corr_break('vectorize.reject', case, m, 'ValueError')
                continue
            if 'calls' not in m:
                ctx.corr_break('vectorize', case, m, 'ok')
                continue
            mshape = [['row' if 'row' in x else 'whole' for x in cl['args']] for cl in m['calls']]
            if mshape != shape or [cl['i'] for cl in m['calls']] != list(range(len(shape))):
                ctx.corr_break('vectorize.calls', case, mshape, shape)


TEMPLATES = [
    ('echo {0}', 1, []), ('echo {0} {1}', 2, []), ('echo {1} {0} {0}', 2, []), ('echo {0} {k}', 1, ['k']),
    ('echo {k} {j}', 0, ['k', 'j']), ('echo 5 {0} {batch_size}', 1, ['batch_size']), ('printf "%s\\n" {0} {1}', 2, []),
    ('echo {0},{1}', 2, []), ('echo {seed}', 0, ['seed']), ('echo {seed} {0}', 1, ['seed']),
    ('echo {seed} {index_in_batch} {batch_index}', 0, ['seed', 'meta']), ('echo {0} {missing}', 1, ['missing']),
    # output on SEVERAL lines with several numbers per line (a table), also ragged: all the numbers, in order, as one flat array
    ('printf "%s %s\\n%s %s\\n" {0} {1} {1} {0}', 2, []), ('printf "%s %s\\n%s\\n" {0} {1} {0}', 2, []),
    ('printf "%s %s %s\\n%s %s %s\\n" {0} {1} {k} {k} {1} {0}', 2, ['k']),
]


def check_external(ctx):
    rng = ctx.rng
    for it in range(ctx.budget(40, 400)):
        if ctx.enough():
            break
        tpl, npos, kws = rng.choice(TEMPLATES[:8] + TEMPLATES[11:])
        dtype = rng.choice([None, 'int32', 'float64', 'int8'])
        sep = ',' if ',' in tpl else ' '
        pos = [rng.randint(0, 100) for _ in range(npos)]
        kw = {}
        if 'k' in kws:
            kw['k'] = rng.randint(0, 50)
        if 'j' in kws:
            kw['j'] = rng.randint(0, 50)
        if 'batch_size' in kws:
            kw['batch_size'] = rng.randint(1, 9)
        case = dict(fn='external_operation', template=tpl, positional=pos, keywords=kw, dtype=dtype, sep=sep)
        ctx.case(case, True)
        ctx.count('ext.template', tpl)
        op = elfi.tools.external_operation(tpl, process_result=dtype, sep=sep)
        if 'missing' in kws:
            try:
                op(*pos, **kw)
                ctx.fail_input(case, 'a template keyword that was not passed did not raise', 'KeyError', 'returned')
            except KeyError:
                pass
            continue
        out = op(*pos, **kw)
        text = re.sub(r'^printf "[^"]*" ', '', tpl.replace('echo ', '')).format(*pos, **kw)
        exp = np.array([float(x) for x in text.replace(',', ' ').split()])
        exp_dtype = np.dtype(dtype) if dtype else np.dtype(float)
        if not (isinstance(out, np.ndarray) and out.dtype == exp_dtype and np.array_equal(out.astype(float), exp.astype(exp_dtype).astype(float))):
            ctx.fail_input(case, 'external command output parsed to %r (dtype %s), expected %s as %s'
                           % (np.asarray(out).tolist(), getattr(out, 'dtype', None), exp.tolist(), exp_dtype), exp.tolist(), np.asarray(out).tolist())


def seeds_in_model(bs, seed, uses_meta, vectorized=True, repeat=1):
    """returns (outputs per repeat, first word of the batch generator's state when the node ran)"""
    inner = elfi.tools.external_operation('echo {seed} {0}', process_result='float64')
    if vectorized:
        inner = elfi.tools.vectorize(inner)
    seen = []

    def op(*a, **kw):
        seen.append(int(kw['random_state'].get_state()[1][0]))
        return inner(*a, **kw)

    m = elfi.ElfiModel()
    c = elfi.Prior('uniform', 0, 1, model=m, name='c')
    sim = elfi.Simulator(op, c, model=m, name='sim')
    if uses_meta:
        sim.uses_meta = True
    outs = [m.generate(bs, outputs=['sim'], seed=seed)['sim'] for _ in range(repeat)]
    return outs, seen


def check_seeds(ctx):
    rng = ctx.rng
    reqs, meta = [], []
    for it in range(ctx.budget(12, 120)):
        if ctx.enough():
            break
        bs = rng.randint(2, 5)
        seed = rng.randrange(2**31)
        uses_meta = rng.random() < .7
        case = dict(fn='external seed', batch_size=bs, seed=seed, uses_meta=uses_meta)
        ctx.case(case, True)
        ctx.count('seed.uses_meta', uses_meta)
        try:
            (o1, o2), seen = seeds_in_model(bs, seed, uses_meta, repeat=2)
        except Exception as e:                                       # noqa
            ctx.fail_input(case, 'vectorised external operation failed in a model run: %s' % str(e)[:100])
            continue
        s1 = [int(v) for v in np.asarray(o1).reshape(bs, -1)[:, 0]]
        s2 = [int(v) for v in np.asarray(o2).reshape(bs, -1)[:, 0]]
        if s1 != s2:
            ctx.fail_input(case, 'the seed is not a deterministic function of the batch generator: %s then %s' % (s1, s2), s1, s2)
        if len(set(s1)) != bs:
            ctx.fail_input(case, 'rows of one batch receive the same external seed: %s' % s1, 'distinct', s1,
                           finding=None if uses_meta else 'external-seed-same-without-meta')
        # model: seed0 = first word of the batch generator's state; seeds = sub seeds of seed0
        seed0 = seen[0]
        if len(set(seen)) != 1:
            ctx.fail_input(case, 'the batch generator handed to the node differs between two runs with the same seed', None, seen)
        stream = [int(x) for x in np.random.RandomState(seed0).randint(2**31, size=bs + 8, dtype='uint32')]
        for i in range(bs):
            reqs.append(dict(op='C18.seed', stream=stream, idx=i if uses_meta else None))
            meta.append((case, i, s1[i]))
    if ctx.driver_ok:
        for (case, i, real), a in zip(meta, ctx.lean.drive(reqs)):
            if a.get('ok', {}).get('seed') != real:
                ctx.corr_break('external.seed', dict(case, row=i), a.get('ok'), real)


def run(ctx):
    check_vectorize(ctx)
    check_external(ctx)
    check_seeds(ctx)


def search(ctx):
    ctx.tier = 'thorough'
    run(ctx)


def replay(ctx, case):
    if case.get('fn') == 'external seed':
        (o1, o2), _ = seeds_in_model(case['batch_size'], case['seed'], case['uses_meta'], repeat=2)
        s1 = [int(v) for v in np.asarray(o1).reshape(case['batch_size'], -1)[:, 0]]
        if len(set(s1)) != case['batch_size']:
            ctx.fail_input(case, 'rows of one batch receive the same external seed: %s' % s1,
                           finding=None if case['uses_meta'] else 'external-seed-same-without-meta')
        return dict(seeds=s1)
    return dict(note='vectorize / external_operation histories use generated callables: rerun the check with the same VERIF_SEED')
