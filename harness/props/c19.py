"""C19 — ROMC regions: real NDimBoundingBox / line_search / RomcPosterior vs Model/Romc.lean + direct statements."""
import math
from fractions import Fraction as F

import numpy as np

import compat
from elfi.methods.inference.romc import NDimBoundingBox, line_search
from elfi.methods.posteriors import RomcPosterior

compat.install_float_shim()

META = dict(
    rule='boxes: (dimension 1-4, rotation = signed permutation (exact in floats) or product of Pythagorean Givens rotations '
         '(tolerant), dyadic centre and limits incl. degenerate (0,0) / one-sided zero, whether several boxes are built from '
         'ONE shared limits array); line search: (K, eta, rep_lim, union of <= 3 dyadic intervals as the below-threshold set, '
         'containing 0 or not); posterior: regions + objectives + stub prior. Non-trivial = dimension >= 2 or a degenerate '
         'limit or a non-trivial interval set; distinct by full content',
    trusted_base=['numpy.linalg.inv for the stored inverse rotation (the theorems take the inverse law as a hypothesis; the '
                  'harness checks it numerically for every box)', 'scipy.stats.uniform for the draws inside the limits'],
    assumptions=['rotation orthonormal / invertible, left limits <= 0 <= right limits (asserted by the code)'],
    partial=['points within 1 ulp of a face are not claimed', 'Lebesgue-measure statement "integrates to one" is not formalised; '
             'the volume is the product of the secured widths (positive: theorem) and the density is 1/volume inside, 0 outside'],
)


def q2j(x):
    f = F(x)
    return [f.numerator, f.denominator]


def j2f(j):
    return j[0] / j[1]


def rotation(rng, d):
    """returns (float matrix, exact?, rational matrix)"""
    if rng.random() < .6 or d == 1:
        perm = list(range(d))
        rng.shuffle(perm)
        R = [[F(0)] * d for _ in range(d)]
        for i, p in enumerate(perm):
            R[i][p] = F(rng.choice([1, -1]))
        return R, True
    R = [[F(int(i == j)) for j in range(d)] for i in range(d)]
    for _ in range(rng.randint(1, 3)):
        i, j = rng.sample(range(d), 2)
        c, s = rng.choice([(F(3, 5), F(4, 5)), (F(5, 13), F(12, 13)), (F(8, 17), F(15, 17)), (F(4, 5), F(-3, 5))])
        G = [[F(int(a == b)) for b in range(d)] for a in range(d)]
        G[i][i], G[i][j], G[j][i], G[j][j] = c, -s, s, c
        R = [[sum(G[a][k] * R[k][b] for k in range(d)) for b in range(d)] for a in range(d)]
    return R, False


def secured(limits):
    out = []
    for lo, hi in limits:
        if math.isclose(lo, hi, abs_tol=.001):
            out.append((lo - .0005, hi + .0005))
        else:
            out.append((lo, hi))
    return out


def check_boxes(ctx):
    rng = ctx.rng
    reqs, meta = [], []
    for it in range(ctx.budget(80, 1200)):
        if ctx.enough():
            break
        d = rng.randint(1, 4)
        share = rng.random() < .35
        nbox = rng.randint(2, 3) if share else 1
        lim_choices = [(0.0, 0.0), (-0.5, 1.0), (-2.0, 0.25), (0.0, 1.5), (-1.0, 0.0), (-0.25, 0.25), (-0.0005, 0.0003)]
        shared = np.array([rng.choice(lim_choices) for _ in range(d)], dtype=float)
        boxes, specs = [], []
        for k in range(nbox):
            Rq, exact = rotation(rng, d)
            R = np.array([[float(v) for v in row] for row in Rq])
            c = np.array([rng.randint(-8, 8) / 4.0 for _ in range(d)])
            if share:
                lim_in = shared
                if rng.random() < .5 and k > 0:
                    # refill the shared buffer (a preallocated limits array re-used per region)
                    shared[:] = np.array([rng.choice(lim_choices) for _ in range(d)], dtype=float)
            else:
                lim_in = np.array([rng.choice(lim_choices) for _ in range(d)], dtype=rng.choice([float, float, object]).__name__ if False else float)
            raw = [(float(a), float(b)) for a, b in lim_in]
            box = NDimBoundingBox(R, c, lim_in)
            boxes.append(box)
            specs.append(dict(Rq=Rq, exact=exact, R=R, c=c, raw=raw))
        # evaluate every box AFTER all constructions (a later construction must not change an earlier region)
        for k, (box, sp) in enumerate(zip(boxes, specs)):
            lims = secured(sp['raw'])
            vol = float(np.prod([b - a for a, b in lims]))
            case = dict(kind='box', d=d, rotation=[[str(v) for v in r] for r in sp['Rq']], center=sp['c'].tolist(), limits=sp['raw'],
                        shared_limits_array=share, index_among_shared=k, boxes_built=nbox)
            ctx.case(case, d >= 2 or any(a == b for a, b in sp['raw']))
            ctx.count('box.d', d)
            ctx.count('box.shared', share)
            ctx.count('box.rotation', 'signed-permutation' if sp['exact'] else 'pythagorean')
            # points: own-coordinate thetas at relative positions, mapped with exact R
            # points exactly on a face are a floating-point question (eps/2 = .0005 is not dyadic): not generated
            rel = [0.5, 0.97, -0.03, 1.03, 0.25, 1.5, 0.03]
            thetas, inside = [], []
            for _ in range(8):
                rr = [rng.choice(rel) for _ in range(d)]
                th = [lims[i][0] + rr[i] * (lims[i][1] - lims[i][0]) for i in range(d)]
                thetas.append(th)
                inside.append(all(0.0 <= r <= 1.0 for r in rr))
            pts = [sp['R'] @ np.array(th) + sp['c'] for th in thetas]
            bad = None
            for th, p, ins in zip(thetas, pts, inside):
                got_c = bool(box.contains(p))
                got_p = float(box.pdf(p))
                exp_p = (1.0 / vol) if ins else 0.0
                if got_c != ins or abs(got_p - exp_p) > 1e-9 * max(1.0, exp_p):
                    bad = (th, ins, got_c, got_p, exp_p)
                    break
            if bad:
                ctx.fail_input(case, 'box density/containment wrong at own-coordinate point %s: expected inside=%s pdf=%r, got contains=%s pdf=%r '
                               '(volume attribute %r, product of secured widths %r)' % (bad[0], bad[1], bad[4], bad[2], bad[3], float(box.volume), vol),
                               dict(inside=bad[1], pdf=bad[4]), dict(contains=bad[2], pdf=bad[3]))
            # samples drawn by the region lie inside it and inside the expected limits
            smp = box.sample(25, seed=rng.randrange(2**31))
            loc = (np.linalg.inv(sp['R']) @ (smp - sp['c']).T).T
            tol = 1e-9
            if not all(box.contains(s) for s in smp) or not all(
                    all(lims[i][0] - tol <= q[i] <= lims[i][1] + tol for i in range(d)) for q in loc):
                ctx.fail_input(case, 'a point drawn from the region is not contained in it (or lies outside the secured limits)')
            if sp['exact']:
                Rinv = [list(r) for r in zip(*sp['Rq'])]        # orthonormal: inverse = transpose
                reqs.append(dict(op='C19.box', rot=[[q2j(v) for v in r] for r in sp['Rq']], rotInv=[[q2j(v) for v in r] for r in Rinv],
                                 center=[q2j(v) for v in sp['c']], limits=[[q2j(a), q2j(b)] for a, b in sp['raw']],
                                 points=[[q2j(v) for v in p] for p in pts], thetas=[[q2j(v) for v in th] for th in thetas]))
                meta.append((case, [bool(box.contains(p)) for p in pts], [float(box.pdf(p)) for p in pts], float(box.volume), inside))
    if ctx.driver_ok:
        for (case, cont, pdf, vol, inside), a in zip(meta, ctx.lean.drive(reqs)):
            m = a.get('ok')
            if m is None:
                ctx.corr_break('box', case, a, None)
                continue
            # float limits (eps/2 = .0005) are not dyadic: compare with tolerance; containment is tested off the faces
            if m['contains'] != cont or abs(j2f(m['volume']) - vol) > 1e-9 * max(1, vol) or \
                    any(abs(j2f(x) - y) > 1e-9 * max(1, abs(y)) for x, y in zip(m['pdf'], pdf)):
                ctx.corr_break('box', case, dict(contains=m['contains'], volume=j2f(m['volume'])), dict(contains=cont, volume=vol))
            if m['sampleContained'] != inside:
                ctx.corr_break('box.sample-contained', case, m['sampleContained'], inside)


def check_linesearch(ctx):
    rng = ctx.rng
    reqs, meta = [], []
    for it in range(ctx.budget(150, 2500)):
        if ctx.enough():
            break
        K = rng.randint(1, 10)
        eta = rng.choice([2.0, 1.0, 0.5])
        rep_lim = rng.randint(0, 20)
        ivs = []
        start0 = rng.random() < .8
        pos = 0.0 if start0 else rng.randint(1, 8) / 8.0
        for _ in range(rng.randint(1, 3)):
            ln = rng.randint(1, 40) / 8.0
            ivs.append([pos if pos > 0 or not start0 else -1.0, pos + ln])
            pos += ln + rng.randint(1, 16) / 8.0
        d = rng.randint(1, 3)
        v = np.zeros(d)
        v[rng.randrange(d)] = rng.choice([1.0, -1.0, 2.0])
        th0 = np.array([rng.randint(-4, 4) / 2.0 for _ in range(d)])
        probes = []

        def f(th, th0=th0, v=v, ivs=ivs, probes=probes):
            o = float(np.dot(th - th0, v) / np.dot(v, v))
            probes.append(o)
            return 0.0 if any(a <= o < b for a, b in ivs) else 1.0

        good = lambda o: any(a <= o < b for a, b in ivs)
        case = dict(kind='line_search', K=K, eta=eta, rep_lim=rep_lim, good_intervals=ivs, direction=v.tolist(), start=th0.tolist())
        ctx.case(case, len(ivs) >= 2 or not start0)
        ctx.count('ls.start_good', good(0.0))
        res = float(line_search(f, th0.copy(), v, 0.5, K=K, eta=eta, rep_lim=rep_lim))
        ctx.count('ls.fallback', res not in probes)
        if not res > 0:
            ctx.fail_input(case, 'line search returned a non-positive offset %r' % res, '> 0', res)
        elif good(0.0) and max([o for o in probes if good(o)]) > 0:
            # (when no positive offset was probed below the threshold the code falls back to its step resolution:
            #  theorem linesearch_result_good, case r.1 = 0 — nothing is claimed about that value beyond positivity)
            below = [o for o in probes if o <= res]
            if any(not good(o) for o in below):
                ctx.fail_input(case, 'line search returned %r although the objective was above the threshold at a probed offset %r <= result'
                               % (res, [o for o in below if not good(o)][0]), None, res)
            elif res not in probes and max([o for o in probes if good(o)]) > 0:
                ctx.fail_input(case, 'line search returned %r which was never probed although a positive offset was probed below the threshold' % res)
        reqs.append(dict(op='C19.linesearch', good=[[q2j(a), q2j(b)] for a, b in ivs], K=K, eta=q2j(eta), repLim=rep_lim))
        meta.append((case, res))
    if ctx.driver_ok:
        for (case, res), a in zip(meta, ctx.lean.drive(reqs)):
            m = a.get('ok', {}).get('offset')
            if m is None or j2f(m) != res:
                ctx.corr_break('line_search', case, None if m is None else j2f(m), res)


class StubPrior:
    def __init__(self, dim, val):
        self.dim, self.val = dim, val

    def pdf(self, theta):
        return np.array([[self.val(theta[0])]])


def check_posterior(ctx):
    rng = ctx.rng
    reqs, meta = [], []
    for it in range(ctx.budget(30, 400)):
        if ctx.enough():
            break
        d = rng.randint(1, 3)
        n = rng.randint(1, 5)
        regions, funcs, centers = [], [], []
        for i in range(n):
            c = np.array([rng.randint(-4, 4) / 2.0 for _ in range(d)])
            lim = np.array([[-rng.randint(1, 4) / 2.0, rng.randint(1, 4) / 2.0] for _ in range(d)])
            regions.append(NDimBoundingBox(np.eye(d), c, lim))
            centers.append(c)
            funcs.append(None)
        eps = rng.choice([0.5, 1.0, 0.75])
        # objectives with plateaus, so that a distance EXACTLY at the cut-off occurs (boundary of < vs <=)
        for i, c in enumerate(centers):
            if i % 2 == 0:
                funcs[i] = lambda th, c=c, eps=eps: [0.25, eps, 1.5][int(math.floor(4 * (th[0] - c[0]))) % 3]
            else:
                funcs[i] = lambda th, c=c: float(np.max(np.abs(th - c)))
        prior = StubPrior(d, lambda th: 0.25 + 0.125 * float(th[0] > 0))
        surrogate = rng.random() < .5
        post = RomcPosterior(regions, funcs, funcs, funcs, funcs, list(range(n)), surrogate, prior, None, None, eps, eps, eps)
        post.progress_bar = type('PB', (), dict(reinit_progressbar=lambda *a, **k: None, update_progressbar=lambda *a, **k: None))()
        case = dict(kind='posterior', d=d, n_regions=n, eps=eps, surrogate_used=surrogate, centers=[c.tolist() for c in centers],
                    limits=[r.limits.tolist() for r in regions])
        ctx.case(case, n >= 2)
        ctx.count('post.surrogate', surrogate)
        for _ in range(6):
            th = np.array([rng.randint(-12, 12) / 4.0 for _ in range(d)])
            got = post._pdf_unnorm_single_point(th)
            dists = [f(th) for f in funcs]
            ins = [bool(r.contains(th)) for r in regions]
            cnt = sum(1 for k in range(n) if dists[k] <= eps and (ins[k] or not surrogate))
            exp = prior.val(th) * cnt
            if got != exp:
                ctx.fail_input(dict(case, theta=th.tolist()), 'unnormalised posterior %r != prior %r x %d accepted problems' % (got, prior.val(th), cnt), exp, got)
            reqs.append(dict(op='C19.count', dists=[q2j(x) for x in dists], inside=ins if surrogate else None, eps=q2j(eps)))
            meta.append(('count', dict(case, theta=th.tolist()), got / prior.val(th)))
        theta, w, distances = post.sample(4, seed=rng.randrange(2**31))
        k = 0
        for i in range(n):
            for jx in range(4):
                th = theta[i, jx]
                dist = funcs[i](th)
                q = regions[i].pdf(th)
                exp = (float(dist < eps) * prior.val(th) / q) if q > 0 else 0.0
                if not math.isclose(w[i, jx], exp, rel_tol=1e-12) or distances[k] != dist:
                    ctx.fail_input(dict(case, theta=th.tolist()), 'sample weight %r != [dist<eps] x prior / region density = %r' % (w[i, jx], exp), exp, float(w[i, jx]))
                k += 1
                reqs.append(dict(op='C19.weight', dist=q2j(dist), eps=q2j(eps), prior=q2j(prior.val(th)), q=q2j(q)))
                meta.append(('weight', dict(case, theta=th.tolist()), float(w[i, jx])))
    if ctx.driver_ok:
        for (kind, case, got), a in zip(meta, ctx.lean.drive(reqs)):
            m = a.get('ok', {})
            mv = m.get('n') if kind == 'count' else (j2f(m['w']) if 'w' in m else None)
            if mv is None or not math.isclose(mv, got, rel_tol=1e-12, abs_tol=1e-15):
                ctx.corr_break('posterior.' + kind, case, mv, got)


def run(ctx):
    check_boxes(ctx)
    check_linesearch(ctx)
    check_posterior(ctx)


def search(ctx):
    ctx.tier = 'thorough'
    run(ctx)


def replay(ctx, case):
    if case['kind'] == 'line_search':
        ivs, v, th0 = case['good_intervals'], np.array(case['direction']), np.array(case['start'])
        probes = []

        def f(th):
            o = float(np.dot(th - th0, v) / np.dot(v, v))
            probes.append(o)
            return 0.0 if any(a <= o < b for a, b in ivs) else 1.0
        res = float(line_search(f, th0.copy(), v, 0.5, K=case['K'], eta=case['eta'], rep_lim=case['rep_lim']))
        good = lambda o: any(a <= o < b for a, b in ivs)
        if not res > 0 or (good(0.0) and max([o for o in probes if good(o)]) > 0 and any(not good(o) for o in probes if o <= res)):
            ctx.fail_input(case, 'line search result %r violates the statement' % res)
        return dict(result=res, probes=probes)
    return dict(note='box / posterior cases are regenerated from the seed: rerun the check with the same VERIF_SEED')
