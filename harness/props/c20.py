"""C20 — BSL: the synthetic likelihoods, the parameter transform and the Metropolis–Hastings step.

A. likelihood functions of elfi.methods.bsl.pdf_methods vs independent formulas (own mean / covariance /
   whitening / Warton shrinkage / multivariate-normal density; Ghurye–Olkin with multigammaln and an
   eigenvalue test; misspecification adjustments) and vs the Float instantiation of Model/Bsl.lean terms.
B. the static transform helpers vs round trips, numerical derivatives and the Lean model (4 bound types).
C. BSL._get_mh_ratio on constructed states vs the change-of-variables ratio.
D. real BSL.sample runs (standard / unbiased / mean- and variance-adjusted likelihoods, with and without a
   transform, priors with bounded support): every decision, every array entry and the number of simulated
   rounds are recomputed from logged proposals / likelihood estimates / uniforms, and the Lean chain model is
   run on the same streams.
"""
import math
import struct

import numpy as np
import scipy.stats as ss
from scipy.special import multigammaln

import compat  # noqa: F401
import elfi
import elfi.methods.inference.bsl as bslmod
from common import Timeout, with_timeout
from elfi.methods.bsl import pdf_methods as pm
from elfi.methods.inference.bsl import BSL
from elfi.model.extensions import ModelPrior

META = dict(
    rule='likelihood cases = (n simulations 6-40, d summaries 1-4, covariance structure, observed vector near / far from the simulated '
         'cloud, whitening matrix on/off, Warton penalty, adjustment mean / variance with random gamma); transform cases = (bound type '
         'two-sided / upper / lower / unbounded per coordinate, points in the support, transformed values in [-6, 6]); ratio cases = '
         'constructed chain states; chain cases = (likelihood kind, prior family, transform on/off, proposal scale, chain length 12-30, '
         'simulations per round, seed). Non-trivial = d >= 2, a transform with a bounded type, or a chain with at least one rejection; '
         'distinct by content',
    trusted_base=['numpy mean / cov / slogdet / solve and scipy multigammaln in the independent formulas', 'the harness shims for numpy 2 '
                  '(ModelPrior.logpdf and the likelihood callables return scalars instead of 1-element arrays; values unchanged)',
                  'Float exp / log in the Lean driver vs numpy (compared at 1e-12 relative)'],
    assumptions=['non-singular sample covariance (n > d + 3 for the unbiased estimator)', 'the semi-parametric likelihood is not in the statement; graphical-lasso shrinkage is checked with sklearn\'s solver as '
                 'third party (cases it refuses as ill-conditioned are skipped)'],
    partial=['the gamma slice sampler is an input stream of the chain model (its draws are logged, not modelled)',
             'unbiasedness of the Ghurye-Olkin estimator itself is a published result; the Monte-Carlo sanity run of the reference formula '
             '(thorough tier) is a labelled statistical test, not a theorem'],
)


def bits(x):
    return struct.unpack('<Q', struct.pack('<d', float(x)))[0]


def unbits(n):
    return struct.unpack('<d', struct.pack('<Q', n))[0]


class ScalarPrior(ModelPrior):
    """numpy-2 shim: a 1-element array cannot be stored into a scalar slot any more; value unchanged"""

    def logpdf(self, x):
        v = np.asarray(super().logpdf(x))
        return v.reshape(()) if v.size == 1 else v


bslmod.ModelPrior = ScalarPrior


# ------------------------------------------------------------------ A. likelihoods

def mvn_logpdf(y, mean, cov):
    d = len(y)
    sign, logdet = np.linalg.slogdet(cov)
    q = float((y - mean) @ np.linalg.solve(cov, y - mean))
    return -0.5 * (d * math.log(2 * math.pi) + logdet + q), logdet, q


def warton(S, gamma):
    eps = 1e-5
    sd = np.sqrt(np.diag(S) + eps)
    R = S / np.outer(sd, sd)
    return np.outer(sd, sd) * (gamma * R + (1 - gamma) * np.eye(len(S)))


def go_ref(ssx, y):
    n, d = ssx.shape
    mu = ssx.mean(0)
    S = np.atleast_2d(np.cov(ssx, rowvar=False))
    M = (n - 1) * S
    v = (y - mu).reshape(-1, 1)
    psi = M - v @ v.T / (1 - 1 / n)
    if np.linalg.eigvalsh(psi).min() <= 0:
        return -math.inf, None

    def logc(k, nu):
        return -(k * nu / 2) * math.log(2) - multigammaln(nu / 2, k)
    wdiff = logc(d, n - 2) - logc(d, n - 1)
    val = (-d / 2 * math.log(2 * math.pi) + wdiff - d / 2 * math.log(1 - 1 / n)
           - (n - d - 2) / 2 * np.linalg.slogdet(M)[1] + (n - d - 3) / 2 * np.linalg.slogdet(psi)[1])
    return val, dict(wdiff=wdiff, lds=np.linalg.slogdet(S)[1], ldp=np.linalg.slogdet(psi)[1])


def lik_case(ctx, rng, reqs, meta, forced=None):
    d = rng.randint(1, 4)
    n = rng.randint(d + 5, 40)
    scale = 1.0
    if rng.random() < .12:                       # many summaries on a very small / very large scale: determinants leave the double range,
        d = rng.choice([20, 30])                  # their logarithms do not
        n = d + rng.randint(10, 60)
        scale = rng.choice([1e-8, 1e5, 1e5])
    if forced:
        d, scale = forced['d'], forced['scale']
        n = d + rng.randint(40, 70)
    rs = np.random.RandomState(rng.randrange(2**31))
    A = rs.randn(d, d) * rng.choice([0.3, 1.0]) + np.eye(d)
    ssx = (rs.randn(n, d) @ A.T + rs.randn(d)) * scale
    far = rng.random() < .3
    if rng.random() < .3:
        ssx = np.asfortranarray(ssx) if rng.random() < .5 else np.ascontiguousarray(ssx[:, ::-1])[:, ::-1]     # same values, other memory layout / a strided view
    y = ssx.mean(0) + (rng.choice([3.0, 8.0]) if far else (0.02 if forced else 0.3)) * rs.randn(d) * scale     # (forced cases: psi stays positive definite)
    kind = rng.choice(['standard', 'standard-whiten', 'standard-warton', 'standard-glasso', 'unbiased', 'unbiased', 'mean', 'variance'])
    if forced:
        kind, far = forced['kind'], False
    if kind == 'standard-whiten' and d == 1:
        kind = 'standard'             # a 1x1 whitening matrix is not a meaningful setting (np.squeeze makes the observation 0-d)
    if scale != 1.0 and kind in ('standard-whiten', 'standard-warton', 'standard-glasso'):
        kind = 'standard'
    if kind == 'standard-glasso' and (d == 1 or n < 4 * d):
        kind = 'standard'
    case = dict(part='likelihood', kind=kind, n=n, d=d, far=far, scale=scale, seed=int(rs.randint(2**31)))
    ctx.count('likelihood.scale', '%g' % scale)
    ctx.case(case, d >= 2)
    ctx.count('likelihood.kind', kind)
    ctx.count('likelihood.d', d)
    mean, S = ssx.mean(0), np.atleast_2d(np.cov(ssx, rowvar=False))
    log2pi = math.log(2 * math.pi)
    with np.errstate(all='ignore'):
        if kind.startswith('standard'):
            kw = {}
            m2, S2, y2 = mean, S, y
            if kind == 'standard-whiten':
                Q, _ = np.linalg.qr(rs.randn(d, d))
                W = Q @ np.diag(rs.uniform(0.5, 2.0, d))       # well conditioned (cond <= 4): the two mathematically equal paths agree to ~1e-12
                kw['whitening'] = W
                m2, S2, y2 = W @ mean, W @ S @ W.T, W @ y
            if kind == 'standard-warton':
                pen = rng.choice([0.0, 0.2, 0.5, 0.9])
                kw.update(shrinkage='warton', penalty=pen)
                S2 = warton(S, 1 - pen)
                case['penalty'] = pen
            if kind == 'standard-glasso':
                # graphical-lasso shrinkage (sklearn's solver is third-party, like scipy's densities): the covariance that is shrunk
                # is the one of the simulations AS THEY ENTER THE DENSITY - whitened if a whitening matrix is given, and of the
                # standardised columns if `standardise` - every combination of the three options, the full one in every other case
                from sklearn.covariance import graphical_lasso
                GL['n'] += 1
                standardise = GL['n'] % 2 == 1
                pen = rng.choice([0.05, 0.2])
                Q, _ = np.linalg.qr(rs.randn(d, d))
                W = Q @ np.diag(rs.uniform(0.5, 2.0, d))
                whiten = GL['n'] % 4 != 0
                X = ssx @ W.T if whiten else np.array(ssx)
                y2 = W @ y if whiten else y
                m2 = X.mean(0)
                C = np.atleast_2d(np.cov(X, rowvar=False))
                if standardise:
                    C = np.atleast_2d(np.cov((X - m2) / np.sqrt(np.diag(C)), rowvar=False))
                try:
                    S2 = graphical_lasso(C, alpha=pen, max_iter=200)[0]
                except FloatingPointError:
                    ctx.count('likelihood.glasso', 'solver refuses this covariance (ill-conditioned): case skipped')
                    return
                kw = dict(shrinkage='glasso', penalty=pen, standardise=standardise)
                if whiten:
                    kw['whitening'] = W
                case.update(penalty=pen, standardise=standardise, whitening=whiten)
                ctx.count('likelihood.glasso', 'whitening=%s standardise=%s' % (whiten, standardise))
            got = float(np.ravel(pm.gaussian_syn_likelihood(ssx, y.reshape(1, -1), **kw))[0])
            exp, logdet, q = mvn_logpdf(y2, m2, S2)
            reqs.append(dict(op='C20.mvn', log2pi=bits(log2pi), d=bits(d), logdet=bits(logdet), quad=bits(q)))
            meta.append(('val', case, got))
        elif kind == 'unbiased':
            got = float(np.ravel(pm.gaussian_syn_likelihood_ghurye_olkin(ssx, y))[0])
            exp, pieces = go_ref(ssx, y)
            ctx.count('likelihood.psi', 'not-pd' if pieces is None else 'pd')
            if pieces is not None:
                reqs.append(dict(op='C20.go', fixed=True, log2pi=bits(log2pi), d=bits(d), n=bits(n), wconDiff=bits(pieces['wdiff']),
                                 logdetSigma=bits(pieces['lds']), logdetPsi=bits(pieces['ldp'])))
                meta.append(('val', case, got))
        else:
            gamma = np.abs(rs.randn(d)) * rng.choice([0.0, 0.5, 2.0])
            got = float(pm.syn_likelihood_misspec(ssx, y.reshape(1, -1), gamma=gamma, adjustment=kind))
            std = np.sqrt(np.diag(S))
            if kind == 'mean':
                exp, logdet, q = mvn_logpdf(y, mean + std * gamma, S)
            else:
                exp, logdet, q = mvn_logpdf(y, mean, S + np.diag((std * gamma) ** 2))
            reqs.append(dict(op='C20.adj', mean=bits(mean[0]), std=bits(std[0]), gamma=bits(gamma[0]), var=bits(S[0, 0])))
            meta.append(('adj', case, (mean[0] + std[0] * gamma[0], S[0, 0] + (std[0] * gamma[0]) ** 2)))
    same = (exp == got) or (math.isfinite(exp) and math.isfinite(got) and math.isclose(got, exp, rel_tol=1e-7, abs_tol=1e-8))
    if not same and got == -math.inf and kind.startswith('standard') and np.linalg.cond(np.atleast_2d(S2)) > 1e8:
        # the documented answer for a sample covariance scipy declares singular ("Unable to compute logpdf due to poor sample cov"):
        # outside the stated assumption (non-singular sample covariance); counted, not judged
        ctx.count('likelihood.poor_sample_cov', 'abstained (cond > 1e8, code answers -inf)')
        if meta and meta[-1][1] is case:
            meta.pop()
            reqs.pop()
        return
    if not same:
        ctx.fail_input(case, 'the %s synthetic log-likelihood is %r, the stated formula gives %r' % (kind, got, exp), exp, got)


GL = dict(n=0)


def go_monte_carlo(ctx):
    """labelled statistical sanity test of the REFERENCE formula (protects the oracle): E[estimate] = N(y; mu, Sigma)"""
    rs = np.random.RandomState(7)
    out = {}
    for d, n in [(1, 8), (2, 10)]:
        mean, cov, y = np.zeros(d), 0.5 * np.eye(d) + 0.5, np.full(d, 0.3)
        true = float(ss.multivariate_normal.pdf(y, mean, cov))
        vals = [math.exp(go_ref(rs.multivariate_normal(mean, cov, n), y)[0]) for _ in range(6000)]
        out['d=%d,n=%d' % (d, n)] = dict(true=true, mc_mean=float(np.mean(vals)), se=float(np.std(vals) / math.sqrt(len(vals))))
        if not (0.8 * true < np.mean(vals) < 1.25 * true):
            raise RuntimeError('reference Ghurye-Olkin formula failed its own unbiasedness sanity test: %r' % out)
    ctx.extra['ghurye_olkin_reference_monte_carlo'] = out


# ------------------------------------------------------------------ B. transforms

def gen_bounds(rng, p):
    bs = []
    for _ in range(p):
        t = rng.choice(['two', 'upper', 'lower', 'free', 'two'])
        a, b = rng.choice([-2.0, 0.0, 0.5]), rng.choice([1.0, 3.0, 10.0])
        bs.append(dict(two=[a, b], upper=[-math.inf, b], lower=[a, math.inf], free=[-math.inf, math.inf])[t])
    return bs


def in_support(rng, bd):
    a, b = bd
    if math.isinf(a) and math.isinf(b):
        return rng.uniform(-3, 3)
    if math.isinf(a):
        return b - rng.choice([1e-3, 0.1, 1.0, 5.0]) * (0.2 + rng.random())
    if math.isinf(b):
        return a + rng.choice([1e-3, 0.1, 1.0, 5.0]) * (0.2 + rng.random())
    return a + (b - a) * rng.choice([0.001, 0.2, 0.5, 0.8, 0.999])


def log_jac_oracle(bounds, y):
    """independent analytic log|d theta / d theta_tilde|"""
    tot = 0.0
    for (a, b), yi in zip(bounds, y):
        if math.isinf(a) and math.isinf(b):
            continue
        if math.isinf(a):
            tot += -yi                                    # theta = b - e^{-y}
        elif math.isinf(b):
            tot += yi                                     # theta = a + e^{y}
        else:
            s = 1 / (1 + math.exp(-yi))
            tot += math.log(b - a) + math.log(s) + math.log1p(-s) if s < 1 else -math.inf
    return tot


def num_log_jac(B, y, h=1e-5):
    """log |det d theta / d theta_tilde| of the tree's own back-transform by central differences (the map is coordinate-wise);
    None when a derivative vanishes numerically"""
    y = np.asarray(y, dtype=float)
    tot = 0.0
    with np.errstate(all='ignore'):
        for i in range(len(y)):
            e = np.zeros(len(y))
            e[i] = h
            dv = (BSL._para_logit_back_transform(y + e, B)[i] - BSL._para_logit_back_transform(y - e, B)[i]) / (2 * h)
            if not math.isfinite(dv) or dv == 0:
                return None
            tot += math.log(abs(dv))
    return tot


def transform_case(ctx, rng, reqs, meta):
    p = rng.randint(1, 3)
    bounds = gen_bounds(rng, p)
    x = [in_support(rng, bd) for bd in bounds]
    case = dict(part='transform', bounds=[[repr(v) for v in bd] for bd in bounds], x=x)
    nontriv = any(not (math.isinf(a) and math.isinf(b)) for a, b in bounds)
    ctx.case(case, nontriv)
    for a, b in bounds:
        ctx.count('transform.type', '%d' % (int(math.isinf(a)) + 2 * int(math.isinf(b))))
    B = np.array(bounds)
    with np.errstate(all='ignore'):
        y = BSL._para_logit_transform(np.array(x), B)
        xb = BSL._para_logit_back_transform(y, B)
        J = float(BSL._jacobian_logit_transform(y, B))
    if not np.allclose(xb, x, rtol=1e-9, atol=1e-9):
        ctx.fail_input(case, 'back-transform(transform(x)) = %s differs from x = %s' % (xb.tolist(), x), x, xb.tolist())
        return
    for (a, b), v in zip(bounds, xb):
        if not (a <= v <= b):
            ctx.fail_input(case, 'a back-transformed value %r lies outside its bounds (%r, %r)' % (float(v), a, b))
            return
    # the Jacobian is the (absolute) derivative of THIS TREE'S back-transform (central difference per coordinate): that is
    # what the property's "ratio of the transform's Jacobians" refers to, whatever bijection the code uses
    num = num_log_jac(B, y)
    exp = log_jac_oracle(bounds, y)
    if num is not None and not math.isclose(J, num, rel_tol=1e-4, abs_tol=1e-4):
        ctx.fail_input(case, 'the coded log-Jacobian %r is not the log |derivative| of the back-transform (numerical %r; analytic for the '
                       'documented transform %r)' % (J, num, exp), num, J)
        return
    if not math.isclose(J, exp, rel_tol=1e-9, abs_tol=1e-9):
        # consistent with its own back-transform but not the documented map: the model no longer describes the code
        ctx.corr_break('jacobian-analytic', case, exp, J)
        return
    reqs.append(dict(op='C20.transform', bounds=[[bits(a), bits(b)] for a, b in bounds], x=[bits(v) for v in x], fixed=True))
    meta.append(('transform', case, (y.tolist(), xb.tolist(), J)))
    # the other direction from a transformed value
    y2 = [rng.uniform(-6, 6) for _ in range(p)]
    with np.errstate(all='ignore'):
        x2 = BSL._para_logit_back_transform(np.array(y2), B)
        y3 = BSL._para_logit_transform(x2, B)
    if np.all(np.isfinite(y3)) and not np.allclose(y3, y2, rtol=1e-6, atol=1e-6):
        ctx.fail_input(dict(case, y=y2), 'transform(back-transform(y)) = %s differs from y = %s' % (y3.tolist(), y2), y2, y3.tolist())
        return
    reqs.append(dict(op='C20.back', bounds=[[bits(a), bits(b)] for a, b in bounds], y=[bits(v) for v in y2], fixed=True))
    meta.append(('back', dict(case, y=y2), (x2.tolist(), float(BSL._jacobian_logit_transform(np.array(y2), B)))))


# ------------------------------------------------------------------ C. the ratio on constructed states

def ratio_case(ctx, rng, reqs, meta):
    p = rng.randint(1, 3)
    use_t = rng.random() < .75
    bounds = gen_bounds(rng, p) if use_t else None
    cur = [in_support(rng, bd) for bd in bounds] if use_t else [rng.uniform(-2, 2) for _ in range(p)]
    prev = [in_support(rng, bd) for bd in bounds] if use_t else [rng.uniform(-2, 2) for _ in range(p)]
    lp_c, lp_p = rng.uniform(-30, 5), rng.uniform(-30, 5)
    if rng.random() < .15:
        lp_c += rng.choice([900, -900])
    case = dict(part='ratio', bounds=None if bounds is None else [[repr(v) for v in bd] for bd in bounds], cur=cur, prev=prev, lp_cur=lp_c, lp_prev=lp_p)
    ctx.case(case, use_t)
    ctx.count('ratio.transform', use_t)
    obj = object.__new__(BSL)
    obj.state = dict(n_samples=1, logposterior=np.array([lp_p, lp_c]), params=np.array([prev, cur]))
    obj.logit_transform_bound = None if bounds is None else np.array(bounds)
    with np.errstate(all='ignore'):
        got = float(obj._get_mh_ratio())
    jc = jp = 0.0
    njc = njp = 0.0
    if use_t:
        B = np.array(bounds)
        with np.errstate(all='ignore'):
            yc, yp = BSL._para_logit_transform(np.array(cur), B), BSL._para_logit_transform(np.array(prev), B)
        jc, jp = log_jac_oracle(bounds, yc), log_jac_oracle(bounds, yp)
        njc, njp = num_log_jac(B, yc), num_log_jac(B, yp)
    r = (jc - jp) + lp_c - lp_p
    exp = math.exp(max(-700.0, min(700.0, r)))
    if njc is not None and njp is not None:
        # the statement itself, with the Jacobian taken from this tree's own back-transform
        rn = (njc - njp) + lp_c - lp_p
        expn = math.exp(max(-700.0, min(700.0, rn)))
        if not math.isclose(min(1.0, got), min(1.0, expn), rel_tol=1e-3, abs_tol=1e-300):
            ctx.fail_input(case, 'acceptance probability min(1, ratio) = %r, the posterior ratio times the ratio of the Jacobians of the '
                           'back-transform at the transformed points gives %r' % (min(1.0, got), min(1.0, expn)), min(1.0, expn), min(1.0, got))
            return
    if not math.isclose(min(1.0, got), min(1.0, exp), rel_tol=1e-8, abs_tol=1e-300):
        if njc is None or njp is None:
            ctx.fail_input(case, 'acceptance probability min(1, ratio) = %r, the posterior ratio times the ratio of the Jacobians at the '
                           'transformed points gives %r' % (min(1.0, got), min(1.0, exp)), min(1.0, exp), min(1.0, got))
        else:
            ctx.corr_break('mh-ratio-analytic', case, min(1.0, exp), min(1.0, got))
        return
    reqs.append(dict(op='C20.mh', cur=bits(lp_c), prev=bits(lp_p), jCur=bits(jc), jPrev=bits(jp), u=bits(0.5)))
    meta.append(('mh', case, got))


# ------------------------------------------------------------------ D. chains

def make_bsl_model(case, sims):
    m = elfi.ElfiModel(name='bsl')
    pr = case['prior']
    if pr == 'uniform':
        t = elfi.Prior('uniform', 0.0, 2.0, model=m, name='t')
    elif pr == 'gamma':
        t = elfi.Prior('gamma', 2.0, 0.0, 0.6, model=m, name='t')
    elif pr == 'beta':
        t = elfi.Prior('beta', 2.0, 3.0, 0.0, 2.0, model=m, name='t')
    else:
        t = elfi.Prior('norm', 1.0, 0.7, model=m, name='t')

    def sim(t, batch_size=1, random_state=None):
        sims.append(np.asarray(t, dtype=float).copy())
        return np.asarray(t).reshape(-1, 1) + 0.6 * random_state.randn(batch_size, 6)

    Y = elfi.Simulator(sim, t, model=m, name='Y', observed=np.array([[1.1, 0.7, 1.4, 0.9, 1.2, 0.6]]))
    elfi.Summary(lambda y: np.mean(y, axis=1), Y, model=m, name='S1')
    elfi.Summary(lambda y: np.log(np.var(y, axis=1)), Y, model=m, name='S2')
    return m


def gen_chain(rng):
    prior = rng.choice(['uniform', 'gamma', 'beta', 'norm'])
    tb = None
    if rng.random() < .5:
        tb = dict(uniform=[0.0, 2.0], beta=[0.0, 2.0], gamma=[0.0, math.inf], norm=rng.choice([[-math.inf, math.inf], [-math.inf, 6.0]]))[prior]
    return dict(part='chain', kind=rng.choice(['standard', 'unbiased', 'mean', 'variance', 'mean']), prior=prior, transform=tb,
                sigma=rng.choice([0.05, 0.4, 1.5]), n_samples=rng.randint(12, 30), n_sim_round=rng.choice([12, 20]),
                batches=rng.choice([1, 2]), seed=rng.randrange(2**31))


def chain_case(ctx, rng, reqs, meta, case=None):
    case = case or gen_chain(rng)
    sims, log = [], dict(props=[], lls=[], ratios=[], us=[], gammas=[])
    m = make_bsl_model(case, sims)
    kind = case['kind']
    if kind == 'standard':
        base = pm.standard_likelihood()

        def lik(ssx, ssy):
            v = float(np.ravel(base(ssx, ssy))[0])
            log['lls'].append(v)
            return v
    elif kind == 'unbiased':
        def lik(ssx, ssy):
            v = float(np.ravel(pm.gaussian_syn_likelihood_ghurye_olkin(ssx, np.ravel(ssy)))[0])
            log['lls'].append(v)
            return v
    else:
        lik = pm.robust_likelihood(kind)
    bsl = elfi.BSL(m, case['n_sim_round'], feature_names=['S1', 'S2'], likelihood=lik, seed=case['seed'],
                   batch_size=case['n_sim_round'] // case['batches'])
    if kind in ('mean', 'variance'):
        real_lik = bsl.likelihood

        def lik2(ssx, ssy, gamma=None, adjustment=None):
            v = float(real_lik(ssx, ssy, gamma=gamma))
            log['lls'].append(v)
            return v
        import functools
        bsl.likelihood = functools.partial(lik2, adjustment=kind)      # BSL reads likelihood.keywords['adjustment']
        real_resolve = bsl._resolve_gamma_sampler

        def resolve(tau, w, max_iter):
            sampler, g0 = real_resolve(tau, w, max_iter)

            def logged(*a, **kw):
                g, ll = sampler(*a, **kw)
                log['gammas'].append(float(ll))
                return g, ll
            return logged, g0
        bsl._resolve_gamma_sampler = resolve
    real_prop = bsl._propagate_state

    def propagate():
        pr = real_prop()
        log['props'].append(np.array(pr, dtype=float).ravel().copy())
        return pr
    bsl._propagate_state = propagate
    real_ratio = bsl._get_mh_ratio
    flag = dict(expect=False)

    def get_ratio():
        v = real_ratio()
        log['ratios'].append((int(bsl.state['n_samples']), float(v)))
        flag['expect'] = True
        return v
    bsl._get_mh_ratio = get_ratio
    rs = bsl.random_state

    class RS:
        def __getattr__(self, a):
            return getattr(rs, a)

        def uniform(self, *a, **kw):
            v = rs.uniform(*a, **kw)
            if flag['expect'] and not a and not kw:
                log['us'].append(float(v))
                flag['expect'] = False
            return v
    bsl.random_state = RS()
    p0 = dict(uniform=1.0, gamma=1.0, beta=0.8, norm=1.0)[case['prior']]
    tb = case['transform']
    try:
        with np.errstate(all='ignore'):
            with_timeout(180, lambda: bsl.sample(case['n_samples'], sigma_proposals=np.array([[case['sigma'] ** 2]]), params0=[p0],
                                                 logit_transform_bound=None if tb is None else [tuple(tb)], bar=False))
    except Timeout:
        ctx.case(case, True)
        ctx.fail_input(case, 'BSL.sample did not return')
        return
    except RuntimeError as e:
        ctx.case(case, False)
        ctx.count('chain.outcome', 'RuntimeError(%s)' % str(e)[:40])
        return
    st = bsl.state
    N = case['n_samples']
    params, lprior, lpost = np.array(st['params']).ravel(), np.array(st['logprior']), np.array(st['logposterior'])
    prior = ModelPrior(m)

    def lp(v):
        with np.errstate(all='ignore'):
            return float(np.ravel(prior.logpdf(np.array([[v]])))[0])

    def jac(v):
        if tb is None:
            return 0.0
        with np.errstate(all='ignore'):
            return log_jac_oracle([tb], BSL._para_logit_transform(np.array([v]), np.array([tb])))
    n_rej = sum(1 for k in range(1, N) if params[k] == params[k - 1])
    ctx.case(case, n_rej > 0)
    ctx.count('chain.kind', kind)
    ctx.count('chain.prior', case['prior'] + ('+transform' if tb else ''))
    # (i) every stored log prior belongs to the stored parameter
    for k in range(N):
        if not math.isclose(lprior[k], lp(params[k]), rel_tol=1e-10, abs_tol=1e-10):
            ctx.fail_input(dict(case, index=k), 'logprior[%d] = %r is not the log prior %r of the stored parameter %r' % (k, lprior[k], lp(params[k]), params[k]),
                           lp(params[k]), float(lprior[k]))
            return
    # (ii) replay: proposals -> simulated or not -> decision
    misspec = kind in ('mean', 'variance')
    lls, us, ratios, gammas = list(log['lls']), list(log['us']), list(log['ratios']), list(log['gammas'])
    cur, cur_post = p0, lls[0] + lp(p0)
    li, ui, gi, n_sim_rounds = 1, 0, 0, 1
    rounds, script = [], []
    for k, prop in enumerate(log['props']):
        n = k + 1
        prop = float(prop[0])
        g = None
        if misspec:
            g = gammas[gi]
            gi += 1
            cur_post = g + lp(cur)
        script.append([None if g is None else bits(g), [bits(prop)]])
        if not math.isfinite(lp(prop)):
            ctx.count('chain.proposal', 'outside-support')
            if params[n] != cur:
                ctx.fail_input(dict(case, index=n), 'a proposal outside the prior support was not rejected (slot %d holds %r, current state %r)' % (n, params[n], cur))
                return
            continue
        ctx.count('chain.proposal', 'inside-support')
        if li >= len(lls):
            ctx.fail_input(dict(case, index=n), 'a proposal inside the prior support was not simulated / scored')
            return
        ll = lls[li]
        li += 1
        n_sim_rounds += 1
        r = (jac(prop) - jac(cur)) + (ll + lp(prop)) - cur_post
        pacc = math.exp(max(-700.0, min(700.0, r))) if not math.isnan(r) else float('nan')
        if ui >= len(us):
            ctx.fail_input(dict(case, index=n), 'no uniform was drawn for the decision at slot %d' % n)
            return
        u = us[ui]
        got_ratio = ratios[ui][1]
        ui += 1
        rounds.append(dict(script=script, ll=bits(ll), u=bits(u)))
        script = []
        if math.isfinite(pacc) and not math.isclose(min(1.0, got_ratio), min(1.0, pacc), rel_tol=1e-7, abs_tol=1e-300):
            ctx.fail_input(dict(case, index=n), 'at slot %d the sampler accepted with probability %r; posterior ratio x Jacobian ratio gives %r '
                           '(current %r, proposed %r)' % (n, min(1.0, got_ratio), min(1.0, pacc), cur, prop), min(1.0, pacc), min(1.0, got_ratio))
            return
        accept = u < min(1.0, got_ratio)
        if accept:
            cur, cur_post = prop, ll + lp(prop)
        if params[n] != cur:
            ctx.fail_input(dict(case, index=n), 'slot %d holds %r after a%s decision (u = %r, probability %r), expected %r'
                           % (n, params[n], 'n accepting' if accept else ' rejecting', u, min(1.0, got_ratio), cur))
            return
        if not misspec and not math.isclose(lpost[n], cur_post, rel_tol=1e-10, abs_tol=1e-10):
            ctx.fail_input(dict(case, index=n), 'logposterior[%d] = %r, expected %r' % (n, lpost[n], cur_post), cur_post, float(lpost[n]))
            return
    if script:
        rounds.append(dict(script=script, ll=bits(0.0), u=bits(0.5)))
    # (iii) proposals outside the support are rejected without simulating
    n_calls = len(sims) // case['batches']
    if n_calls != n_sim_rounds or li != len(lls):
        ctx.fail_input(case, 'the simulator ran %d rounds and %d likelihoods were estimated, but only %d proposals (incl. the start) lie in the prior support'
                       % (n_calls, len(lls), n_sim_rounds), n_sim_rounds, n_calls)
        return
    for arr in sims:
        if not all(math.isfinite(lp(float(v))) for v in np.ravel(arr)):
            ctx.fail_input(case, 'the simulator was run at a parameter value outside the prior support: %s' % np.ravel(arr)[:3].tolist())
            return
    # model on the same streams
    pts = sorted(set([p0] + [float(q[0]) for q in log['props']]))
    reqs.append(dict(op='C20.chain', cap=N, init=[bits(p0)], ll0=bits(lls[0]), prior=[[[bits(v)], bits(lp(v))] for v in pts],
                     jac=[[[bits(v)], bits(jac(v))] for v in pts], rounds=rounds))
    meta.append(('chain', case, dict(params=[bits(v) for v in params], logprior=[float(v) for v in lprior], logpost=[float(v) for v in lpost], misspec=misspec)))


# ------------------------------------------------------------------ drive

def close(a, b, tol=1e-12):
    return (a == b) or (math.isnan(a) and math.isnan(b)) or math.isclose(a, b, rel_tol=tol, abs_tol=tol)


def drive(ctx, reqs, meta):
    if not ctx.driver_ok or not reqs:
        return
    for (kind, case, real), a in zip(meta, ctx.lean.drive(reqs)):
        m = a.get('ok')
        if m is None:
            ctx.corr_break('driver', case, a, None)
            continue
        if kind == 'val':
            v = unbits(m['val'][0])
            if not close(v, real, 1e-7):       # (same tolerance as the direct oracle: logdet / quadratic form come from two different factorisations)
                ctx.corr_break('likelihood-formula', case, v, real)
        elif kind == 'adj':
            if not (close(unbits(m['mean'][0]), real[0]) and close(unbits(m['var'][0]), real[1])):
                ctx.corr_break('adjustment', case, [unbits(m['mean'][0]), unbits(m['var'][0])], list(real))
        elif kind == 'transform':
            y, xb, J = real
            if not (all(close(unbits(u), v, 1e-11) for u, v in zip(m['fwd'], y)) and all(close(unbits(u), v, 1e-9) for u, v in zip(m['back'], xb))
                    and close(unbits(m['logJ'][0]), J, 1e-10)):
                ctx.corr_break('transform', case, dict(fwd=[unbits(u) for u in m['fwd']], logJ=unbits(m['logJ'][0])), dict(fwd=y, logJ=J))
        elif kind == 'back':
            x2, J = real
            if not (all(close(unbits(u), v, 1e-11) for u, v in zip(m['back'], x2)) and close(unbits(m['logJ'][0]), J, 1e-10)):
                ctx.corr_break('back-transform', case, dict(back=[unbits(u) for u in m['back']], logJ=unbits(m['logJ'][0])), dict(back=x2, logJ=J))
        elif kind == 'mh':
            if not close(unbits(m['ratio'][0]), real, 1e-9):
                ctx.corr_break('mh-ratio', case, unbits(m['ratio'][0]), real)
        elif kind == 'chain':
            ent = m['entries']
            mp = [e[0][0] for e in ent]
            n = len(real['params'])
            ok = len(ent) == n and mp == real['params'] and all(close(unbits(e[1]), v, 1e-10) for e, v in zip(ent, real['logprior']))
            if ok and not real['misspec']:
                ok = all(close(unbits(e[2]), v, 1e-10) for e, v in zip(ent, real['logpost']))
            if not ok:
                k = next((i for i in range(min(len(ent), n)) if mp[i] != real['params'][i] or not close(unbits(ent[i][1]), real['logprior'][i], 1e-10)), None)
                ctx.corr_break('chain-arrays', case, dict(first_difference=k, model_len=len(ent)), dict(len=n))


def process(ctx, n_lik, n_tr, n_ratio, n_chain):
    rng = ctx.rng
    reqs, meta = [], []
    # 30 summaries on a very large / very small scale: det((n-1) Sigma) is ~1e350 / ~1e-430, its logarithm is an ordinary number
    for fz in (dict(kind='unbiased', d=30, scale=1e5), dict(kind='unbiased', d=30, scale=1e-8), dict(kind='standard', d=30, scale=1e5),
               dict(kind='variance', d=30, scale=1e-8),
               # graphical-lasso shrinkage with whitening and standardisation, in every run (two cases: both option patterns)
               dict(kind='standard-glasso', d=3, scale=1.0), dict(kind='standard-glasso', d=2, scale=1.0),
               dict(kind='standard-glasso', d=4, scale=1.0)):
        if not ctx.enough():
            lik_case(ctx, rng, reqs, meta, forced=fz)
    for fn, n in ((lik_case, n_lik), (transform_case, n_tr), (ratio_case, n_ratio)):
        for _ in range(n):
            if ctx.enough():
                break
            fn(ctx, rng, reqs, meta)
    kinds = ['mean', 'standard', 'variance', 'unbiased']
    for k in range(n_chain):
        if ctx.enough():
            break
        c = gen_chain(rng)
        c['kind'] = kinds[k % 4]
        if k % 4 == 0:
            c['prior'] = rng.choice(['gamma', 'norm', 'beta'])       # robust likelihood with a NON-FLAT prior
        if k % 4 == 1:
            c.update(prior=rng.choice(['uniform', 'beta']), transform=None, sigma=1.5)   # many proposals outside the support
        chain_case(ctx, rng, reqs, meta, case=c)
    drive(ctx, reqs, meta)


def run(ctx):
    if ctx.tier == 'quick':
        process(ctx, 60, 60, 60, 8)
    else:
        go_monte_carlo(ctx)
        process(ctx, 2000, 2000, 2000, 160)


def search(ctx):
    process(ctx, 300, 300, 300, 30)


def replay(ctx, case):
    return dict(note='cases are generated from the seed: rerun the check with the same VERIF_SEED', part=case.get('part'))
