-- Root of the `ElfiVerif` library: every model, proof and property module.
import ElfiVerif.Model.SubSeed
import ElfiVerif.Proofs.SubSeed
import ElfiVerif.Props.C15
import ElfiVerif.Driver
import ElfiVerif.Model.Stats
import ElfiVerif.Props.C13
import ElfiVerif.Model.Rejection
import ElfiVerif.Props.C01
import ElfiVerif.Model.Distance
import ElfiVerif.Props.C12
import ElfiVerif.Model.Npy
import ElfiVerif.Props.C06
import ElfiVerif.Model.Tools
import ElfiVerif.Props.C18
import ElfiVerif.Model.Engine
import ElfiVerif.Props.C04
