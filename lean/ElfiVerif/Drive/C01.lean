import ElfiVerif.Drive.Util
import ElfiVerif.Model.Rejection
import ElfiVerif.Model.Budget

namespace ElfiVerif.Drive.C01
open Lean ElfiVerif.Drive ElfiVerif.Rejection

/-- discrepancy values on the wire: an exact rational `[num, den]` / integer, or the string "inf" -/
inductive Key | fin (v : Rat) | inf
deriving DecidableEq, Repr

instance : LE Key := ⟨fun a b => match a, b with
  | _, .inf => True
  | .inf, .fin _ => False
  | .fin x, .fin y => x ≤ y⟩

instance : DecidableLE Key := fun a b => by
  cases a <;> cases b <;> simp only [LE.le] <;> infer_instance

def keyOfJson (j : Json) : Except String Key :=
  match j with
  | .str "inf" => pure .inf
  | _ => Key.fin <$> ratOfJson j

def keyToJson : Key → Json
  | .inf => Json.str "inf"
  | .fin v => ratToJson v

def slotOfJson (j : Json) : Except String (Slot Key) := do
  match j with
  | .arr #[i, k] => do
    let key ← keyOfJson k
    match i with
    | .null => pure ⟨key, none⟩
    | _ => pure ⟨key, some (← i.getNat?)⟩
  | _ => throw "slot must be [id, key]"

/-- the float formula of `_update_objective_n_batches`, same IEEE double operations as Python:
    `ceil((n / (nAcc / nSim) + .2 * b * int(nAcc < n)) / b)` -/
def estFloat (n nAcc nSim b : Nat) : Nat :=
  let rate := Float.ofNat nAcc / Float.ofNat nSim
  let margin := 0.2 * Float.ofNat b * (if nAcc < n then 1.0 else 0.0)
  (((Float.ofNat n / rate + margin) / Float.ofNat b).ceil).toUInt64.toNat

def cfgOfJson (j : Json) : Except String (Cfg Key) := do
  let n ← getNat j "n"
  let b ← getNat j "b"
  let thr ← match optKey j "thr" with
    | none => pure none
    | some v => some <$> keyOfJson v
  let nSim ← match optKey j "nSim" with
    | none => pure none
    | some v => some <$> v.getNat?
  let mpb ← getNat j "mpb"
  pure ⟨n, b, thr, nSim, mpb⟩

/-- {"n","b","thr","nSim","mpb","batches":[[[id,key],…],…]} →
    {"keys":[…],"origins":[…],"threshold":…,"nSim":…,"nBatches":…} or {"nBatches":null} when the model
    wants more batches than were supplied. -/
def runH : H := fun j => do
  let c ← cfgOfJson j
  let bs ← (← getArr j "batches").toList.mapM (fun bj => do
    (← bj.getArr?).toList.mapM slotOfJson)
  let arr := bs.toArray
  let batch : Nat → List (Slot Key) := fun i => arr.getD i []
  -- fuel: one more than the supplied batches; a model that needs more runs out of fuel
  match sample sortByKey estFloat Key.inf c batch (bs.length + 1) with
  | none => pure (Json.mkObj [("nBatches", Json.null)])
  | some r =>
    pure (Json.mkObj [
      ("keys", Json.arr (r.rows.map (fun s => keyToJson s.key)).toArray),
      ("origins", Json.arr (r.rows.map (fun s => match s.origin with
          | none => Json.null | some i => Json.num (JsonNumber.fromNat i))).toArray),
      ("threshold", match r.threshold with | none => Json.null | some k => keyToJson k),
      ("nSim", Json.num (JsonNumber.fromNat r.nSim)),
      ("nBatches", Json.num (JsonNumber.fromNat r.nBatches))])

/-- the verified checker on the real output:
    {"thr","n","consumed":[[id,key],…],"out":[[id|null,key],…],"threshold":key|null} → {"check":bool} -/
def checkH : H := fun j => do
  let thr ← match optKey j "thr" with
    | none => pure none
    | some v => some <$> keyOfJson v
  let n ← getNat j "n"
  let cons ← (← getArr j "consumed").toList.mapM slotOfJson
  let out ← (← getArr j "out").toList.mapM slotOfJson
  let threshold ← match optKey j "threshold" with
    | none => pure none
    | some v => some <$> keyOfJson v
  pure (Json.mkObj [("check", Json.bool (checkExtract thr n cons out threshold))])

/-- {"n":…, "p":…, "q":…, "b":…} (quantile = p/q) → {"budget": ceil(n/(p/q)), "batches": ceil(budget/b)} -/
def qbudgetH : H := fun j => do
  let n ← getNat j "n"
  let p ← getNat j "p"
  let q ← getNat j "q"
  let b ← getNat j "b"
  pure (Json.mkObj [("budget", Json.num (JsonNumber.fromNat (quantileBudget n p q))),
                    ("batches", Json.num (JsonNumber.fromNat (quantileBatches n p q b)))])

def handlers : List (String × H) := [("C01.run", runH), ("C01.check", checkH), ("C01.qbudget", qbudgetH)]

end ElfiVerif.Drive.C01
