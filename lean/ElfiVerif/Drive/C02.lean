import ElfiVerif.Drive.Util
import ElfiVerif.Model.Exec

namespace ElfiVerif.Drive.C02
open Lean ElfiVerif.Drive ElfiVerif.Exec

def edgesOf (j : Json) (k : String) : Except String (List (Nat × Nat)) := do
  (← getArr j k).toList.mapM (fun e => do
    match e with
    | .arr #[a, b] => do pure (← a.getNat?, ← b.getNat?)
    | _ => throw "bad edge")

/-- {"nodes":[…],"edges":[[s,d]…],"order":[…]|null,"toRun":[…]} →
    {"topo":[…]|null,"checkReal":bool,"checkModel":bool,"exec":[…]} -/
def topo : H := fun j => do
  let g : Graph := ⟨← getNatList j "nodes", ← edgesOf j "edges"⟩
  let t := constTopo g
  let real := (getNatList j "order").toOption
  let toRun := (getNatList j "toRun").toOption.getD []
  pure (Json.mkObj [
    ("topo", match t with | none => Json.null | some l => natsToJson l),
    ("checkModel", Json.bool ((t.map (isTopoOrder g)).getD false)),
    ("checkReal", match real with | none => Json.null | some o => Json.bool (isTopoOrder g o)),
    ("exec", match t with | none => Json.null | some l => natsToJson (executionOrder l toRun))])

/-- stream positions: {"order":[…],"nodes":[[name,[parents…],stochastic,draws]…],"stored":[…]} →
    for every stochastic node that runs: [name, position at which it starts drawing] -/
def stream : H := fun j => do
  let order ← getNatList j "order"
  let specs ← (← getArr j "nodes").toList.mapM (fun e => do
    match e with
    | .arr #[n, ps, st, d] => do
      pure ((← n.getNat?), (⟨← n.getNat?, ← (← ps.getArr?).toList.mapM (·.getNat?), ← st.getBool?⟩ : ENode), ← d.getNat?)
    | _ => throw "bad node")
  let stored ← getNatList j "stored"
  let nodes : Nat → Option ENode := fun n => (specs.find? (fun p => p.1 == n)).map (·.2.1)
  let draws : Nat → Nat := fun n => ((specs.find? (fun p => p.1 == n)).map (·.2.2)).getD 0
  -- values: the list of (node, start position) records seen so far is irrelevant; Val := Nat (start position or 0)
  let S : Sem Nat Nat := { det := fun _ _ => 0, sto := fun n _ g => (g, g + draws n) }
  match runOrder S nodes (fun n => if stored.contains n then some 0 else none) order [] 0 with
  | none => pure (Json.mkObj [("positions", Json.null)])
  | some (env, g) =>
    let pos := env.filter (fun p => ((nodes p.1).map (·.stochastic)).getD false && !stored.contains p.1)
    pure (Json.mkObj [("positions", Json.arr (pos.map (fun p => natsToJson [p.1, p.2])).toArray),
                      ("end", Json.num (JsonNumber.fromNat g))])

def handlers : List (String × H) := [("C02.topo", topo), ("C02.stream", stream)]

end ElfiVerif.Drive.C02
