import ElfiVerif.Drive.Util
import ElfiVerif.Model.Compile

namespace ElfiVerif.Drive.C03
open Lean ElfiVerif.Drive ElfiVerif.Compile

partial def termToJson : Compile.Term → Json
  | .const v => Json.mkObj [("c", Json.num (JsonNumber.fromNat v))]
  | .app f args kw => Json.mkObj [("f", Json.num (JsonNumber.fromNat f)), ("a", Json.arr (args.map termToJson).toArray),
      ("k", Json.arr (kw.map (fun p => Json.arr #[Json.num (JsonNumber.fromNat p.1), termToJson p.2])).toArray)]
  | .tuple args => Json.mkObj [("t", Json.arr (args.map termToJson).toArray)]
  | .tBatchSize => "bs"
  | .tMeta => "meta"
  | .tRandomState => "rs"

def paramOfJson (j : Json) : Except String Param :=
  match j with
  | .arr #[.str "pos", i] => Param.pos <$> i.getNat?
  | .arr #[.str "named", i] => Param.named <$> i.getNat?
  | _ => throw "bad param"

def paramToJson : Param → Json
  | .pos i => Json.arr #["pos", Json.num (JsonNumber.fromNat i)]
  | .named k => Json.arr #["named", Json.num (JsonNumber.fromNat k)]

def sourceOfJson (j : Json) : Except String Source := do
  let nodes ← (← getArr j "nodes").toList.mapM (fun n => do
    let op := match optKey n "op" with | none => none | some v => v.getNat?.toOption
    pure ({ name := ← getNat n "name", op := op, output := (getNat n "output").toOption.getD 0,
            observable := (getBool n "observable").toOption.getD false,
            usesObserved := (getBool n "usesObserved").toOption.getD false,
            stochastic := (getBool n "stochastic").toOption.getD false,
            usesBatchSize := (getBool n "usesBatchSize").toOption.getD false,
            usesMeta := (getBool n "usesMeta").toOption.getD false } : SNode))
  let edges ← (← getArr j "edges").toList.mapM (fun e => do
    match e with
    | .arr #[s, d, p] => do pure (⟨← s.getNat?, ← d.getNat?, ← paramOfJson p⟩ : Edge)
    | _ => throw "bad edge")
  let obs ← (← getArr j "observed").toList.mapM (fun e => do
    match e with
    | .arr #[n, v] => do pure (← n.getNat?, ← v.getNat?)
    | _ => throw "bad observed")
  pure ⟨nodes, edges, obs⟩

def pairs (j : Json) (k : String) : Except String (List (Nat × Nat)) := do
  (← getArr j k).toList.mapM (fun e => do
    match e with
    | .arr #[n, v] => do pure (← n.getNat?, ← v.getNat?)
    | _ => throw "bad pair")

/-- request: {"source":…,"twins":[[name,twinName]…],"bs","mt","rs","kw":[kwBatchSize,kwMeta,kwRandomState,kwObserved],
             "outputs":[…],"supplied":[[name,val]…],"missing":[…]} -/
def runH : H := fun j => do
  let s ← sourceOfJson (← j.getObjVal? "source")
  let tw ← pairs j "twins"
  let kw ← getNatList j "kw"
  let env : Env := { twin := fun n => ((tw.find? (fun p => p.1 == n)).map (·.2)).getD 1000000,
                     bs := ← getNat j "bs", mt := ← getNat j "mt", rs := ← getNat j "rs",
                     kwBatchSize := kw.getD 0 0, kwMeta := kw.getD 1 0, kwRandomState := kw.getD 2 0, kwObserved := kw.getD 3 0 }
  let outputs ← getNatList j "outputs"
  let supplied ← pairs j "supplied"
  let missing ← getNatList j "missing"
  match compile env s outputs with
  | .error _ => pure (Json.mkObj [("error", "ValueError")])
  | .ok c =>
    let l := load env s supplied missing c
    let fuel := 2 * s.nodes.length + 3
    let res := l.outputs.map (fun o => Json.arr #[Json.num (JsonNumber.fromNat o),
      match evalNode l fuel o with | some t => termToJson t | none => Json.null])
    -- denotation on the source graph: user nodes via `denote`, twins via `denoteObs`
    let sfuel := 2 * s.nodes.length + 2
    let den := outputs.map (fun o =>
      let d := match tw.find? (fun p => p.2 == o) with
        | some p => denoteObs env s supplied sfuel p.1
        | none =>
          if o == env.bs then some Compile.Term.tBatchSize else if o == env.mt then some Compile.Term.tMeta
          else if o == env.rs then some Compile.Term.tRandomState else denote env s supplied sfuel o
      Json.arr #[Json.num (JsonNumber.fromNat o), match d with | some t => termToJson t | none => Json.null])
    pure (Json.mkObj [
      ("nodes", Json.arr (c.nodes.map (fun x => Json.arr #[Json.num (JsonNumber.fromNat x.name),
          Json.str (if x.op.isSome then "operation" else if x.output.isSome then "output" else "none")])).toArray),
      ("edges", Json.arr (c.edges.map (fun e => Json.arr #[Json.num (JsonNumber.fromNat e.src),
          Json.num (JsonNumber.fromNat e.dst), paramToJson e.param])).toArray),
      ("needed", natsToJson (needed l)),
      ("results", Json.arr res.toArray),
      ("denote", Json.arr den.toArray)])

def handlers : List (String × H) := [("C03.run", runH)]

end ElfiVerif.Drive.C03
