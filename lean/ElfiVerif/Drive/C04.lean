import ElfiVerif.Drive.Util
import ElfiVerif.Drive.C01
import ElfiVerif.Model.Engine

namespace ElfiVerif.Drive.C04
open Lean ElfiVerif.Drive ElfiVerif.Engine ElfiVerif.Rejection ElfiVerif.Drive.C01

def evOfJson (j : Json) : Except String Ev := do
  match j with
  | .arr #[.str "s", i] => Ev.submitted <$> i.getNat?
  | .arr #[.str "g", i] => Ev.got <$> i.getNat?
  | .arr #[.str "r", i] => Ev.removed <$> i.getNat?
  | _ => throw "bad event"

def evToJson : Ev → Json
  | .submitted i => Json.arr #["s", Json.num (JsonNumber.fromNat i)]
  | .got i => Json.arr #["g", Json.num (JsonNumber.fromNat i)]
  | .removed i => Json.arr #["r", Json.num (JsonNumber.fromNat i)]

/-- {"mpb":n,"events":[["s",0],…]} → {"consumed":[…]|null} : the verified trace checker -/
def checkH : H := fun j => do
  let mpb ← getNat j "mpb"
  let evs ← (← getArr j "events").toList.mapM evOfJson
  pure (Json.mkObj [("consumed", match checkTrace mpb evs [] 0 [] with
    | none => Json.null | some c => natsToJson c)])

/-- the engine model with the rejection sampler under the OBSERVED action schedule:
    {"n","b","thr","nSim","mpb","batches":[…],"acts":"scsc…"} → trace, consumed, returned keys -/
def runH : H := fun j => do
  let c ← cfgOfJson j
  let bs ← (← getArr j "batches").toList.mapM (fun bj => do
    (← bj.getArr?).toList.mapM slotOfJson)
  let arr := bs.toArray
  let batch : Nat → List (Slot Key) := fun i => arr.getD i []
  let acts := (← getStr j "acts").toList.filterMap (fun ch =>
    if ch = 's' then some Act.submit else if ch = 'c' then some Act.consume else none)
  let S := rejSampler sortByKey estFloat c batch
  match infer S c.mpb ⟨initBuf Key.inf c.n c.b, 0⟩ acts with
  | none => pure (Json.mkObj [("accepted", Json.bool false)])
  | some e =>
    pure (Json.mkObj [("accepted", Json.bool true),
      ("trace", Json.arr (e.trace.map evToJson).toArray),
      ("consumed", natsToJson e.consumed),
      ("keys", Json.arr ((e.core.buf.take c.n).map (fun s => keyToJson s.key)).toArray),
      ("nBatches", Json.num (JsonNumber.fromNat e.core.nBatches))])

def handlers : List (String × H) := [("C04.check", checkH), ("C04.run", runH)]

end ElfiVerif.Drive.C04
