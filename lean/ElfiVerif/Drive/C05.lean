import ElfiVerif.Drive.Util
import ElfiVerif.Model.Pool

namespace ElfiVerif.Drive.C05
open Lean ElfiVerif.Drive ElfiVerif.Pool

def storeJson : Option (StoreC Nat) → Json
  | none => Json.null
  | some s => Json.arr (s.map (fun e => Json.arr #[Json.num (JsonNumber.fromNat e.1), Json.num (JsonNumber.fromNat e.2)])).toArray

def poolJson (p : Pool Nat) : Json :=
  Json.mkObj [("names", Json.arr (p.stores.map (fun e => Json.str e.1)).toArray),
    ("stores", Json.arr (p.stores.map (fun e => storeJson e.2)).toArray),
    ("len", Json.num (JsonNumber.fromNat (len p))),
    ("ctx", match p.ctx with
      | none => Json.null
      | some (b, s) => Json.arr #[Json.num (JsonNumber.fromNat b), Json.num (JsonNumber.fromNat s)])]

def errStr : Err → String
  | .valueError => "ValueError" | .keyError => "KeyError" | .attributeError => "AttributeError"

def pairsOf (j : Json) (k : String) : Except String (List (String × Nat)) := do
  (← getArr j k).toList.mapM (fun e => do
    match e with
    | .arr #[a, b] => pure (← a.getStr?, ← b.getNat?)
    | _ => throw "pair expected")

/-- {"stores":[[name, "none"|"empty"],…], "ctx":[b,seed]|null, "ops":[…]} : a history of pool operations on the model
    (`Model/Pool.lean`); per operation the error (if any) and the pool afterwards.  `open` replaces the live pool by
    what `OutputPool.open` reads from the directory. -/
def poolH : H := fun j => do
  let stores ← (← getArr j "stores").toList.mapM (fun e => do
    match e with
    | .arr #[a, b] => pure ((← a.getStr?), if (← b.getStr?) == "none" then (none : Option (StoreC Nat)) else some [])
    | _ => throw "store spec expected")
  let ctx : Option (Nat × Nat) := match optKey j "ctx" with
    | some (.arr #[a, b]) => match a.getNat?, b.getNat? with
      | .ok x, .ok y => some (x, y)
      | _, _ => none
    | _ => none
  let ops := (← getArr j "ops").toList
  let mut p : Pool Nat := { stores := stores, ctx := ctx }
  let mut d : Dir Nat := {}
  let mut out : Array Json := #[]
  for o in ops do
    let kind ← getStr o "op"
    let mut err : Option String := none
    match kind with
    | "add_batch" => p := addBatch p (← pairsOf o "batch") (← getNat o "idx")
    | "remove_batch" =>
      let r := removeBatch p (← getNat o "idx")
      p := r.2
      err := r.1.map errStr
    | "add_store" =>
      match addStore p (← getStr o "node") with
      | .ok q => p := q
      | .error e => err := some (errStr e)
    | "remove_store" =>
      match removeStore p (← getStr o "node") with
      | .ok q => p := q
      | .error e => err := some (errStr e)
    | "clear" =>
      let r := clear p
      p := r.2
      err := r.1.map errStr
    | "set_context" =>
      match setContext p (← getNat o "b") (← getNat o "seed") with
      | .ok q => p := q
      | .error e => err := some (errStr e)
    | "save" =>
      match save p d with
      | .ok d' => d := d'
      | .error e => err := some (errStr e)
    | "open" =>
      match openDir d with
      | some q => p := q
      | none => err := some "FileNotFoundError"
    | "get_batch" => pure ()
    | k => throw s!"bad op {k}"
    let qi := (getNat o "idx").toOption.getD 0
    let extra : List (String × Json) :=
      if kind == "get_batch" then
        [("batch", Json.arr ((getBatch p qi).map (fun e =>
            Json.arr #[Json.str e.1, Json.num (JsonNumber.fromNat e.2)])).toArray),
         ("contains", Json.bool (contains p qi))]
      else []
    out := out.push (Json.mkObj ([("err", match err with | none => Json.null | some e => Json.str e),
      ("pool", poolJson p)] ++ extra))
  pure (Json.arr out)

def handlers : List (String × H) := [("C05.pool", poolH)]

end ElfiVerif.Drive.C05
