import ElfiVerif.Drive.Util
import ElfiVerif.Model.Npy
import ElfiVerif.Model.BufIO
import ElfiVerif.Model.NpyRebatch

namespace ElfiVerif.Drive.C06
open Lean ElfiVerif.Drive ElfiVerif.Npy

def opOfJson (j : Json) : Except String Op := do
  match ← getStr j "op" with
  | "set" => pure (.set (← getNat j "i") (← getNatList j "batch"))
  | "del" => pure (.del (← getNat j "i"))
  | "clear" => pure .clear
  | "flush" => pure .flush
  | "close" => pure .close
  | "reopen" => pure .reopen
  | "reopenN" => pure (.reopenN (← getNat j "n"))
  | "pickle" => pure .pickle
  | o => throw s!"bad op {o}"

def stepStr : Step → String
  | .magic => "magic"
  | .hdr r => s!"hdr {r}"
  | .data p rows => s!"data {p} {rows}"
  | .trunc r => s!"trunc {r}"
  | .mmOpen r => s!"mmOpen {r}"
  | .mmStore p rows => s!"mmStore {p} {rows}"
  | .sync => "sync"

def errJson : Option Err → Json
  | none => Json.null
  | some .valueError => "ValueError"
  | some .indexError => "IndexError"

def loadJson (d : Disk) : Json :=
  match npLoad d with
  | none => Json.null
  | some rows => natsToJson rows

/-- {"b":n,"old":bool,"ops":[…]} → per op: err, steps, npLoad after every step (prefix states), and
    what the store reports afterwards -/
def runH : H := fun j => do
  let b ← getNat j "b"
  let old := (getBool j "old").toOption.getD false
  let ops ← (← getArr j "ops").toList.mapM opOfJson
  let rec go (s : Store) (d : Disk) (ops : List Op) (acc : Array Json) : Array Json :=
    match ops with
    | [] => acc
    | op :: rest =>
      let (e, st, s1) := s.step old d op
      -- disk after each step prefix (1..len)
      let (loads, d') := st.foldl (fun (p : Array Json × Disk) stp =>
        let d2 := p.2.apply stp
        (p.1.push (loadJson d2), d2)) (#[], d)
      let content := Json.arr ((s1.content d').map natsToJson).toArray
      let o := Json.mkObj [("err", errJson e), ("steps", Json.arr (st.map (fun x => Json.str (stepStr x))).toArray),
        ("loads", Json.arr loads), ("nBatches", Json.num (JsonNumber.fromNat s1.nBatches)),
        ("rows", Json.num (JsonNumber.fromNat s1.arr.rows)), ("closed", Json.bool s1.arr.closed),
        ("content", content), ("load", loadJson d')]
      go s1 d' rest (acc.push o)
  pure (Json.arr (go { b := b } Disk.empty ops #[]))

/-- {"kinds":"wsfdn…"} (w = buffered write, s = seek, f = flush/close, d = write that bypasses the buffer,
    n = spontaneous spill) → {"disciplined": bool}: the hypothesis of `buffered_kill_is_prefix`, evaluated
    with the very definition the theorem uses, on the event stream the real store produced -/
def ioH : H := fun j => do
  let evs := (← getStr j "kinds").toList.filterMap (fun ch =>
    if ch = 'w' then some (ElfiVerif.BufIO.IoEv.write .sync) else if ch = 's' then some .seek
    else if ch = 'f' then some .flush else if ch = 'd' then some (.direct .sync)
    else if ch = 'n' then some (.drain 1) else none)
  pure (Json.mkObj [("disciplined", Json.bool (ElfiVerif.BufIO.disciplined false evs)),
                    ("steps", Json.num (JsonNumber.fromNat (ElfiVerif.BufIO.stepsOfEvs evs).length))])

/-- {"rows":[…],"b":n,"ops":[…]} : a flushed file holding `rows`, reopened with batch size `b` (`Store.openB`), then the
    history.  Answers with what the MODEL store does (per op: rejected?, exposed batches, what numpy would load) and
    with what the reference semantics of theorem `rebatch_refines` says (`specRunT`). -/
def rebatchH : H := fun j => do
  let rows ← getNatList j "rows"
  let b ← getNat j "b"
  let ops ← (← getArr j "ops").toList.mapM opOfJson
  let d0 : Disk := ⟨some rows.length, rows⟩
  match Store.openB d0 b with
  | .error _ => throw "open failed"
  | .ok s0 =>
    let rec go (s : Store) (d : Disk) (ops : List Op) (acc : Array Json) : Array Json :=
      match ops with
      | [] => acc
      | op :: rest =>
        let (e, st, s1) := s.step false d op
        let d' := d.applyAll st
        go s1 d' rest (acc.push (Json.mkObj [("err", Json.bool e.isSome),
          ("content", Json.arr ((s1.content d').map natsToJson).toArray), ("load", loadJson d')]))
    let spec := specRunT (chunks b rows) (decide (rows.length % b ≠ 0)) ops
    pure (Json.mkObj [
      ("view", Json.arr ((s0.content d0).map natsToJson).toArray),
      ("chunks", Json.arr ((chunks b rows).map natsToJson).toArray),
      ("tail", natsToJson (tailRows b rows)),
      ("model", Json.arr (go s0 d0 ops #[])),
      ("spec", Json.arr (spec.map (fun r => Json.mkObj [("err", Json.bool r.1),
          ("content", Json.arr (r.2.map natsToJson).toArray)])).toArray),
      ("opsT", Json.bool (ops.all (opT b)))])

def handlers : List (String × H) := [("C06.run", runH), ("C06.io", ioH), ("C06.rebatch", rebatchH)]

end ElfiVerif.Drive.C06
