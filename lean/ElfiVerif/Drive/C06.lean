import ElfiVerif.Drive.Util
import ElfiVerif.Model.Npy
import ElfiVerif.Model.BufIO

namespace ElfiVerif.Drive.C06
open Lean ElfiVerif.Drive ElfiVerif.Npy

def opOfJson (j : Json) : Except String Op := do
  match ← getStr j "op" with
  | "set" => pure (.set (← getNat j "i") (← getNatList j "batch"))
  | "del" => pure (.del (← getNat j "i"))
  | "clear" => pure .clear
  | "flush" => pure .flush
  | "close" => pure .close
  | "reopen" => pure .reopen
  | "reopenN" => pure (.reopenN (← getNat j "n"))
  | "pickle" => pure .pickle
  | o => throw s!"bad op {o}"

def stepStr : Step → String
  | .magic => "magic"
  | .hdr r => s!"hdr {r}"
  | .data p rows => s!"data {p} {rows}"
  | .trunc r => s!"trunc {r}"
  | .mmOpen r => s!"mmOpen {r}"
  | .mmStore p rows => s!"mmStore {p} {rows}"
  | .sync => "sync"

def errJson : Option Err → Json
  | none => Json.null
  | some .valueError => "ValueError"
  | some .indexError => "IndexError"

def loadJson (d : Disk) : Json :=
  match npLoad d with
  | none => Json.null
  | some rows => natsToJson rows

/-- {"b":n,"old":bool,"ops":[…]} → per op: err, steps, npLoad after every step (prefix states), and
    what the store reports afterwards -/
def runH : H := fun j => do
  let b ← getNat j "b"
  let old := (getBool j "old").toOption.getD false
  let ops ← (← getArr j "ops").toList.mapM opOfJson
  let rec go (s : Store) (d : Disk) (ops : List Op) (acc : Array Json) : Array Json :=
    match ops with
    | [] => acc
    | op :: rest =>
      let (e, st, s1) := s.step old d op
      -- disk after each step prefix (1..len)
      let (loads, d') := st.foldl (fun (p : Array Json × Disk) stp =>
        let d2 := p.2.apply stp
        (p.1.push (loadJson d2), d2)) (#[], d)
      let content := Json.arr ((s1.content d').map natsToJson).toArray
      let o := Json.mkObj [("err", errJson e), ("steps", Json.arr (st.map (fun x => Json.str (stepStr x))).toArray),
        ("loads", Json.arr loads), ("nBatches", Json.num (JsonNumber.fromNat s1.nBatches)),
        ("rows", Json.num (JsonNumber.fromNat s1.arr.rows)), ("closed", Json.bool s1.arr.closed),
        ("content", content), ("load", loadJson d')]
      go s1 d' rest (acc.push o)
  pure (Json.arr (go { b := b } Disk.empty ops #[]))

/-- {"kinds":"wsfdn…"} (w = buffered write, s = seek, f = flush/close, d = write that bypasses the buffer,
    n = spontaneous spill) → {"disciplined": bool}: the hypothesis of `buffered_kill_is_prefix`, evaluated
    with the very definition the theorem uses, on the event stream the real store produced -/
def ioH : H := fun j => do
  let evs := (← getStr j "kinds").toList.filterMap (fun ch =>
    if ch = 'w' then some (ElfiVerif.BufIO.IoEv.write .sync) else if ch = 's' then some .seek
    else if ch = 'f' then some .flush else if ch = 'd' then some (.direct .sync)
    else if ch = 'n' then some (.drain 1) else none)
  pure (Json.mkObj [("disciplined", Json.bool (ElfiVerif.BufIO.disciplined false evs)),
                    ("steps", Json.num (JsonNumber.fromNat (ElfiVerif.BufIO.stepsOfEvs evs).length))])

def handlers : List (String × H) := [("C06.run", runH), ("C06.io", ioH)]

end ElfiVerif.Drive.C06
