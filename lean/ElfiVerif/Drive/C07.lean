import ElfiVerif.Drive.Util
import ElfiVerif.Model.Smc

namespace ElfiVerif.Drive.C07
open Lean ElfiVerif.Drive ElfiVerif.Smc

/-- {"calls":[{"quantiles":bool,"rounds":[[sampleTok, nBatches]…]}…]} →
    {"pops":[{"ref":n|null,"thr":["user",i]|["quantileOf",p,i]|["budget",i],"nBatches":n}…],"nBatches":total} -/
def hist : H := fun j => do
  let calls ← (← getArr j "calls").toList.mapM (fun c => do
    let q ← getBool c "quantiles"
    let rs ← (← getArr c "rounds").toList.mapM (fun r => do
      match r with
      | .arr #[a, b] => do pure (← a.getNat?, ← b.getNat?)
      | _ => throw "bad round")
    pure (q, rs))
  let st := history calls
  let thrJ : ThrSrc → Json
    | .user i => Json.arr #["user", Json.num (JsonNumber.fromNat i)]
    | .quantileOf p i => Json.arr #["quantileOf", Json.num (JsonNumber.fromNat p), Json.num (JsonNumber.fromNat i)]
    | .budget i => Json.arr #["budget", Json.num (JsonNumber.fromNat i)]
  pure (Json.mkObj [
    ("pops", Json.arr (st.pops.map (fun p => Json.mkObj [
      ("ref", match p.ref with | none => Json.null | some r => Json.num (JsonNumber.fromNat r)),
      ("thr", thrJ p.thr), ("nBatches", Json.num (JsonNumber.fromNat p.nBatches))])).toArray),
    ("nBatches", Json.num (JsonNumber.fromNat st.nBatches))])

/-- exact rational evaluation of the importance weights:
    {"prior":[q…] (one per new particle), "kernel":[[k_ij…]…] (row i: densities of particle i under each
    component j), "w":[previous weights]} → {"weights":[q…]} -/
def weightsH : H := fun j => do
  let prior ← getRatList j "prior"
  let kern ← (← getArr j "kernel").toList.mapM (fun r => do (← r.getArr?).toList.mapM ratOfJson)
  let w ← getRatList j "w"
  let karr := kern.toArray
  let parr := prior.toArray
  let kernel : Nat → Nat → Rat := fun i m => (karr.getD i []).getD m 0
  let out := (List.range prior.length).map (fun i =>
    smcWeight (fun i => parr.getD i 0) kernel (List.range w.length) w i)
  pure (Json.mkObj [("weights", ratsToJson out)])

def handlers : List (String × H) := [("C07.history", hist), ("C07.weights", weightsH)]

end ElfiVerif.Drive.C07
