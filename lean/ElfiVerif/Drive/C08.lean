import ElfiVerif.Drive.Util
import ElfiVerif.Model.Prior

namespace ElfiVerif.Drive.C08
open Lean ElfiVerif.Drive ElfiVerif.Prior

/-- the driver cannot evaluate scipy densities: the harness sends, per requested node, the TABLE of its
    conditional density at the needed argument tuples; the model does the lookup-by-name wiring and the
    reduce.  {"nodes":[{"name":n,"parents":[["param",m]|["const",rat]…]}…],"x":[rat…],
             "table":[[name, [x, args…], value]…],"log":bool} → {"joint": rat|null} -/
def jointH : H := fun j => do
  let nodes ← (← getArr j "nodes").toList.mapM (fun n => do
    let ps ← (← getArr n "parents").toList.mapM (fun a => do
      match a with
      | .arr #[.str "param", m] => Arg.param <$> m.getNat?
      | .arr #[.str "const", v] => Arg.const <$> ratOfJson v
      | _ => throw "bad arg")
    pure (⟨← getNat n "name", ps⟩ : PNode Rat))
  let x ← getRatList j "x"
  let table ← (← getArr j "table").toList.mapM (fun e => do
    match e with
    | .arr #[n, args, v] => do
      pure ((← n.getNat?, ← (← args.getArr?).toList.mapM ratOfJson), ← ratOfJson v)
    | _ => throw "bad table")
  let isLog ← getBool j "log"
  let pdf : Nat → Rat → List Rat → Rat := fun n v args => ((table.find? (fun p => p.1 == (n, v :: args))).map (·.2)).getD (-12345)
  let r := if isLog then joint (· + ·) pdf nodes x 0 else joint (· * ·) pdf nodes x 0
  pure (Json.mkObj [("joint", match r with | some v => ratToJson v | none => Json.null)])

def handlers : List (String × H) := [("C08.joint", jointH)]

end ElfiVerif.Drive.C08
