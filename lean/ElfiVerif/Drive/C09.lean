import ElfiVerif.Drive.Util
import ElfiVerif.Model.Mcmc

namespace ElfiVerif.Drive.C09
open Lean ElfiVerif.Drive ElfiVerif.Mcmc

/-- log-target values on the wire: an integer k standing for k·ln 2, or "pinf" / "ninf" / "nan" -/
inductive TV | fin (k : Int) | pinf | ninf | nan
deriving DecidableEq, Repr

def tvOfJson (j : Json) : Except String TV :=
  match j with
  | .str "pinf" => pure .pinf
  | .str "ninf" => pure .ninf
  | .str "nan" => pure .nan
  | _ => TV.fin <$> j.getInt?

def pow2 (k : Int) : Rat := if k ≥ 0 then ((2 : Rat) ^ k.toNat) else 1 / ((2 : Rat) ^ (-k).toNat)

/-- `np.exp(cur - prev) < u` for prev finite -/
def ratioLt (cur prev : TV) (u : Rat) : Bool :=
  match cur, prev with
  | .fin c, .fin p => decide (pow2 (c - p) < u)
  | .ninf, .fin _ => decide (0 < u)
  | _, _ => false

/-- {"dim","start":[ints],"table":[[[ints], tv]…],"default":tv,"draws":[[[z ints], u rat]…],"n","warmup"}
    → {"chain":[[ints]…]} | {"error":"badInit"}.  Lattice state space, sigma = 1, integer normals. -/
def metro : H := fun j => do
  let start ← getIntList j "start"
  let table ← (← getArr j "table").toList.mapM (fun e => do
    match e with
    | .arr #[pos, v] => do
      let p ← (← pos.getArr?).toList.mapM (·.getInt?)
      pure (p, ← tvOfJson v)
    | _ => throw "bad table entry")
  let dflt ← tvOfJson (← j.getObjVal? "default")
  let draws ← (← getArr j "draws").toList.mapM (fun e => do
    match e with
    | .arr #[z, u] => do
      let zs ← (← z.getArr?).toList.mapM (·.getInt?)
      pure (zs, ← ratOfJson u)
    | _ => throw "bad draw")
  let n ← getNat j "n"
  let w ← getNat j "warmup"
  let M : MTarget (List Int) (List Int) Rat TV :=
    { prop := fun x z => List.zipWith (· + ·) x z
      lt := fun x => (table.lookup x).getD dflt
      isInf := fun t => t == .pinf || t == .ninf
      isNan := fun t => t == .nan
      ratioLt := ratioLt }
  match metropolis M n w start draws with
  | .error _ => pure (Json.mkObj [("error", "badInit")])
  | .ok out => pure (Json.mkObj [("chain", Json.arr (out.map intsToJson).toArray)])

/-- NUTS tree replay on logged observations: positions along the trajectory are integers;
    {"depth","fwd","start":pos,"sliceLe":[[pos,bool]…],"noDiverge":[[pos,bool]…],
     "uturn":[[left,right,bool]…],"us":[rat…],"acc":[[n1,n2,u,bool]…]} →
    {"prop":pos,"nOk":n,"subOk":b,"used":k,"left":pos,"right":pos} -/
def tree : H := fun j => do
  let depth ← getNat j "depth"
  let fwd ← getBool j "fwd"
  let start ← getInt j "start"
  let tbl (k : String) : Except String (List (Int × Bool)) := do
    (← getArr j k).toList.mapM (fun e => do
      match e with
      | .arr #[p, b] => do pure (← p.getInt?, ← b.getBool?)
      | _ => throw "bad table")
  let sle ← tbl "sliceLe"
  let nd ← tbl "noDiverge"
  let ut ← (← getArr j "uturn").toList.mapM (fun e => do
    match e with
    | .arr #[l, r, b] => do pure ((← l.getInt?, ← r.getInt?), ← b.getBool?)
    | _ => throw "bad uturn")
  let us ← getRatList j "us"
  let N : NTarget Int Unit Rat :=
    { leap := fun p f => if f then p + 1 else p - 1
      sliceLe := fun _ p => (sle.lookup p).getD false
      noDiverge := fun _ p => (nd.lookup p).getD false
      uturnOk := fun l r => (ut.lookup (l, r)).getD true
      acceptSub := fun n1 n2 u => decide (u < (n2 : Rat) / ((n1 + n2 : Nat) : Rat))
      acceptTop := fun n m u => decide (u < (n : Rat) / (m : Rat)) }
  let (t, rest) := buildTree N (0 : Rat) () fwd depth start us
  pure (Json.mkObj [("prop", Json.num (JsonNumber.fromInt t.prop)), ("nOk", Json.num (JsonNumber.fromNat t.nOk)),
    ("subOk", Json.bool t.subOk), ("used", Json.num (JsonNumber.fromNat (us.length - rest.length))),
    ("left", Json.num (JsonNumber.fromInt t.left)), ("right", Json.num (JsonNumber.fromInt t.right))])

def handlers : List (String × H) := [("C09.metro", metro), ("C09.tree", tree)]

end ElfiVerif.Drive.C09
