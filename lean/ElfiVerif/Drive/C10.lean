import ElfiVerif.Drive.Util
import ElfiVerif.Model.Bolfi

namespace ElfiVerif.Drive.C10
open Lean ElfiVerif.Drive ElfiVerif.Bolfi

def getF (j : Json) (k : String) : Except String Float := do
  match ← j.getObjVal? k with
  | .num n => pure n.toFloat
  | .str "inf" => pure (1.0 / 0.0)
  | .str "-inf" => pure (-1.0 / 0.0)
  | _ => throw s!"bad float {k}"

def floats (j : Json) (k : String) : Except String (List Float) := do
  (← getArr j k).toList.mapM (fun v => match v with
    | .num n => pure n.toFloat
    | _ => throw "bad float")

/-- floats go out as their IEEE bit pattern (exact) -/
def fj (x : Float) : Json := Json.num (JsonNumber.fromNat x.toBits.toNat)

/-- the SAME terms as in the theorems, instantiated at Float:
    {"t","mean","var","gradMean":[…],"gradVar":[…],"logpdf","logcdf"} → {"grad":[…],"z":[…]} -/
def grad : H := fun j => do
  let t ← getF j "t"; let m ← getF j "mean"; let v ← getF j "var"
  let gm ← floats j "gradMean"; let gv ← floats j "gradVar"
  let lp ← getF j "logpdf"; let lc ← getF j "logcdf"
  let ratio := ratioLog Float.exp lp lc
  pure (Json.mkObj [("z", Json.arr #[fj (zArg Float.sqrt t m v)]),
    ("grad", Json.arr ((gm.zip gv).map (fun q => fj (codedGrad Float.sqrt t m v q.1 q.2 ratio))).toArray)])

/-- {"bounds":[[lo,hi]…],"x":[…]} → {"inside":bool} -/
def inside : H := fun j => do
  let bs ← (← getArr j "bounds").toList.mapM (fun b => do
    match b with
    | .arr #[.num a, .num c] => pure (a.toFloat, c.toFloat)
    | _ => throw "bad bound")
  let x ← floats j "x"
  pure (Json.mkObj [("inside", Json.bool (withinBounds bs x))])

/-- {"x":[…],"X":[[…]…]} → {"fast":[…],"direct":[…]} -/
def r2 : H := fun j => do
  let x ← floats j "x"
  let X ← (← getArr j "X").toList.mapM (fun r => do
    (← r.getArr?).toList.mapM (fun v => match v with | .num n => pure n.toFloat | _ => throw "bad"))
  pure (Json.mkObj [("fast", Json.arr (X.map (fun xi => fj (r2Fast x xi))).toArray),
                    ("direct", Json.arr (X.map (fun xi => fj (r2Direct x xi))).toArray)])

/-- the fast path's mean and mean gradient from the cached terms:
    {"x":[…],"X":[[…]…],"var","factor","bias","alpha":[…]} → {"mean":[m],"gradMean":[…]} -/
def fastMeanH : H := fun j => do
  let x ← floats j "x"
  let X ← (← getArr j "X").toList.mapM (fun r => do
    (← r.getArr?).toList.mapM (fun v => match v with | .num n => pure n.toFloat | _ => throw "bad"))
  let v ← getF j "var"; let f ← getF j "factor"; let b ← getF j "bias"
  let alpha ← floats j "alpha"
  let ks := X.map (fun xi => rbfK Float.exp v f (r2Fast x xi))
  let mean := fastMean (ks.map (· + b)) alpha
  let gm := (List.range x.length).map (fun d =>
    fastMean ((X.zip ks).map (fun q => rbfDk (x.getD d 0.0) (q.1.getD d 0.0) f q.2)) alpha)
  pure (Json.mkObj [("mean", Json.arr #[fj mean]), ("gradMean", Json.arr (gm.map fj).toArray)])

def handlers : List (String × H) :=
  [("C10.grad", grad), ("C10.inside", inside), ("C10.r2", r2), ("C10.fastmean", fastMeanH)]

end ElfiVerif.Drive.C10
