import ElfiVerif.Drive.Util
import ElfiVerif.Model.Bo

namespace ElfiVerif.Drive.C11
open Lean ElfiVerif.Drive ElfiVerif.Bo

/-- floats travel as their IEEE bit pattern (exact in both directions) -/
def fOf (j : Json) : Except String Float := do pure (Float.ofBits (UInt64.ofNat (← j.getNat?)))
def fj (x : Float) : Json := Json.num (JsonNumber.fromNat x.toBits.toNat)
def getF (j : Json) (k : String) : Except String Float := do fOf (← j.getObjVal? k)
def floats (j : Json) (k : String) : Except String (List Float) := do (← getArr j k).toList.mapM fOf
def rows (j : Json) (k : String) : Except String (List (List Float)) := do
  (← getArr j k).toList.mapM (fun r => do (← r.getArr?).toList.mapM fOf)
def fsj (l : List Float) : Json := Json.arr (l.map fj).toArray
def boundsOf (j : Json) : Except String (List (Float × Float)) := do
  (← rows j "bounds").mapM (fun r => match r with
    | [a, b] => pure (a, b)
    | _ => throw "bad bound")

/-- {"bounds","locs","vals"} → {"out":[…]|null,"argmin":i} -/
def minimizeH : H := fun j => do
  let bs ← boundsOf j
  let locs ← rows j "locs"
  let vals ← floats j "vals"
  pure (Json.mkObj [("argmin", Json.num (JsonNumber.fromNat (argmin vals))),
    ("out", match minimizeOut bs locs vals with | none => Json.null | some r => fsj r),
    ("inbox", match minimizeOut bs locs vals with | none => Json.null | some r => Json.bool (inBox bs r))])

/-- {"bounds","stds","xhat","draws":[[…]…],"n"} → {"rows":[[…]…]} -/
def noiseH : H := fun j => do
  let bs ← boundsOf j
  let stds ← floats j "stds"
  let xhat ← floats j "xhat"
  let draws ← rows j "draws"
  let n ← getNat j "n"
  let out := acquireBase (fun s => s == 0.0) stds xhat draws n
  pure (Json.mkObj [("rows", Json.arr (out.map fsj).toArray), ("inbox", Json.bool (out.all (inBox bs)))])

/-- {"bounds","us"} → {"point"} -/
def uniformH : H := fun j => do
  let bs ← boundsOf j
  let us ← floats j "us"
  pure (Json.mkObj [("point", fsj (uniformPoint bs us)), ("inbox", Json.bool (inBox bs (uniformPoint bs us)))])

/-- {"nSamples","warmup","n","perm":[…]} (perm = the order `random_state.permutation` produced for the
    rows after the warm-up, as indices into them) → {"picked":[chain indices]|null} -/
def pickH : H := fun j => do
  let nS ← getNat j "nSamples"; let w ← getNat j "warmup"; let n ← getNat j "n"
  let perm ← getNatList j "perm"
  let fixed ← getBool j "fixed"
  let samples := List.range nS
  let permF : List Nat → List Nat := fun l => perm.filterMap (fun k => l[k]?)
  pure (Json.mkObj [("picked", match randMaxVarPick fixed nS w n samples permF with
    | none => Json.null | some r => natsToJson r)])

/-- {"b","bpa","nInitial","nPre","i"} → {"t"} -/
def acqIndexH : H := fun j => do
  pure (Json.mkObj [("t", Json.num (JsonNumber.fromInt
    (acqIndex (← getNat j "b") (← getNat j "bpa") (← getNat j "nInitial") (← getNat j "nPre") (← getNat j "i"))))])

/-- {"b","nInitial","lastUpdate","interval","nGp"} → {"opt"} -/
def shouldOptH : H := fun j => do
  pure (Json.mkObj [("opt", Json.bool
    (shouldOptimize (← getNat j "b") (← getNat j "nInitial") (← getNat j "lastUpdate") (← getNat j "interval") (← getNat j "nGp")))])

def evToJson : BoEv → Json
  | .submitted i => Json.arr #["s", Json.num (JsonNumber.fromNat i)]
  | .got i => Json.arr #["g", Json.num (JsonNumber.fromNat i)]
  | .acquired t n p => Json.arr #["a", Json.num (JsonNumber.fromNat t), Json.num (JsonNumber.fromNat n), Json.num (JsonNumber.fromNat p)]

/-- symbolic engine run under an OBSERVED schedule:
    {"nInit","bpa","total","sync","mpb","acts":"scsc…"} → accepted?, log, per consumed batch the label of
    what it ran with: null (prior) or [t, slice, evLenAtAcquire]; and the sequential evidence labels -/
def engineH : H := fun j => do
  let nInit ← getNat j "nInit"; let bpa ← getNat j "bpa"; let total ← getNat j "total"; let sync ← getBool j "sync"
  let P : BoParams (Nat × Option (Nat × Nat × Nat)) (Nat × Nat × Nat) :=
    { nInit := nInit, bpa := bpa, total := total, sync := sync,
      sim := fun i a => (i, a),
      acquire := fun ev t => (List.range bpa).map (fun s => (t, s, ev.length)) }
  let acts := (← getStr j "acts").toList.filterMap (fun ch =>
    if ch = 's' then some Act.submit else if ch = 'c' then some Act.consume else none)
  let lab : (Nat × Option (Nat × Nat × Nat)) → Json := fun p => match p.2 with
    | none => Json.arr #[Json.num (JsonNumber.fromNat p.1), Json.null]
    | some (t, s, n) => Json.arr #[Json.num (JsonNumber.fromNat p.1), natsToJson [t, s, n]]
  match BoEng.run P (← getNat j "mpb") BoEng.init acts with
  | none => pure (Json.mkObj [("accepted", Json.bool false)])
  | some e =>
    pure (Json.mkObj [("accepted", Json.bool true), ("log", Json.arr (e.log.map evToJson).toArray),
      ("consumed", natsToJson e.consumed), ("ev", Json.arr (e.ev.map lab).toArray),
      ("seq", Json.arr ((seqEvidence P e.consumed.length).map lab).toArray),
      ("pending", Json.num (JsonNumber.fromNat e.pending.length))])

/-- {"beta","mean","var","gm":[…],"gv":[…]} → {"val","grad":[…]} -/
def lcbscH : H := fun j => do
  let beta ← getF j "beta"; let m ← getF j "mean"; let v ← getF j "var"
  let gm ← floats j "gm"; let gv ← floats j "gv"
  pure (Json.mkObj [("val", fsj [lcbscVal Float.sqrt beta m v]),
    ("grad", fsj ((gm.zip gv).map (fun q => lcbscGrad Float.sqrt beta v q.1 q.2)))])

/-- {"eps","s2","mean","var","gm","gv","p","glp":[…],"phiA","phiAB","tAB"} with Φ(a), Φ(ab), T(a,b)
    evaluated by scipy AT THE MODEL'S a, b (two-step protocol: first call without them returns a, b) -/
def maxvarH : H := fun j => do
  let eps ← getF j "eps"; let s2 ← getF j "s2"; let m ← getF j "mean"; let v ← getF j "var"
  let a := mvA Float.sqrt eps s2 m v
  let b := mvB Float.sqrt s2 v
  match optKey j "phiA" with
  | none => pure (Json.mkObj [("ab", fsj [a, b])])
  | some _ =>
    let gm ← floats j "gm"; let gv ← floats j "gv"; let glp ← floats j "glp"
    let p ← getF j "p"; let phiA ← getF j "phiA"; let phiAB ← getF j "phiAB"; let tAB ← getF j "tAB"
    let pi : Float := 3.141592653589793
    let gs := (gm.zip (gv.zip glp)).map (fun q =>
      mvGrad Float.sqrt Float.exp pi p q.2.2 phiA phiAB tAB a b
        (mvGradA Float.sqrt eps s2 m v q.1 q.2.1) (mvGradB Float.sqrt s2 v q.2.1))
    pure (Json.mkObj [("ab", fsj [a, b]), ("val", fsj [mvVal p phiA tAB]), ("grad", fsj gs)])

def handlers : List (String × H) :=
  [("C11.minimize", minimizeH), ("C11.noise", noiseH), ("C11.uniform", uniformH), ("C11.pick", pickH),
   ("C11.acqindex", acqIndexH), ("C11.shouldopt", shouldOptH), ("C11.engine", engineH),
   ("C11.lcbsc", lcbscH), ("C11.maxvar", maxvarH)]

end ElfiVerif.Drive.C11
