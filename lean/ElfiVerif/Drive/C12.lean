import ElfiVerif.Drive.Util
import ElfiVerif.Model.Distance

namespace ElfiVerif.Drive.C12
open Lean ElfiVerif.Drive ElfiVerif.Distance

def ratRows (j : Json) : Except String (List (List Rat)) := do
  (← j.getArr?).toList.mapM (fun r => do (← r.getArr?).toList.mapM ratOfJson)

def rowsToJson (rs : List (List Rat)) : Json := Json.arr (rs.map ratsToJson).toArray

/-- {"parts":[[rat…]…]} → {"cnt","mean","m2","scaleSq"} (one summary column) -/
def welford : H := fun j => do
  let parts ← ratRows (← j.getObjVal? "parts")
  let st := parts.foldl addData (Store.init (K := Rat))
  pure (Json.mkObj [("cnt", ratToJson st.cnt), ("mean", ratToJson st.mean), ("m2", ratToJson st.m2),
    ("scaleSq", if st.cnt = 0 then Json.str "div0" else ratToJson (scaleSq st))])

def absR (q : Rat) : Rat := if q < 0 then -q else q

def metricOf (name : String) : Except String (List Rat → List Rat → Rat) :=
  match name with
  | "sqeuclidean" => pure (fun a b => ((a.zip b).map (fun p => (p.1 - p.2) * (p.1 - p.2))).sum)
  | "cityblock" => pure (fun a b => ((a.zip b).map (fun p => absR (p.1 - p.2))).sum)
  | "chebyshev" => pure (fun a b => ((a.zip b).map (fun p => absR (p.1 - p.2))).foldl max 0)
  | _ => throw "unknown metric"

def arrOfJson (j : Json) : Except String (Arr Rat) := do
  match j.getObjVal? "vec" with
  | .ok v => Arr.vec <$> ((← v.getArr?).toList.mapM ratOfJson)
  | .error _ => Arr.mat <$> ratRows (← j.getObjVal? "mat")

def obsOfJson (j : Json) : Except String (Obs Rat) := do
  match j.getObjVal? "scalar" with
  | .ok v => Obs.scalar <$> ratOfJson v
  | .error _ =>
    match j.getObjVal? "vec" with
    | .ok v => Obs.vec <$> ((← v.getArr?).toList.mapM ratOfJson)
    | .error _ => Obs.mat <$> ratRows (← j.getObjVal? "mat")

/-- {"metric","summaries":[{"vec":…}|{"mat":…}],"observed":[{"scalar":…}|{"vec":…}|{"mat":…}]} -/
def dist : H := fun j => do
  let metric ← metricOf (← getStr j "metric")
  let ss ← (← getArr j "summaries").toList.mapM arrOfJson
  let os ← (← getArr j "observed").toList.mapM obsOfJson
  match distanceAsDiscrepancy (cdist metric) ss os with
  | .ok (.vec v) => pure (Json.mkObj [("vec", ratsToJson v)])
  | .ok (.mat m) => pure (Json.mkObj [("mat", rowsToJson m)])
  | .error _ => pure (Json.mkObj [("error", "ValueError")])

/-- insertion argsort (stable) for execution -/
def argsortR (ds : List Rat) : List Nat :=
  let ins (p : Rat × Nat) : List (Rat × Nat) → List (Rat × Nat) := fun l =>
    let rec go : List (Rat × Nat) → List (Rat × Nat)
      | [] => [p]
      | q :: qs => if p.1 ≤ q.1 then p :: q :: qs else q :: go qs
    go l
  ((ds.zipIdx).foldr ins []).map (·.2)

/-- {"ds":[rat…]} (new distance of row i; rows are identified by their index) → sorted column and row ids -/
def resort : H := fun j => do
  let ds ← getRatList j "ds"
  let arr := ds.toArray
  let r := updateDistances (κ := Rat) (ρ := Nat) argsortR (fun i => arr.getD i 0) (List.range ds.length)
  pure (Json.mkObj [("d", ratsToJson r.1), ("rows", natsToJson r.2)])

def handlers : List (String × H) :=
  [("C12.welford", welford), ("C12.dist", dist), ("C12.resort", resort)]

end ElfiVerif.Drive.C12
