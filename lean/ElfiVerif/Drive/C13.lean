import ElfiVerif.Drive.Util
import ElfiVerif.Model.Stats

namespace ElfiVerif.Drive.C13
open Lean ElfiVerif.Drive ElfiVerif.Stats

def optRats (j : Json) (k : String) : Except String (Option (List Rat)) :=
  match optKey j k with
  | none => pure none
  | some v => do
    let a ← v.getArr?
    some <$> a.toList.mapM ratOfJson

def errStr : Err → String
  | .valueError => "ValueError" | .indexError => "IndexError" | .outOfFuel => "OutOfFuel"

/-- {"x":[…],"w":[…]|null,"alpha":q} → {"q": rat | null} -/
def quantile : H := fun j => do
  let x ← getRatList j "x"
  let w ← optRats j "w"
  let α ← getRat j "alpha"
  match w with
  | some w => if w.length ≠ x.length then throw "length mismatch" else pure ()
  | none => pure ()
  pure (Json.mkObj [("q", match weightedQuantile sortByFst x w α with
    | some q => ratToJson q | none => Json.null)])

/-- {"x":[…],"w":[…]|null} → {"v": rat} | {"v":"div0"} (the model's `/` is total; the real code
    divides by zero exactly when one of the two denominators vanishes) -/
def wvar : H := fun j => do
  let x ← getRatList j "x"
  let w ← optRats j "w"
  let ww := w.getD (ones x.length)
  if ww.length ≠ x.length then throw "length mismatch"
  let v1 := ww.sum
  let v2 := (ww.map (fun a => a * a)).sum
  if v1 = 0 then pure (Json.mkObj [("v", "div0")])
  else if v1 - v2 / v1 = 0 then pure (Json.mkObj [("v", "div0")])
  else pure (Json.mkObj [("v", ratToJson (weightedVar x w))])

def ess : H := fun j => do
  let w ← getRatList j "w"
  match computeEss w with
  | .ok v =>
    -- Σ nw² = 0 cannot happen once the sum is positive and weights are non-negative
    pure (Json.mkObj [("v", ratToJson v)])
  | .error e => pure (Json.mkObj [("v", Json.str (errStr e))])

def normw : H := fun j => do
  let w ← getRatList j "w"
  match normalizeWeights w with
  | .ok v => pure (Json.mkObj [("v", ratsToJson v)])
  | .error e => pure (Json.mkObj [("v", Json.str (errStr e))])

/-- {"kind":"scalar"|"vec"|"mat","means":…,"d":n} → components after squeeze and as intended -/
def gmShape : H := fun j => do
  let kind ← getStr j "kind"
  let m ← j.getObjVal? "means"
  let arg : MeansArg Rat ← match kind with
    | "scalar" => MeansArg.scalar <$> ratOfJson m
    | "vec" => do
      let a ← m.getArr?
      MeansArg.vec <$> a.toList.mapM ratOfJson
    | "mat" => do
      let a ← m.getArr?
      let rows ← a.toList.mapM (fun r => do
        let ra ← r.getArr?
        ra.toList.mapM ratOfJson)
      let d ← getNat j "d"
      pure (MeansArg.mat rows d)
    | _ => throw "bad kind"
  let enc (cs : List (List Rat)) : Json := Json.arr (cs.map ratsToJson).toArray
  pure (Json.mkObj [("squeezed", enc (squeezedComponents arg)), ("intended", enc (intendedComponents arg))])

/-- {"rounds":[[ [cand…], …] …], "ok":[[bool…]…], "size":n}: candidates are identified by their index
    pair (round, position); the model returns the list of accepted (round, position) pairs in output
    order and the number of candidates it asked for in each round. -/
def rvs : H := fun j => do
  let oks ← getArr j "ok"
  let okRounds ← oks.toList.mapM (fun r => do
    let a ← r.getArr?
    a.toList.mapM (·.getBool?))
  let size ← getNat j "size"
  let okArr := okRounds.toArray
  let draw : Nat → Nat → List (Nat × Nat) := fun t n => (List.range n).map (fun k => (t, k))
  let okf : Nat × Nat → Bool := fun p => ((okArr.getD p.1 []).toArray.getD p.2 false)
  match rvsConstrained draw okf size (okRounds.length + 1) with
  | none => pure (Json.mkObj [("out", Json.null)])
  | some out =>
    pure (Json.mkObj [("out", Json.arr (out.map (fun p => natsToJson [p.1, p.2])).toArray)])

def handlers : List (String × H) :=
  [("C13.quantile", quantile), ("C13.wvar", wvar), ("C13.ess", ess), ("C13.normw", normw),
   ("C13.gmShape", gmShape), ("C13.rvs", rvs)]

end ElfiVerif.Drive.C13
