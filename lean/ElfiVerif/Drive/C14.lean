import ElfiVerif.Drive.Util
import ElfiVerif.Model.GraphEdit

namespace ElfiVerif.Drive.C14
open Lean ElfiVerif.Drive ElfiVerif.GraphEdit

def nameOfJson (j : Json) : Except String GraphEdit.Name := do
  match j with
  | .arr #[i, p] => pure ⟨← i.getNat?, ← p.getBool?⟩
  | _ => throw "name must be [id, priv]"

def nameToJson (n : GraphEdit.Name) : Json := Json.arr #[Json.num (JsonNumber.fromNat n.id), Json.bool n.priv]

def paramOfJson (j : Json) : Except String (Option Param) :=
  match j with
  | .null => pure none
  | .arr #[.str "pos", i] => (fun n => some (Param.pos n)) <$> i.getNat?
  | .arr #[.str "named", i] => (fun n => some (Param.named n)) <$> i.getNat?
  | _ => throw "bad param"

def paramToJson : Param → Json
  | .pos i => Json.arr #["pos", Json.num (JsonNumber.fromNat i)]
  | .named k => Json.arr #["named", Json.num (JsonNumber.fromNat k)]

def modelToJson (m : Model) : Json :=
  Json.mkObj [
    ("nodes", Json.arr (m.nodes.map (fun p => Json.arr #[nameToJson p.1, Json.num (JsonNumber.fromNat p.2.cls),
        Json.num (JsonNumber.fromNat p.2.op), Json.bool p.2.parameter])).toArray),
    ("edges", Json.arr (m.edges.map (fun e => Json.arr #[nameToJson e.src, nameToJson e.dst, paramToJson e.param])).toArray),
    ("observed", Json.arr (m.observed.map (fun p => Json.arr #[nameToJson p.1, Json.num (JsonNumber.fromNat p.2)])).toArray),
    ("parameterNames", natsToJson m.parameterNames)]

/-- ops: {"op":"add","name":N,"cls":c,"opTok":o,"parameter":b,"observed":d|null}
         {"op":"edge","src":N,"dst":N,"param":…|null}
         {"op":"remove","name":N}   {"op":"become","node":N,"upd":N}
    → after every op: {"err":null|"ValueError","model":{…}} -/
def runH : H := fun j => do
  let ops ← getArr j "ops"
  let rec go (m : Model) (ops : List Json) (acc : Array Json) : Except String (Array Json) :=
    match ops with
    | [] => pure acc
    | o :: rest => do
      let kind ← getStr o "op"
      let r : Except Err Model ← match kind with
        | "add" => do
          let n ← nameOfJson (← o.getObjVal? "name")
          let a : Attr := ⟨← getNat o "cls", ← getNat o "opTok", ← getBool o "parameter"⟩
          pure (match m.addNode n a with
            | .error e => .error e
            | .ok m1 => match optKey o "observed" with
              | none => .ok m1
              | some d => .ok { m1 with observed := m1.observed.filter (fun p => !(p.1 == n)) ++ [(n, (d.getNat?).toOption.getD 0)] })
        | "edge" => do
          pure (m.addEdge (← nameOfJson (← o.getObjVal? "src")) (← nameOfJson (← o.getObjVal? "dst"))
            (← paramOfJson (← o.getObjVal? "param")))
        | "remove" => do
          let n ← nameOfJson (← o.getObjVal? "name")
          pure (if m.has n then .ok (m.removeNode m.nodes.length n) else .error .valueError)
        | "become" => do
          pure (m.updateNode (← nameOfJson (← o.getObjVal? "node")) (← nameOfJson (← o.getObjVal? "upd")))
        | _ => throw "bad op"
      match r with
      | .ok m' => go m' rest (acc.push (Json.mkObj [("err", Json.null), ("model", modelToJson m')]))
      | .error _ => go m rest (acc.push (Json.mkObj [("err", "ValueError"), ("model", modelToJson m)]))
  pure (Json.arr (← go Model.empty ops.toList #[]))

def handlers : List (String × H) := [("C14.run", runH)]

end ElfiVerif.Drive.C14
