import ElfiVerif.Drive.Util
import ElfiVerif.Model.SubSeed

namespace ElfiVerif.Drive.C15
open Lean ElfiVerif.Drive ElfiVerif.SubSeed

def errStr : Err → String
  | .valueError => "ValueError" | .typeError => "TypeError" | .outOfFuel => "OutOfFuel"

/-- request: {"stream":[…], "high":H, "reqs":[…], "cached":bool}
    answer : {"results":[v | "ValueError" | …], "cache":{"pos":p,"seen":[…]} | null}
    The stream is finite; positions past its end read as 0 and the final cache position lets the
    harness check that nothing past the end was used. -/
def serve : H := fun j => do
  let stream ← getNatList j "stream"
  let high ← getNat j "high"
  let reqs ← getNatList j "reqs"
  let cached ← getBool j "cached"
  let arr := stream.toArray
  let s : Nat → Nat := fun k => arr.getD k 0
  let fuel := stream.length + 2
  -- thread the cache exactly like `serveAll`, but also expose the final cache
  let rec go (reqs : List Nat) (cache : Option Cache) (acc : Array Json) (maxPos : Nat) :
      Array Json × Option Cache × Nat :=
    match reqs with
    | [] => (acc, cache, maxPos)
    | i :: rest =>
      match getSubSeed s high fuel i (if cached then cache else none) with
      | .ok (v, c') => go rest (if cached then some c' else cache) (acc.push (Json.num (JsonNumber.fromNat v))) (max maxPos c'.pos)
      | .error e => go rest cache (acc.push (Json.str (errStr e))) maxPos
  let (res, cache, maxPos) := go reqs none #[] 0
  let cj := match cache with
    | none => Json.null
    | some c => Json.mkObj [("pos", Json.num (JsonNumber.fromNat c.pos)), ("seen", natsToJson c.seen)]
  pure (Json.mkObj [("results", Json.arr res), ("cache", cj), ("maxPos", Json.num (JsonNumber.fromNat maxPos))])

def handlers : List (String × H) := [("C15.serve", serve)]

end ElfiVerif.Drive.C15
