import ElfiVerif.Drive.Util
import ElfiVerif.Model.Results

namespace ElfiVerif.Drive.C16
open Lean ElfiVerif.Drive ElfiVerif.Results

def ratRows (j : Json) : Except String (List (List Rat)) := do
  (← j.getArr?).toList.mapM (fun r => do (← r.getArr?).toList.mapM ratOfJson)

/-- {"chains":[[rat…]…]} → {"ess": rat, "rhatSq": rat} -/
def diag : H := fun j => do
  let chains ← ratRows (← j.getObjVal? "chains")
  pure (Json.mkObj [("ess", ratToJson (effSampleSize chains)), ("rhatSq", ratToJson (rhatSq chains))])

/-- {"chains":[[[rat…]…]…],"warmup":w} → {"rows":[[rat…]…]} -/
def bolfi : H := fun j => do
  let chains ← (← getArr j "chains").toList.mapM (fun c => ratRows c)
  let w ← getNat j "warmup"
  pure (Json.mkObj [("rows", Json.arr ((bolfiConcat chains w).map ratsToJson).toArray)])

/-- {"v":[…],"w":[…]|null} → {"mean": rat} -/
def wmean : H := fun j => do
  let v ← getRatList j "v"
  let w ← match optKey j "w" with
    | none => pure none
    | some x => some <$> ((← x.getArr?).toList.mapM ratOfJson)
  pure (Json.mkObj [("mean", ratToJson (weightedMean v w))])

/-- {"names":[…],"outputs":[…names…]} → {"columns":[…]} -/
def cols : H := fun j => do
  let names ← getNatList j "names"
  let outs ← getNatList j "outputs"
  pure (Json.mkObj [("columns", natsToJson ((sampleColumns names (outs.map (fun n => (n, n)))).map (·.1)))])

def handlers : List (String × H) := [("C16.diag", diag), ("C16.bolfi", bolfi), ("C16.wmean", wmean), ("C16.cols", cols)]

end ElfiVerif.Drive.C16
