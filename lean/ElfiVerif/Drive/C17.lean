import ElfiVerif.Drive.Util
import ElfiVerif.Model.Adjust

namespace ElfiVerif.Drive.C17
open Lean ElfiVerif.Drive ElfiVerif.Adjust

def fvOfJson (j : Json) : Except String (FV Rat) :=
  match j with
  | .str _ => pure .nonfinite
  | _ => FV.fin <$> ratOfJson j

def ratRows (j : Json) : Except String (List (List Rat)) := do
  (← j.getArr?).toList.mapM (fun r => do (← r.getArr?).toList.mapM ratOfJson)

/-- {"X":[[fv…]…],"theta":[fv…]} → {"mask":[bool…]} -/
def mask : H := fun j => do
  let X ← (← getArr j "X").toList.mapM (fun r => do (← r.getArr?).toList.mapM fvOfJson)
  let th ← (← getArr j "theta").toList.mapM fvOfJson
  pure (Json.mkObj [("mask", Json.arr ((finiteMask X th).map Json.bool).toArray)])

/-- {"theta":[…],"summaries":[[…]…],"observed":[…],"beta":[…]} → {"adjusted":[…]} -/
def adjustH : H := fun j => do
  let th ← getRatList j "theta"
  let S ← ratRows (← j.getObjVal? "summaries")
  let obs ← getRatList j "observed"
  let beta ← getRatList j "beta"
  pure (Json.mkObj [("adjusted", ratsToJson (adjust th (regressors S obs) beta))])

/-- {"models":[{"d":[…],"nSim":n}…],"priors":[…]|null} → {"p":[…]} -/
def compare : H := fun j => do
  let ms ← (← getArr j "models").toList.mapM (fun m => do
    pure (⟨← getRatList m "d", ← getNat m "nSim"⟩ : ModelSample Rat))
  let pr ← match optKey j "priors" with
    | none => pure none
    | some v => some <$> ((← v.getArr?).toList.mapM ratOfJson)
  pure (Json.mkObj [("p", ratsToJson (compareModels sortByDisc ms pr))])

def handlers : List (String × H) := [("C17.mask", mask), ("C17.adjust", adjustH), ("C17.compare", compare)]

end ElfiVerif.Drive.C17
