import ElfiVerif.Drive.Util
import ElfiVerif.Model.Tools

namespace ElfiVerif.Drive.C18
open Lean ElfiVerif.Drive ElfiVerif.Tools

/-- values are opaque tokens (strings) -/
def inpOfJson (j : Json) : Except String (Inp String) := do
  match j.getObjVal? "arr" with
  | .ok v => Inp.arr <$> ((← v.getArr?).toList.mapM (·.getStr?))
  | .error _ => Inp.scalar <$> getStr j "scalar"

def argToJson : Arg String → Json
  | .row v => Json.mkObj [("row", Json.str v)]
  | .whole (.scalar v) => Json.mkObj [("whole", Json.str v)]
  | .whole (.arr rows) => Json.mkObj [("wholeArr", Json.arr (rows.map Json.str).toArray)]

/-- {"consts":[…],"inputs":[{"arr":[tok…]}|{"scalar":tok}],"bs":n|null} →
    {"calls":[[arg…]…]} (the arguments of each per-row call, in order) | {"error":"ValueError"} -/
def vec : H := fun j => do
  let consts ← getNatList j "consts"
  let inputs ← (← getArr j "inputs").toList.mapM inpOfJson
  let bs ← match optKey j "bs" with
    | none => pure none
    | some v => some <$> v.getNat?
  match runVectorized (V := String) (R := Json) (fun args i =>
      Json.mkObj [("i", Json.num (JsonNumber.fromNat i)), ("args", Json.arr (args.map argToJson).toArray)])
      consts inputs bs with
  | .ok out => pure (Json.mkObj [("calls", Json.arr out.toArray)])
  | .error _ => pure (Json.mkObj [("error", "ValueError")])

/-- {"stream":[…],"idx":n|null} → {"seed": n} -/
def seed : H := fun j => do
  let stream ← getNatList j "stream"
  let arr := stream.toArray
  let idx ← match optKey j "idx" with
    | none => pure none
    | some v => some <$> v.getNat?
  match externalSeed (fun k => arr.getD k 0) (stream.length + 2) idx with
  | .ok v => pure (Json.mkObj [("seed", Json.num (JsonNumber.fromNat v))])
  | .error _ => pure (Json.mkObj [("seed", Json.null)])

def handlers : List (String × H) := [("C18.vec", vec), ("C18.seed", seed)]

end ElfiVerif.Drive.C18
