import ElfiVerif.Drive.Util
import ElfiVerif.Model.Romc

namespace ElfiVerif.Drive.C19
open Lean ElfiVerif.Drive ElfiVerif.Romc

def ratRows (j : Json) : Except String (List (List Rat)) := do
  (← j.getArr?).toList.mapM (fun r => do (← r.getArr?).toList.mapM ratOfJson)

/-- {"rot","rotInv","center","limits":[[lo,hi]…],"points":[[…]…],"thetas":[[…]…]} →
    secured limits, volume, contains/pdf per point, sampleMap per theta -/
def box : H := fun j => do
  let rot ← ratRows (← j.getObjVal? "rot")
  let rotInv ← ratRows (← j.getObjVal? "rotInv")
  let center ← getRatList j "center"
  let lims ← ratRows (← j.getObjVal? "limits")
  let limits := lims.map (fun l => (l.headD 0, l.getD 1 0))
  let eps : Rat := 1 / 1000
  let sec := secureLimits (1 / 1000000000) eps (eps / 2) limits
  let b : Box Rat := ⟨rot, rotInv, center, sec⟩
  let pts ← ratRows (← j.getObjVal? "points")
  let ths ← ratRows (← j.getObjVal? "thetas")
  pure (Json.mkObj [
    ("limits", Json.arr (sec.map (fun l => ratsToJson [l.1, l.2])).toArray),
    ("volume", ratToJson b.volume),
    ("contains", Json.arr (pts.map (fun p => Json.bool (b.contains p))).toArray),
    ("pdf", Json.arr (pts.map (fun p => ratToJson (b.pdf p))).toArray),
    ("samples", Json.arr (ths.map (fun t => ratsToJson (b.sampleMap t))).toArray),
    ("sampleContained", Json.arr (ths.map (fun t => Json.bool (b.contains (b.sampleMap t)))).toArray)])

/-- {"good":[[a,b]…] (half-open intervals of offsets where f < eps),"K","eta","repLim"} → offset -/
def linesearch : H := fun j => do
  let iv ← ratRows (← j.getObjVal? "good")
  let good : Rat → Bool := fun o => iv.any (fun ab => decide (ab.headD 0 ≤ o) && decide (o < ab.getD 1 0))
  let k ← getNat j "K"
  let eta ← getRat j "eta"
  let repLim ← getNat j "repLim"
  pure (Json.mkObj [("offset", ratToJson (lineSearch good k eta repLim))])

/-- {"dists":[…],"inside":[bool…]|null,"eps"} → count ; {"dist","eps","prior","q"} → weight -/
def count : H := fun j => do
  let ds ← getRatList j "dists"
  let eps ← getRat j "eps"
  match optKey j "inside" with
  | none => pure (Json.mkObj [("n", Json.num (JsonNumber.fromNat (sumIndicators ds eps)))])
  | some v => do
    let ins ← (← v.getArr?).toList.mapM (·.getBool?)
    pure (Json.mkObj [("n", Json.num (JsonNumber.fromNat (sumRegionIndicators (ins.zip ds) eps)))])

def weightH : H := fun j => do
  pure (Json.mkObj [("w", ratToJson (weight (← getRat j "dist") (← getRat j "eps") (← getRat j "prior") (← getRat j "q")))])

def handlers : List (String × H) :=
  [("C19.box", box), ("C19.linesearch", linesearch), ("C19.count", count), ("C19.weight", weightH)]

end ElfiVerif.Drive.C19
