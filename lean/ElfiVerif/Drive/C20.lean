import ElfiVerif.Drive.Util
import ElfiVerif.Model.Bsl

namespace ElfiVerif.Drive.C20
open Lean ElfiVerif.Drive ElfiVerif.Bsl

/-- floats travel as their IEEE bit pattern -/
def fOf (j : Json) : Except String Float := do pure (Float.ofBits (UInt64.ofNat (← j.getNat?)))
def fj (x : Float) : Json := Json.num (JsonNumber.fromNat x.toBits.toNat)
def getF (j : Json) (k : String) : Except String Float := do fOf (← j.getObjVal? k)
def floats (j : Json) (k : String) : Except String (List Float) := do (← getArr j k).toList.mapM fOf
def fsj (l : List Float) : Json := Json.arr (l.map fj).toArray

def boundsOf (j : Json) : Except String (List (BType × Float × Float)) := do
  (← getArr j "bounds").toList.mapM (fun r => do
    match ← r.getArr? with
    | #[a, b] =>
      let lo ← fOf a; let hi ← fOf b
      pure (typeOf lo.isInf hi.isInf, lo, hi)
    | _ => throw "bad bound")

def tyJ : BType → Json
  | .two => "0" | .upper => "1" | .lower => "2" | .free => "3"

/-- {"bounds":[[lo,hi]…],"x":[…],"fixed":b} → types, fwd x, back (fwd x), logJ at fwd x -/
def transformH : H := fun j => do
  let bs ← boundsOf j
  let x ← floats j "x"
  let fixed ← getBool j "fixed"
  let y := fwdVec Float.log bs x
  pure (Json.mkObj [("types", Json.arr (bs.map (fun b => tyJ b.1)).toArray), ("fwd", fsj y),
    ("back", fsj (backVec Float.exp bs y)), ("logJ", fsj [logJacVec Float.exp Float.log fixed bs y])])

/-- {"bounds","y","fixed"} → back y, fwd (back y), logJ at y -/
def backH : H := fun j => do
  let bs ← boundsOf j
  let y ← floats j "y"
  let fixed ← getBool j "fixed"
  let x := backVec Float.exp bs y
  pure (Json.mkObj [("back", fsj x), ("fwd", fsj (fwdVec Float.log bs x)),
    ("logJ", fsj [logJacVec Float.exp Float.log fixed bs y])])

/-- {"cur","prev","jCur","jPrev","u"} → log ratio (clamped), ratio, accept -/
def mhH : H := fun j => do
  let r := mhLogRatio (← getF j "cur") (← getF j "prev") (← getF j "jCur") (← getF j "jPrev")
  pure (Json.mkObj [("logratio", fsj [r]), ("ratio", fsj [Float.exp r]), ("accept", Json.bool (mhAccept Float.exp r (← getF j "u")))])

/-- parameters are lists of float bit patterns (compared exactly) -/
abbrev Par := List Nat

def lookup (tab : List (Par × Float)) (p : Par) : Float :=
  match tab.find? (fun q => q.1 == p) with
  | some q => q.2
  | none => 0.0 / 0.0

/-- {"cap","init":param,"prior":[[param,lp]…],"jac":[[param,J]…],
     "rounds":[{"script":[[gammaLL|null, proposal]…],"ll":…,"u":…}…], "ll0":…}
    → arrays after every round, simulated flags -/
def chainH : H := fun j => do
  let parOf : Json → Except String Par := fun v => do (← v.getArr?).toList.mapM (·.getNat?)
  let tabOf : String → Except String (List (Par × Float)) := fun k => do
    (← getArr j k).toList.mapM (fun r => do
      match ← r.getArr? with
      | #[p, v] => pure (← parOf p, ← fOf v)
      | _ => throw "bad table row")
  let prior ← tabOf "prior"
  let jac ← tabOf "jac"
  let T : Target Par Par Float Float :=
    { propose := fun _ d => d, logprior := lookup prior, isFinite := fun v => v.isFinite, logJ := lookup jac,
      add := (· + ·), ratio := mhLogRatio, accept := mhAccept Float.exp, zero := 0.0 }
  let cap ← getNat j "cap"
  let p0 ← parOf (← j.getObjVal? "init")
  let es0 : List (Entry Par Float) := processSimulated T [⟨p0, T.logprior p0, 0.0⟩] (← getF j "ll0") 0.0
  let rounds ← (← getArr j "rounds").toList.mapM (fun r => do
    let script ← (← getArr r "script").toList.mapM (fun s => do
      match ← s.getArr? with
      | #[g, p] => pure ((match g with | .null => none | v => (fOf v).toOption), ← parOf p)
      | _ => throw "bad script row")
    pure (script, ← getF r "ll", ← getF r "u"))
  let (es, sims, left) := rounds.foldl (fun (acc : List (Entry Par Float) × List Bool × List Nat) r =>
    let res := round T cap acc.1 r.1 r.2.1 r.2.2
    (res.1, acc.2.1 ++ [res.2.2], acc.2.2 ++ [res.2.1.length])) (es0, [], [])
  let entry : Entry Par Float → Json := fun e =>
    Json.arr #[natsToJson e.param, fj e.logprior, fj e.logpost]
  pure (Json.mkObj [("entries", Json.arr (es.map entry).toArray),
    ("simulated", Json.arr (sims.map Json.bool).toArray), ("unused", natsToJson left)])

/-- {"fixed","log2pi","d","n","wconDiff","logdetSigma","logdetPsi"} → value -/
def goH : H := fun j => do
  pure (Json.mkObj [("val", fsj [goLogLik Float.log (← getBool j "fixed") (← getF j "log2pi") (← getF j "d") (← getF j "n")
    (← getF j "wconDiff") (← getF j "logdetSigma") (← getF j "logdetPsi")])])

/-- {"log2pi","d","logdet","quad"} → value -/
def mvnH : H := fun j => do
  pure (Json.mkObj [("val", fsj [mvnLogPdf (← getF j "log2pi") (← getF j "d") (← getF j "logdet") (← getF j "quad")])])

/-- {"mean","std","gamma","var"} → adjusted mean / variance entry -/
def adjH : H := fun j => do
  let m ← getF j "mean"; let s ← getF j "std"; let g ← getF j "gamma"; let v ← getF j "var"
  pure (Json.mkObj [("mean", fsj [adjMean m s g]), ("var", fsj [adjVarDiag v s g])])

def handlers : List (String × H) :=
  [("C20.transform", transformH), ("C20.back", backH), ("C20.mh", mhH), ("C20.chain", chainH),
   ("C20.go", goH), ("C20.mvn", mvnH), ("C20.adj", adjH)]

end ElfiVerif.Drive.C20
