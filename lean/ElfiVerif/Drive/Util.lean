import Lean.Data.Json

/-! JSON helpers shared by the per-property driver handlers. -/
namespace ElfiVerif.Drive
open Lean

abbrev H := Json → Except String Json

def getNat (j : Json) (k : String) : Except String Nat := do (← j.getObjVal? k).getNat?
def getInt (j : Json) (k : String) : Except String Int := do (← j.getObjVal? k).getInt?
def getStr (j : Json) (k : String) : Except String String := do (← j.getObjVal? k).getStr?
def getBool (j : Json) (k : String) : Except String Bool := do (← j.getObjVal? k).getBool?
def getArr (j : Json) (k : String) : Except String (Array Json) := do (← j.getObjVal? k).getArr?
def getNatList (j : Json) (k : String) : Except String (List Nat) := do
  (← getArr j k).toList.mapM (·.getNat?)
def getIntList (j : Json) (k : String) : Except String (List Int) := do
  (← getArr j k).toList.mapM (·.getInt?)
def optKey (j : Json) (k : String) : Option Json :=
  match j.getObjVal? k with
  | .ok .null => none
  | .ok v => some v
  | .error _ => none

def natsToJson (l : List Nat) : Json := Json.arr (l.map (fun n => Json.num (JsonNumber.fromNat n))).toArray
def intsToJson (l : List Int) : Json := Json.arr (l.map (fun n => Json.num (JsonNumber.fromInt n))).toArray

/-- rationals travel as `[num, den]` -/
def ratOfJson (j : Json) : Except String Rat := do
  match j with
  | .arr #[a, b] =>
    let n ← a.getInt?
    let d ← b.getNat?
    if d = 0 then throw "zero denominator" else pure (mkRat n d)
  | _ => (fun (n : Int) => (n : Rat)) <$> j.getInt?
def ratToJson (q : Rat) : Json :=
  Json.arr #[Json.num (JsonNumber.fromInt q.num), Json.num (JsonNumber.fromNat q.den)]
def getRat (j : Json) (k : String) : Except String Rat := do ratOfJson (← j.getObjVal? k)
def getRatList (j : Json) (k : String) : Except String (List Rat) := do
  (← getArr j k).toList.mapM ratOfJson
def ratsToJson (l : List Rat) : Json := Json.arr (l.map ratToJson).toArray

end ElfiVerif.Drive
