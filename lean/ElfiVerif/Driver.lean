import ElfiVerif.Drive.C15
import ElfiVerif.Drive.C13
import ElfiVerif.Drive.C01
import ElfiVerif.Drive.C12
import ElfiVerif.Drive.C05
import ElfiVerif.Drive.C06
import ElfiVerif.Drive.C04
import ElfiVerif.Drive.C18
import ElfiVerif.Drive.C09
import ElfiVerif.Drive.C19
import ElfiVerif.Drive.C14
import ElfiVerif.Drive.C03
import ElfiVerif.Drive.C02
import ElfiVerif.Drive.C16
import ElfiVerif.Drive.C17
import ElfiVerif.Drive.C08
import ElfiVerif.Drive.C07
import ElfiVerif.Drive.C10
import ElfiVerif.Drive.C11
import ElfiVerif.Drive.C20

/-!
Line-protocol driver: one JSON request per line on stdin (`{"op": "<Cxx.name>", …}`), one JSON answer
per line on stdout (`{"ok": …}` or `{"error": "…"}`).  Run with
`lake env lean --run ElfiVerif/Driver.lean`.
-/
open Lean ElfiVerif.Drive

def allHandlers : List (String × H) :=
  ElfiVerif.Drive.C15.handlers ++ ElfiVerif.Drive.C13.handlers ++
  ElfiVerif.Drive.C01.handlers ++ ElfiVerif.Drive.C12.handlers ++
  ElfiVerif.Drive.C06.handlers ++ ElfiVerif.Drive.C04.handlers ++
  ElfiVerif.Drive.C18.handlers ++ ElfiVerif.Drive.C09.handlers ++
  ElfiVerif.Drive.C19.handlers ++ ElfiVerif.Drive.C14.handlers ++
  ElfiVerif.Drive.C03.handlers ++ ElfiVerif.Drive.C02.handlers ++
  ElfiVerif.Drive.C16.handlers ++ ElfiVerif.Drive.C17.handlers ++
  ElfiVerif.Drive.C08.handlers ++ ElfiVerif.Drive.C07.handlers ++
  ElfiVerif.Drive.C10.handlers ++ ElfiVerif.Drive.C11.handlers ++ ElfiVerif.Drive.C20.handlers ++
  ElfiVerif.Drive.C05.handlers

def handleLine (line : String) : String :=
  match Json.parse line with
  | .error e => (Json.mkObj [("error", Json.str s!"parse: {e}")]).compress
  | .ok j =>
    match getStr j "op" with
    | .error e => (Json.mkObj [("error", Json.str e)]).compress
    | .ok op =>
      match allHandlers.lookup op with
      | none => (Json.mkObj [("error", Json.str s!"unknown op {op}")]).compress
      | some h =>
        match h j with
        | .ok r => (Json.mkObj [("ok", r)]).compress
        | .error e => (Json.mkObj [("error", Json.str e)]).compress

partial def loop (h : IO.FS.Stream) (out : IO.FS.Stream) : IO Unit := do
  let line ← h.getLine
  if line.isEmpty then return ()
  let l := line.trimAscii.toString
  if !l.isEmpty then
    out.putStrLn (handleLine l)
  loop h out

def main : IO Unit := do
  let out ← IO.getStdout
  loop (← IO.getStdin) out
  out.flush
