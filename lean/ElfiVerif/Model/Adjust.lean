/-
Model of elfi/methods/post_processing.py (`RegressionAdjustment._get_finite / _pairs / adjust`,
`LinearAdjustment._adjust / _input_variables`) and elfi/methods/model_selection.py (`compare_models`).

Scalars: an extended value type for the finiteness mask, a field for the arithmetic (`Rat` for
execution).  The least-squares fit itself (sklearn) is a parameter: the slope vector `β`.
Import-free.
-/
namespace ElfiVerif.Adjust

/-- a float as the mask sees it -/
inductive FV (K : Type) | fin (x : K) | nonfinite
deriving Repr, DecidableEq

def FV.isFinite {K : Type} : FV K → Bool
  | .fin _ => true
  | .nonfinite => false

/-- `_get_finite` for one parameter: rows whose regressors are ALL finite and whose parameter value is finite -/
def finiteMask {K : Type} (X : List (List (FV K))) (theta : List (FV K)) : List Bool :=
  List.zipWith (fun row t => row.all FV.isFinite && t.isFinite) X theta

/-- `a[mask]` -/
def select {α : Type} (l : List α) (mask : List Bool) : List α :=
  (l.zip mask).filterMap (fun p => if p.2 then some p.1 else none)

section
variable {K : Type} [Add K] [Sub K] [Mul K] [Div K] [Zero K] [One K]

def dot (a b : List K) : K := (List.zipWith (· * ·) a b).sum

/-- `_input_variables`: simulated minus observed summaries, row by row -/
def regressors (summaries : List (List K)) (observed : List K) : List (List K) :=
  summaries.map (fun row => List.zipWith (· - ·) row observed)

/-- `LinearAdjustment._adjust`: `theta_i − X[finite] · b` -/
def adjust (theta : List K) (X : List (List K)) (beta : List K) : List K :=
  List.zipWith (fun t row => t - dot row beta) theta X

end

/-! ### compare_models -/

section
variable {K : Type} [Add K] [Mul K] [Div K] [Zero K] [One K] [NatCast K] [LE K] [DecidableLE K]

structure ModelSample (K : Type) where
  discrepancies : List K
  nSim : Nat

/-- all discrepancies tagged with the index of their model (the concatenated vector) -/
def tagged (ms : List (ModelSample K)) : List (K × Nat) :=
  (ms.zipIdx.map (fun p => p.1.discrepancies.map (fun d => (d, p.2)))).flatten

/-- insertion sort by discrepancy (one concrete `argsort`) -/
def insertByDisc (x : K × Nat) : List (K × Nat) → List (K × Nat)
  | [] => [x]
  | y :: ys => if x.1 ≤ y.1 then x :: y :: ys else y :: insertByDisc x ys
def sortByDisc (l : List (K × Nat)) : List (K × Nat) := l.foldr insertByDisc []

/-- `compare_models`: share of each model among the `n_min` jointly smallest discrepancies, divided
    by its number of simulations, times its prior weight, normalised -/
def compareModels (sort : List (K × Nat) → List (K × Nat)) (ms : List (ModelSample K)) (priors : Option (List K)) :
    List K :=
  let nMin := (ms.map (fun m => m.discrepancies.length)).foldl min ((ms.headD ⟨[], 0⟩).discrepancies.length)
  let top := (sort (tagged ms)).take nMin
  let raw := ms.zipIdx.map (fun p =>
    let cnt : K := ((top.filter (fun t => t.2 == p.2)).length : K)
    let r := cnt / (p.1.nSim : K)
    match priors with
    | none => r
    | some pr => r * (pr.getD p.2 1))
  raw.map (fun r => r / raw.sum)

end

end ElfiVerif.Adjust
