/-
Model of Bayesian optimisation (elfi/methods/bo/utils.py `minimize`; elfi/methods/bo/acquisition.py
`AcquisitionBase.acquire / _add_noise`, `UniformAcquisition.acquire`, `RandMaxVar.acquire`,
`LCBSC / MaxVar .evaluate / .evaluate_gradient`; elfi/methods/inference/bolfi.py
`BayesianOptimization.prepare_new_batch / update / _allow_submit / _get_acquisition_index /
_should_optimize`).

Numerical primitives (the optimiser's end points, the truncated-normal draws, the surrogate, the MCMC
chain) are PARAMETERS: the theorems hold for every value they can take.  Formulas are written over an
arbitrary scalar type so that the same term is used at `Float` (driver) and at `ℝ` (theorems).
Import-free.
-/
namespace ElfiVerif.Bo

/-! ### the box: `np.clip`, the final clip of `minimize`, acquisition noise -/
section box
variable {K : Type} [LE K] [DecidableLE K]

/-- `np.clip(x, lo, hi) = minimum(maximum(x, lo), hi)` -/
def clip (lo hi x : K) : K :=
  let y := if x ≤ lo then lo else x
  if hi ≤ y then hi else y

def clipVec (bounds : List (K × K)) (x : List K) : List K :=
  List.zipWith (fun b xi => clip b.1 b.2 xi) bounds x

/-- a point of the right dimension with every coordinate inside its closed interval -/
def inBox (bounds : List (K × K)) (x : List K) : Bool :=
  decide (x.length = bounds.length) &&
  (List.zipWith (fun (b : K × K) xi => decide (b.1 ≤ xi) && decide (xi ≤ b.2)) bounds x).all id

/-- `np.argmin`: index of the FIRST smallest value (0 for the empty list) -/
def argminFrom {V : Type} [LT V] [DecidableLT V] : List V → Nat → V → Nat → Nat
  | [], _, _, best => best
  | v :: vs, i, cur, best => if v < cur then argminFrom vs (i + 1) v i else argminFrom vs (i + 1) cur best

def argmin {V : Type} [LT V] [DecidableLT V] : List V → Nat
  | [] => 0
  | v :: vs => argminFrom vs 1 v 0

/-- `minimize`: whatever end points `locs` and values `vals` the optimiser produced from the start
    points, the location of the smallest value is returned after a final clip to the bounds -/
def minimizeOut {V : Type} [LT V] [DecidableLT V] (bounds : List (K × K)) (locs : List (List K))
    (vals : List V) : Option (List K) :=
  (locs[argmin vals]?).map (clipVec bounds)

/-- `_add_noise` for one row: coordinate `i` is replaced by a truncated-normal draw unless its noise
    standard deviation is zero -/
def addNoiseRow (isZero : K → Bool) (stds : List K) (row draws : List K) : List K :=
  List.zipWith (fun (sd : K × K) (xd : K × K) => if isZero sd.1 then xd.1 else xd.2)
    (stds.zip stds) (row.zip draws)

/-- `AcquisitionBase.acquire(n)`: `n` copies of the optimum, then noise (`draws` : one row of
    truncated draws per copy) -/
def acquireBase (isZero : K → Bool) (stds : List K) (xhat : List K) (draws : List (List K)) (n : Nat) :
    List (List K) :=
  List.zipWith (fun row d => addNoiseRow isZero stds row d) (List.replicate n xhat) draws

/-- no acquisition noise (`noise_var is None`), MaxVar, ExpIntVar: `n` copies of the optimum -/
def acquireTile (xhat : List K) (n : Nat) : List (List K) := List.replicate n xhat

end box

section uniform
variable {K : Type} [Add K] [Sub K] [Mul K]

/-- `UniformAcquisition`: `scipy.stats.uniform(lo, hi − lo).rvs` is `lo + u·(hi − lo)`, `u ∈ [0, 1)` -/
def uniformPoint (bounds : List (K × K)) (us : List K) : List K :=
  List.zipWith (fun (b : K × K) u => b.1 + u * (b.2 - b.1)) bounds us

end uniform

/-! ### RandMaxVar: which chain states are returned -/

/-- `RandMaxVar.acquire(n)` after the chain has been sampled: `n > 1` → the warm-up prefix is removed,
    the rest permuted and the first `n` taken; `n ≤ 1` → the last state.  `guardFixed = true` is the
    guard of the repaired code (`n ≤ n_samples − warmup`), `false` the original one (`n ≤ n_samples`). -/
def randMaxVarPick {α : Type} (guardFixed : Bool) (nSamples warmup n : Nat) (samples : List α)
    (perm : List α → List α) : Option (List α) :=
  if (if guardFixed then decide (1 < n ∧ nSamples - warmup < n) else decide (nSamples < n)) then none
  else if 1 < n then some ((perm (samples.drop warmup)).take n)
  else some (samples.drop (samples.length - 1))

/-- the log density RandMaxVar samples from, with the bounds test of the repaired code -/
def boxedTarget {α T : Type} (inside : α → Bool) (negInf : T) (f : α → T) (x : α) : T :=
  if inside x then f x else negInf

/-! ### bookkeeping of `BayesianOptimization` -/

/-- `_get_acquisition_index`: `(batch_size·i − (n_initial − n_precomputed)) // (batch_size·bpa)`
    (Python floor division; the divisor is positive) -/
def acqIndex (b bpa nInitial nPre : Nat) (i : Nat) : Int :=
  ((b * i : Nat) - ((nInitial : Int) - (nPre : Int))) / ((b * bpa : Nat) : Int)

/-- `_should_optimize` at the update that adds one batch to a GP holding `nGp` points -/
def shouldOptimize (b nInitial lastUpdate interval nGp : Nat) : Bool :=
  decide (nInitial ≤ nGp + b) && decide (lastUpdate + interval ≤ nGp + b)

structure BoParams (τ β : Type) where
  nInit : Nat                        -- batches simulated from the prior (acquisition index < 0)
  bpa : Nat                          -- batches_per_acquisition
  total : Nat                        -- objective: number of batches to simulate
  sync : Bool                        -- `not async_acq`
  sim : Nat → Option β → τ           -- batch `i` run with acquired parameter rows (`none`: prior draws)
  acquire : List τ → Nat → List β    -- `acquire(acq_batch_size, t)` on the surrogate fitted to the evidence
                                     -- so far (consumed batches, oldest first), cut into batch-sized slices

inductive BoEv
  | submitted (i : Nat)
  | got (i : Nat)
  | acquired (t evLen pending : Nat)   -- acquire(t) with `evLen` consumed batches in the GP and `pending` outstanding
deriving Repr, DecidableEq

structure BoEng (τ β : Type) where
  ev : List τ                        -- batches the surrogate was updated with, oldest first
  consumed : List Nat
  acqBuf : List β                    -- `state['acquisition']` in batch-sized slices
  next : Nat
  pending : List (Nat × τ)
  log : List BoEv

def BoEng.init {τ β : Type} : BoEng τ β := ⟨[], [], [], 0, [], []⟩

inductive Act | submit | consume
deriving Repr, DecidableEq

variable {τ β : Type}

def BoEng.push (e : BoEng τ β) (t : τ) (buf : List β) (extra : List BoEv) : BoEng τ β :=
  { e with pending := e.pending ++ [(e.next, t)], next := e.next + 1, acqBuf := buf,
           log := e.log ++ extra ++ [BoEv.submitted e.next] }

/-- one scheduled action; `none` = the engine refuses it.  `submit` = `_allow_submit` (base rule:
    below `max_parallel_batches` and batches left to submit; BO rule: with synchronous acquisition no
    NEW acquisition while anything is outstanding) followed by `prepare_new_batch`. -/
def BoEng.step (P : BoParams τ β) (mpb : Nat) (e : BoEng τ β) : Act → Option (BoEng τ β)
  | .submit =>
    if e.pending.length < mpb ∧ e.consumed.length + e.pending.length < P.total then
      if e.next < P.nInit then some (e.push (P.sim e.next none) e.acqBuf [])
      else match e.acqBuf with
        | a :: rest => some (e.push (P.sim e.next (some a)) rest [])
        | [] =>
          if P.sync ∧ e.pending ≠ [] then none
          else
            let t := (e.next - P.nInit) / P.bpa
            match P.acquire e.ev t with
            | [] => none
            | a :: rest => some (e.push (P.sim e.next (some a)) rest [BoEv.acquired t e.ev.length e.pending.length])
    else none
  | .consume =>
    match e.pending with
    | [] => none
    | (i, t) :: rest =>
      some { e with ev := e.ev ++ [t], consumed := e.consumed ++ [i], pending := rest, log := e.log ++ [BoEv.got i] }

def BoEng.run (P : BoParams τ β) (mpb : Nat) : BoEng τ β → List Act → Option (BoEng τ β)
  | e, [] => some e
  | e, a :: as =>
    match e.step P mpb a with
    | none => none
    | some e' => BoEng.run P mpb e' as

/-- the batch that follows the evidence `ev` (= batches `0 … ev.length − 1`) in the SEQUENTIAL run -/
def nextBatch (P : BoParams τ β) (ev : List τ) : τ :=
  let k := ev.length
  if k < P.nInit then P.sim k none
  else
    let g := (k - P.nInit) / P.bpa
    let s := P.nInit + g * P.bpa
    P.sim k ((P.acquire (ev.take s) g)[k - s]?)

/-- evidence of the sequential run (submit one batch, wait for it, update, …) after `k` batches -/
def seqEvidence (P : BoParams τ β) : Nat → List τ
  | 0 => []
  | k + 1 => seqEvidence P k ++ [nextBatch P (seqEvidence P k)]

/-- `n_evidence` of the inference object / of the surrogate -/
def nEvidence (nPre b : Nat) (e : BoEng τ β) : Nat := nPre + b * e.consumed.length

/-! ### acquisition functions and their coded gradients (one coordinate) -/
section grads
variable {K : Type} [Add K] [Sub K] [Mul K] [Div K] [Neg K] [OfScientific K]

/-- LCBSC: `mean − sqrt(β·var)` -/
def lcbscVal (sqrt : K → K) (beta mean var : K) : K := mean - sqrt (beta * var)

/-- LCBSC gradient as coded: `grad_mean − 0.5·grad_var·sqrt(β/var)` -/
def lcbscGrad (sqrt : K → K) (beta var gradMean gradVar : K) : K :=
  gradMean - (0.5 : K) * gradVar * sqrt (beta / var)

/-- MaxVar: `a = (ε − mean)/sqrt(σ² + var)`, `b = sqrt(σ²)/sqrt(σ² + 2 var)` -/
def mvA (sqrt : K → K) (eps s2 mean var : K) : K := (eps - mean) / sqrt (s2 + var)
def mvB (sqrt : K → K) (s2 var : K) : K := sqrt s2 / sqrt (s2 + (2.0 : K) * var)

/-- `grad_a = (−1/scale)·grad_mean − ((ε − mean)/(2 (σ²+var)^1.5))·grad_var`
    (`s^1.5` written `s·sqrt s`) -/
def mvGradA (sqrt : K → K) (eps s2 mean var gradMean gradVar : K) : K :=
  (-(1.0 : K) / sqrt (s2 + var)) * gradMean
    - ((eps - mean) / ((2.0 : K) * ((s2 + var) * sqrt (s2 + var)))) * gradVar

/-- `grad_b = (−sqrt(σ²)/(σ² + 2 var)^1.5)·grad_var` -/
def mvGradB (sqrt : K → K) (s2 var gradVar : K) : K :=
  (-(sqrt s2) / ((s2 + (2.0 : K) * var) * sqrt (s2 + (2.0 : K) * var))) * gradVar

/-- the acquisition value `prior² · (int_1 − int_2)` with `int_1 = Φ(a) − Φ(a)²`, `int_2 = 2·T(a, b)`
    (`Φ(ε) − skewnorm.cdf(ε, b)` is twice Owen's T) -/
def mvVal (p phiA tAB : K) : K := p * p * ((phiA - phiA * phiA) - (2.0 : K) * tAB)

/-- the gradient as coded:
    `2 p (int_1 − int_2)(p·∇log p) + p² (grad_int_1 − grad_int_2)` with
    `grad_int_1 = (1 − 2Φ(a)) · exp(−a²/2)/sqrt(2π) · a'` and
    `grad_int_2 = (1/π)(exp(−a²(1+b²)/2)/(1+b²) · b' + sqrt(π/2) exp(−a²/2)(1 − 2Φ(ab)) · a')` -/
def mvGrad (sqrt exp : K → K) (pi : K) (p gradLogP phiA phiAB tAB a b gradA gradB : K) : K :=
  let int1 := phiA - phiA * phiA
  let int2 := (2.0 : K) * tAB
  let gInt1 := ((1.0 : K) - (2.0 : K) * phiA) * (exp (-(0.5 : K) * (a * a)) / sqrt ((2.0 : K) * pi)) * gradA
  let gInt2 := ((1.0 : K) / pi) *
    (((exp (-(0.5 : K) * (a * a) * ((1.0 : K) + b * b))) / ((1.0 : K) + b * b)) * gradB
      + (sqrt (pi / (2.0 : K)) * exp (-(0.5 : K) * (a * a)) * ((1.0 : K) - (2.0 : K) * phiAB) * gradA))
  (2.0 : K) * p * (int1 - int2) * (p * gradLogP) + p * p * (gInt1 - gInt2)

end grads

end ElfiVerif.Bo
