/-
Model of the BOLFI posterior and of the surrogate's accelerated prediction path
(elfi/methods/posteriors.py `BolfiPosterior._unnormalized_loglikelihood /
_gradient_unnormalized_loglikelihood / _within_bounds`; elfi/methods/bo/gpy_regression.py
`GPyRegression.predict / predictive_gradients` fast path, `update`).

Formulas are written over an arbitrary scalar type with the operations the code uses (`sqrt`,
`exp` as parameters) so that the SAME term is instantiated at `Float` (driver, compared with the real
code) and at `ℝ` (theorems).  Import-free.
-/
namespace ElfiVerif.Bolfi

section
variable {K : Type} [Add K] [Sub K] [Mul K] [Div K] [Neg K] [OfScientific K] [LE K] [DecidableLE K]

/-- `_within_bounds` for one point: every coordinate inside its CLOSED interval -/
def withinBounds (bounds : List (K × K)) (x : List K) : Bool :=
  (List.zipWith (fun (b : K × K) xi => decide (b.1 ≤ xi) && decide (xi ≤ b.2)) bounds x).all id

/-- the argument of Φ: `(threshold − mean) / sqrt(var)` -/
def zArg (sqrt : K → K) (t mean var : K) : K := (t - mean) / sqrt var

/-- `pdf/cdf` as the code computes it (since /repo fix): `exp(logpdf(z) − logcdf(z))` -/
def ratioLog (exp : K → K) (logPdf logCdf : K) : K := exp (logPdf - logCdf)

/-- `_gradient_unnormalized_loglikelihood`, one coordinate:
    `factor = (−grad_mean·std − (t − mean)·0.5·grad_var/std) / var; grad = factor·ratio`
    with `ratio = pdf(z)/cdf(z)` -/
def codedGrad (sqrt : K → K) (t mean var gradMean gradVar ratio : K) : K :=
  let std := sqrt var
  let factor := (-gradMean * std - (t - mean) * (0.5 : K) * gradVar / std) / var
  factor * ratio

end

/-- the log posterior at a point: `−inf` outside the bounds, else `logΦ(z) + logprior` -/
inductive LogVal (K : Type) | negInf | fin (v : K)
deriving Repr

def logPost {K : Type} [Add K] [LE K] [DecidableLE K] (bounds : List (K × K)) (x : List K)
    (logCdfAtZ logPrior : K) : LogVal K :=
  if withinBounds' bounds x then .fin (logCdfAtZ + logPrior) else .negInf
where
  withinBounds' (bounds : List (K × K)) (x : List K) : Bool :=
    (List.zipWith (fun (b : K × K) xi => decide (b.1 ≤ xi) && decide (xi ≤ b.2)) bounds x).all id

section
variable {K : Type} [Add K] [Sub K] [Mul K] [Zero K]

/-- squared distances as the fast path computes them: `|x|² + |X_i|² − 2 x·X_i` -/
def r2Fast (x xi : List K) : K :=
  ((x.map (fun a => a * a)).sum + (xi.map (fun a => a * a)).sum) -
    ((List.zipWith (· * ·) x xi).sum + (List.zipWith (· * ·) x xi).sum)

def r2Direct (x xi : List K) : K := (List.zipWith (fun a b => (a - b) * (a - b)) x xi).sum

/-- the fast mean: `kx · woodbury_vector` -/
def fastMean (kx alpha : List K) : K := (List.zipWith (· * ·) kx alpha).sum

end

section rbf
variable {K : Type} [Sub K] [Mul K] [OfScientific K]

/-- the cached RBF kernel value: `rbf_var · exp(r2 · factor)` (`factor = −0.5/lengthscale²`) -/
def rbfK (exp : K → K) (v f r2 : K) : K := v * exp (r2 * f)

/-- one coordinate of `dkdx = 2 · factor · (x − X_i) · kx` -/
def rbfDk (x a f k : K) : K := (2.0 : K) * f * (x - a) * k

end rbf

/-- `GPyRegression.update`: the evidence is the old evidence followed by the new rows -/
def updateEvidence {α : Type} (old new : List α) : List α := old ++ new

end ElfiVerif.Bolfi
