/-
Model of Bayesian synthetic likelihood (elfi/methods/inference/bsl.py `BSL._para_logit_transform /
_para_logit_back_transform / _jacobian_logit_transform / _get_mh_ratio / _init_round /
_process_simulated`; elfi/methods/bsl/pdf_methods.py `gaussian_syn_likelihood`,
`gaussian_syn_likelihood_ghurye_olkin`, `syn_likelihood_misspec`, `wcon`).

Scalar formulas are written over an arbitrary type with `exp` / `log` as parameters so that the same
term is used at `Float` (driver) and at `ℝ` (theorems).  The chain is a state machine over the
arrays the code keeps (`params`, `logprior`, `logposterior`), driven by explicit input streams
(proposal draws, likelihood estimates, uniforms, gamma-sampler likelihoods).  Import-free.
-/
namespace ElfiVerif.Bsl

/-! ### parameter transform -/

/-- `np.matmul(np.isinf(bound), [1, 2])`: '0' two-sided, '1' only the upper bound finite,
    '2' only the lower bound finite, '3' unbounded -/
inductive BType | two | upper | lower | free
deriving Repr, DecidableEq

def typeOf (loInf hiInf : Bool) : BType :=
  match loInf, hiInf with
  | false, false => .two
  | true, false => .upper
  | false, true => .lower
  | true, true => .free

section transform
variable {K : Type} [Add K] [Sub K] [Mul K] [Div K] [Neg K] [OfScientific K]

/-- `_para_logit_transform`, one coordinate -/
def fwd (log : K → K) (t : BType) (a b x : K) : K :=
  match t with
  | .two => log ((x - a) / (b - x))
  | .upper => log ((1.0 : K) / (b - x))
  | .lower => log (x - a)
  | .free => x

/-- `_para_logit_back_transform`, one coordinate -/
def back (exp : K → K) (t : BType) (a b y : K) : K :=
  let ey := exp y
  match t with
  | .two => a / ((1.0 : K) + ey) + b / ((1.0 : K) + ((1.0 : K) / ey))
  | .upper => b - ((1.0 : K) / ey)
  | .lower => a + ey
  | .free => y

/-- `_jacobian_logit_transform`, one coordinate: log |dθ/dθ̃| at the TRANSFORMED value `y`.
    `fixed = false` is the original code for the upper-bounded type (`+y`; the derivative of
    `b − e^{−y}` is `e^{−y}`, so it must be `−y`). -/
def logJac (exp log : K → K) (fixed : Bool) (t : BType) (a b y : K) : K :=
  match t with
  | .two => log (b - a) - log (((1.0 : K) / exp y) + (2.0 : K) + exp y)
  | .upper => if fixed then -y else y
  | .lower => y
  | .free => (0.0 : K)

/-- vector versions (`bound` rows: type, lower, upper) -/
def fwdVec (log : K → K) (bs : List (BType × K × K)) (x : List K) : List K :=
  List.zipWith (fun (b : BType × K × K) xi => fwd log b.1 b.2.1 b.2.2 xi) bs x

def backVec (exp : K → K) (bs : List (BType × K × K)) (y : List K) : List K :=
  List.zipWith (fun (b : BType × K × K) yi => back exp b.1 b.2.1 b.2.2 yi) bs y

def logJacVec (exp log : K → K) (fixed : Bool) (bs : List (BType × K × K)) (y : List K) : K :=
  (List.zipWith (fun (b : BType × K × K) yi => logJac exp log fixed b.1 b.2.1 b.2.2 yi) bs y).foldl (· + ·) (0.0 : K)

end transform

/-! ### Metropolis–Hastings ratio -/
section mh
variable {K : Type} [Add K] [Sub K] [OfScientific K] [Neg K] [LT K] [DecidableLT K]

/-- `res = 700 if res > 700 …; −700 if res < −700` -/
def clamp700 (r : K) : K :=
  if (700.0 : K) < r then (700.0 : K) else if r < -(700.0 : K) then -(700.0 : K) else r

/-- `_get_mh_ratio` (log of it): `logp2 + current − previous`, clamped; `jCur`, `jPrev` are the log
    Jacobians at the transformed candidate / current point (0 without a transform) -/
def mhLogRatio (cur prev jCur jPrev : K) : K := clamp700 ((jCur - jPrev) + cur - prev)

/-- `u < min(1, exp(res))` -/
def mhAccept (exp : K → K) (r u : K) : Bool :=
  let e := exp r
  decide (u < (if e < (1.0 : K) then e else (1.0 : K)))

end mh

/-! ### the chain as a state machine over the code's arrays -/

structure Entry (P K : Type) where
  param : P
  logprior : K
  logpost : K
deriving Repr

structure Target (P D K U : Type) where
  propose : P → D → P            -- random-walk proposal (in transformed space when a transform is used)
  logprior : P → K
  isFinite : K → Bool
  logJ : P → K                   -- log Jacobian of the back-transform at the transformed point of a parameter
  add : K → K → K
  ratio : K → K → K → K → K      -- `mhLogRatio cur prev jCur jPrev`
  accept : K → U → Bool          -- `mhAccept`
  zero : K

variable {P D K U : Type}

/-- `_init_round`: per loop iteration one optional gamma-sampler likelihood (misspecified variants:
    `logposterior[n−1] = ll + logprior[n−1]`) and one proposal draw.  A proposal outside the prior support
    fills the slot with a copy of the current state and the loop continues WITHOUT simulating; the
    first proposal inside the support becomes the candidate (returns `true`: simulate).  `cap` is the
    requested chain length. -/
def initRound (T : Target P D K U) (cap : Nat) : List (Entry P K) → List (Option K × D) →
    List (Entry P K) × List (Option K × D) × Bool
  | es, [] => (es, [], false)
  | es, (g, d) :: rest =>
    if cap ≤ es.length then (es, (g, d) :: rest, false)
    else match es.getLast? with
      | none => (es, rest, false)
      | some prev =>
        let prev' : Entry P K := match g with
          | none => prev
          | some ll => { prev with logpost := T.add ll prev.logprior }
        let es' := es.dropLast ++ [prev']
        let prop := T.propose prev'.param d
        let lp := T.logprior prop
        if T.isFinite lp then (es' ++ [⟨prop, lp, T.zero⟩], rest, true)
        else initRound T cap (es' ++ [prev']) rest

/-- `_process_simulated` with the synthetic log-likelihood `ll` of the candidate and the uniform `u`:
    the candidate is the LAST entry; it is kept (with its log posterior) or every array is reset to the
    previous entry -/
def processSimulated (T : Target P D K U) (es : List (Entry P K)) (ll : K) (u : U) : List (Entry P K) :=
  match es.reverse with
  | [] => []
  | [c] => [{ c with logpost := T.add ll c.logprior }]
  | c :: p :: rest =>
    let c' : Entry P K := { c with logpost := T.add ll c.logprior }
    if T.accept (T.ratio c'.logpost p.logpost (T.logJ c'.param) (T.logJ p.param)) u
    then (c' :: p :: rest).reverse else (p :: p :: rest).reverse

/-- one round after the first: `_init_round` then (if a candidate was found) `_process_simulated`;
    returns the new arrays, the unused script and whether a simulation (likelihood estimate) was used -/
def round (T : Target P D K U) (cap : Nat) (es : List (Entry P K)) (script : List (Option K × D))
    (ll : K) (u : U) : List (Entry P K) × List (Option K × D) × Bool :=
  match initRound T cap es script with
  | (es', rest, true) => (processSimulated T es' ll u, rest, true)
  | (es', rest, false) => (es', rest, false)

/-- every stored log prior belongs to the stored parameter value -/
def Good (T : Target P D K U) (es : List (Entry P K)) : Prop := ∀ e ∈ es, e.logprior = T.logprior e.param

/-! ### Ghurye–Olkin pieces and adjustments -/
section lik
variable {K : Type} [Add K] [Sub K] [Mul K] [Div K] [Neg K] [OfScientific K]

/-- multivariate normal log density from the log-determinant and the quadratic form -/
def mvnLogPdf (log2pi d logdet quad : K) : K := -(0.5 : K) * (d * log2pi + logdet + quad)

/-- the unbiased estimator, in log: `−d/2·log 2π + A + B + C` with
    `A = wcon(d,n−2) − wcon(d,n−1) − d/2·log(1−1/n)`,
    `B = −(n−d−2)/2·(log|(n−1)Σ|)` where `log|(n−1)Σ| = d·log(n−1) + log|Σ|` (`fixed = false`: the
    original code had `log(n−1)` without the factor `d`), `C = (n−d−3)/2·log|ψ|` -/
def goLogLik (log : K → K) (fixed : Bool) (log2pi d n wconDiff logdetSigma logdetPsi : K) : K :=
  let A := wconDiff - (0.5 : K) * d * log ((1.0 : K) - (1.0 : K) / n)
  let lm := (if fixed then d * log (n - (1.0 : K)) else log (n - (1.0 : K))) + logdetSigma
  let B := -(0.5 : K) * (n - d - (2.0 : K)) * lm
  let C := (0.5 : K) * (n - d - (3.0 : K)) * logdetPsi
  let head := -(0.5 : K) * d * log2pi
  head + A + B + C

/-- mean adjustment: `mean + std·γ`; variance adjustment: `var + (std·γ)²` on the diagonal -/
def adjMean (mean std gamma : K) : K := mean + std * gamma
def adjVarDiag (var std gamma : K) : K := var + (std * gamma) * (std * gamma)

end lik

end ElfiVerif.Bsl
