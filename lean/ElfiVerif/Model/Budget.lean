/-
The simulation budget of a quantile objective (elfi/methods/inference/samplers.py `Rejection.set_objective`:
`n_sim = ceil(n_samples / quantile)`) and the number of batches it stands for (`ceil(n_sim / batch_size)`), over exact
rationals: the quantile is `p / q`.  Import-free.
-/
namespace ElfiVerif.Rejection

/-- `ceil(n / (p/q))` -/
def quantileBudget (n p q : Nat) : Nat := (n * q + p - 1) / p

/-- `ceil(ceil(n / (p/q)) / b)`: the batches a quantile run consumes -/
def quantileBatches (n p q b : Nat) : Nat := (quantileBudget n p q + b - 1) / b

end ElfiVerif.Rejection
