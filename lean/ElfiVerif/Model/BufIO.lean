/-
The buffered file object between elfi/store.py and the file (Python's `BufferedRandom`).

`Model/Npy.lean` states crash safety over PREFIXES of the low-level file steps in program order.  That
is what a kill leaves behind only if the buffering layer keeps program order: `fs.write` goes to a
user-space buffer that is lost at a kill; `fs.seek`, `fs.flush`, `fs.truncate` and `fs.close` push the
buffer out first; a full buffer may spill its oldest writes at any time; and a write that BYPASSES
the buffer (ftruncate, a store through the memmap, `os.pwrite` on the descriptor) reaches the file at
once.  The discipline "no bypassing write while buffered writes are pending" (`disciplined`) is what
makes every kill point a step prefix; it is checked on the event stream of the real code on every
run (harness, `C06.io`).  Import-free apart from the Npy model.
-/
import ElfiVerif.Model.Npy
namespace ElfiVerif.BufIO
open ElfiVerif.Npy

inductive IoEv
  | write (s : Step)      -- fs.write(...): into the user-space buffer
  | seek                  -- fs.seek(...): pending writes are pushed out first
  | flush                 -- fs.flush() / fs.close() / the flush inside fs.truncate()
  | drain (n : Nat)       -- the buffer spills its `n` oldest writes on its own (buffer full)
  | direct (s : Step)     -- reaches the file at once: ftruncate, memmap store, os.pwrite on the descriptor
deriving Repr, DecidableEq

structure Io where
  disk : Disk
  buf : List Step         -- pending buffered writes, oldest first; LOST at a kill
deriving Repr, DecidableEq

def Io.step (io : Io) : IoEv → Io
  | .write s => { io with buf := io.buf ++ [s] }
  | .seek => ⟨io.disk.applyAll io.buf, []⟩
  | .flush => ⟨io.disk.applyAll io.buf, []⟩
  | .drain n => ⟨io.disk.applyAll (io.buf.take n), io.buf.drop n⟩
  | .direct s => { io with disk := io.disk.apply s }

def Io.run (io : Io) (evs : List IoEv) : Io := evs.foldl Io.step io

/-- the file steps of an event stream in PROGRAM order -/
def stepsOfEvs : List IoEv → List Step
  | [] => []
  | .write s :: r => s :: stepsOfEvs r
  | .direct s :: r => s :: stepsOfEvs r
  | _ :: r => stepsOfEvs r

/-- the discipline: a bypassing write only while no buffered write can be pending
    (`pending` = a write happened since the last seek / flush) -/
def disciplined (pending : Bool) : List IoEv → Bool
  | [] => true
  | .write _ :: r => disciplined true r
  | .seek :: r => disciplined false r
  | .flush :: r => disciplined false r
  | .drain _ :: r => disciplined pending r
  | .direct _ :: r => !pending && disciplined false r

end ElfiVerif.BufIO
