/-
Model of the compilation, loading and execution of an ELFI graph
(elfi/compiler.py: OutputCompiler, ObservedCompiler, AdditionalNodesCompiler, RandomStateCompiler,
ReduceCompiler; elfi/loader.py: ObservedLoader, AdditionalNodesLoader, RandomStateLoader, PoolLoader;
elfi/executor.py: Executor.execute / get_execution_order / _run).

Node names are numbers (their order = Python string order of the real names; the harness computes
the ranks, including those of the generated names `_X_observed`, `_batch_size`, `_meta`,
`_random_state`, given through `Env`).  Values are symbolic `Term`s: an operation applied to its
positional and keyword arguments.  The compiled net is described by the list of nodes and, for every
node, its in-edges — the harness compares exactly this structure with the real compiled graph.
Import-free.
-/
namespace ElfiVerif.Compile

inductive Param
  | pos (i : Nat)
  | named (k : Nat)           -- keyword, identified by the rank of its name
deriving Repr, DecidableEq

/-- symbolic values -/
inductive Term
  | const (v : Nat)                                             -- a given value (constant, observation, stored output)
  | app (f : Nat) (args : List Term) (kwargs : List (Nat × Term)) -- user operation `f(*args, **kwargs)`
  | tuple (args : List Term)                                    -- `args_to_tuple`
  | tBatchSize | tMeta | tRandomState                           -- what the loaders put into the instruction nodes
deriving Repr

/-- a source node's state dictionary -/
structure SNode where
  name : Nat
  op : Option Nat           -- `_operation` (token), or `none` for a node with `_output`
  output : Nat              -- `_output` value token (used when `op = none`)
  observable : Bool := false
  usesObserved : Bool := false
  stochastic : Bool := false
  usesBatchSize : Bool := false
  usesMeta : Bool := false
deriving Repr

structure Edge where
  src : Nat
  dst : Nat
  param : Param
deriving Repr, DecidableEq

structure Source where
  nodes : List SNode
  edges : List Edge
  observed : List (Nat × Nat)      -- observed data token per node name
deriving Repr

/-- generated names and reserved keywords -/
structure Env where
  twin : Nat → Nat                 -- `observed_name(X)` = `_X_observed`
  bs : Nat                         -- `_batch_size`
  mt : Nat                         -- `_meta`
  rs : Nat                         -- `_random_state`
  kwBatchSize : Nat                -- keyword `batch_size`
  kwMeta : Nat                     -- keyword `meta`
  kwRandomState : Nat              -- keyword `random_state`
  kwObserved : Nat                 -- keyword `observed`

inductive COp
  | user (f : Nat)
  | argsToTuple
deriving Repr, DecidableEq

/-- a node of the compiled / loaded net -/
structure CNode where
  name : Nat
  op : Option COp
  output : Option Term
deriving Repr

structure CNet where
  nodes : List CNode
  edges : List Edge
  outputs : List Nat
deriving Repr

def Source.find (s : Source) (n : Nat) : Option SNode := s.nodes.find? (fun x => x.name == n)

def Source.inEdges (s : Source) (n : Nat) : List Edge := s.edges.filter (fun e => e.dst == n)

def Source.isObservable (s : Source) (n : Nat) : Bool := ((s.find n).map (·.observable)).getD false

/-- the node dictionary the OutputCompiler creates -/
def compiledOf (x : SNode) : CNode :=
  match x.op with
  | some f => ⟨x.name, some (.user f), none⟩
  | none => ⟨x.name, none, some (.const x.output)⟩

/-- has the node a twin?  observable nodes, and (`elif`) nodes that use observed data -/
def hasTwin (x : SNode) : Bool := x.observable || x.usesObserved

/-- all nodes and edges after the four structural passes, before ReduceCompiler -/
def compileAll (env : Env) (s : Source) : List CNode × List Edge :=
  let user := s.nodes.map compiledOf
  let twins := (s.nodes.filter hasTwin).map (fun x =>
    if x.observable then { compiledOf x with name := env.twin x.name }
    else ⟨env.twin x.name, some .argsToTuple, none⟩)
  let anyBs := s.nodes.any (·.usesBatchSize)
  let anyMt := s.nodes.any (·.usesMeta)
  let anyRs := s.nodes.any (·.stochastic)
  let instr : List CNode :=
    (if anyBs then [⟨env.bs, none, none⟩] else []) ++ (if anyMt then [⟨env.mt, none, none⟩] else []) ++
    (if anyRs then [⟨env.rs, none, none⟩] else [])
  -- edges
  let eObs := (s.nodes.filter (fun x => !x.observable && x.usesObserved)).map
    (fun x => (⟨env.twin x.name, x.name, .named env.kwObserved⟩ : Edge))
  let eTwin := (s.nodes.filter (fun x => hasTwin x && !x.stochastic)).flatMap (fun x =>
    (s.inEdges x.name).map (fun e =>
      (⟨if s.isObservable e.src then env.twin e.src else e.src, env.twin x.name, e.param⟩ : Edge)))
  let eBs := (s.nodes.filter (·.usesBatchSize)).map (fun x => (⟨env.bs, x.name, .named env.kwBatchSize⟩ : Edge))
  let eMt := (s.nodes.filter (·.usesMeta)).map (fun x => (⟨env.mt, x.name, .named env.kwMeta⟩ : Edge))
  let eRs := (s.nodes.filter (·.stochastic)).map (fun x => (⟨env.rs, x.name, .named env.kwRandomState⟩ : Edge))
  (user ++ twins ++ instr, s.edges ++ eObs ++ eTwin ++ eBs ++ eMt ++ eRs)

/-- ancestors-or-self by bounded search over an edge list -/
def reaches (edges : List Edge) : Nat → Nat → Nat → Bool
  | 0, a, b => a == b
  | fuel + 1, a, b => a == b || edges.any (fun e => e.src == a && reaches edges fuel e.dst b)

/-- the stochastic-ancestor check of ObservedCompiler (after fix): some node that uses observed data
    has, among the ancestors of its twin in the compiled net, a stochastic SOURCE node -/
def observedDependsOnStochastic (env : Env) (s : Source) : Bool :=
  let (nodes, edges) := compileAll env s
  (s.nodes.filter (fun x => !x.observable && x.usesObserved)).any (fun x =>
    s.nodes.any (fun a => a.stochastic && a.name != env.twin x.name &&
      reaches edges nodes.length a.name (env.twin x.name)))

inductive Err | valueError
deriving Repr, DecidableEq

/-- `Client.compile`: all passes, then ReduceCompiler keeps the ancestors of the requested outputs -/
def compile (env : Env) (s : Source) (outputs : List Nat) : Except Err CNet :=
  if observedDependsOnStochastic env s then .error .valueError
  else
    let (nodes, edges) := compileAll env s
    let keep := fun n => outputs.any (fun o => reaches edges nodes.length n o)
    .ok ⟨nodes.filter (fun x => keep x.name), edges.filter (fun e => keep e.src && keep e.dst), outputs⟩

/-- the loaders: observed data into the twins, instruction nodes, values supplied for this batch
    (`with_values` / pool): a supplied node gets an output and loses its operation; a pool store
    that has no value for this batch is added to the outputs -/
def load (env : Env) (s : Source) (supplied : List (Nat × Nat)) (missingStores : List Nat) (c : CNet) : CNet :=
  let setOut (nodes : List CNode) (n : Nat) (t : Term) : List CNode :=
    nodes.map (fun x => if x.name == n then { x with output := some t, op := none } else x)
  let n1 := s.observed.foldl (fun acc p => setOut acc (env.twin p.1) (.const p.2)) c.nodes
  let n2 := setOut (setOut (setOut n1 env.bs .tBatchSize) env.mt .tMeta) env.rs .tRandomState
  let n3 := supplied.foldl (fun acc p => setOut acc p.1 (.const p.2)) n2
  let has := fun n => c.nodes.any (fun x => x.name == n)
  { c with nodes := n3, outputs := c.outputs ++ (missingStores.filter (fun n => has n && !c.outputs.contains n)) }

def CNet.find (c : CNet) (n : Nat) : Option CNode := c.nodes.find? (fun x => x.name == n)

def insertPos (x : Nat × Term) : List (Nat × Term) → List (Nat × Term)
  | [] => [x]
  | y :: ys => if x.1 ≤ y.1 then x :: y :: ys else y :: insertPos x ys

def sortByKey (l : List (Nat × Term)) : List (Nat × Term) := l.foldr insertPos []

/-- `Executor._run`: positional arguments sorted by position, the others as keywords (kept sorted by
    keyword for a canonical form) -/
def applyOp (op : COp) (ins : List (Param × Term)) : Term :=
  let args := (sortByKey (ins.filterMap (fun p => match p.1 with | .pos i => some (i, p.2) | .named _ => none))).map (·.2)
  let kwargs := sortByKey (ins.filterMap (fun p => match p.1 with | .named k => some (k, p.2) | .pos _ => none))
  match op with
  | .user f => .app f args kwargs
  | .argsToTuple => .tuple args

/-- one execution step: run the operation of node `n` on the outputs of its parents (all must be
    present); the node gets an output and loses its operation -/
def execNode (c : CNet) (n : Nat) : Option CNet :=
  match c.find n with
  | none => none
  | some x =>
    match x.op with
    | none => if x.output.isSome then some c else none
    | some op =>
      let ins := (c.edges.filter (fun e => e.dst == n)).map (fun e =>
        ((c.find e.src).bind (·.output)).map (fun t => (e.param, t)))
      if ins.all (·.isSome) then
        let t := applyOp op (ins.filterMap id)
        some { c with nodes := c.nodes.map (fun y => if y.name == n then { y with output := some t, op := none } else y) }
      else none

/-- `Executor.execute` along a given order; the result: the outputs of the requested nodes -/
def execute (c : CNet) (order : List Nat) : Option (List (Nat × Term)) :=
  match order.foldl (fun acc n => acc.bind (fun g => execNode g n)) (some c) with
  | none => none
  | some g => c.outputs.mapM (fun o => ((g.find o).bind (·.output)).map (fun t => (o, t)))

/-- the nodes that need execution: ancestors (through nodes WITHOUT an output) of the requested
    outputs that have an operation — `get_execution_order` minus the ordering -/
def needed (c : CNet) : List Nat :=
  let live := c.edges.filter (fun e => ((c.find e.src).map (·.output.isNone)).getD false)
  let want := c.outputs.filter (fun o => ((c.find o).map (·.op.isSome)).getD false)
  (c.nodes.filter (fun x => x.op.isSome && want.any (fun o => reaches live c.nodes.length x.name o))).map (·.name)

/-- the dataflow meaning of a loaded net: the output if present, else the operation applied to the
    meanings of the parents (`fuel` = number of nodes suffices for a DAG) -/
def evalNode (c : CNet) : Nat → Nat → Option Term
  | 0, _ => none
  | fuel + 1, n =>
    match c.find n with
    | none => none
    | some x =>
      match x.output, x.op with
      | some t, _ => some t
      | none, none => none
      | none, some op =>
        let ins := (c.edges.filter (fun e => e.dst == n)).map (fun e =>
          (evalNode c fuel e.src).map (fun t => (e.param, t)))
        if ins.all (·.isSome) then some (applyOp op (ins.filterMap id)) else none

/-! ### the denotation on the SOURCE graph (right-hand side of the property) -/

mutual
/-- value of a user node: supplied value, else constant, else operation on the parents' values, with
    `batch_size` / `meta` / `random_state` exactly for the nodes that declare them and, for a node
    that uses observed data, `observed =` the tuple of its parents' observed twins -/
def denote (env : Env) (s : Source) (supplied : List (Nat × Nat)) : Nat → Nat → Option Term
  | 0, _ => none
  | fuel + 1, n =>
    match supplied.find? (fun p => p.1 == n) with
    | some p => some (.const p.2)
    | none =>
      match s.find n with
      | none => none
      | some x =>
        match x.op with
        | none => some (.const x.output)
        | some f =>
          let ins := (s.inEdges n).map (fun e => (denote env s supplied fuel e.src).map (fun t => (e.param, t)))
          let extra : List (Option (Param × Term)) :=
            (if x.usesBatchSize then [some (.named env.kwBatchSize, .tBatchSize)] else []) ++
            (if x.usesMeta then [some (.named env.kwMeta, .tMeta)] else []) ++
            (if x.stochastic then [some (.named env.kwRandomState, .tRandomState)] else []) ++
            (if !x.observable && x.usesObserved then
              [(denoteObs env s supplied fuel n).map (fun t => (.named env.kwObserved, t))] else [])
          let all := ins ++ extra
          if all.all (·.isSome) then some (applyOp (.user f) (all.filterMap id)) else none

/-- observed twin of a node: supplied twin value, else the given observation, else — for a
    deterministic node — its operation (or `args_to_tuple` for a node that uses observed data)
    applied to its parents' twins (parents that are not observable contribute their ordinary value);
    a stochastic node without data has its operation called with no arguments -/
def denoteObs (env : Env) (s : Source) (supplied : List (Nat × Nat)) : Nat → Nat → Option Term
  | 0, _ => none
  | fuel + 1, n =>
    match supplied.find? (fun p => p.1 == env.twin n) with
    | some p => some (.const p.2)
    | none =>
      match s.observed.find? (fun p => p.1 == n) with
      | some p => some (.const p.2)
      | none =>
        match s.find n with
        | none => none
        | some x =>
          let op : Option COp := if x.observable then x.op.map COp.user else some .argsToTuple
          match op with
          | none => some (.const x.output)
          | some o =>
            if x.stochastic then some (applyOp o [])
            else
              let ins := (s.inEdges n).map (fun e =>
                (if s.isObservable e.src then denoteObs env s supplied fuel e.src
                 else denote env s supplied fuel e.src).map (fun t => (e.param, t)))
              if ins.all (·.isSome) then some (applyOp o (ins.filterMap id)) else none
end

end ElfiVerif.Compile
