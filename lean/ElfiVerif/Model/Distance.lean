/-
Model of the distance nodes (elfi/model/utils.py `distance_as_discrepancy`,
elfi/model/elfi_model.py `AdaptiveDistance.add_data / update_distance / nested_distance`) and of
`Rejection._update_distances` (elfi/methods/inference/samplers.py).

Scalars: any type with the field operations the code uses (`Rat` for execution, any field in the
theorems); `sqrt` and the metric are parameters.  Import-free.
-/
namespace ElfiVerif.Distance

inductive Err | valueError
deriving Repr, DecidableEq

/-- a node output for a batch: shape `(n,)` or `(n, m)` -/
inductive Arr (K : Type)
  | vec (v : List K)
  | mat (rows : List (List K))
deriving Repr, DecidableEq

/-- an observed summary: scalar, `(m,)` or 2-D -/
inductive Obs (K : Type)
  | scalar (x : K)
  | vec (v : List K)
  | mat (rows : List (List K))
deriving Repr

section
variable {K : Type}

/-- rows of an output seen as 2-D (`np.column_stack` turns a 1-D array into a column) -/
def Arr.rows2d : Arr K → List (List K)
  | .vec v => v.map (fun x => [x])
  | .mat rows => rows

/-- `np.atleast_2d` -/
def Obs.rows2d : Obs K → List (List K)
  | .scalar x => [[x]]
  | .vec v => [v]
  | .mat rows => rows

/-- horizontal concatenation of 2-D blocks that all have the same number of rows;
    `none` = numpy's ValueError on a row-count mismatch -/
def hcat : List (List (List K)) → Option (List (List K))
  | [] => none
  | [b] => some b
  | b :: bs =>
    match hcat bs with
    | none => none
    | some rest => if b.length = rest.length then some (List.zipWith (· ++ ·) b rest) else none

/-- `scipy.spatial.distance.cdist(XA, XB, metric)` -/
def cdist (metric : List K → List K → K) (xa xb : List (List K)) : List (List K) :=
  xa.map (fun a => xb.map (fun b => metric a b))

/-- `distance_as_discrepancy(dist, *summaries, observed=…)`; `dist` maps (n×d, r×d) to an n×k array
    (k = r for a plain metric, k = number of nested distance functions for the adaptive node);
    a result with exactly one column is flattened to shape `(n,)`. -/
def distanceAsDiscrepancy (dist : List (List K) → List (List K) → List (List K))
    (summaries : List (Arr K)) (observed : List (Obs K)) : Except Err (Arr K) :=
  match hcat (summaries.map Arr.rows2d), hcat (observed.map Obs.rows2d) with
  | some s, some o =>
    let d := dist s o
    if d.all (fun r => r.length == 1) then .ok (.vec d.flatten)
    else .ok (.mat d)
  | _, _ => .error .valueError

end

section
variable {K : Type} [Add K] [Sub K] [Mul K] [Div K] [Zero K] [One K] [NatCast K]

/-- Welford store of one summary column: `(N, mean, M2)` (N kept as a scalar like the code does) -/
structure Store (K : Type) where
  cnt : K
  mean : K
  m2 : K
deriving Repr, DecidableEq

def Store.init : Store K := ⟨0, 0, 0⟩

/-- `add_data` for one column as it was before /repo 734a2d7 (deviations of the batch from the OLD mean) — kept
    because the partition-invariance proof was first done for it; `addData_eq_old` relates the two -/
def addDataOld (st : Store K) (batch : List K) : Store K :=
  let n := st.cnt + (batch.length : K)
  let delta1 := batch.map (fun x => x - st.mean)
  let mean' := st.mean + delta1.sum / n
  let delta2 := batch.map (fun x => x - mean')
  let m2' := st.m2 + ((delta1.zip delta2).map (fun p => p.1 * p.2)).sum
  ⟨n, mean', m2'⟩

/-- `add_data` for one column: the batch is merged through its own mean (pairwise update of Chan et al.):
    `δ = mean_b − mean; mean += δ·n_b/N; M2 += Σ(x − mean_b)² + δ²·n_old·n_b/N` -/
def addData (st : Store K) (batch : List K) : Store K :=
  let nb : K := (batch.length : K)
  let n := st.cnt + nb
  let meanB := batch.sum / nb
  let delta := meanB - st.mean
  let mean' := st.mean + delta * nb / n
  let m2' := st.m2 + ((batch.map (fun x => (x - meanB) * (x - meanB))).sum + delta * delta * st.cnt * nb / n)
  ⟨n, mean', m2'⟩

/-- `state['scale']² = M2 / N` (the code stores the square root) -/
def scaleSq (st : Store K) : K := st.m2 / st.cnt

/-- the newest distance after `update_distance`, squared: `cdist(u, v, 'euclidean', w = (1/scale)²)²`
    `= Σ_j w_j² (u_j − v_j)²` with `w_j = 1/scale_j` -/
def weightedEuclidSq (scale : List K) (u v : List K) : K :=
  ((scale.zip (u.zip v)).map (fun p =>
      ((1 / p.1) * (1 / p.1)) * ((p.2.1 - p.2.2) * (p.2.1 - p.2.2)))).sum

/-- Euclidean distance squared of the summaries divided by the scale -/
def scaledEuclidSq (scale : List K) (u v : List K) : K :=
  ((scale.zip (u.zip v)).map (fun p =>
      (p.2.1 / p.1 - p.2.2 / p.1) * (p.2.1 / p.1 - p.2.2 / p.1))).sum

end

/-- `nested_distance`: one column per distance function, in the order they were appended -/
def nestedDistance {K : Type} (fns : List (List K → List K → K)) (u : List (List K)) (v : List K) :
    List (List K) :=
  u.map (fun row => fns.map (fun f => f row v))

/-- `update_distance` appends ONE function and never touches the earlier ones -/
def updateDistance {K : Type} (fns : List (List K → List K → K)) (newest : List K → List K → K) :
    List (List K → List K → K) := fns ++ [newest]

/-- select rows by an index list (`a[mask]`) -/
def gather {α : Type} (l : List α) (mask : List Nat) : List α := mask.filterMap (fun i => l[i]?)

/-- `Rejection._update_distances` on the first `n` rows: `ds` = recomputed newest distances of the
    rows, `mask = argsort(ds)`; returns (discrepancy column, other columns) -/
def updateDistances {κ ρ : Type} (argsort : List κ → List Nat) (newDist : ρ → κ) (rows : List ρ) :
    List κ × List ρ :=
  let ds := rows.map newDist
  let mask := argsort ds
  (gather ds mask, gather rows mask)

/-- the code before the fix `229a882`: the discrepancy column was stored UNSORTED -/
def updateDistancesOld {κ ρ : Type} (argsort : List κ → List Nat) (newDist : ρ → κ) (rows : List ρ) :
    List κ × List ρ :=
  let ds := rows.map newDist
  let mask := argsort ds
  (ds, gather rows mask)

end ElfiVerif.Distance
