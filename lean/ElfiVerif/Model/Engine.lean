import ElfiVerif.Model.Rejection
/-
Model of the batch engine: `ParameterInference.infer / iterate / _allow_submit`
(elfi/methods/inference/parameter_inference.py) on top of `BatchHandler.submit / wait_next /
cancel_pending` (elfi/client.py), with the round switch of SMC (`cancel_pending` inside `update`).

The client and the submission policy are an arbitrary SCHEDULE: a list of actions
(`submit` | `consume`).  `_allow_submit` (base class, BO and model-based variants alike) only ever
decides WHETHER to submit one more batch while `max_parallel_batches` allows it and the inference is
not finished; `is_ready` answers only feed that decision.  Quantifying over all action lists
therefore covers every readiness / completion interleaving and every submission policy.

A sampler is seen through the part `γ` of its state that matters:
  `fin`     — `finished` (objective reached)
  `compute` — the batch that index `i` yields when it is SUBMITTED in state `γ` (SMC draws the
              proposals at submission from the round's generator: a function of the round data and
              of the index)
  `upd`     — consume one batch
  `reset`   — this update ends a round: the sampler calls `cancel_pending` and starts a new round.
Only core Lean + the (import-free) Rejection model.
-/
namespace ElfiVerif.Engine

structure Sampler (γ τ : Type) where
  fin : γ → Bool
  compute : γ → Nat → τ
  upd : γ → Nat → τ → γ
  reset : γ → Nat → τ → Bool

inductive Act | submit | consume
deriving Repr, DecidableEq

/-- observable client events -/
inductive Ev
  | submitted (idx : Nat)        -- client.submit for batch `idx`
  | got (idx : Nat)              -- client.get_result of batch `idx` (the task leaves the client)
  | removed (idx : Nat)          -- client.remove_task of batch `idx` (cancelled)
deriving Repr, DecidableEq

structure Eng (γ τ : Type) where
  core : γ
  consumed : List Nat            -- batch indices consumed so far, oldest first
  next : Nat                     -- BatchHandler._next_batch_index
  pending : List (Nat × τ)       -- BatchHandler._pending_batches (ordered), with the task's result
  trace : List Ev                -- client events so far, oldest first

def Eng.init {γ τ : Type} (c : γ) : Eng γ τ := ⟨c, [], 0, [], []⟩

/-- `cancel_pending`: tasks removed newest first, next index rewound to the oldest cancelled -/
def Eng.cancel {γ τ : Type} (e : Eng γ τ) : Eng γ τ :=
  { e with
    next := match e.pending with | [] => e.next | (i, _) :: _ => i
    pending := []
    trace := e.trace ++ (e.pending.reverse.map (fun p => Ev.removed p.1)) }

/-- one scheduled action; `none` = the engine cannot take it (the real loop never would) -/
def Eng.step {γ τ : Type} (S : Sampler γ τ) (mpb : Nat) (e : Eng γ τ) : Act → Option (Eng γ τ)
  | .submit =>
    -- `_allow_submit`: below the limit and something left to do
    if e.pending.length < mpb ∧ S.fin e.core = false then
      some { e with pending := e.pending ++ [(e.next, S.compute e.core e.next)], next := e.next + 1,
                    trace := e.trace ++ [Ev.submitted e.next] }
    else none
  | .consume =>
    -- `wait_next` pops the OLDEST pending batch, then `update`
    if S.fin e.core then none else
    match e.pending with
    | [] => none
    | (i, t) :: rest =>
      let e' : Eng γ τ := { e with core := S.upd e.core i t, consumed := e.consumed ++ [i], pending := rest,
                                   trace := e.trace ++ [Ev.got i] }
      if S.reset e.core i t then some e'.cancel else some e'

def Eng.run {γ τ : Type} (S : Sampler γ τ) (mpb : Nat) : Eng γ τ → List Act → Option (Eng γ τ)
  | e, [] => some e
  | e, a :: as =>
    match e.step S mpb a with
    | none => none
    | some e' => Eng.run S mpb e' as

/-- `infer`: run the schedule; it must end exactly when `finished` becomes true; then
    `cancel_pending` -/
def infer {γ τ : Type} (S : Sampler γ τ) (mpb : Nat) (c : γ) (sched : List Act) : Option (Eng γ τ) :=
  match Eng.run S mpb (Eng.init c) sched with
  | none => none
  | some e => if S.fin e.core then some e.cancel else none

/-- the sequential reference run: submit one, consume it, … until finished (fuel = max batches) -/
def seqRun {γ τ : Type} (S : Sampler γ τ) : Nat → γ → Nat → Option (γ × Nat)
  | 0, c, k => if S.fin c then some (c, k) else none
  | fuel + 1, c, k => if S.fin c then some (c, k) else seqRun S fuel (S.upd c k (S.compute c k)) (k + 1)

/-- tasks still held by the client according to a trace: submitted and neither fetched nor removed -/
def liveTasks (tr : List Ev) : List Nat :=
  tr.foldl (fun live ev => match ev with
    | .submitted i => live ++ [i]
    | .got i => live.erase i
    | .removed i => live.erase i) []

/-- **Checker for an OBSERVED client event trace** (run by the driver on the real client's log):
    replays the events against the bookkeeping alone — every `got` is the oldest outstanding task
    and continues the index order, at most `mpb` outstanding, `removed` only newest-first, and
    after the last event nothing is outstanding.  Returns the consumed indices on success. -/
def checkTrace (mpb : Nat) : List Ev → List Nat → Nat → List Nat → Option (List Nat)
  -- arguments: remaining events, outstanding (oldest first), next index, consumed so far
  | [], out, _, cons => if out.isEmpty then some cons else none
  | .submitted i :: rest, out, next, cons =>
    if i = next ∧ out.length < mpb then checkTrace mpb rest (out ++ [i]) (next + 1) cons else none
  | .got i :: rest, out, next, cons =>
    match out with
    | j :: out' => if i = j then checkTrace mpb rest out' next (cons ++ [i]) else none
    | [] => none
  | .removed i :: rest, out, next, cons =>
    match out.getLast? with
    | some j => if i = j ∧ i + 1 = next then checkTrace mpb rest out.dropLast i cons else none
    | none => none

/-! ### The rejection sampler as an engine-level sampler -/

open ElfiVerif.Rejection in
/-- state that matters for the rejection sampler: buffer and consumed count (NOT the objective
    counter, which depends on `max_parallel_batches` in threshold mode) -/
structure RCore (κ : Type) where
  buf : List (Slot κ)
  nBatches : Nat

open ElfiVerif.Rejection in
/-- `finished`, recomputed from the core: budget modes compare with the fixed objective; threshold
    mode needs at least one acceptable row and the batch estimate reached -/
def rejFin {κ : Type} [LE κ] [DecidableLE κ] (est : Nat → Nat → Nat → Nat → Nat) (c : Cfg κ) (g : RCore κ) : Bool :=
  match c.thr with
  | none => decide (initObj c ≤ g.nBatches)
  | some t =>
    let nAcc := g.buf.countP (fun s => decide (s.key ≤ t))
    if g.nBatches = 0 then false
    else if nAcc = 0 then false
    else decide (est c.n nAcc (g.nBatches * c.b) c.b ≤ g.nBatches)

open ElfiVerif.Rejection in
def rejSampler {κ : Type} [LE κ] [DecidableLE κ] (sort : List (Slot κ) → List (Slot κ))
    (est : Nat → Nat → Nat → Nat → Nat) (c : Cfg κ) (batch : Nat → List (Slot κ)) :
    Sampler (RCore κ) (List (Slot κ)) where
  fin := rejFin est c
  compute := fun _ i => batch i
  upd := fun g _ t => ⟨mergeBatch sort c.thr g.buf t, g.nBatches + 1⟩
  reset := fun _ _ _ => false

end ElfiVerif.Engine
