/-
Model of the execution order and of the per-batch random stream
(elfi/executor.py `nx_constant_topological_sort`, `Executor.get_execution_order`, `Executor.execute`;
elfi/loader.py `RandomStateLoader`, `PoolLoader`; elfi/model/elfi_model.py `ComputationContext`).

Node names are numbers ordered like the real names (Python string order).  Values and the generator
state are abstract; a stochastic operation maps (inputs, generator state) to (value, new state).
Import-free.
-/
namespace ElfiVerif.Exec

/-! ### the name-sorted depth-first topological sort -/

def insertNat (x : Nat) : List Nat → List Nat
  | [] => [x]
  | y :: ys => if x ≤ y then x :: y :: ys else y :: insertNat x ys

/-- `sorted(…)` -/
def sortNat (l : List Nat) : List Nat := l.foldr insertNat []

structure Graph where
  nodes : List Nat
  edges : List (Nat × Nat)            -- (src, dst), one entry per edge
deriving Repr

/-- `sorted(G[w])` -/
def Graph.succs (g : Graph) (w : Nat) : List Nat := sortNat ((g.edges.filter (fun e => e.1 == w)).map (·.2))

structure Dfs where
  seen : List Nat := []
  explored : List Nat := []
  order : List Nat := []              -- post-order, oldest first
  fringe : List Nat := []             -- stack, TOP FIRST
deriving Repr

inductive StepRes | cont (s : Dfs) | done (s : Dfs) | cycle
deriving Repr

/-- one iteration of `while fringe:` -/
def dfsStep (g : Graph) (s : Dfs) : StepRes :=
  match s.fringe with
  | [] => .done s
  | w :: rest =>
    if s.explored.contains w then .cont { s with fringe := rest }
    else
      let seen := if s.seen.contains w then s.seen else w :: s.seen
      let cand := (g.succs w).filter (fun n => !s.explored.contains n)
      if cand.any (fun n => seen.contains n) then .cycle
      else if cand.isEmpty then
        .cont { s with seen := seen, explored := w :: s.explored, order := s.order ++ [w], fringe := rest }
      else
        -- `fringe.extend(new_nodes)`: the last new node becomes the top of the stack
        .cont { s with seen := seen, fringe := cand.reverse ++ s.fringe }

/-- run the inner loop until the fringe is empty -/
def dfsLoop (g : Graph) : Nat → Dfs → Option Dfs
  | 0, _ => none
  | fuel + 1, s =>
    match dfsStep g s with
    | .done s' => some s'
    | .cycle => none
    | .cont s' => dfsLoop g fuel s'

/-- `nx_constant_topological_sort(G)`: `none` = a cycle was found (or the fuel ran out; fuel
    `2·(|nodes| + |edges|) + 2` per start node always suffices) -/
def constTopo (g : Graph) : Option (List Nat) :=
  let fuel := 2 * (g.nodes.length + g.edges.length) + 2
  let r := (sortNat g.nodes).foldl (fun (acc : Option Dfs) v =>
    match acc with
    | none => none
    | some s => if s.explored.contains v then some s else dfsLoop g fuel { s with fringe := [v] }) (some {})
  r.map (fun s => s.order.reverse)

/-- checker: `order` lists every node exactly once and every edge goes forward -/
def isTopoOrder (g : Graph) (order : List Nat) : Bool :=
  (sortNat order == sortNat g.nodes) && (order.eraseDups.length == order.length) &&
  g.edges.all (fun e => match order.idxOf? e.1, order.idxOf? e.2 with
    | some i, some j => decide (i < j)
    | _, _ => false)

/-- `get_execution_order`: the cached sort order filtered to the nodes that must run -/
def executionOrder (sortOrder : List Nat) (toRun : List Nat) : List Nat :=
  sortOrder.filter (fun n => toRun.contains n)

/-! ### one batch: a single generator threaded through the stochastic nodes in execution order -/

structure ENode where
  name : Nat
  parents : List Nat            -- argument order
  stochastic : Bool
deriving Repr

structure Sem (Val Gen : Type) where
  det : Nat → List Val → Val                    -- deterministic operation of a node
  sto : Nat → List Val → Gen → Val × Gen        -- stochastic operation: draws from the batch generator

variable {Val Gen : Type}

def lookup (env : List (Nat × Val)) (n : Nat) : Option Val := (env.find? (fun p => p.1 == n)).map (·.2)

/-- run the nodes of `order`; a node with a stored value (pool / with_values) does not run and does not
    touch the generator.  `none`: a parent's value is missing. -/
def runOrder (S : Sem Val Gen) (nodes : Nat → Option ENode) (stored : Nat → Option Val) :
    List Nat → List (Nat × Val) → Gen → Option (List (Nat × Val) × Gen)
  | [], env, g => some (env, g)
  | n :: rest, env, g =>
    match stored n with
    | some v => runOrder S nodes stored rest (env ++ [(n, v)]) g
    | none =>
      match nodes n with
      | none => none
      | some x =>
        match x.parents.mapM (lookup env) with
        | none => none
        | some args =>
          if x.stochastic then
            let (v, g') := S.sto n args g
            runOrder S nodes stored rest (env ++ [(n, v)]) g'
          else runOrder S nodes stored rest (env ++ [(n, S.det n args)]) g

/-- the generator of batch `i`: `RandomState(get_sub_seed(seed, i))`, a function of (seed, index) only -/
def batchGen (mk : Nat → Gen) (subSeed : Nat → Nat → Nat) (seed idx : Nat) : Gen := mk (subSeed seed idx)

/-! ### ComputationContext and the pool's context -/

structure PoolCtx where
  batchSize : Nat
  seed : Nat
deriving Repr, DecidableEq

inductive Err | valueError
deriving Repr, DecidableEq

/-- `ComputationContext.__init__(batch_size, seed, pool)`: adopts the pool's batch_size / seed when
    none is given, refuses a different one; a pool without context is stamped with the context's.
    Returns (batch_size, seed, pool context afterwards). `defaultSeed` = the random seed drawn when
    none is given. -/
def makeContext (batchSize seed : Option Nat) (pool : Option (Option PoolCtx)) (defaultSeed : Nat) :
    Except Err (Nat × Nat × Option PoolCtx) :=
  match pool with
  | some (some pc) =>
    match batchSize, seed with
    | some b, _ => if b ≠ pc.batchSize then .error .valueError else
        (match seed with
          | some sd => if sd ≠ pc.seed then .error .valueError else .ok (b, sd, some pc)
          | none => .ok (b, pc.seed, some pc))
    | none, some sd => if sd ≠ pc.seed then .error .valueError else .ok (pc.batchSize, sd, some pc)
    | none, none => .ok (pc.batchSize, pc.seed, some pc)
  | some none =>
    let b := (batchSize.getD 1)
    let b := if b = 0 then 1 else b
    let sd := seed.getD defaultSeed
    .ok (b, sd, some ⟨b, sd⟩)
  | none =>
    let b := (batchSize.getD 1)
    .ok (if b = 0 then 1 else b, seed.getD defaultSeed, none)

/-- `OutputPool.add_batch`: a batch index already held by a store is skipped (first write wins) -/
def addBatch (store : List (Nat × Val)) (idx : Nat) (v : Val) : List (Nat × Val) :=
  if store.any (fun p => p.1 == idx) then store else store ++ [(idx, v)]

end ElfiVerif.Exec
