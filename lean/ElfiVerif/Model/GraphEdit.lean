/-
Model of model editing (elfi/model/graphical_model.py `GraphicalModel.add_node / add_edge /
remove_node / update_node / get_parents / copy`, elfi/model/elfi_model.py `ElfiModel.update_node /
remove_node / parameter_names / copy`, `NodeReference.become`).

Part 1: the graph with its observed dictionary (names are numbers whose order is the Python string
order of the real names — the harness computes the ranks; `priv` = the name starts with `_`).
Part 2: a small heap model of `copy()`: which dictionaries a copy shares with the original.
Import-free.
-/
namespace ElfiVerif.GraphEdit

structure Name where
  id : Nat
  priv : Bool
deriving Repr, DecidableEq

inductive Param
  | pos (i : Nat)        -- positional parameter
  | named (k : Nat)      -- keyword parameter
deriving Repr, DecidableEq

/-- the node's state dictionary (`attr_dict`): what the editing operations move around -/
structure Attr where
  cls : Nat               -- node class
  op : Nat                -- operation token
  parameter : Bool        -- `_parameter` flag
deriving Repr, DecidableEq

structure Edge where
  src : Name
  dst : Name
  param : Param
deriving Repr, DecidableEq

structure Model where
  nodes : List (Name × Attr)            -- in insertion order
  edges : List Edge
  observed : List (Name × Nat)          -- observed data (token) per node name
deriving Repr, DecidableEq

def Model.empty : Model := ⟨[], [], []⟩

def Model.has (m : Model) (n : Name) : Bool := m.nodes.any (fun p => p.1 == n)

def Model.attr (m : Model) (n : Name) : Option Attr := (m.nodes.find? (fun p => p.1 == n)).map (·.2)

def Model.degree (m : Model) (n : Name) : Nat := (m.edges.filter (fun e => e.src == n || e.dst == n)).length

/-- insertion of a number into an ascending list -/
def insertSorted (x : Nat × Name) : List (Nat × Name) → List (Nat × Name)
  | [] => [x]
  | y :: ys => if x.1 ≤ y.1 then x :: y :: ys else y :: insertSorted x ys

/-- `get_parents`: the POSITIONAL parents, sorted by position -/
def Model.parents (m : Model) (n : Name) : List Name :=
  ((m.edges.filterMap (fun e => if e.dst == n then (match e.param with | .pos i => some (i, e.src) | .named _ => none) else none)).foldr
    insertSorted []).map (·.2)

inductive Err | valueError
deriving Repr, DecidableEq

/-- `add_node` -/
def Model.addNode (m : Model) (n : Name) (a : Attr) : Except Err Model :=
  if m.has n then .error .valueError else .ok { m with nodes := m.nodes ++ [(n, a)] }

/-- `add_edge(parent, child, param_name)`; `none` = next positional index -/
def Model.addEdge (m : Model) (p c : Name) (param : Option Param) : Except Err Model :=
  if !m.has p || !m.has c then .error .valueError
  else
    let prm := param.getD (Param.pos (m.parents c).length)
    -- networkx keeps one edge per (src, dst): a second add overwrites the parameter
    .ok { m with edges := (m.edges.filter (fun e => !(e.src == p && e.dst == c))) ++ [⟨p, c, prm⟩] }

/-- graph-level removal of ONE node with its incident edges and its observed entry -/
def Model.dropNode (m : Model) (n : Name) : Model :=
  { nodes := m.nodes.filter (fun p => !(p.1 == n))
    edges := m.edges.filter (fun e => !(e.src == n || e.dst == n))
    observed := m.observed.filter (fun p => !(p.1 == n)) }

/-- `ElfiModel.remove_node`: the node goes with its observed data and with every positional parent that
    is private (`_`-name) and left without any edge, recursively (`fuel` bounds the recursion depth:
    the number of nodes always suffices) -/
def Model.removeNode : Nat → Model → Name → Model
  | 0, m, n => m.dropNode n
  | fuel + 1, m, n =>
    let ps := m.parents n
    let m1 := m.dropNode n
    ps.foldl (fun acc p => if p.priv && acc.has p && acc.degree p == 0 then Model.removeNode fuel acc p else acc) m1

/-- is there a path `a → … → b` (one or more edges)?  Depth-bounded search, `fuel` = number of nodes. -/
def Model.reach (m : Model) : Nat → Name → Name → Bool
  | 0, _, _ => false
  | fuel + 1, a, b =>
    m.edges.any (fun e => e.src == a && (e.dst == b || m.reach fuel e.dst b))

/-- `ElfiModel.update_node(name, updating_name)` = `NodeReference.become`: `node` keeps its children,
    takes over state, parents and observed data of `upd`; `upd` disappears.  (After fix: refused with
    ValueError when `upd` depends on `node`, which would create a cycle.) -/
def Model.updateNode (m : Model) (node upd : Name) : Except Err Model :=
  if !m.has node || !m.has upd || node == upd then .error .valueError
  else if m.reach m.nodes.length node upd then .error .valueError
  else
    match m.attr upd with
    | none => .error .valueError
    | some a =>
      let obs := m.observed.find? (fun p => p.1 == upd)
      let m0 := { m with observed := m.observed.filter (fun p => !(p.1 == upd)) }
      let outEdges := m0.edges.filter (fun e => e.src == node)
      let m1 := m0.removeNode m0.nodes.length node
      let m2 : Model := { m1 with nodes := m1.nodes ++ [(node, a)]
                                  edges := m1.edges ++ outEdges.filter (fun e => m1.has e.dst) }
      let inEdges := m2.edges.filter (fun e => e.dst == upd)
      let m3 : Model := { m2 with edges := m2.edges ++ inEdges.map (fun e => ⟨e.src, node, e.param⟩) }
      let m4 := m3.removeNode m3.nodes.length upd
      .ok (match obs with
        | some o => { m4 with observed := m4.observed ++ [(node, o.2)] }
        | none => m4)

/-- `parameter_names`: the names carrying the `_parameter` flag, sorted -/
def Model.parameterNames (m : Model) : List Nat :=
  ((m.nodes.filter (fun p => p.2.parameter)).map (fun p => (p.1.id, p.1))).foldr insertSorted [] |>.map (·.1)

/-! ### Part 2: what `copy()` shares -/

/-- heap of mutable dictionaries: `attr r` = content of the state dictionary at reference `r` (we track
    the parameter flag), `obs r` = the observed dictionary at reference `r` -/
structure Heap where
  attr : List (Nat × Bool)
  obs : List (Nat × List (Nat × Nat))
  next : Nat                              -- next fresh reference
deriving Repr, DecidableEq

/-- a model object: which reference each node's state dictionary is, and its observed dictionary -/
structure Handle where
  nodeRef : List (Nat × Nat)             -- node ↦ reference of its attr_dict
  obsRef : Nat
deriving Repr, DecidableEq

def lookupD {β : Type} (l : List (Nat × β)) (k : Nat) (d : β) : β := ((l.find? (fun p => p.1 == k)).map (·.2)).getD d
def update {β : Type} (l : List (Nat × β)) (k : Nat) (v : β) : List (Nat × β) :=
  (l.filter (fun p => !(p.1 == k))) ++ [(k, v)]

/-- what a user sees of a model: parameter flag per node and the observed dictionary (sorted views are
    taken by the harness; here the raw association lists are compared through lookups) -/
def Heap.flag (h : Heap) (m : Handle) (node : Nat) : Bool := lookupD h.attr (lookupD m.nodeRef node 0) false
def Heap.observed (h : Heap) (m : Handle) : List (Nat × Nat) := lookupD h.obs m.obsRef []

inductive CopyOp
  | setFlag (node : Nat) (v : Bool)        -- e.g. `copy.parameter_names = …`, `copy[node].uses_meta = …`
  | setObserved (node : Nat) (d : Nat)     -- `copy.observed[node] = d`
  | delObserved (node : Nat)               -- `copy.remove_node(node)` pops the observed entry
deriving Repr, DecidableEq

def Heap.apply (h : Heap) (m : Handle) : CopyOp → Heap
  | .setFlag node v => { h with attr := update h.attr (lookupD m.nodeRef node 0) v }
  | .setObserved node d => { h with obs := update h.obs m.obsRef (update (lookupD h.obs m.obsRef []) node d) }
  | .delObserved node =>
    { h with obs := update h.obs m.obsRef ((lookupD h.obs m.obsRef []).filter (fun p => !(p.1 == node))) }

/-- `copy()` BEFORE the fix: new top-level containers, the SAME state dictionaries and the same
    observed dictionary -/
def copyShallow (h : Heap) (m : Handle) : Heap × Handle := (h, m)

/-- allocate fresh references for a list of nodes, copying the contents -/
def freshRefs (h : Heap) : List (Nat × Nat) → Heap × List (Nat × Nat)
  | [] => (h, [])
  | (node, r) :: rest =>
    let h1 : Heap := { h with attr := h.attr ++ [(h.next, lookupD h.attr r false)], next := h.next + 1 }
    let (h2, refs) := freshRefs h1 rest
    (h2, (node, h.next) :: refs)

/-- `copy()` AFTER the fix: every node gets its own copy of the state dictionary and the model its own
    observed dictionary -/
def copyOwn (h : Heap) (m : Handle) : Heap × Handle :=
  let (h1, refs) := freshRefs h m.nodeRef
  let h2 : Heap := { h1 with obs := h1.obs ++ [(h1.next, lookupD h1.obs m.obsRef [])], next := h1.next + 1 }
  (h2, ⟨refs, h1.next⟩)

end ElfiVerif.GraphEdit
