/-
Model of elfi/methods/mcmc.py: `metropolis` and the tree building of `nuts`
(`_build_tree_nuts` and the doubling loop of one NUTS transition).

Everything numeric is a parameter: the state space, the proposal map, the log-target with its
`isinf` / `isnan` tests, the comparison `exp(cur − prev) < u`, the leapfrog map, the slice tests and
the U-turn test.  Randomness is an explicit stream.  Import-free.
-/
namespace ElfiVerif.Mcmc

/-! ### Metropolis -/

structure MTarget (α ζ U T : Type) where
  prop : α → ζ → α                 -- `x + sigma_proposals * z`
  lt : α → T                       -- `target(x)`
  isInf : T → Bool                 -- `np.isinf`
  isNan : T → Bool                 -- `np.isnan`
  ratioLt : T → T → U → Bool       -- `np.exp(cur - prev) < u`

variable {α ζ U T : Type}

/-- one iteration of the loop: propose, draw the uniform (ALWAYS consumed: it is the first operand of
    the `or`), reject on ratio / inf / nan -/
def metroStep (M : MTarget α ζ U T) (st : α × T) (zu : ζ × U) : α × T :=
  let x' := M.prop st.1 zu.1
  let t' := M.lt x'
  if M.ratioLt t' st.2 zu.2 || M.isInf t' || M.isNan t' then st else (x', t')

/-- all states `samples[0], samples[1], …` (with their cached log-target) from state `st` on -/
def metroStates (M : MTarget α ζ U T) (st : α × T) : List (ζ × U) → List (α × T)
  | [] => [st]
  | zu :: rest => st :: metroStates M (metroStep M st zu) rest

def metroChain (M : MTarget α ζ U T) (x0 : α) (draws : List (ζ × U)) : List (α × T) :=
  metroStates M (x0, M.lt x0) draws

inductive Err | badInit
deriving Repr, DecidableEq

/-- `metropolis(n_samples, params0, target, sigma, warmup, seed)`: `draws` are the first
    `n_samples + warmup` (normal, uniform) pairs of the seed's stream -/
def metropolis (M : MTarget α ζ U T) (nSamples warmup : Nat) (x0 : α) (draws : List (ζ × U)) :
    Except Err (List α) :=
  if M.isInf (M.lt x0) then .error .badInit
  else .ok (((metroChain M x0 (draws.take (nSamples + warmup))).drop (1 + warmup)).map (·.1))

/-! ### NUTS tree building -/

/-- what the numeric code provides; `σ` = (params, momentum) phase-space points, `S` = slice variable -/
structure NTarget (σ S U : Type) where
  leap : σ → Bool → σ                -- one leapfrog step; `true` = forward (`step > 0`)
  sliceLe : S → σ → Bool             -- `log_slicevar <= log_joint(point)`
  noDiverge : S → σ → Bool           -- `log_slicevar < 1000 + log_joint(point)`
  uturnOk : σ → σ → Bool             -- both inner products of the U-turn test are `>= 0` for (left, right)
  acceptSub : Nat → Nat → U → Bool   -- `n_sub2 / (n_sub + n_sub2) > u`
  acceptTop : Nat → Nat → U → Bool   -- `u < n_sub / n_ok`

structure Tree (σ : Type) where
  left : σ
  right : σ
  prop : σ              -- `params1`: the sub-tree's proposal
  nOk : Nat             -- `n_sub`
  subOk : Bool
deriving Repr

variable {σ S : Type}

/-- `_build_tree_nuts(point, log_slicevar, step, depth, …)` with a stream of uniforms threaded
    through (`us`: remaining draws; a missing draw reads as `dflt`) -/
def buildTree (N : NTarget σ S U) (dflt : U) (sl : S) (fwd : Bool) :
    Nat → σ → List U → Tree σ × List U
  | 0, pt, us =>
    let p1 := N.leap pt fwd
    (⟨p1, p1, p1, if N.sliceLe sl p1 then 1 else 0, N.noDiverge sl p1⟩, us)
  | d + 1, pt, us =>
    let (t1, us1) := buildTree N dflt sl fwd d pt us
    if t1.subOk then
      -- second half starts from the outer edge of the first
      let (t2, us2) := buildTree N dflt sl fwd d (if fwd then t1.right else t1.left) us1
      let left := if fwd then t1.left else t2.left
      let right := if fwd then t2.right else t1.right
      -- the uniform is drawn only when the second half has acceptable leaves
      let (prop, us3) :=
        if t2.nOk > 0 then
          let u := us2.headD dflt
          (if N.acceptSub t1.nOk t2.nOk u then t2.prop else t1.prop, us2.tail)
        else (t1.prop, us2)
      (⟨left, right, prop, t1.nOk + t2.nOk, t2.subOk && N.uturnOk left right⟩, us3)
    else (t1, us1)

/-- one NUTS transition (the `while all_ok and depth <= max_depth` loop): `dirs` are the direction
    draws (`true` = forward), `us` the other uniforms; returns the new sample -/
def nutsTransition (N : NTarget σ S U) (dflt : U) (sl : S) (maxDepth : Nat) (start : σ) :
    Nat → Nat → σ → σ → σ → Nat → List Bool → List U → σ
  -- fuel, depth, left, right, current sample, n_ok, direction draws, uniforms
  | 0, _, _, _, cur, _, _, _ => cur
  | fuel + 1, depth, left, right, cur, nOk, dirs, us =>
    if depth > maxDepth then cur else
    let fwd := dirs.headD true
    let (t, us1) := buildTree N dflt sl fwd depth (if fwd then right else left) us
    let left' := if fwd then left else t.left
    let right' := if fwd then t.right else right
    let (cur', us2) :=
      if t.subOk then
        let u := us1.headD dflt
        (if N.acceptTop t.nOk nOk u then t.prop else cur, us1.tail)
      else (cur, us1)
    let allOk := t.subOk && N.uturnOk left' right'
    if allOk then nutsTransition N dflt sl maxDepth start fuel (depth + 1) left' right' cur' (nOk + t.nOk) dirs.tail us2
    else cur'

end ElfiVerif.Mcmc
