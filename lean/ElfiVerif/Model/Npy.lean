/-
Model of the on-disk array stores of elfi/store.py: `NpyArray` (append / __setitem__ / truncate /
clear / flush / close / reopen / pickle) and `NpyStore` on top of it (batch indexing).

Two levels:
  * every high-level operation is the list of LOW-LEVEL FILE STEPS the code issues, in program order
    (`Step`), applied to an abstract `Disk` (rows the on-disk header claims + rows physically present);
  * `npLoad` is numpy's reader.
Python buffers `write`s, but every write in store.py is preceded by a `seek` (which flushes the
previous one), so at a kill the file is in the state after SOME prefix of the steps: crash safety is
a statement about all step prefixes.  A row's content is a token (`Nat`); `0` is the zero fill that
`ftruncate` / a fresh memmap produce.  Import-free.
-/
namespace ElfiVerif.Npy

abbrev Row := Nat

inductive Step
  | magic                                   -- write@0 of the 12 magic/length bytes (first append)
  | hdr (rows : Nat)                        -- write@12 of a header that claims `rows` rows
  | data (pos : Nat) (rows : List Row)      -- write of complete rows at row offset `pos`
  | trunc (rows : Nat)                      -- ftruncate to `rows` rows (extends with zeros if longer)
  | mmOpen (rows : Nat)                     -- np.memmap creation for `rows` rows: zero-extends a short file
  | mmStore (pos : Nat) (rows : List Row)   -- store through the MAP_SHARED memmap
  | sync                                    -- fs.flush()
deriving Repr, DecidableEq

structure Disk where
  hdr : Option Nat          -- `none`: no loadable header on disk yet
  data : List Row
deriving Repr, DecidableEq

def Disk.empty : Disk := ⟨none, []⟩

def padTo (l : List Row) (n : Nat) : List Row := l ++ List.replicate (n - l.length) 0

/-- write `rows` at offset `pos` (zero fill if `pos` is past the end) -/
def writeAt (l : List Row) (pos : Nat) (rows : List Row) : List Row :=
  (padTo l pos).take pos ++ rows ++ l.drop (pos + rows.length)

def Disk.apply (d : Disk) : Step → Disk
  | .magic => d
  | .hdr r => { d with hdr := some r }
  | .data pos rows => { d with data := writeAt d.data pos rows }
  | .trunc r => { d with data := (padTo d.data r).take r }
  | .mmOpen r => { d with data := padTo d.data r }
  | .mmStore pos rows => { d with data := writeAt d.data pos rows }
  | .sync => d

def Disk.applyAll (d : Disk) (steps : List Step) : Disk := steps.foldl Disk.apply d

/-- `numpy.load`: the first `hdr` rows; fails without a header or when fewer rows are present -/
def npLoad (d : Disk) : Option (List Row) :=
  match d.hdr with
  | none => none
  | some r => if r ≤ d.data.length then some (d.data.take r) else none

/-- the `NpyArray` object -/
structure Arr where
  initialized : Bool := false     -- header_length is set (file has a header)
  rows : Nat := 0                 -- shape[0]
  pending : Bool := false         -- a prepared header (for the current `rows`) awaits writing
  mm : Bool := false              -- `_memmap` is valid
  closed : Bool := false
deriving Repr, DecidableEq

inductive Err | valueError | indexError
deriving Repr, DecidableEq

/-- `_write_header_data` -/
def Arr.writeHeader (a : Arr) : List Step × Arr :=
  if a.pending then ([.hdr a.rows], { a with pending := false }) else ([], a)

/-- `flush` -/
def Arr.flush (a : Arr) : Except Err (List Step × Arr) :=
  let (s, a') := a.writeHeader
  if a.closed then .error .valueError else .ok (s ++ [.sync], a')

/-- `append(array)` with `k = len(array)` rows -/
def Arr.append (a : Arr) (rows : List Row) : Except Err (List Step × Arr) :=
  if a.closed then .error .valueError
  else
    let (s0, a0) : List Step × Arr :=
      if a.initialized then ([], a) else ([.magic, .hdr 0], { a with initialized := true, rows := 0 })
    .ok (s0 ++ [.data a0.rows rows], { a0 with rows := a0.rows + rows.length, pending := true, mm := false })

/-- access to `self.memmap` -/
def Arr.memmap (a : Arr) : Except Err (List Step × Arr) :=
  if a.closed || !a.initialized then .error .indexError
  else if a.mm then .ok ([], a) else .ok ([.mmOpen a.rows], { a with mm := true })

/-- `arr[pos : pos+len] = rows` (after fix 8541f7b: a pending header is flushed first) -/
def Arr.setRows (a : Arr) (pos : Nat) (rows : List Row) : Except Err (List Step × Arr) :=
  match (if a.pending then a.flush else .ok ([], a)) with
  | .error e => .error e
  | .ok (s1, a1) =>
    match a1.memmap with
    | .error e => .error e
    | .ok (s2, a2) => .ok (s1 ++ s2 ++ [.mmStore pos rows], a2)

/-- `truncate(length)` (after fix 2aa5c2e: header written and flushed BEFORE the file shrinks) -/
def Arr.truncate (a : Arr) (length : Nat) : Except Err (List Step × Arr) :=
  if a.closed || !a.initialized then .error .valueError
  else .ok ([.hdr length, .sync, .trunc length], { a with rows := length, pending := false, mm := false })

/-- the step order BEFORE fix 2aa5c2e: file truncated first, header only prepared -/
def Arr.truncateOld (a : Arr) (length : Nat) : Except Err (List Step × Arr) :=
  if a.closed || !a.initialized then .error .valueError
  else .ok ([.trunc length], { a with rows := length, pending := true, mm := false })

/-- `arr[...] = rows` BEFORE fix 8541f7b: no flush of a pending header -/
def Arr.setRowsOld (a : Arr) (pos : Nat) (rows : List Row) : Except Err (List Step × Arr) :=
  match a.memmap with
  | .error e => .error e
  | .ok (s2, a2) => .ok (s2 ++ [.mmStore pos rows], a2)

/-- `close()` -/
def Arr.close (a : Arr) : List Step × Arr :=
  if a.closed || !a.initialized then ([], a)
  else
    let (s, a') := a.writeHeader
    (s ++ [.sync], { a' with closed := true, mm := false })

/-- `NpyArray(filename)` on an existing file: state read from the on-disk header.  A file without a header is, at
    the points where the model reopens (between complete operations), a file that was created and never written:
    it is EMPTY, and (after fix: an existing empty file is a new array) gives a fresh uninitialised array -/
def Arr.open (d : Disk) : Except Err Arr :=
  match d.hdr with
  | none => .ok {}
  | some r => .ok { initialized := true, rows := r }

/-- the `NpyStore` object -/
structure Store where
  arr : Arr := {}
  b : Nat                    -- batch_size
  nBatches : Nat := 0
deriving Repr, DecidableEq

inductive Op
  | set (i : Nat) (batch : List Row)     -- store[i] = batch   (batch has b rows)
  | del (i : Nat)                        -- del store[i]
  | clear
  | flush
  | close
  | reopen                               -- close, then NpyStore(filename, b)
  | reopenN (n : Nat)                    -- close, then NpyStore(filename, b, n_batches = n)
  | pickle                               -- pickle.loads(pickle.dumps(store)); the copy is used from then on
deriving Repr, DecidableEq

/-- one high-level operation: the exception it raises (if any), the steps it issues and the new
    object state (an operation can change state and still raise: `del` on a closed store, a failed
    reopen).  `old` selects the pre-fix step orders (used for the counter-examples only). -/
def Store.step (old : Bool) (s : Store) (d : Disk) : Op → Option Err × List Step × Store
  | .set i batch =>
    if i = s.nBatches ∧ i * s.b = s.arr.rows then
      match s.arr.append batch with
      | .error e => (some e, [], s)
      | .ok (st, a) => (none, st, { s with arr := a, nBatches := s.nBatches + 1 })
    else if i > s.nBatches then (some .indexError, [], s)
    else if (i + 1) * s.b > s.arr.rows then (some .indexError, [], s)
    else
      match (if old then s.arr.setRowsOld (i * s.b) batch else s.arr.setRows (i * s.b) batch) with
      | .error e => (some e, [], s)
      | .ok (st, a) =>
        (none, st, { s with arr := a, nBatches := if i = s.nBatches then s.nBatches + 1 else s.nBatches })
  | .del i =>
    if i ≥ s.nBatches then (some .indexError, [], s)
    else if i ≠ s.nBatches - 1 then (some .indexError, [], s)
    else
      -- n_batches is decremented BEFORE the array is truncated (and stays so if truncate raises)
      match (if old then s.arr.truncateOld (i * s.b) else s.arr.truncate (i * s.b)) with
      | .error e => (some e, [], { s with nBatches := s.nBatches - 1 })
      | .ok (st, a) => (none, st, { s with arr := a, nBatches := s.nBatches - 1 })
  | .clear =>
    match (if old then s.arr.truncateOld 0 else s.arr.truncate 0) with
    | .error e => (some e, [], s)
    | .ok (st, a) => (none, st, { s with arr := a, nBatches := 0 })
  | .flush =>
    match s.arr.flush with
    | .error e => (some e, [], s)
    | .ok (st, a) => (none, st, { s with arr := a })
  | .close =>
    let (st, a) := s.arr.close
    (none, st, { s with arr := a })
  | .reopen =>
    let (st, a0) := s.arr.close
    match Arr.open (d.applyAll st) with
    | .error e => (some e, st, { s with arr := a0 })
    | .ok a => (none, st, { arr := a, b := s.b, nBatches := a.rows / s.b })
  | .reopenN n =>
    let (st, a0) := s.arr.close
    match Arr.open (d.applyAll st) with
    | .error e => (some e, st, { s with arr := a0 })
    | .ok a => (none, st, { arr := a, b := s.b, nBatches := n })
  | .pickle =>
    -- __getstate__ flushes an open array; __setstate__ opens the file again
    let r : Except Err (List Step × Arr) := if s.arr.closed then .ok ([], s.arr) else s.arr.flush
    match r with
    | .error e => (some e, [], s)
    | .ok (st, a0) =>
      match Arr.open (d.applyAll st) with
      | .error e => (some e, st, { s with arr := a0 })
      | .ok a => (none, st, { arr := a, b := s.b, nBatches := s.nBatches })

/-- **The reference semantics: a plain in-memory sequence of batches.**  `avail` are the batches the
    store exposes; `hidden` are further batches that exist in the file but were not made available
    (only after `reopenN n` with `n` smaller than what the file holds; writing at index `len`
    then overwrites the first hidden batch, deleting drops them).  No disk, no steps. -/
structure Spec where
  avail : List (List Row) := []
  hidden : List (List Row) := []
deriving Repr, DecidableEq

def Spec.all (sp : Spec) : List (List Row) := sp.avail ++ sp.hidden

/-- the rows a standard reader sees in the file -/
def Spec.rows (sp : Spec) : List Row := sp.all.flatten

/-- one operation of the reference semantics.  `init` = the store has ever been written (a
    documented quirk of the real store: `clear` on a never-written store raises; reopening / unpickling a
    never-written store gives an empty store). -/
def specStep (sp : Spec) (init : Bool) : Op → Except Err Spec
  | .set i batch =>
    if i < sp.avail.length then .ok { sp with avail := sp.avail.set i batch }
    else if i = sp.avail.length then .ok { avail := sp.avail ++ [batch], hidden := sp.hidden.drop 1 }
    else .error .indexError
  | .del i =>
    if i + 1 = sp.avail.length then .ok { avail := sp.avail.dropLast, hidden := [] } else .error .indexError
  | .clear => if init then .ok {} else .error .valueError
  | .reopenN n => .ok { avail := sp.all.take n, hidden := sp.all.drop n }
  | .reopen => .ok { avail := sp.all, hidden := [] }
  | .pickle => .ok sp
  | .flush | .close => .ok sp

/-- run a history.  Returns per operation the outcome (`none` = ok) and the steps issued, plus the
    final state. -/
def runOps (old : Bool) : Store → Disk → List Op → List (Option Err × List Step) × Store × Disk
  | s, d, [] => ([], s, d)
  | s, d, op :: ops =>
    let (e, st, s1) := s.step old d op
    let (r, s', d') := runOps old s1 (d.applyAll st) ops
    ((e, st) :: r, s', d')

/-- what the store reports: its batches read back through the array (disk data, first `rows` rows) -/
def Store.content (s : Store) (d : Disk) : List (List Row) :=
  (List.range s.nBatches).map (fun i => ((d.data.take s.arr.rows).drop (i * s.b)).take s.b)

end ElfiVerif.Npy
