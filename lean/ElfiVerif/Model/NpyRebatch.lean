import ElfiVerif.Model.Npy
/-
Re-batching: an existing .npy file opened as `NpyStore(filename, b)` with a batch size `b` OTHER than the one it
was written with (elfi/store.py `ArrayStore.__init__`: `n_batches = len(array) // batch_size`, with a logged
warning when the division leaves a remainder).  The file's row count need not be a multiple of `b`: the trailing
`rows % b` rows fill no batch.  While they are there
  * `store[n_batches] = batch` is REFUSED (`NpyStore.__setitem__` appends only when the slice starts at the end of
    the array; `ArrayStore.__setitem__` then finds `sl.stop > len(array)`): IndexError, nothing written;
  * `store[i] = batch`, `i < n_batches`, overwrites rows `i*b … (i+1)*b` in place, the trailing rows stay;
  * `del store[n_batches-1]` truncates the file to `(n_batches-1)*b` rows: the trailing rows go with the batch,
    and from then on the store is an ordinary aligned store (`Model/Npy.lean`'s list semantics applies).
-/
namespace ElfiVerif.Npy

/-- `NpyStore(filename, b)` on an existing file -/
def Store.openB (d : Disk) (b : Nat) : Except Err Store :=
  match Arr.open d with
  | .error e => .error e
  | .ok a => .ok { arr := a, b := b, nBatches := a.rows / b }

/-- the complete batches of `b` rows that a row sequence holds -/
def chunks (b : Nat) (rows : List Row) : List (List Row) :=
  (List.range (rows.length / b)).map (fun i => (rows.drop (i * b)).take b)

/-- the trailing rows that fill no batch -/
def tailRows (b : Nat) (rows : List Row) : List Row := rows.drop (rows.length / b * b)

/-- reference semantics of one operation WHILE TRAILING ROWS ARE PRESENT, on the plain list of exposed batches:
    the new list and whether the trailing rows are still there.  (`close` / `reopen` / `pickle` are not part of
    these histories: reopening with the same sizes gives the same view again, `rebatch_view`.) -/
def specStepT (avail : List (List Row)) : Op → Except Err (List (List Row) × Bool)
  | .set i batch => if i < avail.length then .ok (avail.set i batch, true) else .error .indexError
  | .del i => if i + 1 = avail.length then .ok (avail.dropLast, false) else .error .indexError
  | .clear => .ok ([], false)
  | _ => .ok (avail, true)

/-- a history over a re-batched store: `specStepT` while the trailing rows are there, `specStep` afterwards.
    Per operation: rejected?, the batches exposed afterwards. -/
def specRunT (avail : List (List Row)) (tail : Bool) : List Op → List (Bool × List (List Row))
  | [] => []
  | op :: ops =>
    if tail then
      match specStepT avail op with
      | .error _ => (true, avail) :: specRunT avail true ops
      | .ok (av, t) => (false, av) :: specRunT av t ops
    else
      match specStep { avail := avail } true op with
      | .error _ => (true, avail) :: specRunT avail false ops
      | .ok sp => (false, sp.avail) :: specRunT sp.avail false ops

/-- what the store reports along a history: rejected?, `[store[i] for i in range(len(store))]` -/
def reportRunB : Store → Disk → List Op → List (Bool × List (List Row))
  | _, _, [] => []
  | s, d, op :: ops =>
    let (e, st, s1) := s.step false d op
    let d1 := d.applyAll st
    (e.isSome, s1.content d1) :: reportRunB s1 d1 ops

/-- operations of the re-batching histories: whole batches of `b` rows; set / del / clear / flush -/
def opT (b : Nat) : Op → Bool
  | .set _ batch => batch.length == b
  | .del _ | .clear | .flush => true
  | _ => false

end ElfiVerif.Npy
