/-
Model of the life cycle of an output pool (elfi/store.py `OutputPool`: `add_batch / get_batch / remove_batch /
add_store / remove_store / clear / __len__ / __contains__ / save / open`), the object and its directory on disk.

A store is the association list batch index ↦ value it holds (`dict`, or an `NpyStore` seen through its batches);
`none` in the stores dictionary is a store that has not been made yet (`dict.fromkeys(outputs)`).  `save` pickles
every store into `<node>.pkl` and the pool itself, with its stores replaced by `None`, into the pool pickle; `open`
unpickles the pool and then every store NAMED IN THE POOL PICKLE.  Files of stores removed earlier stay in the
directory (nothing deletes them).  pickle itself is trusted (a store file holds the store's content).  Import-free.
-/
namespace ElfiVerif.Pool

abbrev StoreC (Val : Type) := List (Nat × Val)

def lookupI {Val : Type} (s : StoreC Val) (i : Nat) : Option Val := (s.find? (·.1 == i)).map (·.2)

structure Pool (Val : Type) where
  stores : List (String × Option (StoreC Val)) := []   -- the `stores` dict, insertion order
  ctx : Option (Nat × Nat) := none                     -- (batch_size, seed)
deriving Repr, DecidableEq

/-- the pool's directory -/
structure Dir (Val : Type) where
  poolPkl : Option (List String × Option (Nat × Nat)) := none    -- names (stores as None) and context
  files : List (String × Option (StoreC Val)) := []              -- `<node>.pkl`
deriving Repr, DecidableEq

inductive Err | valueError | keyError | attributeError
deriving Repr, DecidableEq

variable {Val : Type}

def getStore (p : Pool Val) (node : String) : Option (Option (StoreC Val)) :=
  (p.stores.find? (·.1 == node)).map (·.2)

def setStore (l : List (String × Option (StoreC Val))) (node : String) (s : Option (StoreC Val)) :
    List (String × Option (StoreC Val)) :=
  l.map (fun e => if e.1 == node then (e.1, s) else e)

/-- `add_batch(batch, batch_index)`: for the nodes the pool has a store entry for; a batch index a store already
    holds is NOT written again -/
def addBatch (p : Pool Val) (batch : List (String × Val)) (idx : Nat) : Pool Val :=
  batch.foldl (fun p nv =>
    match getStore p nv.1 with
    | none => p                                            -- `node not in self.stores`
    | some st =>
      let s := st.getD []                                  -- `_get_store_for`: made on first use
      if (lookupI s idx).isSome then { p with stores := setStore p.stores nv.1 (some s) }
      else { p with stores := setStore p.stores nv.1 (some (s ++ [(idx, nv.2)])) }) p

/-- `get_batch(batch_index)` over all stores -/
def getBatch (p : Pool Val) (idx : Nat) : List (String × Val) :=
  p.stores.filterMap (fun e => match e.2 with
    | none => none
    | some s => (lookupI s idx).map (fun v => (e.1, v)))

/-- the loop of `remove_batch` / `clear` over the stores in dictionary order: it stops (raising) at the first `None`
    store, the stores before it have already been changed -/
def mapUntilNone (f : StoreC Val → StoreC Val) :
    List (String × Option (StoreC Val)) → List (String × Option (StoreC Val)) × Bool
  | [] => ([], false)
  | (n, none) :: rest => ((n, none) :: rest, true)
  | (n, some s) :: rest => let r := mapUntilNone f rest; ((n, some (f s)) :: r.1, r.2)

/-- `remove_batch` (a `None` store raises: `batch_index in None`) -/
def removeBatch (p : Pool Val) (idx : Nat) : Option Err × Pool Val :=
  let r := mapUntilNone (fun s => s.filter (·.1 != idx)) p.stores
  (if r.2 then some .attributeError else none, { p with stores := r.1 })

/-- `add_store(node)` with a fresh default store -/
def addStore (p : Pool Val) (node : String) : Except Err (Pool Val) :=
  match getStore p node with
  | some (some _) => .error .valueError
  | some none => .ok { p with stores := setStore p.stores node (some []) }
  | none => .ok { p with stores := p.stores ++ [(node, some [])] }

/-- `remove_store(node)` -/
def removeStore (p : Pool Val) (node : String) : Except Err (Pool Val) :=
  match getStore p node with
  | none => .error .keyError
  | some _ => .ok { p with stores := p.stores.filter (·.1 != node) }

/-- `clear()` (a `None` store raises) -/
def clear (p : Pool Val) : Option Err × Pool Val :=
  let r := mapUntilNone (fun _ => []) p.stores
  (if r.2 then some .attributeError else none, { p with stores := r.1 })

/-- `len(pool)`: the largest number of batches any store holds -/
def len (p : Pool Val) : Nat :=
  p.stores.foldl (fun m e => max m (match e.2 with | none => 0 | some s => s.length)) 0

/-- `batch_index in pool` -/
def contains (p : Pool Val) (idx : Nat) : Bool := decide (idx < len p)

def writeFile (files : List (String × Option (StoreC Val))) (node : String) (s : Option (StoreC Val)) :
    List (String × Option (StoreC Val)) :=
  if files.any (·.1 == node) then files.map (fun e => if e.1 == node then (node, s) else e)
  else files ++ [(node, s)]

/-- `save()`: every store into its file, then the pool pickle; the live object is left as it was -/
def save (p : Pool Val) (d : Dir Val) : Except Err (Dir Val) :=
  match p.ctx with
  | none => .error .valueError
  | some _ =>
    .ok { poolPkl := some (p.stores.map (·.1), p.ctx),
          files := p.stores.foldl (fun fs e => writeFile fs e.1 e.2) d.files }

/-- `OutputPool.open(name)`: the names of the pool pickle, each with the content of its file (a name whose file
    cannot be read is dropped) -/
def openDir (d : Dir Val) : Option (Pool Val) :=
  match d.poolPkl with
  | none => none
  | some (names, ctx) =>
    some { stores := names.filterMap (fun n => (d.files.find? (·.1 == n)).map (fun e => (n, e.2))), ctx := ctx }

/-- a run that consumes batches `start, start+1, …` hands each to `add_batch` -/
def fillFrom (p : Pool Val) (start : Nat) : List (List (String × Val)) → Pool Val
  | [] => p
  | b :: bs => fillFrom (addBatch p b start) (start + 1) bs

/-- the value a batch dictionary holds for a node -/
def batchVal (b : List (String × Val)) (node : String) : Option Val := (b.find? (·.1 == node)).map (·.2)

/-- `set_context` -/
def setContext (p : Pool Val) (b seed : Nat) : Except Err (Pool Val) :=
  match p.ctx with
  | some _ => .error .valueError
  | none => .ok { p with ctx := some (b, seed) }

end ElfiVerif.Pool
