/-
Model of the joint model prior (elfi/model/augmenter.py `add_pdf_nodes / _add_distribution_nodes /
add_reduce_node`, elfi/model/extensions.py `ModelPrior._evaluate_pdf / _to_batch`).

For every requested parameter node `n` the augmenter adds `pdf_n(x_n, *parents(n))`; the joint node is
`functools.reduce(mul | add, (pdf nodes…))`; the query columns override the parameter nodes in the
order of `parameter_names`.  Densities are a parameter `pdf n x args`.  Import-free.
-/
namespace ElfiVerif.Prior

/-- a parent of a parameter node: another parameter (its value comes from the query) or a constant -/
inductive Arg (K : Type) | param (name : Nat) | const (v : K)
deriving Repr

structure PNode (K : Type) where
  name : Nat
  parents : List (Arg K)          -- positional arguments of the distribution
deriving Repr

variable {K : Type}

/-- `_to_batch`: column `i` of the query is the value of `parameter_names[i]` -/
def query (names : List Nat) (x : List K) (dflt : K) (n : Nat) : K :=
  ((names.zip x).find? (fun p => p.1 == n)).map (·.2) |>.getD dflt

def argVal (q : Nat → K) : Arg K → K
  | .param n => q n
  | .const v => v

/-- `functools.reduce(op, items)` (no initial value) -/
def reduce1 (op : K → K → K) : List K → Option K
  | [] => none
  | a :: rest => some (rest.foldl op a)

/-- the conditional density terms, in the order of the requested parameters -/
def terms (pdf : Nat → K → List K → K) (nodes : List (PNode K)) (q : Nat → K) : List K :=
  nodes.map (fun n => pdf n.name (q n.name) (n.parents.map (argVal q)))

/-- `ModelPrior.pdf` (`op = mul`) / `logpdf` (`op = add`, `pdf` = the log densities) at one point.
    `requested` = the nodes of `parameter_names` in that order (after fix: the joint is over them). -/
def joint (op : K → K → K) (pdf : Nat → K → List K → K) (requested : List (PNode K)) (x : List K) (dflt : K) :
    Option K :=
  reduce1 op (terms pdf requested (query (requested.map (·.name)) x dflt))

/-- the code BEFORE the fix: the reduce node multiplied the pdf nodes of ALL parameters; those not
    requested were evaluated at sampled values `drawn` -/
def jointOld (op : K → K → K) (pdf : Nat → K → List K → K) (all requested : List (PNode K)) (x : List K)
    (drawn : Nat → K) (dflt : K) : Option K :=
  let names := requested.map (·.name)
  let q := fun n => if names.contains n then query names x dflt n else drawn n
  reduce1 op (terms pdf all q)

end ElfiVerif.Prior
