/-
Model of the ABC rejection sampler's state machine
(elfi/methods/inference/samplers.py: `Rejection.set_objective / update / _init_samples_lazy /
_merge_batch / _update_state_meta / _update_objective_n_batches / extract_result`, and the
`while not finished: iterate()` loop of `ParameterInference.infer` run sequentially — schedule
independence is C04).

A simulated draw is a `Slot` carrying its discrepancy `key` and its identity `origin = some id`
(all output columns of one draw travel together: `_merge_batch` applies ONE `argsort` permutation
to every output array).  `origin = none` is an uninitialised buffer row (`np.empty`, discrepancy
initialised to `inf` = `top`).  numpy's `argsort` is the parameter `sort` (any sorting permutation).
The float estimate of the number of batches in threshold mode is the parameter `est`.
Import-free.
-/
namespace ElfiVerif.Rejection

structure Slot (κ : Type) where
  key : κ
  origin : Option Nat
deriving Repr, DecidableEq

section
variable {κ : Type} [LE κ] [DecidableLE κ]

/-- acceptance test of `_merge_batch`: everything without a threshold, else `d <= threshold` -/
def accepted (thr : Option κ) (s : Slot κ) : Bool :=
  match thr with
  | none => true
  | some t => decide (s.key ≤ t)

/-- `_merge_batch`: accepted rows of the batch overwrite the LAST `num_accepted` buffer rows, then the
    whole buffer is re-sorted by discrepancy. -/
def mergeBatch (sort : List (Slot κ) → List (Slot κ)) (thr : Option κ)
    (buf batch : List (Slot κ)) : List (Slot κ) :=
  let acc := batch.filter (accepted thr)
  sort (buf.take (buf.length - acc.length) ++ acc)

/-- `_init_samples_lazy`: `n + b` rows, discrepancy `inf`, everything else uninitialised -/
def initBuf (top : κ) (n b : Nat) : List (Slot κ) := List.replicate (n + b) ⟨top, none⟩

structure Cfg (κ : Type) where
  n : Nat                 -- n_samples
  b : Nat                 -- batch_size
  thr : Option κ          -- threshold objective
  nSim : Option Nat       -- simulation budget (n_sim, or ceil(n_samples/quantile)); `some 0` is falsy
  mpb : Nat               -- max_parallel_batches (initial estimate when no budget)

structure St (κ : Type) where
  buf : List (Slot κ)
  nBatches : Nat
  obj : Nat               -- objective['n_batches']
deriving Repr

/-- `set_objective` -/
def initObj (c : Cfg κ) : Nat :=
  match c.nSim with
  | some s => if s = 0 then c.mpb else (s + c.b - 1) / c.b        -- ceil(n_sim / batch_size)
  | none => c.mpb

def initSt (top : κ) (c : Cfg κ) : St κ := ⟨initBuf top c.n c.b, 0, initObj c⟩

/-- `update`: counters, `_merge_batch`, `_update_objective_n_batches`.
    `est n nAcceptable nSim b` = `ceil((n / (nAcceptable / nSim) + 0.2*b*[nAcceptable < n]) / b)`. -/
def step (sort : List (Slot κ) → List (Slot κ)) (est : Nat → Nat → Nat → Nat → Nat) (c : Cfg κ)
    (batch : List (Slot κ)) (st : St κ) : St κ :=
  let buf' := mergeBatch sort c.thr st.buf batch
  let nb := st.nBatches + 1
  let obj' := match c.thr with
    | none => st.obj
    | some t =>
      let nAcc := buf'.countP (fun s => decide (s.key ≤ t))
      if nAcc = 0 then st.obj + 1 else est c.n nAcc (nb * c.b) c.b
  ⟨buf', nb, obj'⟩

/-- `while not self.finished: iterate()` with batches consumed in index order -/
def run (sort : List (Slot κ) → List (Slot κ)) (est : Nat → Nat → Nat → Nat → Nat) (c : Cfg κ)
    (batch : Nat → List (Slot κ)) : Nat → St κ → Option (St κ)
  | 0, _ => none
  | fuel + 1, st =>
    if st.obj ≤ st.nBatches then some st
    else run sort est c batch fuel (step sort est c (batch st.nBatches) st)

/-- what `extract_result` hands to `Sample`: the first `n` rows, `state['threshold']` (the
    discrepancy of row `n-1`, `none` if there is no such row), `n_sim`, `n_batches` -/
structure Result (κ : Type) where
  rows : List (Slot κ)
  threshold : Option κ
  nSim : Nat
  nBatches : Nat

def extract (c : Cfg κ) (st : St κ) : Result κ :=
  ⟨st.buf.take c.n, (st.buf[c.n - 1]?).map (·.key), st.nBatches * c.b, st.nBatches⟩

def sample (sort : List (Slot κ) → List (Slot κ)) (est : Nat → Nat → Nat → Nat → Nat) (top : κ)
    (c : Cfg κ) (batch : Nat → List (Slot κ)) (fuel : Nat) : Option (Result κ) :=
  (run sort est c batch fuel (initSt top c)).map (extract c)

/-- the draws consumed by a run that stopped after `k` batches -/
def consumed (batch : Nat → List (Slot κ)) (k : Nat) : List (Slot κ) :=
  (List.range k).flatMap batch

/-- insertion sort by key (stable): one concrete `argsort` for execution -/
def insertByKey (s : Slot κ) : List (Slot κ) → List (Slot κ)
  | [] => [s]
  | q :: qs => if s.key ≤ q.key then s :: q :: qs else q :: insertByKey s qs

def sortByKey (l : List (Slot κ)) : List (Slot κ) := l.foldr insertByKey []

/-- **Checker** run on the REAL sampler's output: `consumedDraws` are all draws of all consumed
    batches (with their ids), `out` the returned rows mapped to draw ids.  Decides
    "exactly the n smallest accepted consumed draws, ascending, no draw twice, threshold = largest". -/
def checkExtract [DecidableEq κ] (thr : Option κ) (n : Nat) (consumedDraws out : List (Slot κ))
    (threshold : Option κ) : Bool :=
  out.length == n
  && out.all (fun s => s.origin.isSome && consumedDraws.contains s && accepted thr s)
  && (out.map (·.origin)).eraseDups.length == out.length
  && (List.zip out out.tail).all (fun p => decide (p.1.key ≤ p.2.key))
  && consumedDraws.all (fun c => !accepted thr c || out.contains c ||
        out.all (fun s => decide (s.key ≤ c.key)))
  && (threshold == out.getLast?.map (·.key))

end

/-- exact-rational version of the batch estimate (what the float formula approximates):
    `ceil((n·nSim/nAcc + (b/5 if nAcc < n else 0)) / b)` -/
def estExact (n nAcc nSim b : Nat) : Nat :=
  -- numerator / denominator of (n*nSim/nAcc + margin)/b with margin = b/5 or 0, over 5*nAcc*b
  let num := 5 * n * nSim + (if nAcc < n then b * nAcc else 0)
  let den := 5 * nAcc * b
  (num + den - 1) / den

end ElfiVerif.Rejection
