/-
Model of the result objects and MCMC diagnostics
(elfi/methods/results.py `Sample.samples / samples_array / sample_means`, `BolfiSample.__init__`;
elfi/methods/mcmc.py `eff_sample_size`, `gelman_rubin_statistic`).

Scalars: any type with field operations, comparisons and a cast from `Nat` (`Rat` for execution, a
linearly ordered field in the theorems).  The FFT-based autocovariance of the code is modelled by the
direct sums it computes.  Import-free.
-/
namespace ElfiVerif.Results

/-- `Sample.samples`: the outputs listed in `parameter_names` order (an OrderedDict) -/
def sampleColumns {α : Type} (parameterNames : List Nat) (outputs : List (Nat × α)) : List (Nat × α) :=
  parameterNames.filterMap (fun n => (outputs.find? (fun p => p.1 == n)).map (fun p => (n, p.2)))

/-- `BolfiSample`: `chains[:, warmup:, :].reshape(-1, d)`: chain by chain, each without its warm-up prefix;
    `chains` = list of chains, a chain = list of states, a state = list of parameter values -/
def bolfiConcat {α : Type} (chains : List (List (List α))) (warmup : Nat) : List (List α) :=
  (chains.map (fun c => c.drop warmup)).flatten

/-- column `p` of the concatenated states (`outputs[parameter_names[p]]`) -/
def column {α : Type} (rows : List (List α)) (p : Nat) : List α := rows.filterMap (fun r => r[p]?)

section
variable {K : Type} [Add K] [Sub K] [Mul K] [Div K] [Zero K] [One K] [NatCast K] [LE K] [DecidableLE K]

def mean (x : List K) : K := x.sum / (x.length : K)

/-- `np.var(x, ddof=1)` -/
def var1 (x : List K) : K :=
  ((x.map (fun a => (a - mean x) * (a - mean x))).sum) / ((x.length : K) - 1)

/-- `np.average(v, weights=w)` (`w = none`: plain mean) -/
def weightedMean (v : List K) (w : Option (List K)) : K :=
  match w with
  | none => mean v
  | some w => ((v.zip w).map (fun p => p.1 * p.2)).sum / w.sum

/-- autocovariance estimate of one chain at `lag` as the code computes it: `Σ_t (x_t−m)(x_{t+lag}−m) / (n − lag)` -/
def autocov (x : List K) (lag : Nat) : K :=
  let m := mean x
  (((x.zip (x.drop lag)).map (fun p => (p.1 - m) * (p.2 - m))).sum) / ((x.length - lag : Nat) : K)

/-- the quantities shared by ESS and R-hat for a list of chains of equal length `n` -/
def varWithin (chains : List (List K)) : K := mean (chains.map var1)
def varBetween (chains : List (List K)) (n : Nat) : K :=
  if chains.length = 1 then 0 else (n : K) * var1 (chains.map mean)
def varPooled (chains : List (List K)) (n : Nat) : K :=
  (((n : K) - 1) * varWithin chains + varBetween chains n) / (n : K)

/-- `temp` of the loop at a lag -/
def rhoHat (chains : List (List K)) (n lag : Nat) : K :=
  1 - (varWithin chains - mean (chains.map (fun c => autocov c lag))) / varPooled chains n

/-- `eff_sample_size(chains)`: the leading non-negative multi-chain autocorrelations are summed -/
def effSampleSize (chains : List (List K)) : K :=
  let n := (chains.headD []).length
  let temps := (List.range' 1 (n - 1)).map (rhoHat chains n)
  let s := (temps.takeWhile (fun t => decide ((0 : K) ≤ t))).sum
  ((chains.length : K) * (n : K)) / (1 + (1 + 1) * s)

/-- the split of every chain in two halves (dropping the last draw of an odd chain) -/
def splitChains (chains : List (List K)) : List (List K) :=
  let h := (chains.headD []).length / 2
  chains.flatMap (fun c => [c.take h, (c.drop h).take h])

/-- `gelman_rubin_statistic(chains)²` = `var_pooled / var_within` of the split chains
    (the code returns the square root) -/
def rhatSq (chains : List (List K)) : K :=
  let s := splitChains chains
  let h := (chains.headD []).length / 2
  -- (the between-chain term is always present after the split: there are at least two half chains)
  ((((h : K) - 1) * varWithin s + (h : K) * var1 (s.map mean)) / (h : K)) / varWithin s

end

end ElfiVerif.Results
