/-
Model of the ROMC regions (elfi/methods/inference/romc.py: `NDimBoundingBox`, `line_search`) and of
the counting / weighting of `RomcPosterior` (elfi/methods/posteriors.py).

Scalars: any type with the field operations and comparisons the code uses (`Rat` for execution, an
ordered field in the theorems).  Vectors are lists, matrices lists of rows.  Import-free.
-/
namespace ElfiVerif.Romc

section
variable {K : Type} [Add K] [Sub K] [Mul K] [Div K] [Neg K] [Zero K] [One K] [LT K] [LE K]
  [DecidableLT K] [DecidableLE K] [Max K]

def dot (a b : List K) : K := (List.zipWith (· * ·) a b).sum
def matVec (m : List (List K)) (v : List K) : List K := m.map (fun row => dot row v)
def vadd (a b : List K) : List K := List.zipWith (· + ·) a b
def vneg (a : List K) : List K := a.map (fun x => -x)

def absK (x : K) : K := if x < 0 then -x else x

/-- `math.isclose(a, b, abs_tol=eps)` (rel_tol = `rel`, 1e-9 in Python) -/
def isClose (rel eps a b : K) : Bool :=
  decide (absK (a - b) ≤ max (rel * max (absK a) (absK b)) eps)

/-- `_secure_limits`: a dimension whose limits are too close is widened by `eps/2` on both sides -/
def secureLimits (rel eps half : K) (limits : List (K × K)) : List (K × K) :=
  limits.map (fun l => if isClose rel eps l.1 l.2 then (l.1 - half, l.2 + half) else l)

structure Box (K : Type) where
  rotation : List (List K)
  rotationInv : List (List K)
  center : List K
  limits : List (K × K)            -- after `_secure_limits`

/-- `_compute_volume` -/
def Box.volume (b : Box K) : K := (b.limits.map (fun l => l.2 - l.1)).foldl (· * ·) 1

/-- the point in the box's own coordinates: `R⁻¹ p + R⁻¹ (−c)` -/
def Box.local (b : Box K) (p : List K) : List K :=
  vadd (matVec b.rotationInv p) (matVec b.rotationInv (vneg b.center))

def withinLimits (limits : List (K × K)) (q : List K) : Bool :=
  (List.zipWith (fun (l : K × K) x => !(decide (x < l.1) || decide (l.2 < x))) limits q).all id

/-- `contains(point)` -/
def Box.contains (b : Box K) (p : List K) : Bool := withinLimits b.limits (b.local p)

/-- `sample`: a point drawn uniformly within the limits (own coordinates) mapped to `R θ + c` -/
def Box.sampleMap (b : Box K) (θ : List K) : List K := vadd (matVec b.rotation θ) b.center

/-- `pdf(theta)` = `contains(theta) / volume` -/
def Box.pdf (b : Box K) (p : List K) : K := if b.contains p then 1 / b.volume else 0 / b.volume

end

/-! ### line search -/

section
variable {K : Type} [Add K] [Sub K] [Div K] [Zero K] [OfNat K 2] [LE K] [DecidableLE K]

/-- the inner `while f(th) < eps and rep <= rep_lim` loop: `good o` = `f(th* + o·v) < eps`.
    Returns the offset after the loop and `rep`.  (`fuel` ≥ rep_lim + 2 always suffices.) -/
def advance (good : K → Bool) (eta : K) (repLim : Nat) : Nat → K → Nat → K × Nat
  | 0, off, rep => (off, rep)
  | fuel + 1, off, rep =>
    if good off && decide (rep ≤ repLim) then advance good eta repLim fuel (off + eta) (rep + 1)
    else (off, rep)

/-- the `for i in range(K)` loop; returns (offset, eta) -/
def rounds (good : K → Bool) (repLim : Nat) : Nat → K → K → K × K
  | 0, off, eta => (off, eta)
  | k + 1, off, eta =>
    let (off1, rep) := advance good eta repLim (repLim + 2) off 0
    let off2 := off1 - eta                     -- one step back
    if rep > repLim then (off2, eta)           -- repetition limit reached: stop
    else rounds good repLim k off2 (eta / 2)

/-- `line_search(f, th_star, vd, eps, K, eta, rep_lim)` -/
def lineSearch (good : K → Bool) (nRounds : Nat) (eta : K) (repLim : Nat) : K :=
  let (off, eta') := rounds good repLim nRounds 0 eta
  if off ≤ 0 then eta' else off

end

/-! ### posterior counting and sample weights -/

/-- `_sum_over_indicators`: number of problems with `d_i(θ) ≤ eps` -/
def sumIndicators {K : Type} [LE K] [DecidableLE K] (dists : List K) (eps : K) : Nat :=
  dists.countP (fun d => decide (d ≤ eps))

/-- `_sum_over_regions_indicators`: additionally the problem's region must contain θ -/
def sumRegionIndicators {K : Type} [LE K] [DecidableLE K] (items : List (Bool × K)) (eps : K) : Nat :=
  items.countP (fun it => it.1 && decide (it.2 ≤ eps))

/-- sample weight in `_worker_compute_weight`: `[dist < eps]·prior/q`, `0` if `q = 0` -/
def weight {K : Type} [Mul K] [Div K] [Zero K] [One K] [LT K] [DecidableLT K]
    (dist eps prior q : K) : K :=
  if 0 < q then (if dist < eps then 1 else 0) * prior / q else 0

end ElfiVerif.Romc
