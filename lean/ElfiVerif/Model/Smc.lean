/-
Model of the round structure of the SMC-ABC sampler
(elfi/methods/inference/samplers.py `SMC.set_objective / update / _init_new_round / _set_threshold /
_extract_population / _compute_weights_means_and_cov / extract_result / _update_objective`).

What is modelled is WHICH earlier population each quantity refers to: the Gaussian-mixture proposal
and the importance weights use `self._populations[-1]` at the time they are evaluated, the quantile
threshold uses `self._populations[round-1]`, `sample()` may be called again on the same sampler
(continuation).  The numerics (weights = prior / mixture density, cov = 2·weighted variance,
weighted quantile: C13) are evaluated by the harness from the populations' own data.  Import-free.
-/
namespace ElfiVerif.Smc

/-- where the threshold of a round comes from -/
inductive ThrSrc
  | user (i : Nat)            -- entry `i` of the threshold list of this call
  | quantileOf (pop : Nat) (i : Nat)   -- quantile `i` of this call, of the discrepancies of population `pop`
  | budget (i : Nat)          -- first round of a quantile run: no threshold, a simulation budget from quantile `i`
deriving Repr, DecidableEq

structure Pop where
  sample : Nat                -- token of the accepted sample of the round (inner Rejection result)
  ref : Option Nat            -- index of the population the weights (and the proposal) refer to; none = unit weights
  thr : ThrSrc
  nBatches : Nat              -- batches consumed by the round
deriving Repr, DecidableEq

structure St where
  pops : List Pop := []       -- self._populations
  round : Nat := 0            -- state['round']
  nBatches : Nat := 0         -- state['n_batches'] (accumulates over rounds and calls)
deriving Repr

/-- threshold source of the round that is starting (`_init_new_round`); `i` = index within this call -/
def thrOf (st : St) (quantiles : Bool) (i : Nat) : ThrSrc :=
  if quantiles then (if st.round = 0 then .budget i else .quantileOf (st.round - 1) i) else .user i

/-- `_extract_population`: weights refer to `self._populations[-1]` as it is NOW -/
def extract (st : St) (sample nb : Nat) (thr : ThrSrc) : Pop :=
  ⟨sample, if st.pops.isEmpty then none else some (st.pops.length - 1), thr, nb⟩

/-- one `sample(n, thresholds=… | quantiles=…)` call whose rounds accept the given samples
    (`rounds` = list of (sample token, batches consumed)); returns the new state -/
def call (st : St) (quantiles : Bool) (rounds : List (Nat × Nat)) : St :=
  -- set_objective: the round counter restarts at the number of populations held
  let st0 : St := { st with round := st.pops.length }
  let rec go (st : St) (i : Nat) : List (Nat × Nat) → St
    | [] => st
    | [(s, nb)] =>
      -- last round of the call: `extract_result` appends the final population (round counter unchanged)
      { st with pops := st.pops ++ [extract st s nb (thrOf st quantiles i)], nBatches := st.nBatches + nb }
    | (s, nb) :: rest =>
      -- `update` at a round end: append, round += 1, new round
      go { pops := st.pops ++ [extract st s nb (thrOf st quantiles i)], round := st.round + 1,
           nBatches := st.nBatches + nb } (i + 1) rest
  go st0 0 rounds

/-- any history of calls on one sampler -/
def history (calls : List (Bool × List (Nat × Nat))) : St :=
  calls.foldl (fun st c => call st c.1 c.2) {}

end ElfiVerif.Smc

/-! ### the numbers: importance weights against the Gaussian-mixture proposal

`_compute_weights_means_and_cov`: `w_i = prior.pdf(θ_i) / GMDistribution.pdf(θ_i, means, cov, weights)` where
the mixture NORMALISES the weights of the previous population.  The component density (`kernel x m`, a
normal density centred at a particle of the previous population) is a parameter. -/
namespace ElfiVerif.Smc
section weights
variable {F Θ : Type} [Add F] [Mul F] [Div F] [OfNat F 0]

def sumF (l : List F) : F := l.foldr (· + ·) 0

/-- mixture density at `x`: `Σ_j (w_j / Σw) · kernel x m_j` -/
def gmDensity (kernel : Θ → Θ → F) (means : List Θ) (w : List F) (x : Θ) : F :=
  sumF (List.zipWith (fun wj m => wj / sumF w * kernel x m) w means)

/-- importance weight of an accepted particle `x` of the new population -/
def smcWeight (prior : Θ → F) (kernel : Θ → Θ → F) (means : List Θ) (w : List F) (x : Θ) : F :=
  prior x / gmDensity kernel means w x

end weights
end ElfiVerif.Smc
