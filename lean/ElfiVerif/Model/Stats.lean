/-
Model of the weighted-sample statistics of elfi/methods/utils.py:
  `normalize_weights`, `compute_ess`, `weighted_var`, `weighted_sample_quantile`,
  `GMDistribution._normalize_params / pdf` (shape handling, abstract component density) and the
  accept-until-full loop of `GMDistribution.rvs`.

Scalars are an arbitrary type `K` with the arithmetic/comparison operations the code uses; the
theorems instantiate `K` with any linearly ordered field, the driver with `Rat`.
numpy's `argsort` is a parameter `sort` (any sorting permutation of the (value, weight) pairs: no
stability is assumed).  Import-free.
-/
namespace ElfiVerif.Stats

section
variable {K : Type} [Add K] [Sub K] [Mul K] [Div K] [Zero K] [One K] [LT K] [LE K]
  [DecidableLT K] [DecidableLE K] [DecidableEq K]

inductive Err | valueError | indexError | outOfFuel
deriving Repr, DecidableEq

/-- `normalize_weights`: rejects negative weights and an all-zero vector -/
def normalizeWeights (w : List K) : Except Err (List K) :=
  if w.any (fun a => decide (a < 0)) then .error .valueError
  else if w.sum = 0 then .error .valueError
  else .ok (w.map (fun a => a / w.sum))

/-- `compute_ess`: normalise, then `(Σ w)² / Σ w²` of the normalised weights -/
def computeEss (w : List K) : Except Err K :=
  match normalizeWeights w with
  | .error e => .error e
  | .ok nw => .ok ((nw.sum * nw.sum) / (nw.map (fun a => a * a)).sum)

def ones (n : Nat) : List K := List.replicate n 1

/-- `np.average(x, weights=w)` for one column -/
def average (x w : List K) : K := ((x.zip w).map (fun p => p.1 * p.2)).sum / w.sum

/-- `weighted_var` for one column of `x` -/
def weightedVar (x : List K) (w : Option (List K)) : K :=
  let w := w.getD (ones x.length)
  let v1 := w.sum
  let v2 := (w.map (fun a => a * a)).sum
  let xbar := average x w
  let num := ((x.zip w).map (fun p => p.2 * ((p.1 - xbar) * (p.1 - xbar)))).sum
  num / (v1 - v2 / v1)

/-- running sums `acc + w₀, acc + w₀ + w₁, …` (`np.cumsum`) -/
def cumFrom (acc : K) : List K → List K
  | [] => []
  | w :: ws => (acc + w) :: cumFrom (acc + w) ws

/-- `a[-1] = v` on a non-empty array -/
def setLast (l : List K) (v : K) : List K :=
  match l with
  | [] => []
  | _ :: _ => l.dropLast ++ [v]

/-- `np.where(lower < α ∧ α ≤ upper)[0][0]` -/
def findIdx (α : K) : List K → List K → Nat → Option Nat
  | lo :: los, up :: ups, k => if lo < α ∧ α ≤ up then some k else findIdx α los ups (k + 1)
  | _, _, _ => none

/-- `weighted_sample_quantile(x, alpha, weights)`.  `sort` stands for `argsort(x)` applied to the
    zipped (value, weight) rows.  `none` = Python exception (IndexError on empty input or when no
    index qualifies, e.g. alpha outside (0, 1]). -/
def weightedQuantile (sort : List (K × K) → List (K × K)) (x : List K) (w : Option (List K))
    (α : K) : Option K :=
  let w := w.getD (ones x.length)
  if α = 0 then
    (sort (x.zip w)).head?.map (·.1)
  else
    let nw := w.map (fun a => a / w.sum)
    let sorted := sort (x.zip nw)
    let upper := setLast (cumFrom 0 (sorted.map (·.2))) 1
    let lower := (0 : K) :: upper.dropLast
    match findIdx α lower upper 0 with
    | none => none
    | some k => sorted[k]?.map (·.1)

/-- insertion sort by the value component: one concrete `argsort` for execution -/
def insertByFst (p : K × K) : List (K × K) → List (K × K)
  | [] => [p]
  | q :: qs => if p.1 ≤ q.1 then p :: q :: qs else q :: insertByFst p qs

def sortByFst (l : List (K × K)) : List (K × K) := l.foldr insertByFst []

end

/-! ### Gaussian mixture: shape handling of `_normalize_params` and `pdf`

`means` arrives as an array of some shape; `np.squeeze` removes every axis of length one and
`np.atleast_1d` turns a 0-d result into shape `(1,)`.  We model the three input ranks the code
accepts with their data. -/

/-- the `means` argument as the caller wrote it -/
inductive MeansArg (K : Type)
  | scalar (m : K)                       -- shape ()
  | vec (ms : List K)                    -- shape (k,)
  | mat (rows : List (List K)) (d : Nat)  -- shape (k, d), every row of length d
deriving Repr

/-- the component list the code iterates over (`zip(means, weights)`) after
    `np.atleast_1d(np.squeeze(means))`: each component mean is a point (list of coordinates). -/
def squeezedComponents {K : Type} : MeansArg K → List (List K)
  | .scalar m => [[m]]
  | .vec ms => ms.map (fun m => [m])
  | .mat rows d =>
    if rows.length = 1 ∧ d ≠ 1 then
      -- (1, d) squeezes to (d,): every COORDINATE becomes a one-dimensional component
      (rows.headD []).map (fun m => [m])
    else rows

/-- what the caller means: one component per row -/
def intendedComponents {K : Type} : MeansArg K → List (List K)
  | .scalar m => [[m]]
  | .vec ms => ms.map (fun m => [m])
  | .mat rows _ => rows

section
variable {K : Type} [Add K] [Sub K] [Mul K] [Div K] [Zero K] [One K] [LT K] [LE K]
  [DecidableLT K] [DecidableLE K] [DecidableEq K]

/-- `GMDistribution.pdf` at one point `x`; `N x m` is the component density
    (`multivariate_normal.pdf(x, mean=m, cov=cov)`, the shared `cov` is fixed). -/
def gmPdf (N : List K → List K → K) (means : MeansArg K) (w : Option (List K)) (x : List K) :
    Except Err K :=
  let comps := squeezedComponents means
  match normalizeWeights (w.getD (ones comps.length)) with
  | .error e => .error e
  | .ok nw => .ok ((comps.zip nw).map (fun p => p.2 * N x p.1)).sum

/-- the definition: weighted sum over the intended components -/
def gmPdfSpec (N : List K → List K → K) (means : MeansArg K) (w : List K) (x : List K) : K :=
  (((intendedComponents means).zip w).map (fun p => (p.2 / w.sum) * N x p.1)).sum

end

/-- accept-until-full loop of `GMDistribution.rvs`: round `t` draws `nLeft` candidates
    (`draw t nLeft`), keeps those passing `ok`, stops when `size` are collected. -/
def rvsLoop {α : Type} (draw : Nat → Nat → List α) (ok : α → Bool) (size : Nat) :
    Nat → Nat → List α → Option (List α)
  | 0, _, _ => none
  | fuel + 1, t, acc =>
    if acc.length < size then
      let cand := (draw t (size - acc.length)).take (size - acc.length)
      rvsLoop draw ok size fuel (t + 1) (acc ++ cand.filter ok)
    else some acc

def rvsConstrained {α : Type} (draw : Nat → Nat → List α) (ok : α → Bool) (size fuel : Nat) :
    Option (List α) := rvsLoop draw ok size fuel 0 []

end ElfiVerif.Stats
