/-
Model of `elfi.utils.get_sub_seed` (elfi/utils.py:71).

The PRNG is an arbitrary stream `s : Nat → Nat`: `s k` is the k-th value that
`RandomState(seed).randint(high, size=·, dtype='uint32')` hands out (chunk-invariant: a draw of
size `a` followed by a draw of size `b` yields the same values as one draw of size `a+b`; this is
validated against numpy on every run by the harness).  The `RandomState` object kept in the cache
is therefore represented by its stream position.

Import-free (core Lean only) so that it can be run by the driver.
-/
namespace ElfiVerif.SubSeed

/-- python `set.add` on a duplicate-free list that remembers insertion order -/
def ins (x : Nat) (l : List Nat) : List Nat := if x ∈ l then l else l ++ [x]

/-- `seen.update(chunk)` -/
def insAll (chunk : List Nat) (l : List Nat) : List Nat := chunk.foldl (fun acc x => ins x acc) l

/-- `random_state.randint(high, size=n)` at stream position `pos` -/
def chunk (s : Nat → Nat) (pos n : Nat) : List Nat := (List.range n).map (fun k => s (pos + k))

/-- the cache record: position of the cached `RandomState` in the stream and the `seen` set -/
structure Cache where
  pos : Nat
  seen : List Nat
deriving Repr, DecidableEq

inductive Err | valueError | typeError | outOfFuel
deriving Repr, DecidableEq

/-- the `while n_unique != n_unique_required` loop.  `last` is `sub_seeds` (`none` = Python `None`,
    otherwise the last element of the last chunk).  One unit of fuel per iteration. -/
def loop (s : Nat → Nat) (req : Nat) : Nat → Nat → List Nat → Option Nat → Except Err (Nat × Cache)
  | 0, _, _, _ => .error .outOfFuel
  | fuel + 1, pos, seen, last =>
    if seen.length = req then
      match last with
      | none => .error .typeError            -- `None[-1]`
      | some v => .ok (v, ⟨pos, seen⟩)
    else
      let n := req - seen.length
      let c := chunk s pos n
      loop s req fuel (pos + n) (insAll c seen) c.getLast?

/-- `get_sub_seed(seed, i, high, cache)`; `cache = none` models both `cache=None` and an empty dict
    (both are falsy: the generator is re-created from the seed and `seen` starts empty).
    Returns the sub seed and the cache record that the code stores (when a cache dict is given). -/
def getSubSeed (s : Nat → Nat) (high : Nat) (fuel : Nat) (i : Nat) (cache : Option Cache) :
    Except Err (Nat × Cache) :=
  if i ≥ high then .error .valueError
  else
    match cache with
    | some c =>
      if c.seen.length < i + 1 then loop s (i + 1) fuel c.pos c.seen none
      else loop s (i + 1) fuel 0 [] none
    | none => loop s (i + 1) fuel 0 [] none

/-- a history of requests sharing one cache dict (initially empty) -/
def serveAll (s : Nat → Nat) (high fuel : Nat) : List Nat → Option Cache → List (Except Err Nat)
  | [], _ => []
  | i :: rest, cache =>
    match getSubSeed s high fuel i cache with
    | .ok (v, c') => .ok v :: serveAll s high fuel rest (some c')
    | .error e => .error e :: serveAll s high fuel rest cache

end ElfiVerif.SubSeed
