import ElfiVerif.Model.SubSeed
/-
Model of elfi/model/tools.py: `run_vectorized` / `vectorize` and the seed handling of
`external_operation` (`unpack_meta`, `prepare_seed`).

An input is either an array with rows (`is_array`: has a shape and ndim > 0) or anything else
(Python scalar, 0-d array, list, …: passed through as a constant).  The wrapped operation is a
parameter `op args index_in_batch`.  Core Lean + the (import-free) sub-seed model.
-/
namespace ElfiVerif.Tools

inductive Inp (V : Type)
  | arr (rows : List V)
  | scalar (v : V)
deriving Repr, DecidableEq

/-- what the wrapped operation receives in one position -/
inductive Arg (V : Type)
  | whole (x : Inp V)      -- the input object unchanged (constant)
  | row (v : V)            -- one row of a batch input
deriving Repr, DecidableEq

inductive Err | valueError
deriving Repr, DecidableEq

variable {V R : Type}

/-- the first loop of `run_vectorized`: batch length from the non-constant array inputs (or the given
    `batch_size`), `ValueError` on a mismatch -/
def batchLen (consts : List Nat) : List (Inp V × Nat) → Option Nat → Except Err (Option Nat)
  | [], bs => .ok bs
  | (inp, k) :: rest, bs =>
    if k ∈ consts then batchLen consts rest bs
    else
      match inp with
      | .scalar _ => batchLen consts rest bs
      | .arr rows =>
        match bs with
        | none => batchLen consts rest (some rows.length)
        | some n => if n = rows.length then batchLen consts rest bs else .error .valueError

/-- the constant mask after auto-detection: the given mask plus every non-array input -/
def isConst (consts : List Nat) (inp : Inp V) (k : Nat) : Bool :=
  decide (k ∈ consts) || (match inp with | .scalar _ => true | .arr _ => false)

/-- the positional arguments of call number `i` -/
def argsFor (consts : List Nat) (inputs : List (Inp V)) (i : Nat) : List (Arg V) :=
  inputs.zipIdx.map (fun p =>
    if isConst consts p.1 p.2 then Arg.whole p.1
    else match p.1 with
      | .arr rows => (match rows[i]? with | some v => Arg.row v | none => Arg.whole p.1)
      | .scalar _ => Arg.whole p.1)

/-- `run_vectorized(operation, *inputs, constants, batch_size)`: the list of per-row outputs
    (numpy then converts it according to `dtype`; `dtype=False` keeps the objects) -/
def runVectorized (op : List (Arg V) → Nat → R) (consts : List Nat) (inputs : List (Inp V))
    (bs : Option Nat) : Except Err (List R) :=
  match batchLen consts inputs.zipIdx bs with
  | .error e => .error e
  | .ok bs' => .ok ((List.range (bs'.getD 1)).map (fun i => op (argsFor consts inputs i) i))

/-- `prepare_seed`: the seed offered to an external command: sub seed number `index_in_batch or 0`
    derived from the first word of the batch generator's state (`seed0`); `s` is the draw stream of
    `RandomState(seed0)` (C15) -/
def externalSeed (s : Nat → Nat) (fuel : Nat) (indexInBatch : Option Nat) : Except SubSeed.Err Nat :=
  match SubSeed.getSubSeed s (2 ^ 31) fuel (indexInBatch.getD 0) none with
  | .ok (v, _) => .ok v
  | .error e => .error e

end ElfiVerif.Tools
