import ElfiVerif.Model.Adjust
import Mathlib.Algebra.Order.Field.Basic
import Mathlib.Data.Matrix.Mul
import Mathlib.Algebra.BigOperators.Group.List.Basic
import Mathlib.Tactic.Ring
import Mathlib.Tactic.FieldSimp
import Mathlib.Tactic.Linarith

/-! Specification vocabulary and proofs for C17 (statements are repeated in Props/C17.lean). -/
namespace ElfiVerif.Adjust

/-- the least-squares normal equations of `y ≈ α + X β`: residuals are orthogonal to every regressor
    column and sum to zero (intercept) -/
def NormalEq {K : Type} [Field K] {n k : Nat} (X : Matrix (Fin n) (Fin k) K) (y : Fin n → K) (α : K)
    (β : Fin k → K) : Prop :=
  (X.transpose).mulVec (fun i => y i - α - (X.mulVec β) i) = 0 ∧
  (Finset.univ.sum fun i => y i - α - (X.mulVec β) i) = 0

section
variable {F : Type} [Add F] [Mul F] [Div F] [Zero F] [One F] [NatCast F] [LE F] [DecidableLE F]

/-- `n_min` -/
def nMin (ms : List (ModelSample F)) : Nat :=
  (ms.map (fun m => m.discrepancies.length)).foldl min ((ms.headD ⟨[], 0⟩).discrepancies.length)

/-- the unnormalised model scores of `compareModels` -/
def compareModelsRaw (sort : List (F × Nat) → List (F × Nat)) (ms : List (ModelSample F)) (priors : Option (List F)) :
    List F :=
  let top := (sort (tagged ms)).take (nMin ms)
  ms.zipIdx.map (fun p =>
    let cnt : F := ((top.filter (fun t => t.2 == p.2)).length : F)
    let r := cnt / (p.1.nSim : F)
    match priors with
    | none => r
    | some pr => r * (pr.getD p.2 1))
end

variable {K : Type} [Field K]
variable {F : Type} [Field F] [LinearOrder F] [IsStrictOrderedRing F]

theorem zipWith_sub_self_mul_sum (r b : List K) :
    (List.zipWith (· * ·) (List.zipWith (· - ·) r r) b).sum = 0 := by
  induction r generalizing b with
  | nil => simp
  | cons x xs ih =>
    cases b with
    | nil => simp
    | cons y ys =>
      simp only [List.zipWith_cons_cons, List.sum_cons, sub_self, zero_mul, zero_add]
      exact ih ys

theorem zipWith_shift (r o c : List K) (hr : r.length = o.length) (hc : c.length = o.length) :
    List.zipWith (· - ·) (List.zipWith (· + ·) r c) (List.zipWith (· + ·) o c) =
      List.zipWith (· - ·) r o := by
  induction r generalizing o c with
  | nil => simp
  | cons x xs ih =>
    cases o with
    | nil => simp at hr
    | cons y ys =>
      cases c with
      | nil => simp at hc
      | cons z zs =>
        simp only [List.length_cons, Nat.add_right_cancel_iff] at hr hc
        simp only [List.zipWith_cons_cons, add_sub_add_right_eq_sub, ih ys zs hr hc]

theorem sum_map_div (l : List K) (s : K) : (l.map (fun r => r / s)).sum = l.sum / s := by
  induction l with
  | nil => simp
  | cons x xs ih => simp only [List.map_cons, List.sum_cons, ih, add_div]


theorem adjust_formula' (theta : List K) (summaries : List (List K)) (observed beta : List K)
    (hlen : theta.length = summaries.length) (i : Nat) (hi : i < theta.length) :
    (adjust theta (regressors summaries observed) beta)[i]? =
      some (theta[i] - dot (List.zipWith (· - ·) (summaries[i]'(hlen ▸ hi)) observed) beta) ∧
    (adjust theta (regressors summaries observed) beta).length = theta.length := by
  have hi' : i < summaries.length := hlen ▸ hi
  refine ⟨?_, ?_⟩
  · simp only [adjust, regressors, List.getElem?_zipWith, List.getElem?_map,
      List.getElem?_eq_getElem hi, List.getElem?_eq_getElem hi']
    simp
  · simp only [adjust, regressors, List.length_zipWith, List.length_map]
    omega

theorem fixed_point' (t : K) (row observed beta : List K) (h : row = observed) :
    adjust [t] (regressors [row] observed) beta = [t] := by
  subst h
  simp only [adjust, regressors, List.map_cons, List.map_nil, List.zipWith_cons_cons,
    List.zipWith_nil_right, dot, zipWith_sub_self_mul_sum, sub_zero]

theorem mask_exact' (X : List (List (FV K))) (theta : List (FV K)) (hlen : X.length = theta.length) :
    (finiteMask X theta).length = theta.length ∧
    (∀ i (h₁ : i < (finiteMask X theta).length) (h₂ : i < X.length) (h₃ : i < theta.length),
      (finiteMask X theta)[i] = true ↔ ((∀ v ∈ X[i], v.isFinite = true) ∧ theta[i].isFinite = true)) ∧
    ∀ t ∈ select theta (finiteMask X theta), t.isFinite = true := by
  refine ⟨?_, ?_, ?_⟩
  · simp only [finiteMask, List.length_zipWith]; omega
  · intro i h₁ h₂ h₃
    simp only [finiteMask, List.getElem_zipWith, Bool.and_eq_true, List.all_eq_true]
  · intro t ht
    simp only [select, List.mem_filterMap] at ht
    obtain ⟨p, hp, hpt⟩ := ht
    obtain ⟨i, hi, hpi⟩ := List.mem_iff_getElem.mp hp
    simp only [List.length_zip] at hi
    rw [List.getElem_zip] at hpi
    subst hpi
    simp only at hpt
    split at hpt
    · rename_i hb
      simp only [Option.some.injEq] at hpt
      subst hpt
      simp only [finiteMask, List.getElem_zipWith, Bool.and_eq_true] at hb
      exact hb.2
    · exact absurd hpt (by simp)

theorem mask_per_parameter' (X : List (List (FV K))) (t₁ t₂ : List (FV K)) (i : Nat)
    (h : ∀ j, j ≠ i → t₁[j]? = t₂[j]?) (hl : t₁.length = t₂.length) (k : Nat) (hk : k ≠ i) :
    (finiteMask X t₁)[k]? = (finiteMask X t₂)[k]? := by
  simp only [finiteMask, List.getElem?_zipWith, h k hk]

theorem affine_invariant' {n k : Nat} (X : Matrix (Fin n) (Fin k) K) (A Ainv : Matrix (Fin k) (Fin k) K)
    (hA : A * Ainv = 1) (y : Fin n → K) (α : K) (β : Fin k → K)
    (hne : NormalEq X y α β) :
    NormalEq (X * A) y α (Ainv.mulVec β) ∧ (X * A).mulVec (Ainv.mulVec β) = X.mulVec β := by
  have hfit : (X * A).mulVec (Ainv.mulVec β) = X.mulVec β := by
    rw [Matrix.mulVec_mulVec, Matrix.mul_assoc, hA, Matrix.mul_one]
  refine ⟨⟨?_, ?_⟩, hfit⟩
  · have hr : (fun i => y i - α - ((X * A).mulVec (Ainv.mulVec β)) i) =
        (fun i => y i - α - (X.mulVec β) i) := by
      funext i; rw [congrFun hfit i]
    rw [hr, Matrix.transpose_mul, ← Matrix.mulVec_mulVec, hne.1, Matrix.mulVec_zero]
  · have hr : (fun i => y i - α - ((X * A).mulVec (Ainv.mulVec β)) i) =
        (fun i => y i - α - (X.mulVec β) i) := by
      funext i; rw [congrFun hfit i]
    rw [hr]; exact hne.2

theorem shift_cancels' (summaries : List (List K)) (observed c : List K)
    (hrow : ∀ r ∈ summaries, r.length = observed.length) (hc : c.length = observed.length) :
    regressors (summaries.map (fun r => List.zipWith (· + ·) r c)) (List.zipWith (· + ·) observed c) =
      regressors summaries observed := by
  simp only [regressors, List.map_map]
  apply List.map_congr_left
  intro r hr
  simp only [Function.comp]
  exact zipWith_shift r observed c (hrow r hr) hc

theorem compare_sums_to_one' (sort : List (F × Nat) → List (F × Nat)) (ms : List (ModelSample F))
    (priors : Option (List F)) (hpos : (compareModelsRaw sort ms priors).sum ≠ 0) :
    (compareModels sort ms priors).sum = 1 := by
  have h : compareModels sort ms priors =
      (compareModelsRaw sort ms priors).map (fun r => r / (compareModelsRaw sort ms priors).sum) := rfl
  rw [h, sum_map_div, div_self hpos]

theorem compare_proportional' (sort : List (F × Nat) → List (F × Nat)) (ms : List (ModelSample F))
    (priors : Option (List F)) (i : Nat) (hi : i < ms.length) :
    (compareModels sort ms priors)[i]? =
      some ((compareModelsRaw sort ms priors).getD i 0 / (compareModelsRaw sort ms priors).sum) ∧
    (compareModelsRaw sort ms priors)[i]? = some
      ((((((sort (tagged ms)).take (nMin ms)).filter (fun t => t.2 == i)).length : F) / ((ms[i]).nSim : F)) *
        (match priors with | none => 1 | some pr => pr.getD i 1)) := by
  refine ⟨?_, ?_⟩
  · have h : compareModels sort ms priors =
        (compareModelsRaw sort ms priors).map (fun r => r / (compareModelsRaw sort ms priors).sum) := rfl
    have hl : i < (compareModelsRaw sort ms priors).length := by
      simp only [compareModelsRaw, List.length_map, List.length_zipIdx]; exact hi
    rw [h, List.getElem?_map, List.getElem?_eq_getElem hl, Option.map_some]
    simp [hl]
  · simp only [compareModelsRaw, List.getElem?_map, List.getElem?_zipIdx, List.getElem?_eq_getElem hi,
      Option.map_some, Nat.zero_add]
    cases priors <;> simp only [mul_one]

end ElfiVerif.Adjust
