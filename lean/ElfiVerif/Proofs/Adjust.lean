import ElfiVerif.Model.Adjust
import Mathlib.Algebra.Order.Field.Basic
import Mathlib.Data.Matrix.Mul
import Mathlib.Algebra.BigOperators.Group.List.Basic
import Mathlib.Tactic.Ring
import Mathlib.Tactic.FieldSimp
import Mathlib.Tactic.Linarith

/-! Specification vocabulary and proofs for C17 (statements are repeated in Props/C17.lean). -/
namespace ElfiVerif.Adjust

/-- the least-squares normal equations of `y ≈ α + X β`: residuals are orthogonal to every regressor
    column and sum to zero (intercept) -/
def NormalEq {K : Type} [Field K] {n k : Nat} (X : Matrix (Fin n) (Fin k) K) (y : Fin n → K) (α : K)
    (β : Fin k → K) : Prop :=
  (X.transpose).mulVec (fun i => y i - α - (X.mulVec β) i) = 0 ∧
  (Finset.univ.sum fun i => y i - α - (X.mulVec β) i) = 0

section
variable {F : Type} [Add F] [Mul F] [Div F] [Zero F] [One F] [NatCast F] [LE F] [DecidableLE F]

/-- `n_min` -/
def nMin (ms : List (ModelSample F)) : Nat :=
  (ms.map (fun m => m.discrepancies.length)).foldl min ((ms.headD ⟨[], 0⟩).discrepancies.length)

/-- the unnormalised model scores of `compareModels` -/
def compareModelsRaw (sort : List (F × Nat) → List (F × Nat)) (ms : List (ModelSample F)) (priors : Option (List F)) :
    List F :=
  let top := (sort (tagged ms)).take (nMin ms)
  ms.zipIdx.map (fun p =>
    let cnt : F := ((top.filter (fun t => t.2 == p.2)).length : F)
    let r := cnt / (p.1.nSim : F)
    match priors with
    | none => r
    | some pr => r * (pr.getD p.2 1))
end

variable {K : Type} [Field K]
variable {F : Type} [Field F] [LinearOrder F] [IsStrictOrderedRing F]

theorem adjust_formula' (theta : List K) (summaries : List (List K)) (observed beta : List K)
    (hlen : theta.length = summaries.length) (i : Nat) (hi : i < theta.length) :
    (adjust theta (regressors summaries observed) beta)[i]? =
      some (theta[i] - dot (List.zipWith (· - ·) (summaries[i]'(hlen ▸ hi)) observed) beta) ∧
    (adjust theta (regressors summaries observed) beta).length = theta.length := by
  sorry

theorem fixed_point' (t : K) (row observed beta : List K) (h : row = observed) :
    adjust [t] (regressors [row] observed) beta = [t] := by
  sorry

theorem mask_exact' (X : List (List (FV K))) (theta : List (FV K)) (hlen : X.length = theta.length) :
    (finiteMask X theta).length = theta.length ∧
    (∀ i (h₁ : i < (finiteMask X theta).length) (h₂ : i < X.length) (h₃ : i < theta.length),
      (finiteMask X theta)[i] = true ↔ ((∀ v ∈ X[i], v.isFinite = true) ∧ theta[i].isFinite = true)) ∧
    ∀ t ∈ select theta (finiteMask X theta), t.isFinite = true := by
  sorry

theorem mask_per_parameter' (X : List (List (FV K))) (t₁ t₂ : List (FV K)) (i : Nat)
    (h : ∀ j, j ≠ i → t₁[j]? = t₂[j]?) (hl : t₁.length = t₂.length) (k : Nat) (hk : k ≠ i) :
    (finiteMask X t₁)[k]? = (finiteMask X t₂)[k]? := by
  sorry

theorem affine_invariant' {n k : Nat} (X : Matrix (Fin n) (Fin k) K) (A Ainv : Matrix (Fin k) (Fin k) K)
    (hA : A * Ainv = 1) (y : Fin n → K) (α : K) (β : Fin k → K)
    (hne : NormalEq X y α β) :
    NormalEq (X * A) y α (Ainv.mulVec β) ∧ (X * A).mulVec (Ainv.mulVec β) = X.mulVec β := by
  sorry

theorem shift_cancels' (summaries : List (List K)) (observed c : List K)
    (hrow : ∀ r ∈ summaries, r.length = observed.length) (hc : c.length = observed.length) :
    regressors (summaries.map (fun r => List.zipWith (· + ·) r c)) (List.zipWith (· + ·) observed c) =
      regressors summaries observed := by
  sorry

theorem compare_sums_to_one' (sort : List (F × Nat) → List (F × Nat)) (ms : List (ModelSample F))
    (priors : Option (List F)) (hpos : (compareModelsRaw sort ms priors).sum ≠ 0) :
    (compareModels sort ms priors).sum = 1 := by
  sorry

theorem compare_proportional' (sort : List (F × Nat) → List (F × Nat)) (ms : List (ModelSample F))
    (priors : Option (List F)) (i : Nat) (hi : i < ms.length) :
    (compareModels sort ms priors)[i]? =
      some ((compareModelsRaw sort ms priors).getD i 0 / (compareModelsRaw sort ms priors).sum) ∧
    (compareModelsRaw sort ms priors)[i]? = some
      ((((((sort (tagged ms)).take (nMin ms)).filter (fun t => t.2 == i)).length : F) / ((ms[i]).nSim : F)) *
        (match priors with | none => 1 | some pr => pr.getD i 1)) := by
  sorry

end ElfiVerif.Adjust
