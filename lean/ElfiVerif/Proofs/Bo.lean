import ElfiVerif.Model.Bo
import ElfiVerif.Proofs.Mcmc
import Mathlib.Analysis.SpecialFunctions.Sqrt
import Mathlib.Analysis.SpecialFunctions.Exp
import Mathlib.Analysis.SpecialFunctions.Trigonometric.Basic
import Mathlib.Analysis.Calculus.Deriv.Add
import Mathlib.Analysis.Calculus.Deriv.Mul
import Mathlib.Analysis.Calculus.Deriv.Inv
import Mathlib.Analysis.Calculus.Deriv.Comp
import Mathlib.Analysis.Calculus.FDeriv.Prod
import Mathlib.Analysis.Calculus.Deriv.Prod
import Mathlib.Tactic.Ring
import Mathlib.Tactic.FieldSimp
import Mathlib.Tactic.Linarith
import Mathlib.Tactic.LinearCombination

/-! Proofs for C11 (statements are repeated in Props/C11.lean). -/
namespace ElfiVerif.Bo

theorem clip_in_box' {K : Type} [LinearOrder K] (lo hi x : K) (h : lo ≤ hi) :
    lo ≤ clip lo hi x ∧ clip lo hi x ≤ hi ∧ (lo ≤ x → x ≤ hi → clip lo hi x = x) := by
  unfold clip
  simp only
  split_ifs with h1 h2 h2 <;> grind

theorem inBox_nil {K : Type} [LinearOrder K] : inBox ([] : List (K × K)) [] = true := by
  simp [inBox]

theorem inBox_cons {K : Type} [LinearOrder K] (b : K × K) (bs : List (K × K)) (x : K) (xs : List K) :
    inBox (b :: bs) (x :: xs) = true ↔ b.1 ≤ x ∧ x ≤ b.2 ∧ inBox bs xs = true := by
  simp [inBox, and_assoc, and_left_comm]

theorem inBox_length {K : Type} [LinearOrder K] (bounds : List (K × K)) (x : List K)
    (h : inBox bounds x = true) : x.length = bounds.length := by
  simp [inBox] at h
  exact h.1

theorem inBox_clipVec {K : Type} [LinearOrder K] (bounds : List (K × K))
    (hb : ∀ b ∈ bounds, b.1 ≤ b.2) (x : List K) (hl : x.length = bounds.length) :
    inBox bounds (clipVec bounds x) = true := by
  induction bounds generalizing x with
  | nil =>
    cases x with
    | nil => simp [clipVec, inBox]
    | cons a as => simp at hl
  | cons b bs ih =>
    cases x with
    | nil => simp at hl
    | cons a as =>
      simp only [clipVec, List.zipWith_cons_cons]
      rw [inBox_cons]
      have hc := clip_in_box' b.1 b.2 a (hb b (by simp))
      refine ⟨hc.1, hc.2.1, ?_⟩
      exact ih (fun b' hb' => hb b' (by simp [hb'])) as (by simpa using hl)

theorem argminFrom_spec {V : Type} [LinearOrder V] (vs : List V) :
    ∀ (pre : List V) (i : Nat) (cur : V) (best : Nat), i = pre.length → best < i →
      (pre ++ vs)[best]? = some cur → (∀ v ∈ pre, cur ≤ v) →
      ∃ m, (pre ++ vs)[argminFrom vs i cur best]? = some m ∧ ∀ v ∈ pre ++ vs, m ≤ v := by
  induction vs with
  | nil =>
    intro pre i cur best hi hbest hcur hmin
    simp only [argminFrom, List.append_nil] at hcur ⊢
    exact ⟨cur, hcur, hmin⟩
  | cons w ws ih =>
    intro pre i cur best hi hbest hcur hmin
    simp only [argminFrom]
    split_ifs with hlt
    · have := ih (pre ++ [w]) (i + 1) w i (by simp [hi]) (by omega) (by simp [hi]) (by
        intro v hv
        simp only [List.mem_append, List.mem_singleton] at hv
        rcases hv with hv | rfl
        · exact le_trans (le_of_lt hlt) (hmin v hv)
        · exact le_refl _)
      simpa using this
    · have := ih (pre ++ [w]) (i + 1) cur best (by simp [hi]) (by omega) (by simpa using hcur) (by
        intro v hv
        simp only [List.mem_append, List.mem_singleton] at hv
        rcases hv with hv | rfl
        · exact hmin v hv
        · exact not_lt.mp hlt)
      simpa using this

theorem argmin_spec {V : Type} [LinearOrder V] (vals : List V) (hne : vals ≠ []) :
    ∃ (hr : argmin vals < vals.length), ∀ v ∈ vals, vals[argmin vals] ≤ v := by
  cases vals with
  | nil => exact absurd rfl hne
  | cons v vs =>
    simp only [argmin]
    obtain ⟨m, hm, hmin⟩ := argminFrom_spec vs [v] 1 v 0 (by simp) (by simp) (by simp) (by simp)
    obtain ⟨hr, rfl⟩ := List.getElem?_eq_some_iff.mp hm
    exact ⟨hr, hmin⟩

theorem minimize_in_box' {K V : Type} [LinearOrder K] [LinearOrder V] (bounds : List (K × K))
    (hb : ∀ b ∈ bounds, b.1 ≤ b.2) (locs : List (List K)) (vals : List V) (hne : vals ≠ [])
    (hlen : locs.length = vals.length) (hdim : ∀ l ∈ locs, l.length = bounds.length) :
    ∃ r i, ∃ (hi : i < locs.length) (hv : i < vals.length),
      minimizeOut bounds locs vals = some r ∧ inBox bounds r = true ∧
      (∀ v ∈ vals, vals[i] ≤ v) ∧ r = clipVec bounds locs[i] := by
  obtain ⟨hr, hmin⟩ := argmin_spec vals hne
  have hi : argmin vals < locs.length := by omega
  refine ⟨clipVec bounds locs[argmin vals], argmin vals, hi, hr, ?_, ?_, hmin, rfl⟩
  · simp [minimizeOut, List.getElem?_eq_getElem hi]
  · exact inBox_clipVec bounds hb _ (hdim _ (List.getElem_mem hi))

theorem inBox_addNoiseRow {K : Type} [LinearOrder K] (isZero : K → Bool) (bounds : List (K × K))
    (stds row d : List K) (hs : stds.length = bounds.length)
    (hr : inBox bounds row = true) (hd : inBox bounds d = true) :
    inBox bounds (addNoiseRow isZero stds row d) = true := by
  induction bounds generalizing stds row d with
  | nil =>
    cases stds with
    | nil => simp [addNoiseRow, inBox]
    | cons a as => simp at hs
  | cons b bs ih =>
    have hrl := inBox_length _ _ hr
    have hdl := inBox_length _ _ hd
    cases stds with
    | nil => simp at hs
    | cons s ss =>
    cases row with
    | nil => simp at hrl
    | cons r rs =>
    cases d with
    | nil => simp at hdl
    | cons d ds =>
      rw [inBox_cons] at hr hd
      have := ih ss rs ds (by simpa using hs) hr.2.2 hd.2.2
      simp only [addNoiseRow, List.zip_cons_cons, List.zipWith_cons_cons] at this ⊢
      rw [inBox_cons]
      refine ⟨?_, ?_, this⟩
      · split_ifs
        · exact hr.1
        · exact hd.1
      · split_ifs
        · exact hr.2.1
        · exact hd.2.1

theorem acquire_base_spec' {K : Type} [LinearOrder K] (isZero : K → Bool) (bounds : List (K × K))
    (stds xhat : List K) (draws : List (List K)) (n : Nat)
    (hx : inBox bounds xhat = true) (hs : stds.length = bounds.length)
    (hd : draws.length = n) (hdr : ∀ d ∈ draws, inBox bounds d = true) :
    (acquireBase isZero stds xhat draws n).length = n ∧
    ∀ r ∈ acquireBase isZero stds xhat draws n, inBox bounds r = true := by
  refine ⟨by simp [acquireBase, hd], ?_⟩
  intro r hr
  simp only [acquireBase] at hr
  rw [List.mem_iff_getElem] at hr
  obtain ⟨i, hi, rfl⟩ := hr
  simp only [List.getElem_zipWith, List.getElem_replicate]
  apply inBox_addNoiseRow isZero bounds stds xhat _ hs hx
  apply hdr
  exact List.getElem_mem _

theorem acquire_tile_spec' {K : Type} [LinearOrder K] (bounds : List (K × K)) (xhat : List K) (n : Nat)
    (hx : inBox bounds xhat = true) :
    (acquireTile xhat n).length = n ∧ ∀ r ∈ acquireTile xhat n, inBox bounds r = true := by
  refine ⟨by simp [acquireTile], ?_⟩
  intro r hr
  simp only [acquireTile, List.mem_replicate] at hr
  rw [hr.2]; exact hx

theorem uniform_in_box' {K : Type} [Field K] [LinearOrder K] [IsStrictOrderedRing K]
    (bounds : List (K × K)) (hb : ∀ b ∈ bounds, b.1 ≤ b.2) (us : List K)
    (hl : us.length = bounds.length) (hu : ∀ u ∈ us, 0 ≤ u ∧ u ≤ 1) :
    inBox bounds (uniformPoint bounds us) = true := by
  induction bounds generalizing us with
  | nil =>
    cases us with
    | nil => simp [uniformPoint, inBox]
    | cons a as => simp at hl
  | cons b bs ih =>
    cases us with
    | nil => simp at hl
    | cons u us =>
      simp only [uniformPoint, List.zipWith_cons_cons]
      rw [inBox_cons]
      have h1 := hb b (by simp)
      have h2 := hu u (by simp)
      have h3 : 0 ≤ b.2 - b.1 := sub_nonneg.mpr h1
      have h4 : 0 ≤ u * (b.2 - b.1) := mul_nonneg h2.1 h3
      have h5 : u * (b.2 - b.1) ≤ 1 * (b.2 - b.1) := mul_le_mul_of_nonneg_right h2.2 h3
      refine ⟨by linarith, by linarith, ?_⟩
      exact ih (fun b' hb' => hb b' (by simp [hb'])) us (by simpa using hl)
        (fun u' hu' => hu u' (by simp [hu']))

theorem randmaxvar_count' {α : Type} (nSamples warmup n : Nat) (samples : List α)
    (perm : List α → List α) (hperm : ∀ l, (perm l).length = l.length)
    (hs : samples.length = nSamples) (hpos : 0 < nSamples) (hn : 1 ≤ n) (r : List α)
    (h : randMaxVarPick true nSamples warmup n samples perm = some r) :
    r.length = n := by
  unfold randMaxVarPick at h
  simp only [if_true] at h
  split_ifs at h with h1 h2
  · simp only [Option.some.injEq] at h
    subst h
    simp only [decide_eq_true_eq, not_and, not_lt] at h1
    have := h1 h2
    simp [hperm]
    omega
  · simp only [Option.some.injEq] at h
    subst h
    simp
    omega

theorem randmaxvar_old_guard_short' :
    (randMaxVarPick false 50 25 40 (List.range 50) id).map List.length = some 25 := by
  simp [randMaxVarPick]

theorem randmaxvar_members' {α : Type} (g : Bool) (nSamples warmup n : Nat) (samples : List α)
    (perm : List α → List α) (hperm : ∀ l, ∀ x ∈ perm l, x ∈ l) (r : List α)
    (h : randMaxVarPick g nSamples warmup n samples perm = some r) : ∀ x ∈ r, x ∈ samples := by
  unfold randMaxVarPick at h
  generalize (if g then decide (1 < n ∧ nSamples - warmup < n) else decide (nSamples < n)) = c at h
  cases c
  · simp only [Bool.false_eq_true, if_false] at h
    split at h
    · simp only [Option.some.injEq] at h
      subst h
      intro x hx
      exact List.mem_of_mem_drop (hperm _ x (List.mem_of_mem_take hx))
    · simp only [Option.some.injEq] at h
      subst h
      intro x hx
      exact List.mem_of_mem_drop hx
  · simp at h

theorem metroStep_inside {α ζ U T : Type} (M : Mcmc.MTarget α ζ U T) (inside : α → Bool)
    (negInf : T) (f : α → T) (hlt : M.lt = boxedTarget inside negInf f) (hinf : M.isInf negInf = true)
    (st : α × T) (zu : ζ × U) (h : inside st.1 = true) :
    inside (Mcmc.metroStep M st zu).1 = true := by
  unfold Mcmc.metroStep
  simp only
  split
  · exact h
  · rename_i hc
    simp only [Bool.or_eq_true, not_or, Bool.not_eq_true] at hc
    have h2 := hc.1.2
    rw [hlt] at h2
    unfold boxedTarget at h2
    by_cases hin : inside (M.prop st.1 zu.1) = true
    · exact hin
    · rw [if_neg hin, hinf] at h2
      exact absurd h2 (by simp)

theorem metroStates_inside {α ζ U T : Type} (M : Mcmc.MTarget α ζ U T) (inside : α → Bool)
    (negInf : T) (f : α → T) (hlt : M.lt = boxedTarget inside negInf f) (hinf : M.isInf negInf = true)
    (st : α × T) (draws : List (ζ × U)) (h : inside st.1 = true) :
    ∀ s ∈ Mcmc.metroStates M st draws, inside s.1 = true := by
  induction draws generalizing st with
  | nil => simp [Mcmc.metroStates, h]
  | cons zu rest ih =>
    intro s hs
    simp only [Mcmc.metroStates, List.mem_cons] at hs
    rcases hs with rfl | hs
    · exact h
    · exact ih _ (metroStep_inside M inside negInf f hlt hinf st zu h) s hs

theorem randmaxvar_chain_in_box' {α ζ U T : Type} (M : Mcmc.MTarget α ζ U T) (inside : α → Bool)
    (negInf : T) (f : α → T) (hlt : M.lt = boxedTarget inside negInf f) (hinf : M.isInf negInf = true)
    (n w : Nat) (x0 : α) (h0 : inside x0 = true) (draws : List (ζ × U)) (out : List α)
    (h : Mcmc.metropolis M n w x0 draws = .ok out) : ∀ x ∈ out, inside x = true := by
  unfold Mcmc.metropolis at h
  split at h
  · exact absurd h (by simp)
  · simp only [Except.ok.injEq] at h
    subst h
    intro x hx
    simp only [List.mem_map] at hx
    obtain ⟨s, hs, rfl⟩ := hx
    exact metroStates_inside M inside negInf f hlt hinf _ _ h0 s (List.mem_of_mem_drop hs)

theorem acq_index_neg_iff' (b bpa nInitial nPre i : Nat) (hb : 0 < b) (hbpa : 0 < bpa)
    (hpre : nPre ≤ nInitial) :
    acqIndex b bpa nInitial nPre i < 0 ↔ b * i < nInitial - nPre := by
  unfold acqIndex
  have hpos : (0 : Int) < ((b * bpa : Nat) : Int) := by
    exact_mod_cast Nat.mul_pos hb hbpa
  rw [Int.ediv_lt_iff_lt_mul hpos]
  generalize b * i = m
  omega

theorem acq_index_group' (b bpa nInitial nPre nInit i : Nat) (hb : 0 < b) (hbpa : 0 < bpa)
    (hpre : nPre ≤ nInitial) (hoff : nInitial - nPre = b * nInit) (hi : nInit ≤ i) :
    acqIndex b bpa nInitial nPre i = (((i - nInit) / bpa : Nat) : Int) := by
  have _ := hbpa  -- not needed: for `bpa = 0` both sides are `0`
  unfold acqIndex
  have h1 : ((b * i : Nat) : Int) - ((nInitial : Int) - (nPre : Int)) = ((b * (i - nInit) : Nat) : Int) := by
    have h2 : b * (i - nInit) = b * i - b * nInit := Nat.mul_sub b i nInit
    have h3 : b * nInit ≤ b * i := Nat.mul_le_mul_left b hi
    rw [h2]
    generalize b * i = m at *
    generalize b * nInit = k at *
    omega
  rw [h1, ← Int.natCast_ediv, Nat.mul_div_mul_left _ _ hb]

section engine
variable {τ β : Type}

/-! ### engine: generic induction over the schedule and a description of one step -/

theorem run_inv (P : BoParams τ β) (mpb : Nat) (I : BoEng τ β → Prop)
    (hstep : ∀ e a e', I e → BoEng.step P mpb e a = some e' → I e') :
    ∀ (sched : List Act) (e e' : BoEng τ β), I e → BoEng.run P mpb e sched = some e' → I e' := by
  intro sched
  induction sched with
  | nil =>
    intro e e' hI h
    simp only [BoEng.run, Option.some.injEq] at h
    subst h
    exact hI
  | cons a as ih =>
    intro e e' hI h
    simp only [BoEng.run] at h
    split at h
    · exact absurd h (by simp)
    · rename_i e1 he1
      exact ih e1 e' (hstep e a e1 hI he1) h

theorem step_consume (P : BoParams τ β) (mpb : Nat) (e e' : BoEng τ β)
    (h : BoEng.step P mpb e .consume = some e') :
    ∃ i t rest, e.pending = (i, t) :: rest ∧
      e' = { e with ev := e.ev ++ [t], consumed := e.consumed ++ [i], pending := rest,
                    log := e.log ++ [BoEv.got i] } := by
  simp only [BoEng.step] at h
  split at h
  · exact absurd h (by simp)
  · rename_i i t rest hp
    simp only [Option.some.injEq] at h
    exact ⟨i, t, rest, hp, h.symm⟩

def grpIdx (P : BoParams τ β) (k : Nat) : Nat := (k - P.nInit) / P.bpa
def grpStart (P : BoParams τ β) (k : Nat) : Nat := P.nInit + grpIdx P k * P.bpa

theorem step_submit (P : BoParams τ β) (mpb : Nat) (e e' : BoEng τ β)
    (h : BoEng.step P mpb e .submit = some e') :
    e.pending.length < mpb ∧ e.consumed.length + e.pending.length < P.total ∧
    ((e.next < P.nInit ∧ e' = e.push (P.sim e.next none) e.acqBuf []) ∨
     (P.nInit ≤ e.next ∧ ∃ a rest, e.acqBuf = a :: rest ∧ e' = e.push (P.sim e.next (some a)) rest []) ∨
     (P.nInit ≤ e.next ∧ e.acqBuf = [] ∧ ¬(P.sync = true ∧ e.pending ≠ []) ∧
        ∃ a rest, P.acquire e.ev (grpIdx P e.next) = a :: rest ∧
          e' = e.push (P.sim e.next (some a)) rest
            [BoEv.acquired (grpIdx P e.next) e.ev.length e.pending.length])) := by
  simp only [BoEng.step] at h
  split at h
  · rename_i hg
    refine ⟨hg.1, hg.2, ?_⟩
    split at h
    · rename_i hlt
      left
      simp only [Option.some.injEq] at h
      exact ⟨hlt, h.symm⟩
    · rename_i hge
      right
      split at h
      · rename_i a rest hb
        left
        simp only [Option.some.injEq] at h
        exact ⟨by omega, a, rest, hb, h.symm⟩
      · rename_i hb
        right
        split at h
        · exact absurd h (by simp)
        · rename_i hs
          split at h
          · exact absurd h (by simp)
          · rename_i a rest ha
            simp only [Option.some.injEq] at h
            exact ⟨by omega, hb, hs, a, rest, ha, h.symm⟩
  · exact absurd h (by simp)

/-! ### bookkeeping invariant -/

structure Inv1 (P : BoParams τ β) (mpb : Nat) (e : BoEng τ β) : Prop where
  cons : e.consumed = List.range e.consumed.length
  evlen : e.ev.length = e.consumed.length
  pend : e.pending.map (·.1) = List.range' e.consumed.length e.pending.length
  next : e.next = e.consumed.length + e.pending.length
  mpb : e.pending.length ≤ mpb
  tot : e.next ≤ P.total

theorem Inv1_init (P : BoParams τ β) (mpb : Nat) : Inv1 P mpb (BoEng.init : BoEng τ β) := by
  constructor <;> simp [BoEng.init]

theorem Inv1_push (P : BoParams τ β) (mpb : Nat) (e : BoEng τ β) (t : τ) (buf : List β)
    (extra : List BoEv) (hI : Inv1 P mpb e) (h1 : e.pending.length < mpb)
    (h2 : e.consumed.length + e.pending.length < P.total) : Inv1 P mpb (e.push t buf extra) := by
  obtain ⟨hc, hev, hp, hn, hm, ht⟩ := hI
  constructor
  · exact hc
  · exact hev
  · simp only [BoEng.push, List.map_append, List.map_cons, List.map_nil, List.length_append,
      List.length_cons, List.length_nil, Nat.zero_add]
    rw [List.range'_1_concat, hp, hn]
  · simp only [BoEng.push, List.length_append, List.length_cons, List.length_nil]
    omega
  · simp only [BoEng.push, List.length_append, List.length_cons, List.length_nil]
    omega
  · simp only [BoEng.push]
    omega

theorem Inv1_head (P : BoParams τ β) (mpb : Nat) (e : BoEng τ β) (hI : Inv1 P mpb e)
    (i : Nat) (t : τ) (rest : List (Nat × τ)) (hp : e.pending = (i, t) :: rest) :
    i = e.consumed.length := by
  have := hI.pend
  rw [hp] at this
  simp only [List.map_cons, List.length_cons, List.range'_succ, List.cons.injEq] at this
  exact this.1

theorem Inv1_step (P : BoParams τ β) (mpb : Nat) (e : BoEng τ β) (a : Act) (e' : BoEng τ β)
    (hI : Inv1 P mpb e) (h : BoEng.step P mpb e a = some e') : Inv1 P mpb e' := by
  cases a with
  | submit =>
    obtain ⟨h1, h2, h3⟩ := step_submit P mpb e e' h
    rcases h3 with ⟨_, rfl⟩ | ⟨_, a, rest, _, rfl⟩ | ⟨_, _, _, a, rest, _, rfl⟩ <;>
      exact Inv1_push P mpb e _ _ _ hI h1 h2
  | consume =>
    obtain ⟨i, t, rest, hp, rfl⟩ := step_consume P mpb e e' h
    have hi := Inv1_head P mpb e hI i t rest hp
    obtain ⟨hc, hev, hpd, hn, hm, ht⟩ := hI
    rw [hp] at hpd hn hm
    simp only [List.map_cons, List.length_cons, List.range'_succ, List.cons.injEq] at hpd
    simp only [List.length_cons] at hn hm
    constructor
    · simp only [List.length_append, List.length_cons, List.length_nil, Nat.zero_add]
      rw [List.range_succ, ← hc, hi]
    · simp only [List.length_append, List.length_cons, List.length_nil, hev]
    · simp only [List.length_append, List.length_cons, List.length_nil, Nat.zero_add]
      exact hpd.2
    · simp only [List.length_append, List.length_cons, List.length_nil]
      omega
    · simp only
      omega
    · simp only
      exact ht

theorem bo_bookkeeping' (P : BoParams τ β) (mpb : Nat) (sched : List Act) (e : BoEng τ β)
    (h : BoEng.run P mpb BoEng.init sched = some e) (nPre b : Nat) :
    e.consumed = List.range e.consumed.length ∧ e.ev.length = e.consumed.length ∧
    e.pending.map (·.1) = List.range' e.consumed.length e.pending.length ∧
    e.next = e.consumed.length + e.pending.length ∧ e.pending.length ≤ mpb ∧ e.next ≤ P.total ∧
    nEvidence nPre b e = nPre + b * e.ev.length := by
  have hI := run_inv P mpb (Inv1 P mpb) (Inv1_step P mpb) sched _ e (Inv1_init P mpb) h
  exact ⟨hI.cons, hI.evlen, hI.pend, hI.next, hI.mpb, hI.tot, by simp [nEvidence, hI.evlen]⟩

/-! ### the evidence is what ran -/

def Inv2 (P : BoParams τ β) (e : BoEng τ β) : Prop :=
  (∀ k t, e.ev[k]? = some t → ∃ a, t = P.sim k a) ∧ ∀ p ∈ e.pending, ∃ a, p.2 = P.sim p.1 a

theorem Inv2_push (P : BoParams τ β) (e : BoEng τ β) (a : Option β) (buf : List β)
    (extra : List BoEv) (hI : Inv2 P e) : Inv2 P (e.push (P.sim e.next a) buf extra) := by
  refine ⟨hI.1, ?_⟩
  intro p hp
  simp only [BoEng.push, List.mem_append, List.mem_singleton] at hp
  rcases hp with hp | rfl
  · exact hI.2 p hp
  · exact ⟨a, rfl⟩

theorem Inv12_step (P : BoParams τ β) (mpb : Nat) (e : BoEng τ β) (a : Act) (e' : BoEng τ β)
    (hI : Inv1 P mpb e ∧ Inv2 P e) (h : BoEng.step P mpb e a = some e') :
    Inv1 P mpb e' ∧ Inv2 P e' := by
  refine ⟨Inv1_step P mpb e a e' hI.1 h, ?_⟩
  obtain ⟨hI1, hI2⟩ := hI
  cases a with
  | submit =>
    obtain ⟨h1, h2, h3⟩ := step_submit P mpb e e' h
    rcases h3 with ⟨_, rfl⟩ | ⟨_, a, rest, _, rfl⟩ | ⟨_, _, _, a, rest, _, rfl⟩ <;>
      exact Inv2_push P e _ _ _ hI2
  | consume =>
    obtain ⟨i, t, rest, hp, rfl⟩ := step_consume P mpb e e' h
    have hi := Inv1_head P mpb e hI1 i t rest hp
    constructor
    · intro k t' hk
      simp only at hk
      by_cases hlt : k < e.ev.length
      · rw [List.getElem?_append_left hlt] at hk
        exact hI2.1 k t' hk
      · rw [List.getElem?_append_right (by omega)] at hk
        have hk0 : k - e.ev.length = 0 := by
          by_contra hne
          rw [List.getElem?_eq_none (by simp; omega)] at hk
          exact absurd hk (by simp)
        rw [hk0] at hk
        simp only [List.getElem?_cons_zero, Option.some.injEq] at hk
        subst hk
        have : k = i := by rw [hi, ← hI1.evlen]; omega
        subst this
        exact hI2.2 (k, t) (by rw [hp]; simp)
    · intro p hpm
      exact hI2.2 p (by rw [hp]; simp [hpm])

theorem Inv2_init (P : BoParams τ β) : Inv2 P (BoEng.init : BoEng τ β) := by
  constructor <;> simp [BoEng.init]

theorem bo_evidence_is_what_ran' (P : BoParams τ β) (mpb : Nat) (sched : List Act) (e : BoEng τ β)
    (h : BoEng.run P mpb BoEng.init sched = some e) :
    (∀ k (hk : k < e.ev.length), ∃ a, e.ev[k] = P.sim k a) ∧ ∀ p ∈ e.pending, ∃ a, p.2 = P.sim p.1 a := by
  have hI := run_inv P mpb (fun e => Inv1 P mpb e ∧ Inv2 P e) (Inv12_step P mpb) sched _ e
    ⟨Inv1_init P mpb, Inv2_init P⟩ h
  refine ⟨?_, hI.2.2⟩
  intro k hk
  exact hI.2.1 k _ (List.getElem?_eq_getElem hk)

/-! ### synchronous acquisition: the sequential evidence -/

theorem seqEvidence_length (P : BoParams τ β) (n : Nat) : (seqEvidence P n).length = n := by
  induction n with
  | zero => simp [seqEvidence]
  | succ n ih => simp [seqEvidence, ih]

theorem seqEvidence_take (P : BoParams τ β) (n k : Nat) (h : k ≤ n) :
    (seqEvidence P n).take k = seqEvidence P k := by
  induction n with
  | zero =>
    have : k = 0 := by omega
    subst this
    simp [seqEvidence]
  | succ n ih =>
    by_cases hk : k = n + 1
    · subst hk
      rw [List.take_of_length_le]
      simp [seqEvidence_length]
    · simp only [seqEvidence]
      rw [List.take_append_of_le_length (by rw [seqEvidence_length]; omega)]
      exact ih (by omega)

theorem grpStart_le (P : BoParams τ β) (k : Nat) (hk : P.nInit ≤ k) : grpStart P k ≤ k := by
  unfold grpStart grpIdx
  have := Nat.div_mul_le_self (k - P.nInit) P.bpa
  omega

theorem grp_lt (P : BoParams τ β) (k : Nat) (hbpa : 0 < P.bpa) (hk : P.nInit ≤ k) :
    k - grpStart P k < P.bpa := by
  unfold grpStart grpIdx
  have h1 := Nat.div_add_mod (k - P.nInit) P.bpa
  have h2 := Nat.mod_lt (k - P.nInit) hbpa
  rw [Nat.mul_comm] at h1
  omega

theorem grp_same (P : BoParams τ β) (k : Nat) (hk : P.nInit ≤ k)
    (h : k - grpStart P k + 1 < P.bpa) : grpIdx P (k + 1) = grpIdx P k := by
  have hle := grpStart_le P k hk
  unfold grpStart at h hle
  show (k + 1 - P.nInit) / P.bpa = grpIdx P k
  apply Nat.div_eq_of_lt_le
  · omega
  · rw [Nat.add_mul, Nat.one_mul]
    omega

theorem grp_new (P : BoParams τ β) (k : Nat) (hbpa : 0 < P.bpa) (hk : P.nInit ≤ k)
    (h : P.bpa ≤ k - grpStart P k + 1) :
    grpIdx P (k + 1) = grpIdx P k + 1 ∧ grpStart P (k + 1) = k + 1 := by
  have hle := grpStart_le P k hk
  have hlt := grp_lt P k hbpa hk
  have h1 : grpIdx P (k + 1) = grpIdx P k + 1 := by
    unfold grpStart at h hle hlt
    show (k + 1 - P.nInit) / P.bpa = grpIdx P k + 1
    apply Nat.div_eq_of_lt_le
    · rw [Nat.add_mul, Nat.one_mul]
      omega
    · rw [Nat.add_mul, Nat.add_mul, Nat.one_mul]
      omega
  refine ⟨h1, ?_⟩
  unfold grpStart at *
  rw [h1, Nat.add_mul, Nat.one_mul]
  omega

theorem grp_init (P : BoParams τ β) : grpIdx P P.nInit = 0 ∧ grpStart P P.nInit = P.nInit := by
  simp [grpStart, grpIdx]

theorem nextBatch_lt (P : BoParams τ β) (k : Nat) (h : k < P.nInit) :
    nextBatch P (seqEvidence P k) = P.sim k none := by
  simp [nextBatch, seqEvidence_length, h]

theorem nextBatch_ge (P : BoParams τ β) (k : Nat) (h : P.nInit ≤ k) :
    nextBatch P (seqEvidence P k) =
      P.sim k ((P.acquire (seqEvidence P (grpStart P k)) (grpIdx P k))[k - grpStart P k]?) := by
  have hs := grpStart_le P k h
  simp only [nextBatch, seqEvidence_length, if_neg (by omega : ¬ k < P.nInit)]
  show P.sim k ((P.acquire ((seqEvidence P k).take (grpStart P k)) (grpIdx P k))[k - grpStart P k]?) = _
  rw [seqEvidence_take P k _ hs]

structure Inv3 (P : BoParams τ β) (e : BoEng τ β) : Prop where
  seq : e.ev ++ e.pending.map (·.2) = seqEvidence P e.next
  buf0 : e.next ≤ P.nInit → e.acqBuf = []
  buf1 : ∀ k, e.next = k + 1 → P.nInit ≤ k →
    e.acqBuf = (P.acquire (seqEvidence P (grpStart P k)) (grpIdx P k)).drop (k - grpStart P k + 1)
  log : ∀ t n p, BoEv.acquired t n p ∈ e.log → p = 0 ∧ n = P.nInit + t * P.bpa

theorem Inv3_init (P : BoParams τ β) : Inv3 P (BoEng.init : BoEng τ β) := by
  constructor <;> simp [BoEng.init, seqEvidence]

theorem push_seq (P : BoParams τ β) (e : BoEng τ β) (t : τ) (buf : List β) (extra : List BoEv)
    (hseq : e.ev ++ e.pending.map (·.2) = seqEvidence P e.next)
    (ht : t = nextBatch P (seqEvidence P e.next)) :
    (e.push t buf extra).ev ++ (e.push t buf extra).pending.map (·.2) =
      seqEvidence P (e.push t buf extra).next := by
  simp only [BoEng.push, List.map_append, List.map_cons, List.map_nil, seqEvidence]
  rw [← List.append_assoc, hseq, ht]

theorem Inv13_step (P : BoParams τ β) (hsync : P.sync = true) (hbpa : 0 < P.bpa)
    (hacq : ∀ ev t, (P.acquire ev t).length = P.bpa) (mpb : Nat) (e : BoEng τ β) (a : Act)
    (e' : BoEng τ β) (hI : Inv1 P mpb e ∧ Inv3 P e) (h : BoEng.step P mpb e a = some e') :
    Inv1 P mpb e' ∧ Inv3 P e' := by
  refine ⟨Inv1_step P mpb e a e' hI.1 h, ?_⟩
  obtain ⟨hI1, hseq, hbuf0, hbuf1, hlog⟩ := hI
  cases a with
  | consume =>
    obtain ⟨i, t, rest, hp, rfl⟩ := step_consume P mpb e e' h
    constructor
    · simp only
      rw [← hseq, hp]
      simp
    · exact hbuf0
    · exact hbuf1
    · intro t' n p hm
      simp only [List.mem_append, List.mem_singleton] at hm
      rcases hm with hm | hm
      · exact hlog t' n p hm
      · exact absurd hm (by simp)
  | submit =>
    obtain ⟨h1, h2, h3⟩ := step_submit P mpb e e' h
    rcases h3 with ⟨hlt, rfl⟩ | ⟨hge, a, rest, hb, rfl⟩ | ⟨hge, hb, hs, a, rest, ha, rfl⟩
    · -- prior phase
      constructor
      · exact push_seq P e _ _ _ hseq (nextBatch_lt P _ hlt).symm
      · intro _
        exact hbuf0 (by omega)
      · intro k hk hk2
        simp only [BoEng.push] at hk
        omega
      · intro t' n p hm
        simp only [BoEng.push, List.append_nil, List.mem_append, List.mem_singleton] at hm
        rcases hm with hm | hm
        · exact hlog t' n p hm
        · exact absurd hm (by simp)
    · -- next slice of the current acquisition
      have hgt : P.nInit < e.next := by
        by_contra hc
        rw [hbuf0 (by omega)] at hb
        exact absurd hb (by simp)
      obtain ⟨k, hk⟩ : ∃ k, e.next = k + 1 := ⟨e.next - 1, by omega⟩
      have hkge : P.nInit ≤ k := by omega
      have hbk := hbuf1 k hk hkge
      have hsle := grpStart_le P k hkge
      rw [hb] at hbk
      have hL := hacq (seqEvidence P (grpStart P k)) (grpIdx P k)
      have hjlt : k - grpStart P k + 1 < P.bpa := by
        have := congrArg List.length hbk
        simp only [List.length_cons, List.length_drop, hL] at this
        omega
      have hsame := grp_same P k hkge hjlt
      have hstart : grpStart P (k + 1) = grpStart P k := by
        unfold grpStart; rw [hsame]
      rw [List.drop_eq_getElem_cons (by rw [hL]; exact hjlt)] at hbk
      simp only [List.cons.injEq] at hbk
      obtain ⟨ha, hrest⟩ := hbk
      constructor
      · apply push_seq P e _ _ _ hseq
        rw [nextBatch_ge P _ hge, hk, hstart, hsame]
        congr 1
        rw [ha]
        have : k + 1 - grpStart P k = k - grpStart P k + 1 := by omega
        rw [this]
        exact (List.getElem?_eq_getElem _).symm
      · intro hle
        simp only [BoEng.push] at hle
        omega
      · intro k' hk' hk2
        simp only [BoEng.push] at hk' ⊢
        have : k' = k + 1 := by omega
        subst this
        rw [hstart, hsame, hrest]
        congr 1
        omega
      · intro t' n p hm
        simp only [BoEng.push, List.append_nil, List.mem_append, List.mem_singleton] at hm
        rcases hm with hm | hm
        · exact hlog t' n p hm
        · exact absurd hm (by simp)
    · -- a new acquisition
      have hpend : e.pending = [] := by
        by_contra hc
        exact hs ⟨hsync, hc⟩
      have hev : e.ev = seqEvidence P e.next := by
        rw [← hseq, hpend]; simp
      have hstart : grpStart P e.next = e.next := by
        by_cases heq : e.next = P.nInit
        · rw [heq]; exact (grp_init P).2
        · obtain ⟨k, hk⟩ : ∃ k, e.next = k + 1 := ⟨e.next - 1, by omega⟩
          have hkge : P.nInit ≤ k := by omega
          have hbk := hbuf1 k hk hkge
          rw [hb] at hbk
          have hL := hacq (seqEvidence P (grpStart P k)) (grpIdx P k)
          have hj : P.bpa ≤ k - grpStart P k + 1 := by
            have := congrArg List.length hbk
            simp only [List.length_nil, List.length_drop, hL] at this
            omega
          rw [hk]
          exact (grp_new P k hbpa hkge hj).2
      rw [hev] at ha
      constructor
      · apply push_seq P e _ _ _ hseq
        rw [nextBatch_ge P _ hge, hstart, ha]
        simp
      · intro hle
        simp only [BoEng.push] at hle
        omega
      · intro k' hk' hk2
        simp only [BoEng.push] at hk' ⊢
        have : k' = e.next := by omega
        subst this
        rw [hstart, ha]
        simp
      · intro t' n p hm
        simp only [BoEng.push, List.mem_append, List.mem_singleton] at hm
        rcases hm with (hm | hm) | hm
        · exact hlog t' n p hm
        · simp only [BoEv.acquired.injEq] at hm
          obtain ⟨rfl, rfl, rfl⟩ := hm
          refine ⟨by rw [hpend]; rfl, ?_⟩
          have hn := hI1.next
          rw [hpend] at hn
          rw [hI1.evlen]
          simp only [List.length_nil, Nat.add_zero] at hn
          rw [← hn]
          exact hstart.symm
        · exact absurd hm (by simp)

theorem sync_inv (P : BoParams τ β) (hsync : P.sync = true) (hbpa : 0 < P.bpa)
    (hacq : ∀ ev t, (P.acquire ev t).length = P.bpa) (mpb : Nat) (sched : List Act) (e : BoEng τ β)
    (h : BoEng.run P mpb BoEng.init sched = some e) : Inv1 P mpb e ∧ Inv3 P e :=
  run_inv P mpb (fun e => Inv1 P mpb e ∧ Inv3 P e) (Inv13_step P hsync hbpa hacq mpb) sched _ e
    ⟨Inv1_init P mpb, Inv3_init P⟩ h

theorem bo_sync_schedule_independent' (P : BoParams τ β) (hsync : P.sync = true) (hbpa : 0 < P.bpa)
    (hacq : ∀ ev t, (P.acquire ev t).length = P.bpa) (mpb : Nat) (sched : List Act) (e : BoEng τ β)
    (h : BoEng.run P mpb BoEng.init sched = some e) :
    e.ev = seqEvidence P e.consumed.length ∧ e.ev ++ e.pending.map (·.2) = seqEvidence P e.next := by
  obtain ⟨hI1, hI3⟩ := sync_inv P hsync hbpa hacq mpb sched e h
  refine ⟨?_, hI3.seq⟩
  have h1 := congrArg (List.take e.consumed.length) hI3.seq
  rw [seqEvidence_take P _ _ (by rw [hI1.next]; omega), ← hI1.evlen, List.take_left] at h1
  rw [← hI1.evlen]
  exact h1

theorem bo_sync_pair' (P : BoParams τ β) (hsync : P.sync = true) (hbpa : 0 < P.bpa)
    (hacq : ∀ ev t, (P.acquire ev t).length = P.bpa) (m₁ m₂ : Nat) (s₁ s₂ : List Act) (e₁ e₂ : BoEng τ β)
    (h₁ : BoEng.run P m₁ BoEng.init s₁ = some e₁) (h₂ : BoEng.run P m₂ BoEng.init s₂ = some e₂)
    (hc₁ : e₁.consumed.length = P.total) (hc₂ : e₂.consumed.length = P.total) : e₁.ev = e₂.ev := by
  rw [(bo_sync_schedule_independent' P hsync hbpa hacq m₁ s₁ e₁ h₁).1,
    (bo_sync_schedule_independent' P hsync hbpa hacq m₂ s₂ e₂ h₂).1, hc₁, hc₂]

theorem bo_sync_acquire_events' (P : BoParams τ β) (hsync : P.sync = true) (hbpa : 0 < P.bpa)
    (hacq : ∀ ev t, (P.acquire ev t).length = P.bpa) (mpb : Nat) (sched : List Act) (e : BoEng τ β)
    (h : BoEng.run P mpb BoEng.init sched = some e) :
    ∀ t n p, BoEv.acquired t n p ∈ e.log → p = 0 ∧ n = P.nInit + t * P.bpa :=
  (sync_inv P hsync hbpa hacq mpb sched e h).2.log

theorem bo_async_counterexample' :
    let P : BoParams (Nat × Option Nat) Nat :=
      { nInit := 1, bpa := 1, total := 3, sync := false, sim := fun i a => (i, a), acquire := fun ev _ => [ev.length] }
    (BoEng.run P 2 BoEng.init [.submit, .consume, .submit, .consume, .submit, .consume]).map (·.ev) ≠
    (BoEng.run P 2 BoEng.init [.submit, .submit, .consume, .consume, .submit, .consume]).map (·.ev) := by
  decide

theorem bo_sync_example' :
    let P : BoParams (Nat × Option Nat) Nat :=
      { nInit := 2, bpa := 2, total := 6, sync := true, sim := fun i a => (i, a), acquire := fun ev t => [10 * t + ev.length, 10 * t + ev.length + 1] }
    (BoEng.run P 2 BoEng.init [.submit, .submit, .consume, .consume, .submit, .submit, .consume, .consume,
        .submit, .consume, .submit, .consume]).map (fun e => (e.ev, e.consumed.length)) =
      some ([(0, none), (1, none), (2, some 2), (3, some 3), (4, some 14), (5, some 15)], 6) := by
  decide

end engine

/-! ### gradients -/

theorem lcbsc_grad_is_derivative' (μ v : ℝ → ℝ) (β x dμ dv : ℝ) (hμ : HasDerivAt μ dμ x)
    (hv : HasDerivAt v dv x) (hβ : 0 < β) (hvpos : 0 < v x) :
    HasDerivAt (fun y => lcbscVal Real.sqrt β (μ y) (v y)) (lcbscGrad Real.sqrt β (v x) dμ dv) x := by
  have h05 : (0.5 : ℝ) = 1 / 2 := by norm_num
  have hne : β * v x ≠ 0 := (mul_pos hβ hvpos).ne'
  have hm : HasDerivAt (fun y => β * v y) (β * dv) x := HasDerivAt.const_mul β hv
  have hs : HasDerivAt (fun y => Real.sqrt (β * v y)) (β * dv / (2 * Real.sqrt (β * v x))) x :=
    HasDerivAt.sqrt hm hne
  have h1 : HasDerivAt (fun y => μ y - Real.sqrt (β * v y))
      (dμ - β * dv / (2 * Real.sqrt (β * v x))) x := HasDerivAt.fun_sub hμ hs
  have hval : lcbscGrad Real.sqrt β (v x) dμ dv = dμ - β * dv / (2 * Real.sqrt (β * v x)) := by
    unfold lcbscGrad
    rw [h05, Real.sqrt_div hβ.le, Real.sqrt_mul hβ.le]
    have hsb : 0 < Real.sqrt β := Real.sqrt_pos.mpr hβ
    have hsv : 0 < Real.sqrt (v x) := Real.sqrt_pos.mpr hvpos
    have eβ : β = Real.sqrt β * Real.sqrt β := (Real.mul_self_sqrt hβ.le).symm
    generalize Real.sqrt β = b at *
    generalize Real.sqrt (v x) = r at *
    rw [eβ]
    field_simp
  rw [hval]
  exact h1

theorem mv_gradA_is_derivative' (μ v : ℝ → ℝ) (ε s2 x dμ dv : ℝ) (hμ : HasDerivAt μ dμ x)
    (hv : HasDerivAt v dv x) (hpos : 0 < s2 + v x) :
    HasDerivAt (fun y => mvA Real.sqrt ε s2 (μ y) (v y)) (mvGradA Real.sqrt ε s2 (μ x) (v x) dμ dv) x := by
  have h2 : (2.0 : ℝ) = 2 := by norm_num
  have h1 : (1.0 : ℝ) = 1 := by norm_num
  have ha : HasDerivAt (fun y => s2 + v y) dv x := HasDerivAt.const_add s2 hv
  have hs : HasDerivAt (fun y => Real.sqrt (s2 + v y)) (dv / (2 * Real.sqrt (s2 + v x))) x :=
    HasDerivAt.sqrt ha hpos.ne'
  have hr : 0 < Real.sqrt (s2 + v x) := Real.sqrt_pos.mpr hpos
  have hn : HasDerivAt (fun y => ε - μ y) (-dμ) x := HasDerivAt.const_sub ε hμ
  have hd : HasDerivAt (fun y => (ε - μ y) / Real.sqrt (s2 + v y))
      ((-dμ * Real.sqrt (s2 + v x) - (ε - μ x) * (dv / (2 * Real.sqrt (s2 + v x))))
        / Real.sqrt (s2 + v x) ^ 2) x := HasDerivAt.fun_div hn hs hr.ne'
  have hval : mvGradA Real.sqrt ε s2 (μ x) (v x) dμ dv =
      (-dμ * Real.sqrt (s2 + v x) - (ε - μ x) * (dv / (2 * Real.sqrt (s2 + v x))))
        / Real.sqrt (s2 + v x) ^ 2 := by
    unfold mvGradA
    rw [h2, h1]
    have e : s2 + v x = Real.sqrt (s2 + v x) * Real.sqrt (s2 + v x) := (Real.mul_self_sqrt hpos.le).symm
    generalize Real.sqrt (s2 + v x) = r at *
    rw [e]
    field_simp
  rw [hval]
  exact hd

theorem mv_gradB_is_derivative' (v : ℝ → ℝ) (s2 x dv : ℝ) (hv : HasDerivAt v dv x)
    (hpos : 0 < s2 + 2 * v x) :
    HasDerivAt (fun y => mvB Real.sqrt s2 (v y)) (mvGradB Real.sqrt s2 (v x) dv) x := by
  have h2 : (2.0 : ℝ) = 2 := by norm_num
  have hm : HasDerivAt (fun y => 2 * v y) (2 * dv) x := HasDerivAt.const_mul 2 hv
  have ha : HasDerivAt (fun y => s2 + 2 * v y) (2 * dv) x := HasDerivAt.const_add s2 hm
  have hs : HasDerivAt (fun y => Real.sqrt (s2 + 2 * v y)) (2 * dv / (2 * Real.sqrt (s2 + 2 * v x))) x :=
    HasDerivAt.sqrt ha hpos.ne'
  have hr : 0 < Real.sqrt (s2 + 2 * v x) := Real.sqrt_pos.mpr hpos
  have hc : HasDerivAt (fun _ : ℝ => Real.sqrt s2) 0 x := hasDerivAt_const x _
  have hd : HasDerivAt (fun y => Real.sqrt s2 / Real.sqrt (s2 + 2 * v y))
      ((0 * Real.sqrt (s2 + 2 * v x) - Real.sqrt s2 * (2 * dv / (2 * Real.sqrt (s2 + 2 * v x))))
        / Real.sqrt (s2 + 2 * v x) ^ 2) x := HasDerivAt.fun_div hc hs hr.ne'
  have hval : mvGradB Real.sqrt s2 (v x) dv =
      ((0 * Real.sqrt (s2 + 2 * v x) - Real.sqrt s2 * (2 * dv / (2 * Real.sqrt (s2 + 2 * v x))))
        / Real.sqrt (s2 + 2 * v x) ^ 2) := by
    unfold mvGradB
    rw [h2]
    have e : s2 + 2 * v x = Real.sqrt (s2 + 2 * v x) * Real.sqrt (s2 + 2 * v x) :=
      (Real.mul_self_sqrt hpos.le).symm
    generalize Real.sqrt (s2 + 2 * v x) = r at *
    rw [e]
    field_simp
    ring
  have hf : (fun y => mvB Real.sqrt s2 (v y)) = (fun y => Real.sqrt s2 / Real.sqrt (s2 + 2 * v y)) := by
    funext y; unfold mvB; rw [h2]
  rw [hval, hf]
  exact hd

theorem sqrt_pi_key (π : ℝ) : (1 / π) * Real.sqrt (π / 2) = (Real.sqrt (2 * π))⁻¹ := by
  rcases lt_or_ge 0 π with hπ | hπ
  · have hS : 0 < Real.sqrt (2 * π) := Real.sqrt_pos.mpr (by linarith)
    have hSS : Real.sqrt (2 * π) * Real.sqrt (2 * π) = 2 * π := Real.mul_self_sqrt (by linarith)
    have hR : Real.sqrt (π / 2) = Real.sqrt (2 * π) / 2 := by
      rw [Real.sqrt_eq_iff_mul_self_eq (by linarith) (by linarith)]
      linarith
    rw [hR]
    have hπ' : π = Real.sqrt (2 * π) * Real.sqrt (2 * π) / 2 := by linarith
    generalize Real.sqrt (2 * π) = S at *
    rw [hπ']
    field_simp
  · rw [Real.sqrt_eq_zero_of_nonpos (by linarith : π / 2 ≤ 0),
      Real.sqrt_eq_zero_of_nonpos (by linarith : 2 * π ≤ 0)]
    simp

theorem mv_grad_is_derivative' (Φ : ℝ → ℝ) (T : ℝ × ℝ → ℝ) (p a b : ℝ → ℝ) (x glp da db : ℝ)
    (hΦ : ∀ z, HasDerivAt Φ (Real.exp (-(z * z) / 2) / Real.sqrt (2 * π)) z)
    (hT : HasFDerivAt T
      ((((Real.exp (-(a x * a x) / 2) / Real.sqrt (2 * π)) * (1 - 2 * Φ (a x * b x)) / 2) • ContinuousLinearMap.fst ℝ ℝ ℝ)
        + ((Real.exp (-(a x * a x) * (1 + b x * b x) / 2) / (2 * π * (1 + b x * b x))) • ContinuousLinearMap.snd ℝ ℝ ℝ))
      (a x, b x))
    (hp : HasDerivAt p (p x * glp) x) (ha : HasDerivAt a da x) (hb : HasDerivAt b db x) :
    HasDerivAt (fun y => mvVal (p y) (Φ (a y)) (T (a y, b y)))
      (mvGrad Real.sqrt Real.exp π (p x) glp (Φ (a x)) (Φ (a x * b x)) (T (a x, b x)) (a x) (b x) da db) x := by
  have h05 : (0.5 : ℝ) = 1 / 2 := by norm_num
  have h2 : (2.0 : ℝ) = 2 := by norm_num
  have h1 : (1.0 : ℝ) = 1 := by norm_num
  have hΦa : HasDerivAt (fun y => Φ (a y))
      (Real.exp (-(a x * a x) / 2) / Real.sqrt (2 * π) * da) x :=
    HasDerivAt.comp x (hΦ (a x)) ha
  have hab : HasDerivAt (fun y => (a y, b y)) (da, db) x := HasDerivAt.prodMk ha hb
  have hTab0 := HasFDerivAt.comp_hasDerivAt x hT hab
  have hTab : HasDerivAt (fun y => T (a y, b y))
      ((Real.exp (-(a x * a x) / 2) / Real.sqrt (2 * π)) * (1 - 2 * Φ (a x * b x)) / 2 * da
        + (Real.exp (-(a x * a x) * (1 + b x * b x) / 2) / (2 * π * (1 + b x * b x))) * db) x := by
    refine HasDerivAt.congr_deriv hTab0 ?_
    simp
  have hpp : HasDerivAt (fun y => p y * p y) (p x * glp * p x + p x * (p x * glp)) x :=
    HasDerivAt.fun_mul hp hp
  have hΦΦ := HasDerivAt.fun_mul hΦa hΦa
  have hint1 := HasDerivAt.fun_sub hΦa hΦΦ
  have h2T := HasDerivAt.const_mul 2 hTab
  have hin := HasDerivAt.fun_sub hint1 h2T
  have hall := HasDerivAt.fun_mul hpp hin
  have hf : (fun y => mvVal (p y) (Φ (a y)) (T (a y, b y))) =
      fun y => p y * p y * ((Φ (a y) - Φ (a y) * Φ (a y)) - 2 * T (a y, b y)) := by
    funext y; unfold mvVal; rw [h2]
  rw [hf]
  refine HasDerivAt.congr_deriv hall ?_
  unfold mvGrad
  simp only [h05, h2, h1]
  have e1 : Real.exp (-(1 / 2) * (a x * a x)) = Real.exp (-(a x * a x) / 2) := by
    congr 1; ring
  have e2 : Real.exp (-(1 / 2) * (a x * a x) * (1 + b x * b x)) =
      Real.exp (-(a x * a x) * (1 + b x * b x) / 2) := by
    congr 1; ring
  rw [e1, e2]
  have hk := sqrt_pi_key π
  generalize Real.exp (-(a x * a x) / 2) = E1 at *
  generalize Real.exp (-(a x * a x) * (1 + b x * b x) / 2) = E2 at *
  generalize Real.sqrt (2 * π) = S at *
  generalize Real.sqrt (π / 2) = R at *
  generalize 1 + b x * b x = c at *
  linear_combination (p x * p x * E1 * (1 - 2 * Φ (a x * b x)) * da) * hk

end ElfiVerif.Bo
