import ElfiVerif.Proofs.Bo

/-! Proofs about the BO engine under arbitrary (also asynchronous) schedules; statements in `Props/C11.lean`. -/
namespace ElfiVerif.Bo

variable {τ β : Type}

/-- batch `k` with result `t` ran with prior draws (`k < nInit`) or with the right slice of an acquisition
    made on a prefix of the evidence `ev` -/
def Acq (P : BoParams τ β) (ev : List τ) (k : Nat) (t : τ) : Prop :=
  (k < P.nInit → t = P.sim k none) ∧
  (P.nInit ≤ k → ∃ n, n ≤ ev.length ∧ ∃ x,
    (P.acquire (ev.take n) ((k - P.nInit) / P.bpa))[(k - P.nInit) % P.bpa]? = some x ∧
    t = P.sim k (some x))

theorem Acq_mono (P : BoParams τ β) (ev : List τ) (s : τ) (k : Nat) (t : τ) (h : Acq P ev k t) :
    Acq P (ev ++ [s]) k t := by
  refine ⟨h.1, fun hk => ?_⟩
  obtain ⟨n, hn, x, hx, ht⟩ := h.2 hk
  refine ⟨n, ?_, x, ?_, ht⟩
  · simp only [List.length_append, List.length_cons, List.length_nil]
    omega
  · rw [List.take_append_of_le_length hn]
    exact hx

theorem divmod_succ (b m : Nat) (hb : 0 < b) :
    (m % b + 1 = b ∧ (m + 1) % b = 0) ∨
    (m % b + 1 < b ∧ (m + 1) / b = m / b ∧ (m + 1) % b = m % b + 1) := by
  have h1 := Nat.div_add_mod m b
  have h2 := Nat.mod_lt m hb
  by_cases h : m % b + 1 = b
  · left
    refine ⟨h, ?_⟩
    have : (m + 1) / b = m / b + 1 ∧ (m + 1) % b = 0 := by
      rw [Nat.div_mod_unique hb, Nat.mul_add, Nat.mul_one]
      omega
    exact this.2
  · right
    refine ⟨by omega, ?_⟩
    rw [Nat.div_mod_unique hb]
    omega

structure Inv4 (P : BoParams τ β) (e : BoEng τ β) : Prop where
  ev : ∀ k t, e.ev[k]? = some t → Acq P e.ev k t
  pend : ∀ p ∈ e.pending, Acq P e.ev p.1 p.2
  buf0 : e.next ≤ P.nInit → e.acqBuf = []
  buf1 : P.nInit ≤ e.next →
    (e.acqBuf = [] ∧ (e.next - P.nInit) % P.bpa = 0) ∨
    ∃ n, n ≤ e.ev.length ∧
      e.acqBuf = (P.acquire (e.ev.take n) ((e.next - P.nInit) / P.bpa)).drop ((e.next - P.nInit) % P.bpa)

theorem Inv4_init (P : BoParams τ β) : Inv4 P (BoEng.init : BoEng τ β) := by
  constructor <;> simp [BoEng.init]

/-- submitting batch `e.next ≥ nInit` with the head of the (rest of the) current acquisition -/
theorem Inv4_push_slice (P : BoParams τ β) (hbpa : 0 < P.bpa)
    (hacq : ∀ ev t, (P.acquire ev t).length = P.bpa) (e : BoEng τ β) (hI : Inv4 P e)
    (hge : P.nInit ≤ e.next) (n : Nat) (hn : n ≤ e.ev.length) (a : β) (rest : List β) (extra : List BoEv)
    (hr : (P.acquire (e.ev.take n) ((e.next - P.nInit) / P.bpa)).drop ((e.next - P.nInit) % P.bpa) = a :: rest) :
    Inv4 P (e.push (P.sim e.next (some a)) rest extra) := by
  have hL := hacq (e.ev.take n) ((e.next - P.nInit) / P.bpa)
  have hrlt : (e.next - P.nInit) % P.bpa < P.bpa := Nat.mod_lt _ hbpa
  rw [List.drop_eq_getElem_cons (by rw [hL]; exact hrlt)] at hr
  simp only [List.cons.injEq] at hr
  obtain ⟨ha, hrest⟩ := hr
  constructor
  · exact hI.ev
  · intro p hp
    simp only [BoEng.push, List.mem_append, List.mem_singleton] at hp
    rcases hp with hp | rfl
    · exact hI.pend p hp
    · refine ⟨fun h => by omega, fun _ => ⟨n, hn, a, ?_, rfl⟩⟩
      rw [← ha]
      exact List.getElem?_eq_getElem _
  · intro hle
    simp only [BoEng.push] at hle
    omega
  · intro _
    simp only [BoEng.push]
    have hsucc : e.next + 1 - P.nInit = (e.next - P.nInit) + 1 := by omega
    rw [hsucc]
    rcases divmod_succ P.bpa (e.next - P.nInit) hbpa with ⟨h1, h2⟩ | ⟨_, h2, h3⟩
    · left
      refine ⟨?_, h2⟩
      rw [← hrest]
      apply List.drop_eq_nil_of_le
      rw [hL]
      omega
    · right
      refine ⟨n, hn, ?_⟩
      rw [h2, h3]
      exact hrest.symm

theorem Inv14_step (P : BoParams τ β) (hbpa : 0 < P.bpa)
    (hacq : ∀ ev t, (P.acquire ev t).length = P.bpa) (mpb : Nat) (e : BoEng τ β) (a : Act)
    (e' : BoEng τ β) (hI : Inv1 P mpb e ∧ Inv4 P e) (h : BoEng.step P mpb e a = some e') :
    Inv1 P mpb e' ∧ Inv4 P e' := by
  refine ⟨Inv1_step P mpb e a e' hI.1 h, ?_⟩
  obtain ⟨hI1, hI4⟩ := hI
  cases a with
  | consume =>
    obtain ⟨i, t, rest, hp, rfl⟩ := step_consume P mpb e e' h
    have hi := Inv1_head P mpb e hI1 i t rest hp
    constructor
    · intro k t' hk
      simp only at hk ⊢
      apply Acq_mono
      by_cases hlt : k < e.ev.length
      · rw [List.getElem?_append_left hlt] at hk
        exact hI4.ev k t' hk
      · rw [List.getElem?_append_right (by omega)] at hk
        have hk0 : k - e.ev.length = 0 := by
          by_contra hne
          rw [List.getElem?_eq_none (by simp; omega)] at hk
          exact absurd hk (by simp)
        rw [hk0] at hk
        simp only [List.getElem?_cons_zero, Option.some.injEq] at hk
        subst hk
        have : k = i := by rw [hi, ← hI1.evlen]; omega
        subst this
        exact hI4.pend (k, t) (by rw [hp]; simp)
    · intro p hpm
      simp only at hpm ⊢
      apply Acq_mono
      exact hI4.pend p (by rw [hp]; simp [hpm])
    · exact hI4.buf0
    · intro hge
      simp only at hge ⊢
      rcases hI4.buf1 hge with hl | ⟨n, hn, hb⟩
      · exact Or.inl hl
      · right
        refine ⟨n, ?_, ?_⟩
        · simp only [List.length_append, List.length_cons, List.length_nil]
          omega
        · rw [List.take_append_of_le_length hn]
          exact hb
  | submit =>
    obtain ⟨h1, h2, h3⟩ := step_submit P mpb e e' h
    rcases h3 with ⟨hlt, rfl⟩ | ⟨hge, a, rest, hb, rfl⟩ | ⟨hge, hb, hs, a, rest, ha, rfl⟩
    · -- prior phase
      have hbuf := hI4.buf0 (by omega)
      constructor
      · exact hI4.ev
      · intro p hp
        simp only [BoEng.push, List.mem_append, List.mem_singleton] at hp
        rcases hp with hp | rfl
        · exact hI4.pend p hp
        · exact ⟨fun _ => rfl, fun hc => absurd hc (by simp only; omega)⟩
      · intro _
        exact hbuf
      · intro hle
        simp only [BoEng.push] at hle ⊢
        left
        refine ⟨hbuf, ?_⟩
        have : e.next + 1 - P.nInit = 0 := by omega
        rw [this]
        exact Nat.zero_mod _
    · -- next slice of the current acquisition
      rcases hI4.buf1 hge with ⟨hnil, _⟩ | ⟨n, hn, hbuf⟩
      · rw [hnil] at hb
        exact absurd hb (by simp)
      · rw [hb] at hbuf
        exact Inv4_push_slice P hbpa hacq e hI4 hge n hn a rest [] hbuf.symm
    · -- a new acquisition
      have hr0 : (e.next - P.nInit) % P.bpa = 0 := by
        rcases hI4.buf1 hge with ⟨_, h0⟩ | ⟨n, hn, hbuf⟩
        · exact h0
        · rw [hb] at hbuf
          have hlen := congrArg List.length hbuf
          have hrlt : (e.next - P.nInit) % P.bpa < P.bpa := Nat.mod_lt _ hbpa
          simp only [List.length_nil, List.length_drop, hacq] at hlen
          omega
      apply Inv4_push_slice P hbpa hacq e hI4 hge e.ev.length (Nat.le_refl _) a rest
      rw [hr0, List.take_length, List.drop_zero]
      exact ha

theorem bo_batches_after_init_are_acquired' (P : BoParams τ β) (hbpa : 0 < P.bpa)
    (hacq : ∀ ev t, (P.acquire ev t).length = P.bpa) (mpb : Nat) (sched : List Act) (e : BoEng τ β)
    (h : BoEng.run P mpb BoEng.init sched = some e) :
    ∀ k (hk : k < e.ev.length),
      (k < P.nInit → e.ev[k] = P.sim k none) ∧
      (P.nInit ≤ k → ∃ n, n ≤ e.ev.length ∧ ∃ x,
        (P.acquire (e.ev.take n) ((k - P.nInit) / P.bpa))[(k - P.nInit) % P.bpa]? = some x ∧
        e.ev[k] = P.sim k (some x)) := by
  have hI := run_inv P mpb (fun e => Inv1 P mpb e ∧ Inv4 P e) (Inv14_step P hbpa hacq mpb) sched _ e
    ⟨Inv1_init P mpb, Inv4_init P⟩ h
  intro k hk
  exact hI.2.ev k _ (List.getElem?_eq_getElem hk)

theorem bo_async_example' :
    let P : BoParams (Nat × Option Nat) Nat :=
      { nInit := 1, bpa := 1, total := 4, sync := false, sim := fun i a => (i, a), acquire := fun ev t => [10 * t + ev.length] }
    (BoEng.run P 3 BoEng.init [.submit, .submit, .submit, .consume, .consume, .submit, .consume, .consume]).map (·.ev) =
      some [(0, none), (1, some 0), (2, some 10), (3, some 22)] := by
  decide

end ElfiVerif.Bo
