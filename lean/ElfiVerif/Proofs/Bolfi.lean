import ElfiVerif.Model.Bolfi
import Mathlib.Analysis.SpecialFunctions.Log.Deriv
import Mathlib.Analysis.SpecialFunctions.Sqrt
import Mathlib.Analysis.Calculus.Deriv.Mul
import Mathlib.Analysis.Calculus.Deriv.Inv
import Mathlib.Data.Matrix.Mul
import Mathlib.LinearAlgebra.Matrix.DotProduct
import Mathlib.Tactic.Ring
import Mathlib.Tactic.FieldSimp
import Mathlib.Tactic.Linarith

/-! Proofs for C10 (statements are repeated in Props/C10.lean). -/
namespace ElfiVerif.Bolfi

open Real

theorem grad_is_derivative' (Φ φ μ v : ℝ → ℝ) (t x dμ dv : ℝ)
    (hμ : HasDerivAt μ dμ x) (hv : HasDerivAt v dv x) (hvpos : 0 < v x)
    (hΦ : HasDerivAt Φ (φ (zArg Real.sqrt t (μ x) (v x))) (zArg Real.sqrt t (μ x) (v x)))
    (hΦpos : 0 < Φ (zArg Real.sqrt t (μ x) (v x))) :
    HasDerivAt (fun y => Real.log (Φ (zArg Real.sqrt t (μ y) (v y))))
      (codedGrad Real.sqrt t (μ x) (v x) dμ dv
        (φ (zArg Real.sqrt t (μ x) (v x)) / Φ (zArg Real.sqrt t (μ x) (v x)))) x := by
  have hzarg : ∀ m w : ℝ, zArg Real.sqrt t m w = (t - m) / Real.sqrt w := fun _ _ => rfl
  simp only [hzarg] at hΦ hΦpos ⊢
  have hs0 : Real.sqrt (v x) ≠ 0 := Real.sqrt_ne_zero'.mpr hvpos
  have hsq : HasDerivAt (fun y => Real.sqrt (v y)) (dv / (2 * Real.sqrt (v x))) x :=
    HasDerivAt.sqrt hv hvpos.ne'
  have hnum : HasDerivAt (fun y => t - μ y) (-dμ) x :=
    hμ.const_sub t
  have hz := hnum.div hsq hs0
  have hc : HasDerivAt (fun y => Φ ((t - μ y) / Real.sqrt (v y))) _ x :=
    HasDerivAt.comp x hΦ hz
  have hlog := hc.log hΦpos.ne'
  convert hlog using 1
  have hss : Real.sqrt (v x) * Real.sqrt (v x) = v x := Real.mul_self_sqrt hvpos.le
  have h05 : (0.5 : ℝ) = 1 / 2 := by norm_num
  unfold codedGrad
  simp only [h05]
  rw [sq, hss]
  have hv0 : v x ≠ 0 := hvpos.ne'
  have hΦ0 := hΦpos.ne'
  field_simp

theorem ratio_log_eq' (p c : ℝ) (hp : 0 < p) (hc : 0 < c) :
    ratioLog Real.exp (Real.log p) (Real.log c) = p / c := by
  unfold ratioLog
  rw [Real.exp_sub, Real.exp_log hp, Real.exp_log hc]

theorem outside_is_neg_inf' (bounds : List (ℝ × ℝ)) (x : List ℝ) (lc lp : ℝ) :
    (withinBounds bounds x = false → logPost bounds x lc lp = LogVal.negInf) ∧
    (withinBounds bounds x = true → logPost bounds x lc lp = LogVal.fin (lc + lp)) := by
  have hw : logPost.withinBounds' bounds x = withinBounds bounds x := rfl
  constructor
  · intro h
    simp [logPost, hw, h]
  · intro h
    simp [logPost, hw, h]

theorem bounds_inclusive' (lo hi : ℝ) (h : lo ≤ hi) :
    withinBounds [(lo, hi)] [lo] = true ∧ withinBounds [(lo, hi)] [hi] = true := by
  simp [withinBounds, h]

theorem rbf_r2' (x xi : List ℝ) (h : x.length = xi.length) : r2Fast x xi = r2Direct x xi := by
  induction x generalizing xi with
  | nil =>
    cases xi with
    | nil => simp [r2Fast, r2Direct]
    | cons b xs => simp at h
  | cons a x ih =>
    cases xi with
    | nil => simp at h
    | cons b xs =>
      have h' : x.length = xs.length := by simpa using h
      have := ih xs h'
      simp only [r2Fast, r2Direct, List.map_cons, List.sum_cons, List.zipWith_cons_cons] at this ⊢
      linarith

theorem chol_solve_identity' {n : Nat} (L Linv : Matrix (Fin n) (Fin n) ℝ) (hL : Linv * L = 1)
    (hL' : L * Linv = 1) (a b : Fin n → ℝ) :
    (Linv.mulVec a) ⬝ᵥ (Linv.mulVec b) = a ⬝ᵥ ((Linv.transpose * Linv).mulVec b) ∧
    (Linv.transpose * Linv) * (L * L.transpose) = 1 := by
  constructor
  · rw [← Matrix.mulVec_mulVec, Matrix.dotProduct_mulVec a, Matrix.vecMul_transpose]
  · calc (Linv.transpose * Linv) * (L * L.transpose)
        = Linv.transpose * ((Linv * L) * L.transpose) := by
          simp only [Matrix.mul_assoc]
      _ = (L * Linv).transpose := by rw [hL, Matrix.one_mul, Matrix.transpose_mul]
      _ = 1 := by rw [hL', Matrix.transpose_one]

theorem var_grad_quadratic' {n : Nat} (A : Matrix (Fin n) (Fin n) ℝ) (hA : A.transpose = A)
    (k : ℝ → Fin n → ℝ) (dk : Fin n → ℝ) (c x : ℝ) (hk : ∀ i, HasDerivAt (fun y => k y i) (dk i) x) :
    HasDerivAt (fun y => c - (k y) ⬝ᵥ (A.mulVec (k y))) (-2 * (dk ⬝ᵥ (A.mulVec (k x)))) x := by
  have hfun : (fun y => c - (k y) ⬝ᵥ (A.mulVec (k y))) =
      fun y => c - ∑ i, ∑ j, k y i * (A i j * k y j) := by
    funext y
    simp only [dotProduct, Matrix.mulVec, Finset.mul_sum]
  rw [hfun]
  have hd : HasDerivAt (fun y => ∑ i, ∑ j, k y i * (A i j * k y j))
      (∑ i, ∑ j, (dk i * (A i j * k x j) + k x i * (A i j * dk j))) x := by
    apply HasDerivAt.fun_sum
    intro i _
    apply HasDerivAt.fun_sum
    intro j _
    exact (hk i).mul ((hk j).const_mul (A i j))
  have hsym : ∀ i j, A j i = A i j := fun i j => congrFun (congrFun hA i) j
  have hswap : ∑ i, ∑ j, k x i * (A i j * dk j) = ∑ i, ∑ j, dk i * (A i j * k x j) := by
    rw [Finset.sum_comm]
    apply Finset.sum_congr rfl; intro i _
    apply Finset.sum_congr rfl; intro j _
    rw [hsym i j]; ring
  have hval : -2 * (dk ⬝ᵥ (A.mulVec (k x))) =
      -∑ i, ∑ j, (dk i * (A i j * k x j) + k x i * (A i j * dk j)) := by
    have hq : dk ⬝ᵥ (A.mulVec (k x)) = ∑ i, ∑ j, dk i * (A i j * k x j) := by
      simp only [dotProduct, Matrix.mulVec, Finset.mul_sum]
    rw [hq]
    simp only [Finset.sum_add_distrib]
    rw [hswap]
    ring
  rw [hval]
  exact hd.const_sub c

theorem evidence_append' {α : Type} (old : List α) (news : List (List α)) :
    ∃ rest, news.foldl updateEvidence old = old ++ rest ∧ rest = news.flatten := by
  refine ⟨news.flatten, ?_, rfl⟩
  induction news generalizing old with
  | nil => simp
  | cons a t ih =>
    simp only [List.foldl_cons, List.flatten_cons]
    rw [ih]
    simp [updateEvidence, List.append_assoc]

theorem rbf_kernel_grad' (v f a c x : ℝ) :
    HasDerivAt (fun y => rbfK Real.exp v f ((y - a) * (y - a) + c))
      (rbfDk x a f (rbfK Real.exp v f ((x - a) * (x - a) + c))) x := by
  have h2 : (2.0 : ℝ) = 2 := by norm_num
  have hsub : HasDerivAt (fun y : ℝ => y - a) 1 x := (hasDerivAt_id x).sub_const a
  have hr2 : HasDerivAt (fun y : ℝ => (y - a) * (y - a) + c) (1 * (x - a) + (x - a) * 1) x :=
    (hsub.mul hsub).add_const c
  have hin : HasDerivAt (fun y : ℝ => ((y - a) * (y - a) + c) * f) ((1 * (x - a) + (x - a) * 1) * f) x :=
    hr2.mul_const f
  have hexp := (Real.hasDerivAt_exp (((x - a) * (x - a) + c) * f)).comp x hin
  have hfin := hexp.const_mul v
  unfold rbfK rbfDk
  simp only [h2]
  have hval : v * (Real.exp (((x - a) * (x - a) + c) * f) * ((1 * (x - a) + (x - a) * 1) * f)) =
      2 * f * (x - a) * (v * Real.exp (((x - a) * (x - a) + c) * f)) := by ring
  rw [← hval]
  exact hfin

theorem fast_mean_grad' {n : Nat} (k : ℝ → Fin n → ℝ) (dk α : Fin n → ℝ) (x : ℝ)
    (hk : ∀ i, HasDerivAt (fun y => k y i) (dk i) x) :
    HasDerivAt (fun y => (k y) ⬝ᵥ α) (dk ⬝ᵥ α) x := by
  unfold dotProduct
  have := HasDerivAt.fun_sum (u := Finset.univ) (A := fun i y => k y i * α i) (A' := fun i => dk i * α i)
    (fun i _ => (hk i).mul_const (α i))
  simpa using this

end ElfiVerif.Bolfi
