import ElfiVerif.Model.Bsl
import Mathlib.Analysis.SpecialFunctions.Log.Deriv
import Mathlib.Analysis.SpecialFunctions.ExpDeriv
import Mathlib.Analysis.SpecialFunctions.Pow.Real
import Mathlib.Analysis.SpecialFunctions.Trigonometric.Basic
import Mathlib.Analysis.Calculus.Deriv.Add
import Mathlib.Analysis.Calculus.Deriv.Mul
import Mathlib.Analysis.Calculus.Deriv.Inv
import Mathlib.LinearAlgebra.Matrix.Determinant.Basic
import Mathlib.Tactic.Ring
import Mathlib.Tactic.FieldSimp
import Mathlib.Tactic.Linarith
import Mathlib.Tactic.NormNum

/-! Proofs for C20 (statements are repeated in Props/C20.lean). -/
namespace ElfiVerif.Bsl

open Real

variable {P D K U : Type}

/-! ### literals -/
theorem lit1 : (1.0 : ℝ) = 1 := by norm_num
theorem lit2 : (2.0 : ℝ) = 2 := by norm_num
theorem lit0 : (0.0 : ℝ) = 0 := by norm_num
theorem lit05 : (0.5 : ℝ) = 1/2 := by norm_num
theorem lit3 : (3.0 : ℝ) = 3 := by norm_num
theorem lit700 : (700.0 : ℝ) = 700 := by norm_num

theorem back_fwd' (t : BType) (a b x : ℝ)
    (hx : match t with
      | .two => a < x ∧ x < b
      | .upper => x < b
      | .lower => a < x
      | .free => True) :
    back Real.exp t a b (fwd Real.log t a b x) = x := by
  cases t
  · obtain ⟨h1, h2⟩ := hx
    have hp : 0 < (x - a) / (b - x) := div_pos (by linarith) (by linarith)
    simp only [fwd, back, lit1, Real.exp_log hp]
    have h3 : b - x ≠ 0 := by linarith
    have h4 : x - a ≠ 0 := by linarith
    have h5 : b - a ≠ 0 := by linarith
    have e1 : 1 + (x - a) / (b - x) = (b - a) / (b - x) := by field_simp; ring
    have e2 : 1 + 1 / ((x - a) / (b - x)) = (b - a) / (x - a) := by field_simp; ring
    rw [e1, e2]
    field_simp
    ring
  · have hp : 0 < 1 / (b - x) := div_pos one_pos (by linarith)
    simp only [fwd, back, lit1, Real.exp_log hp]
    have h3 : b - x ≠ 0 := by linarith
    field_simp
    ring
  · have hp : 0 < x - a := by linarith
    simp only [fwd, back, Real.exp_log hp]
    ring
  · simp only [fwd, back]

theorem back_two_eq (a b y : ℝ) :
    back Real.exp .two a b y = (a + b * Real.exp y) / (1 + Real.exp y) := by
  have he := Real.exp_pos y
  simp only [back, lit1]
  field_simp
  ring

theorem fwd_back' (t : BType) (a b y : ℝ) (hab : t = .two → a < b) :
    fwd Real.log t a b (back Real.exp t a b y) = y := by
  have he := Real.exp_pos y
  cases t
  · have hab' := hab rfl
    rw [back_two_eq]
    simp only [fwd]
    have : ((a + b * Real.exp y) / (1 + Real.exp y) - a) / (b - (a + b * Real.exp y) / (1 + Real.exp y))
        = Real.exp y := by
      have h5 : b - a ≠ 0 := by linarith
      have h6 : 1 + Real.exp y ≠ 0 := by positivity
      have e1 : (a + b * Real.exp y) / (1 + Real.exp y) - a = (b - a) * Real.exp y / (1 + Real.exp y) := by
        field_simp; ring
      have e2 : b - (a + b * Real.exp y) / (1 + Real.exp y) = (b - a) / (1 + Real.exp y) := by
        field_simp; ring
      rw [e1, e2]
      field_simp
    rw [this, Real.log_exp]
  · simp only [fwd, back, lit1]
    have : 1 / (b - (b - 1 / Real.exp y)) = Real.exp y := by
      have : b - (b - 1 / Real.exp y) = 1 / Real.exp y := by ring
      rw [this]; field_simp
    rw [this, Real.log_exp]
  · simp only [fwd, back]
    have : a + Real.exp y - a = Real.exp y := by ring
    rw [this, Real.log_exp]
  · simp only [fwd, back]

theorem back_in_support' (t : BType) (a b y : ℝ) (hab : t = .two → a < b) :
    match t with
    | .two => a < back Real.exp t a b y ∧ back Real.exp t a b y < b
    | .upper => back Real.exp t a b y < b
    | .lower => a < back Real.exp t a b y
    | .free => True := by
  have he := Real.exp_pos y
  cases t
  · have hab' := hab rfl
    show a < back Real.exp .two a b y ∧ back Real.exp .two a b y < b
    rw [back_two_eq]
    have h6 : 0 < 1 + Real.exp y := by positivity
    constructor
    · rw [lt_div_iff₀ h6]; nlinarith
    · rw [div_lt_iff₀ h6]; nlinarith
  · show back Real.exp .upper a b y < b
    simp only [back, lit1]
    have : 0 < 1 / Real.exp y := by positivity
    linarith
  · show a < back Real.exp .lower a b y
    simp only [back]
    linarith
  · trivial

theorem back_upper_eq (a b : ℝ) :
    back Real.exp .upper a b = fun y => b - (Real.exp y)⁻¹ := by
  funext y
  simp only [back, lit1, one_div]

theorem logJac_is_derivative' (t : BType) (a b y : ℝ) (hab : t = .two → a < b) :
    HasDerivAt (back Real.exp t a b) (Real.exp (logJac Real.exp Real.log true t a b y)) y := by
  have he := Real.exp_pos y
  cases t
  · have hab' := hab rfl
    have hfun : back Real.exp .two a b = fun y => (a + b * Real.exp y) / (1 + Real.exp y) := by
      funext z; exact back_two_eq a b z
    rw [hfun]
    have hpos : 0 < 1 / Real.exp y + 2 + Real.exp y := by positivity
    have hval : Real.exp (logJac Real.exp Real.log true .two a b y)
        = (b - a) / (1 / Real.exp y + 2 + Real.exp y) := by
      simp only [logJac, lit1, lit2]
      rw [Real.exp_sub, Real.exp_log (by linarith : 0 < b - a), Real.exp_log hpos]
    rw [hval]
    have h1 : HasDerivAt (fun y => a + b * Real.exp y) (b * Real.exp y) y :=
      ((Real.hasDerivAt_exp y).const_mul b).const_add a
    have h2 : HasDerivAt (fun y => 1 + Real.exp y) (Real.exp y) y :=
      (Real.hasDerivAt_exp y).const_add 1
    have h3 := h1.div h2 (by positivity)
    refine h3.congr_deriv ?_
    field_simp
    ring
  · rw [back_upper_eq]
    have hval : Real.exp (logJac Real.exp Real.log true .upper a b y) = Real.exp (-y) := by
      simp only [logJac, if_true]
    rw [hval]
    have h1 := (Real.hasDerivAt_exp y).inv he.ne'
    have h2 : HasDerivAt (fun x => b - (Real.exp x)⁻¹) (-(-Real.exp y / Real.exp y ^ 2)) y :=
      h1.const_sub b
    refine h2.congr_deriv ?_
    rw [Real.exp_neg]
    field_simp
  · have hfun : back Real.exp .lower a b = fun y => a + Real.exp y := by
      funext z; simp only [back]
    rw [hfun]
    simp only [logJac]
    exact (Real.hasDerivAt_exp y).const_add a
  · have hfun : back Real.exp .free a b = fun y => y := by
      funext z; simp only [back]
    rw [hfun]
    simp only [logJac, lit0, Real.exp_zero]
    exact hasDerivAt_id y

theorem logJac_original_upper_wrong' :
    ¬ HasDerivAt (back Real.exp .upper 0 0) (Real.exp (logJac Real.exp Real.log false .upper 0 0 1)) 1 := by
  intro h
  have h2 := logJac_is_derivative' .upper 0 0 1 (by intro h; cases h)
  have h3 := h.unique h2
  simp only [logJac, if_true] at h3
  have := Real.exp_injective h3
  norm_num at this

theorem clamp700_eq (r : ℝ) :
    clamp700 r = if 700 < r then 700 else if r < -700 then -700 else r := by
  simp only [clamp700, lit700]

theorem mh_clamp_harmless' (r : ℝ) :
    (-700 ≤ r → min 1 (Real.exp (clamp700 r)) = min 1 (Real.exp r)) ∧
    (r < -700 → min 1 (Real.exp (clamp700 r)) ≤ Real.exp (-700) ∧ min 1 (Real.exp r) ≤ Real.exp (-700)) := by
  rw [clamp700_eq]
  constructor
  · intro h
    split_ifs with h1 h2
    · rw [min_eq_left (Real.one_le_exp (by norm_num)), min_eq_left (Real.one_le_exp (by linarith))]
    · linarith
    · rfl
  · intro h
    rw [if_neg (by linarith), if_pos h]
    exact ⟨min_le_right _ _, min_le_of_right_le (Real.exp_le_exp.mpr h.le)⟩

theorem mh_ratio_change_of_variables' (cur prev jCur jPrev : ℝ)
    (h : -700 ≤ (jCur - jPrev) + cur - prev ∧ (jCur - jPrev) + cur - prev ≤ 700) :
    Real.exp (mhLogRatio cur prev jCur jPrev) =
      (Real.exp cur * Real.exp jCur) / (Real.exp prev * Real.exp jPrev) := by
  unfold mhLogRatio
  rw [clamp700_eq, if_neg (by linarith [h.2]), if_neg (by linarith [h.1])]
  rw [← Real.exp_add, ← Real.exp_add, ← Real.exp_sub]
  congr 1
  ring

theorem mh_accept_iff' (r u : ℝ) : mhAccept Real.exp r u = true ↔ u < min 1 (Real.exp r) := by
  simp only [mhAccept, lit1, decide_eq_true_eq]
  split_ifs with h
  · rw [min_eq_right h.le]
  · rw [min_eq_left (not_lt.mp h)]

/-! ### chain -/

theorem good_append (T : Target P D K U) (l l' : List (Entry P K)) :
    Good T (l ++ l') ↔ Good T l ∧ Good T l' := by
  simp only [Good, List.mem_append]
  constructor
  · intro h
    exact ⟨fun e he => h e (Or.inl he), fun e he => h e (Or.inr he)⟩
  · rintro ⟨h1, h2⟩ e (he | he)
    · exact h1 e he
    · exact h2 e he

theorem good_singleton (T : Target P D K U) (e : Entry P K) :
    Good T [e] ↔ e.logprior = T.logprior e.param := by
  simp only [Good, List.mem_singleton, forall_eq]

theorem good_reverse (T : Target P D K U) (l : List (Entry P K)) :
    Good T l.reverse ↔ Good T l := by
  simp only [Good, List.mem_reverse]

/-- the gamma-sampler update of the current entry -/
def gammaUpd (T : Target P D K U) (g : Option K) (prev : Entry P K) : Entry P K :=
  match g with
  | none => prev
  | some ll => { prev with logpost := T.add ll prev.logprior }

theorem gammaUpd_param (T : Target P D K U) (g : Option K) (prev : Entry P K) :
    (gammaUpd T g prev).param = prev.param := by
  cases g <;> rfl

theorem gammaUpd_logprior (T : Target P D K U) (g : Option K) (prev : Entry P K) :
    (gammaUpd T g prev).logprior = prev.logprior := by
  cases g <;> rfl

theorem initRound_concat (T : Target P D K U) (cap : Nat) (pre : List (Entry P K)) (prev : Entry P K)
    (g : Option K) (d : D) (rest : List (Option K × D)) (hcap : ¬ cap ≤ (pre ++ [prev]).length) :
    initRound T cap (pre ++ [prev]) ((g, d) :: rest) =
      if T.isFinite (T.logprior (T.propose (gammaUpd T g prev).param d)) = true then
        (pre ++ [gammaUpd T g prev] ++
          [⟨T.propose (gammaUpd T g prev).param d,
            T.logprior (T.propose (gammaUpd T g prev).param d), T.zero⟩], rest, true)
      else initRound T cap (pre ++ [gammaUpd T g prev] ++ [gammaUpd T g prev]) rest := by
  rw [initRound, if_neg hcap]
  simp only [List.getLast?_concat, List.dropLast_concat]
  rfl

theorem init_round_spec_aux (T : Target P D K U) (cap : Nat) (script : List (Option K × D)) :
    ∀ (es : List (Entry P K)), Good T es →
    Good T (initRound T cap es script).1 ∧ es.length ≤ (initRound T cap es script).1.length ∧
    ((initRound T cap es script).2.2 = true → ∃ pre c, (initRound T cap es script).1 = pre ++ [c] ∧
        T.isFinite c.logprior = true ∧ pre.length ≥ es.length ∧
        (∀ e ∈ pre, ∃ e₀ ∈ es, e.param = e₀.param)) ∧
    ((initRound T cap es script).2.2 = false →
        ∀ e ∈ (initRound T cap es script).1, ∃ e₀ ∈ es, e.param = e₀.param) := by
  induction script with
  | nil =>
    intro es hg
    rw [initRound]
    exact ⟨hg, le_refl _, (by intro h; cases h), fun _ e he => ⟨e, he, rfl⟩⟩
  | cons gd rest ih =>
    intro es hg
    obtain ⟨g, d⟩ := gd
    by_cases hcap : cap ≤ es.length
    · rw [initRound, if_pos hcap]
      exact ⟨hg, le_refl _, (by intro h; cases h), fun _ e he => ⟨e, he, rfl⟩⟩
    · cases hlast : es.getLast? with
      | none =>
        rw [initRound, if_neg hcap]
        simp only [hlast]
        exact ⟨hg, le_refl _, (by intro h; cases h), fun _ e he => ⟨e, he, rfl⟩⟩
      | some prev =>
        obtain ⟨pre, rfl⟩ := List.getLast?_eq_some_iff.mp hlast
        rw [initRound_concat T cap pre prev g d rest hcap]
        have hgpre : Good T pre := ((good_append T _ _).mp hg).1
        have hgprev : prev.logprior = T.logprior prev.param :=
          (good_singleton T _).mp ((good_append T _ _).mp hg).2
        have hgupd : Good T [gammaUpd T g prev] := by
          rw [good_singleton, gammaUpd_param, gammaUpd_logprior]; exact hgprev
        have hmem : ∀ e ∈ pre ++ [gammaUpd T g prev], ∃ e₀ ∈ pre ++ [prev], e.param = e₀.param := by
          intro e he
          rcases List.mem_append.mp he with he | he
          · exact ⟨e, List.mem_append.mpr (Or.inl he), rfl⟩
          · rw [List.mem_singleton] at he
            subst he
            exact ⟨prev, List.mem_append.mpr (Or.inr (List.mem_singleton.mpr rfl)),
              gammaUpd_param T g prev⟩
        split_ifs with hfin
        · refine ⟨?_, ?_, ?_, ?_⟩
          · rw [good_append, good_append]
            exact ⟨⟨hgpre, hgupd⟩, (good_singleton T _).mpr rfl⟩
          · simp only [List.length_append, List.length_singleton]; omega
          · intro _
            refine ⟨pre ++ [gammaUpd T g prev], _, rfl, hfin, ?_, hmem⟩
            simp only [List.length_append, List.length_singleton]; omega
          · intro h; cases h
        · have hg2 : Good T (pre ++ [gammaUpd T g prev] ++ [gammaUpd T g prev]) := by
            rw [good_append, good_append]
            exact ⟨⟨hgpre, hgupd⟩, hgupd⟩
          have hmem2 : ∀ e ∈ pre ++ [gammaUpd T g prev] ++ [gammaUpd T g prev],
              ∃ e₀ ∈ pre ++ [prev], e.param = e₀.param := by
            intro e he
            rcases List.mem_append.mp he with he | he
            · exact hmem e he
            · exact hmem e (List.mem_append.mpr (Or.inr he))
          have hlen2 : (pre ++ [prev]).length ≤
              (pre ++ [gammaUpd T g prev] ++ [gammaUpd T g prev]).length := by
            simp only [List.length_append, List.length_singleton]; omega
          obtain ⟨i1, i2, i3, i4⟩ := ih _ hg2
          refine ⟨i1, le_trans hlen2 i2, ?_, ?_⟩
          · intro hb
            obtain ⟨pre', c, e1, e2, e3, e4⟩ := i3 hb
            refine ⟨pre', c, e1, e2, le_trans hlen2 e3, ?_⟩
            intro e he
            obtain ⟨e₀, he₀, hp⟩ := e4 e he
            obtain ⟨e₁, he₁, hp₁⟩ := hmem2 e₀ he₀
            exact ⟨e₁, he₁, hp.trans hp₁⟩
          · intro hb e he
            obtain ⟨e₀, he₀, hp⟩ := i4 hb e he
            obtain ⟨e₁, he₁, hp₁⟩ := hmem2 e₀ he₀
            exact ⟨e₁, he₁, hp.trans hp₁⟩

theorem init_round_spec' (T : Target P D K U) (cap : Nat) (es : List (Entry P K))
    (script : List (Option K × D)) (hg : Good T es) :
    let r := initRound T cap es script
    Good T r.1 ∧ es.length ≤ r.1.length ∧
    (r.2.2 = true → ∃ pre c, r.1 = pre ++ [c] ∧ T.isFinite c.logprior = true ∧ pre.length ≥ es.length ∧
        (∀ e ∈ pre, ∃ e₀ ∈ es, e.param = e₀.param)) ∧
    (r.2.2 = false → ∀ e ∈ r.1, ∃ e₀ ∈ es, e.param = e₀.param) :=
  init_round_spec_aux T cap script es hg

theorem init_round_gamma' (T : Target P D K U) (cap : Nat) (pre : List (Entry P K)) (prev : Entry P K)
    (ll : K) (d : D) (rest : List (Option K × D)) (hcap : pre.length + 1 < cap)
    (hg : Good T (pre ++ [prev])) (hfin : T.isFinite (T.logprior (T.propose prev.param d)) = true) :
    initRound T cap (pre ++ [prev]) ((some ll, d) :: rest) =
      (pre ++ [{ prev with logpost := T.add ll (T.logprior prev.param) },
               ⟨T.propose prev.param d, T.logprior (T.propose prev.param d), T.zero⟩], rest, true) := by
  have hgprev : prev.logprior = T.logprior prev.param :=
    (good_singleton T _).mp ((good_append T _ _).mp hg).2
  have hcap' : ¬ cap ≤ (pre ++ [prev]).length := by
    simp only [List.length_append, List.length_singleton]; omega
  rw [initRound_concat T cap pre prev (some ll) d rest hcap', gammaUpd_param, if_pos hfin]
  simp only [gammaUpd, hgprev, List.append_assoc, List.singleton_append]

theorem process_good (T : Target P D K U) (es : List (Entry P K)) (ll : K) (u : U) (hg : Good T es) :
    Good T (processSimulated T es ll u) := by
  rw [← good_reverse] at hg
  unfold processSimulated
  cases hrev : es.reverse with
  | nil => intro e he; cases he
  | cons c tl =>
    rw [hrev] at hg
    have hc : c.logprior = T.logprior c.param := hg c (List.mem_cons_self)
    cases tl with
    | nil =>
      simp only
      rw [good_singleton]
      exact hc
    | cons p rest =>
      simp only
      have htl : Good T (p :: rest) := fun e he => hg e (List.mem_cons_of_mem _ he)
      have hp : p.logprior = T.logprior p.param := htl p (List.mem_cons_self)
      split_ifs
      · rw [good_reverse]
        intro e he
        rcases List.mem_cons.mp he with he | he
        · subst he; exact hc
        · exact htl e he
      · rw [good_reverse]
        intro e he
        rcases List.mem_cons.mp he with he | he
        · subst he; exact hp
        · exact htl e he

theorem process_simulated_spec' (T : Target P D K U) (pre : List (Entry P K)) (p c : Entry P K) (ll : K)
    (u : U) (hg : Good T (pre ++ [p, c])) :
    let c' : Entry P K := ⟨c.param, T.logprior c.param, T.add ll (T.logprior c.param)⟩
    processSimulated T (pre ++ [p, c]) ll u =
      (if T.accept (T.ratio c'.logpost p.logpost (T.logJ c.param) (T.logJ p.param)) u
       then pre ++ [p, c'] else pre ++ [p, p]) ∧
    Good T (processSimulated T (pre ++ [p, c]) ll u) := by
  refine ⟨?_, process_good T _ ll u hg⟩
  have hc : c.logprior = T.logprior c.param :=
    hg c (List.mem_append.mpr (Or.inr (List.mem_cons_of_mem _ (List.mem_singleton.mpr rfl))))
  have hrev : (pre ++ [p, c]).reverse = c :: p :: pre.reverse := by
    simp only [List.reverse_append, List.reverse_cons, List.reverse_nil, List.nil_append,
      List.cons_append]
  unfold processSimulated
  rw [hrev]
  simp only [hc, List.reverse_cons, List.reverse_reverse, List.append_assoc, List.singleton_append]

theorem round_good (T : Target P D K U) (cap : Nat) (es : List (Entry P K)) (hg : Good T es)
    (script : List (Option K × D)) (ll : K) (u : U) :
    Good T (round T cap es script ll u).1 := by
  have h := (init_round_spec_aux T cap script es hg).1
  unfold round
  rcases hr : initRound T cap es script with ⟨es', rest, b⟩
  rw [hr] at h
  cases b
  · exact h
  · exact process_good T es' ll u h

theorem chain_good' (T : Target P D K U) (cap : Nat) (es : List (Entry P K)) (hg : Good T es)
    (rounds : List (List (Option K × D) × K × U)) :
    Good T (rounds.foldl (fun acc r => (round T cap acc r.1 r.2.1 r.2.2).1) es) := by
  induction rounds generalizing es with
  | nil => exact hg
  | cons r rs ih =>
    rw [List.foldl_cons]
    exact ih _ (round_good T cap es hg r.1 r.2.1 r.2.2)

/-! ### likelihood -/

theorem logdet_smul' {d : Nat} (A : Matrix (Fin d) (Fin d) ℝ) (c : ℝ) (hc : 0 < c) (hA : 0 < A.det) :
    Real.log ((c • A).det) = d * Real.log c + Real.log A.det := by
  rw [Matrix.det_smul, Fintype.card_fin, Real.log_mul (pow_pos hc d).ne' hA.ne', Real.log_pow]

theorem go_is_published_formula' {d : Nat} (n wconDiff : ℝ) (Sigma Psi : Matrix (Fin d) (Fin d) ℝ)
    (hn : 1 < n) (hS : 0 < Sigma.det) (hP : 0 < Psi.det) :
    Real.exp (goLogLik Real.log true (Real.log (2 * π)) d n wconDiff (Real.log Sigma.det) (Real.log Psi.det)) =
      (2 * π) ^ (-(d : ℝ) / 2) * Real.exp wconDiff * (1 - 1 / n) ^ (-(d : ℝ) / 2) *
        (((n - 1) • Sigma).det) ^ (-(n - d - 2) / 2) * (Psi.det) ^ ((n - d - 3) / 2) := by
  have hn1 : 0 < n - 1 := by linarith
  have h2pi : 0 < 2 * π := by positivity
  have hfrac : 0 < 1 - 1 / n := by
    have : 1 / n < 1 := by rw [div_lt_one (by linarith)]; exact hn
    linarith
  have hdet : 0 < ((n - 1) • Sigma).det := by
    rw [Matrix.det_smul]; exact mul_pos (pow_pos hn1 _) hS
  rw [Real.rpow_def_of_pos h2pi, Real.rpow_def_of_pos hfrac, Real.rpow_def_of_pos hdet,
    Real.rpow_def_of_pos hP, logdet_smul' Sigma (n - 1) hn1 hS,
    ← Real.exp_add, ← Real.exp_add, ← Real.exp_add, ← Real.exp_add]
  congr 1
  simp only [goLogLik, lit1, lit2, lit3, lit05, if_true]
  ring

theorem go_original_differs' :
    goLogLik Real.log false 0 2 10 0 0 0 ≠ goLogLik Real.log true 0 2 10 0 0 0 := by
  have h9 : Real.log 9 ≠ 0 := (Real.log_pos (by norm_num : (1:ℝ) < 9)).ne'
  simp only [goLogLik, lit1, lit2, lit3, lit05, if_true]
  intro h
  apply h9
  have e : (10 : ℝ) - 1 = 9 := by norm_num
  rw [e] at h
  simp only [Bool.false_eq_true, if_false] at h
  linarith

theorem mvn_log_pdf_exp' (d : Nat) (logdet q : ℝ) :
    Real.exp (mvnLogPdf (Real.log (2 * π)) d logdet q) =
      (2 * π) ^ (-(d : ℝ) / 2) * Real.exp (-logdet / 2) * Real.exp (-q / 2) := by
  have h2pi : 0 < 2 * π := by positivity
  rw [Real.rpow_def_of_pos h2pi, ← Real.exp_add, ← Real.exp_add]
  congr 1
  simp only [mvnLogPdf, lit05]
  ring

end ElfiVerif.Bsl
