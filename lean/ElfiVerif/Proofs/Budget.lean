import ElfiVerif.Model.Budget

/-! The quantile budget is the ceiling it is documented to be. -/
namespace ElfiVerif.Rejection

theorem ceilDiv_spec (m p : Nat) (hp : 0 < p) : m ≤ (m + p - 1) / p * p ∧ (m + p - 1) / p * p < m + p := by
  have h1 := Nat.div_add_mod (m + p - 1) p
  have h2 := Nat.mod_lt (m + p - 1) hp
  rw [Nat.mul_comm] at h1
  generalize (m + p - 1) / p * p = t at *
  generalize (m + p - 1) % p = r at *
  omega

theorem quantileBudget_spec' (n p q : Nat) (hp : 0 < p) :
    n * q ≤ quantileBudget n p q * p ∧ quantileBudget n p q * p < n * q + p := by
  unfold quantileBudget
  exact ceilDiv_spec (n * q) p hp

theorem quantileBudget_least' (n p q k : Nat) (hp : 0 < p) (hk : n * q ≤ k * p) : quantileBudget n p q ≤ k := by
  have h := (quantileBudget_spec' n p q hp).2
  rcases Nat.lt_or_ge k (quantileBudget n p q) with hlt | hge
  · have hlt' : k + 1 ≤ quantileBudget n p q := hlt
    have h3 : (k + 1) * p ≤ quantileBudget n p q * p := Nat.mul_le_mul_right p hlt'
    have hexp : (k + 1) * p = k * p + p := by rw [Nat.add_mul, Nat.one_mul]
    rw [hexp] at h3
    generalize quantileBudget n p q * p = a at *
    generalize k * p = c at *
    generalize n * q = e at *
    omega
  · exact hge

theorem quantileBatches_spec' (n p q b : Nat) (hb : 0 < b) :
    quantileBudget n p q ≤ quantileBatches n p q b * b ∧ quantileBatches n p q b * b < quantileBudget n p q + b := by
  unfold quantileBatches
  exact ceilDiv_spec (quantileBudget n p q) b hb

end ElfiVerif.Rejection
