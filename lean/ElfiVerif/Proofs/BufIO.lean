import ElfiVerif.Model.BufIO
import ElfiVerif.Proofs.Npy

/-! Proofs for the buffering layer (`Model/BufIO.lean`); statements are in `Props/C06.lean`. -/
namespace ElfiVerif.Npy.BufIO
open ElfiVerif.Npy ElfiVerif.BufIO

theorem stepsOfEvs_append (a b : List IoEv) : stepsOfEvs (a ++ b) = stepsOfEvs a ++ stepsOfEvs b := by
  induction a with
  | nil => simp [stepsOfEvs]
  | cons e r ih => cases e <;> simp [stepsOfEvs, ih]

theorem applyAll_append (d : Disk) (a b : List Step) : d.applyAll (a ++ b) = (d.applyAll a).applyAll b := by
  simp [Disk.applyAll, List.foldl_append]

theorem disciplined_take : ∀ (evs : List IoEv) (p : Bool) (m : Nat),
    disciplined p evs = true → disciplined p (evs.take m) = true := by
  intro evs
  induction evs with
  | nil => intro p m h; simpa using h
  | cons e r ih =>
    intro p m h
    cases m with
    | zero => simp [disciplined]
    | succ m =>
      cases e <;> simp only [List.take_succ_cons, disciplined, Bool.and_eq_true] at h ⊢
      · exact ih _ _ h
      · exact ih _ _ h
      · exact ih _ _ h
      · exact ih _ _ h
      · exact ⟨h.1, ih _ _ h.2⟩

/-- the run invariant: the disk holds a prefix `A` of the steps issued so far, the buffer the rest -/
theorem run_inv (d : Disk) : ∀ (evs : List IoEv) (io : Io) (p : Bool) (A : List Step),
    io.disk = d.applyAll A → (io.buf ≠ [] → p = true) → disciplined p evs = true →
    ∃ A', A ++ io.buf ++ stepsOfEvs evs = A' ++ (Io.run io evs).buf ∧
      (Io.run io evs).disk = d.applyAll A' := by
  intro evs
  induction evs with
  | nil =>
    intro io p A hA _ _
    exact ⟨A, by simp [stepsOfEvs, Io.run], by simpa [Io.run] using hA⟩
  | cons e r ih =>
    intro io p A hA hp hd
    cases e with
    | write s =>
      simp only [disciplined] at hd
      obtain ⟨A', h1, h2⟩ := ih (io.step (.write s)) true A (by simpa [Io.step] using hA) (fun _ => rfl) hd
      refine ⟨A', ?_, by simpa [Io.run] using h2⟩
      rw [← show Io.run (io.step (.write s)) r = Io.run io (.write s :: r) from rfl]
      rw [← h1]
      simp [Io.step, stepsOfEvs]
    | seek =>
      simp only [disciplined] at hd
      obtain ⟨A', h1, h2⟩ := ih (io.step .seek) false (A ++ io.buf)
        (by simp [Io.step, applyAll_append, hA]) (by simp [Io.step]) hd
      refine ⟨A', ?_, by simpa [Io.run] using h2⟩
      rw [← show Io.run (io.step .seek) r = Io.run io (.seek :: r) from rfl, ← h1]
      simp [Io.step, stepsOfEvs]
    | flush =>
      simp only [disciplined] at hd
      obtain ⟨A', h1, h2⟩ := ih (io.step .flush) false (A ++ io.buf)
        (by simp [Io.step, applyAll_append, hA]) (by simp [Io.step]) hd
      refine ⟨A', ?_, by simpa [Io.run] using h2⟩
      rw [← show Io.run (io.step .flush) r = Io.run io (.flush :: r) from rfl, ← h1]
      simp [Io.step, stepsOfEvs]
    | drain n =>
      simp only [disciplined] at hd
      obtain ⟨A', h1, h2⟩ := ih (io.step (.drain n)) p (A ++ io.buf.take n)
        (by simp [Io.step, applyAll_append, hA])
        (by
          intro h
          apply hp
          intro h0
          apply h
          simp [Io.step, h0]) hd
      refine ⟨A', ?_, by simpa [Io.run] using h2⟩
      rw [← show Io.run (io.step (.drain n)) r = Io.run io (.drain n :: r) from rfl, ← h1]
      simp [Io.step, stepsOfEvs]
    | direct s =>
      simp only [disciplined, Bool.and_eq_true, Bool.not_eq_true'] at hd
      have hbuf : io.buf = [] := by
        by_cases h : io.buf = []
        · exact h
        · have := hp h
          rw [this] at hd
          exact absurd hd.1 (by simp)
      obtain ⟨A', h1, h2⟩ := ih (io.step (.direct s)) false (A ++ [s])
        (by simp [Io.step, hA, Disk.applyAll]) (by simp [Io.step, hbuf]) hd.2
      refine ⟨A', ?_, by simpa [Io.run] using h2⟩
      rw [← show Io.run (io.step (.direct s)) r = Io.run io (.direct s :: r) from rfl, ← h1]
      simp [Io.step, stepsOfEvs, hbuf]

theorem buffered_kill_is_prefix' (d : Disk) (evs : List IoEv) (hd : disciplined false evs = true) (m : Nat) :
    ∃ k, k ≤ (stepsOfEvs (evs.take m)).length ∧
      (Io.run ⟨d, []⟩ (evs.take m)).disk = d.applyAll ((stepsOfEvs evs).take k) := by
  obtain ⟨A', h1, h2⟩ := run_inv d (evs.take m) ⟨d, []⟩ false [] (by simp [Disk.applyAll]) (by simp)
    (disciplined_take evs false m hd)
  simp only [List.nil_append] at h1
  refine ⟨A'.length, by simp [h1], ?_⟩
  rw [h2]
  congr 1
  conv_rhs => rw [← List.take_append_drop m evs, stepsOfEvs_append, h1]
  simp

theorem flush_reaches_disk' (d : Disk) (evs : List IoEv) (hd : disciplined false evs = true) :
    Io.run ⟨d, []⟩ (evs ++ [.flush]) = ⟨d.applyAll (stepsOfEvs evs), []⟩ := by
  obtain ⟨A', h1, h2⟩ := run_inv d evs ⟨d, []⟩ false [] (by simp [Disk.applyAll]) (by simp) hd
  simp only [List.nil_append] at h1
  simp only [Io.run, List.foldl_append, List.foldl_cons, List.foldl_nil, Io.step]
  rw [show List.foldl Io.step ⟨d, []⟩ evs = Io.run ⟨d, []⟩ evs from rfl, h2, h1, applyAll_append]

theorem crash_safe_buffered' (b : Nat) (hb : 0 < b) (ops₁ ops₂ : List Op) (hops : OpsOK b (ops₁ ++ ops₂))
    (hflushed : FlushedAfter b ops₁) (evs : List IoEv) (hsteps : stepsOfEvs evs = stepsOf b ops₁ ops₂)
    (hd : disciplined false evs = true) (m : Nat) :
    ∃ j, j ≤ ops₂.length ∧
      npLoad (Io.run ⟨diskAfter b ops₁, []⟩ (evs.take m)).disk = some (specAfter b (ops₁ ++ ops₂.take j)).rows := by
  obtain ⟨k, _, hk⟩ := buffered_kill_is_prefix' (diskAfter b ops₁) evs hd m
  obtain ⟨j, hj, _, hload⟩ := crash_safe' b hb ops₁ ops₂ hops hflushed k
  exact ⟨j, hj, by rw [hk, hsteps]; exact hload⟩

theorem bypass_counterexample' :
    let d : Disk := ⟨some 4, [1, 1, 2, 2]⟩
    let bad : List IoEv := [.write (.data 4 [3, 3]), .direct (.hdr 6), .flush]
    let good : List IoEv := [.write (.data 4 [3, 3]), .seek, .write (.hdr 6), .flush]
    disciplined false bad = false ∧ npLoad (Io.run ⟨d, []⟩ (bad.take 2)).disk = none ∧
    disciplined false good = true ∧
    (List.range 5).map (fun m => npLoad (Io.run ⟨d, []⟩ (good.take m)).disk) =
      [some [1, 1, 2, 2], some [1, 1, 2, 2], some [1, 1, 2, 2], some [1, 1, 2, 2], some [1, 1, 2, 2, 3, 3]] := by
  decide

end ElfiVerif.Npy.BufIO
