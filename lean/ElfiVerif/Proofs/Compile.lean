import ElfiVerif.Model.Compile
import Mathlib.Data.List.Basic
import Mathlib.Data.List.Nodup
import Mathlib.Tactic.Linarith

/-! Specification vocabulary and proofs for C03 (statements are repeated in Props/C03.lean). -/
namespace ElfiVerif.Compile

def IsUser (s : Source) (n : Nat) : Prop := ∃ x ∈ s.nodes, x.name = n
def IsTwin (env : Env) (s : Source) (n : Nat) : Prop := ∃ x ∈ s.nodes, hasTwin x = true ∧ env.twin x.name = n

/-- well-formed source graph with its naming environment -/
structure SourceWF (env : Env) (s : Source) : Prop where
  names_nodup : (s.nodes.map (·.name)).Nodup
  twin_inj : ∀ x ∈ s.nodes, ∀ y ∈ s.nodes, env.twin x.name = env.twin y.name → x.name = y.name
  twin_fresh : ∀ x ∈ s.nodes, ¬ IsUser s (env.twin x.name)
  instr_distinct : env.bs ≠ env.mt ∧ env.bs ≠ env.rs ∧ env.mt ≠ env.rs
  instr_fresh : ∀ n, n = env.bs ∨ n = env.mt ∨ n = env.rs → ¬ IsUser s n ∧ ∀ x ∈ s.nodes, env.twin x.name ≠ n
  edges_in : ∀ e ∈ s.edges, IsUser s e.src ∧ IsUser s e.dst
  edge_unique : ∀ e₁ ∈ s.edges, ∀ e₂ ∈ s.edges, e₁.src = e₂.src → e₁.dst = e₂.dst → e₁ = e₂
  /-- a topological numbering below the number of nodes (exists for every finite DAG) -/
  acyclic : ∃ r : Nat → Nat, (∀ e ∈ s.edges, r e.src < r e.dst) ∧ ∀ x ∈ s.nodes, r x.name < s.nodes.length
  /-- per child: positions are distinct and keywords are distinct -/
  params_distinct : ∀ e₁ ∈ s.edges, ∀ e₂ ∈ s.edges, e₁.dst = e₂.dst → e₁.param = e₂.param → e₁ = e₂
  kw_reserved : ∀ e ∈ s.edges, e.param ≠ .named env.kwBatchSize ∧ e.param ≠ .named env.kwMeta ∧
    e.param ≠ .named env.kwRandomState ∧ e.param ≠ .named env.kwObserved
  kw_distinct : env.kwBatchSize ≠ env.kwMeta ∧ env.kwBatchSize ≠ env.kwRandomState ∧ env.kwBatchSize ≠ env.kwObserved ∧
    env.kwMeta ≠ env.kwRandomState ∧ env.kwMeta ≠ env.kwObserved ∧ env.kwRandomState ≠ env.kwObserved
  observed_nodup : (s.observed.map (·.1)).Nodup
  /-- constants (nodes with an output instead of an operation) have no parents and no flags -/
  const_plain : ∀ x ∈ s.nodes, x.op = none → x.observable = false ∧ x.usesObserved = false ∧ x.stochastic = false ∧
    x.usesBatchSize = false ∧ x.usesMeta = false ∧ s.inEdges x.name = []

/-! ### helper lemmas -/

theorem mem_compileAll_edges (env : Env) (s : Source) (e : Edge) : e ∈ (compileAll env s).2 ↔
    e ∈ s.edges ∨
    (∃ x ∈ s.nodes, (!x.observable && x.usesObserved) = true ∧
        e = ⟨env.twin x.name, x.name, .named env.kwObserved⟩) ∨
    (∃ x ∈ s.nodes, (hasTwin x && !x.stochastic) = true ∧ ∃ e' ∈ s.inEdges x.name,
        e = ⟨if s.isObservable e'.src then env.twin e'.src else e'.src, env.twin x.name, e'.param⟩) ∨
    (∃ x ∈ s.nodes, x.usesBatchSize = true ∧ e = ⟨env.bs, x.name, .named env.kwBatchSize⟩) ∨
    (∃ x ∈ s.nodes, x.usesMeta = true ∧ e = ⟨env.mt, x.name, .named env.kwMeta⟩) ∨
    (∃ x ∈ s.nodes, x.stochastic = true ∧ e = ⟨env.rs, x.name, .named env.kwRandomState⟩) := by
  simp only [compileAll, List.mem_append, List.mem_map, List.mem_filter, List.mem_flatMap, or_assoc]
  constructor
  · rintro (h | ⟨x, ⟨hx, hp⟩, rfl⟩ | ⟨x, ⟨hx, hp⟩, e', he', rfl⟩ | ⟨x, ⟨hx, hp⟩, rfl⟩ | ⟨x, ⟨hx, hp⟩, rfl⟩ | ⟨x, ⟨hx, hp⟩, rfl⟩)
    · exact Or.inl h
    · exact Or.inr (Or.inl ⟨x, hx, hp, rfl⟩)
    · exact Or.inr (Or.inr (Or.inl ⟨x, hx, hp, e', he', rfl⟩))
    · exact Or.inr (Or.inr (Or.inr (Or.inl ⟨x, hx, hp, rfl⟩)))
    · exact Or.inr (Or.inr (Or.inr (Or.inr (Or.inl ⟨x, hx, hp, rfl⟩))))
    · exact Or.inr (Or.inr (Or.inr (Or.inr (Or.inr ⟨x, hx, hp, rfl⟩))))
  · rintro (h | ⟨x, hx, hp, rfl⟩ | ⟨x, hx, hp, e', he', rfl⟩ | ⟨x, hx, hp, rfl⟩ | ⟨x, hx, hp, rfl⟩ | ⟨x, hx, hp, rfl⟩)
    · exact Or.inl h
    · exact Or.inr (Or.inl ⟨x, ⟨hx, hp⟩, rfl⟩)
    · exact Or.inr (Or.inr (Or.inl ⟨x, ⟨hx, hp⟩, e', he', rfl⟩))
    · exact Or.inr (Or.inr (Or.inr (Or.inl ⟨x, ⟨hx, hp⟩, rfl⟩)))
    · exact Or.inr (Or.inr (Or.inr (Or.inr (Or.inl ⟨x, ⟨hx, hp⟩, rfl⟩))))
    · exact Or.inr (Or.inr (Or.inr (Or.inr (Or.inr ⟨x, ⟨hx, hp⟩, rfl⟩))))


theorem SourceWF.node_ext {env : Env} {s : Source} (hwf : SourceWF env s) {x y : SNode}
    (hx : x ∈ s.nodes) (hy : y ∈ s.nodes) (h : x.name = y.name) : x = y :=
  List.inj_on_of_nodup_map hwf.names_nodup hx hy h



/-! ### rank compression and completeness of bounded reachability -/

theorem length_filter_le_of_imp {α : Type _} (P Q : α → Bool) (l : List α)
    (hPQ : ∀ v ∈ l, P v = true → Q v = true) : (l.filter P).length ≤ (l.filter Q).length := by
  induction l with
  | nil => simp
  | cons b l ih =>
    have ih' := ih (fun v hv => hPQ v (List.mem_cons_of_mem _ hv))
    have hb := hPQ b List.mem_cons_self
    simp only [List.filter_cons]
    by_cases hp : P b = true
    · simp only [hp, hb hp, if_true, List.length_cons]; omega
    · simp only [hp]
      by_cases hq : Q b = true
      · simp only [hq, if_true, List.length_cons]; simp; omega
      · simp only [hq]; simpa using ih'

theorem length_filter_lt_of_imp {α : Type _} (P Q : α → Bool) (l : List α) (a : α)
    (hPQ : ∀ v ∈ l, P v = true → Q v = true) (ha : a ∈ l) (hQ : Q a = true) (hP : P a = false) :
    (l.filter P).length < (l.filter Q).length := by
  induction l with
  | nil => simp at ha
  | cons b l ih =>
    have hle := length_filter_le_of_imp P Q l (fun v hv => hPQ v (List.mem_cons_of_mem _ hv))
    have hb := hPQ b List.mem_cons_self
    simp only [List.filter_cons]
    rcases List.mem_cons.1 ha with rfl | ha'
    · simp [hP, hQ]; omega
    · have ih' := ih (fun v hv => hPQ v (List.mem_cons_of_mem _ hv)) ha'
      by_cases hp : P b = true
      · simp only [hp, hb hp, if_true, List.length_cons]; omega
      · simp only [hp]
        by_cases hq : Q b = true
        · simp only [hq, if_true, List.length_cons]; simp; omega
        · simp only [hq]; simpa using ih'

def crank (names : List Nat) (r : Nat → Nat) (n : Nat) : Nat :=
  (names.filter (fun v => decide (r v < r n))).length

theorem crank_le_of_le (names : List Nat) (r : Nat → Nat) {p n : Nat} (h : r p ≤ r n) :
    crank names r p ≤ crank names r n := by
  unfold crank
  apply length_filter_le_of_imp
  intro v _ hv
  simp only [decide_eq_true_eq] at hv ⊢
  omega

theorem crank_lt_of_lt (names : List Nat) (r : Nat → Nat) {p n : Nat} (hp : p ∈ names) (h : r p < r n) :
    crank names r p < crank names r n := by
  unfold crank
  apply length_filter_lt_of_imp _ _ _ p _ hp
  · simpa using h
  · simp
  · intro v _ hv
    simp only [decide_eq_true_eq] at hv ⊢
    omega

theorem crank_le_length (names : List Nat) (r : Nat → Nat) (n : Nat) : crank names r n ≤ names.length :=
  List.length_filter_le _ _

theorem crank_lt_length (names : List Nat) (r : Nat → Nat) {n : Nat} (hn : n ∈ names) :
    crank names r n < names.length := by
  have := length_filter_lt_of_imp (fun v => decide (r v < r n)) (fun _ => true) names n
    (fun _ _ _ => rfl) hn rfl (by simp)
  simpa [crank] using this

theorem reaches_self (edges : List Edge) (f a : Nat) : reaches edges f a a = true := by
  cases f <;> simp [reaches]

theorem reaches_succ (edges : List Edge) : ∀ (f a b : Nat), reaches edges f a b = true →
    reaches edges (f + 1) a b = true := by
  intro f
  induction f with
  | zero => intro a b h; simp only [reaches] at h; simp [reaches, h]
  | succ f ih =>
    intro a b h
    rw [reaches] at h ⊢
    simp only [Bool.or_eq_true, List.any_eq_true, Bool.and_eq_true] at h ⊢
    rcases h with h | ⟨e, he, hs, hr⟩
    · exact Or.inl h
    · exact Or.inr ⟨e, he, hs, ih _ _ hr⟩

theorem reaches_mono (edges : List Edge) {f f' : Nat} (hff : f ≤ f') {a b : Nat}
    (h : reaches edges f a b = true) : reaches edges f' a b = true := by
  induction hff with
  | refl => exact h
  | step _ ih => exact reaches_succ _ _ _ _ ih

theorem reaches_step (edges : List Edge) {e : Edge} (he : e ∈ edges) {f b : Nat}
    (h : reaches edges f e.dst b = true) : reaches edges (f + 1) e.src b = true := by
  rw [reaches]
  simp only [Bool.or_eq_true, List.any_eq_true, Bool.and_eq_true]
  exact Or.inr ⟨e, he, by simp, h⟩

theorem reaches_rank_le (edges : List Edge) (r : Nat → Nat) (hr : ∀ e ∈ edges, r e.src < r e.dst) :
    ∀ (f a b : Nat), reaches edges f a b = true → r a ≤ r b := by
  intro f
  induction f with
  | zero => intro a b h; simp only [reaches, beq_iff_eq] at h; rw [h]
  | succ f ih =>
    intro a b h
    rw [reaches] at h
    simp only [Bool.or_eq_true, List.any_eq_true, Bool.and_eq_true, beq_iff_eq] at h
    rcases h with h | ⟨e, he, hs, hre⟩
    · rw [h]
    · have := ih _ _ hre
      have := hr e he
      rw [← hs]; omega

theorem reaches_bound (edges : List Edge) (names : List Nat) (r : Nat → Nat)
    (hr : ∀ e ∈ edges, r e.src < r e.dst) (hsrc : ∀ e ∈ edges, e.src ∈ names) :
    ∀ (f a b : Nat), reaches edges f a b = true →
      reaches edges (crank names r b - crank names r a) a b = true := by
  intro f
  induction f with
  | zero => intro a b h; simp only [reaches, beq_iff_eq] at h; subst h; exact reaches_self _ _ _
  | succ f ih =>
    intro a b h
    rw [reaches] at h
    simp only [Bool.or_eq_true, List.any_eq_true, Bool.and_eq_true, beq_iff_eq] at h
    rcases h with h | ⟨e, he, hs, hre⟩
    · subst h; exact reaches_self _ _ _
    · have h1 := ih _ _ hre
      have h2 := reaches_rank_le edges r hr _ _ _ hre
      have h3 : crank names r e.src < crank names r e.dst := crank_lt_of_lt names r (hsrc e he) (hr e he)
      have h4 : crank names r e.dst ≤ crank names r b := crank_le_of_le names r h2
      have h5 := reaches_step edges he h1
      rw [hs] at h5 h3
      exact reaches_mono edges (by omega) h5

theorem reaches_complete (edges : List Edge) (names : List Nat) (r : Nat → Nat)
    (hr : ∀ e ∈ edges, r e.src < r e.dst) (hsrc : ∀ e ∈ edges, e.src ∈ names)
    {f a b : Nat} (h : reaches edges f a b = true) : reaches edges names.length a b = true := by
  have := reaches_bound edges names r hr hsrc f a b h
  exact reaches_mono edges (by have := crank_le_length names r b; omega) this


/-! ### permutation invariance of `applyOp` -/


theorem insertPos_perm (x : Nat × Term) (l : List (Nat × Term)) : (insertPos x l).Perm (x :: l) := by
  induction l with
  | nil => exact List.Perm.refl _
  | cons y ys ih =>
    unfold insertPos
    split
    · exact List.Perm.refl _
    · exact ((List.Perm.cons y ih).trans (List.Perm.swap x y ys))

theorem sortByKey_nil : sortByKey [] = [] := rfl

theorem sortByKey_cons (x : Nat × Term) (l : List (Nat × Term)) :
    sortByKey (x :: l) = insertPos x (sortByKey l) := rfl

theorem sortByKey_perm (l : List (Nat × Term)) : (sortByKey l).Perm l := by
  induction l with
  | nil => exact List.Perm.refl _
  | cons x xs ih =>
    rw [sortByKey_cons]
    exact (insertPos_perm x _).trans (List.Perm.cons x ih)

theorem insertPos_sorted (x : Nat × Term) (l : List (Nat × Term))
    (h : l.Pairwise (fun a b => a.1 ≤ b.1)) : (insertPos x l).Pairwise (fun a b => a.1 ≤ b.1) := by
  induction l with
  | nil => simp [insertPos]
  | cons y ys ih =>
    unfold insertPos
    rw [List.pairwise_cons] at h
    split
    · rename_i hxy
      rw [List.pairwise_cons]
      refine ⟨?_, List.pairwise_cons.mpr h⟩
      intro b hb
      rcases List.mem_cons.mp hb with rfl | hb
      · exact hxy
      · exact Nat.le_trans hxy (h.1 b hb)
    · rename_i hxy
      rw [List.pairwise_cons]
      refine ⟨?_, ih h.2⟩
      intro b hb
      have hb' := (insertPos_perm x ys).subset hb
      rcases List.mem_cons.mp hb' with rfl | hb'
      · omega
      · exact h.1 b hb'

theorem sortByKey_sorted (l : List (Nat × Term)) : (sortByKey l).Pairwise (fun a b => a.1 ≤ b.1) := by
  induction l with
  | nil => simp [sortByKey]
  | cons x xs ih =>
    rw [sortByKey_cons]
    exact insertPos_sorted x _ ih

theorem sortByKey_congr (l1 l2 : List (Nat × Term)) (hp : l1.Perm l2)
    (hk : ∀ a ∈ l1, ∀ b ∈ l1, a.1 = b.1 → a = b) : sortByKey l1 = sortByKey l2 := by
  refine List.Perm.eq_of_pairwise (le := fun a b => a.1 ≤ b.1) ?_ (sortByKey_sorted l1)
    (sortByKey_sorted l2) (((sortByKey_perm l1).trans hp).trans (sortByKey_perm l2).symm)
  intro a b ha hb hab hba
  have ha' : a ∈ l1 := (sortByKey_perm l1).subset ha
  have hb' : b ∈ l1 := hp.symm.subset ((sortByKey_perm l2).subset hb)
  exact hk a ha' b hb' (Nat.le_antisymm hab hba)

theorem mem_filterMap_pos (ins : List (Param × Term)) (x : Nat × Term) :
    x ∈ ins.filterMap (fun p => match p.1 with | .pos i => some (i, p.2) | .named _ => none) ↔
      (Param.pos x.1, x.2) ∈ ins := by
  rw [List.mem_filterMap]
  constructor
  · rintro ⟨⟨p, t⟩, hm, h⟩
    cases p with
    | pos i => simp only [Option.some.injEq] at h; subst h; exact hm
    | named k => simp at h
  · intro h
    exact ⟨_, h, rfl⟩

theorem mem_filterMap_named (ins : List (Param × Term)) (x : Nat × Term) :
    x ∈ ins.filterMap (fun p => match p.1 with | .named k => some (k, p.2) | .pos _ => none) ↔
      (Param.named x.1, x.2) ∈ ins := by
  rw [List.mem_filterMap]
  constructor
  · rintro ⟨⟨p, t⟩, hm, h⟩
    cases p with
    | named k => simp only [Option.some.injEq] at h; subst h; exact hm
    | pos i => simp at h
  · intro h
    exact ⟨_, h, rfl⟩

theorem applyOp_perm (op : COp) (ins1 ins2 : List (Param × Term)) (hp : ins1.Perm ins2)
    (hk : ∀ a ∈ ins1, ∀ b ∈ ins1, a.1 = b.1 → a = b) : applyOp op ins1 = applyOp op ins2 := by
  have h1 : sortByKey (ins1.filterMap (fun p => match p.1 with | .pos i => some (i, p.2) | .named _ => none))
      = sortByKey (ins2.filterMap (fun p => match p.1 with | .pos i => some (i, p.2) | .named _ => none)) := by
    apply sortByKey_congr _ _ (hp.filterMap _)
    intro a ha b hb hab
    rw [mem_filterMap_pos] at ha hb
    have := hk _ ha _ hb (by simp only [hab])
    simp only [Prod.mk.injEq] at this
    exact Prod.ext hab this.2
  have h2 : sortByKey (ins1.filterMap (fun p => match p.1 with | .named k => some (k, p.2) | .pos _ => none))
      = sortByKey (ins2.filterMap (fun p => match p.1 with | .named k => some (k, p.2) | .pos _ => none)) := by
    apply sortByKey_congr _ _ (hp.filterMap _)
    intro a ha b hb hab
    rw [mem_filterMap_named] at ha hb
    have := hk _ ha _ hb (by simp only [hab])
    simp only [Prod.mk.injEq] at this
    exact Prod.ext hab this.2
  cases op with
  | user f =>
    have key : ∀ a1 a2 k1 k2 : List (Nat × Term), a1 = a2 → k1 = k2 →
        Term.app f (a1.map (·.2)) k1 = Term.app f (a2.map (·.2)) k2 := by
      intro a1 a2 k1 k2 ha hk; rw [ha, hk]
    exact key _ _ _ _ h1 h2
  | argsToTuple =>
    have key : ∀ a1 a2 : List (Nat × Term), a1 = a2 →
        Term.tuple (a1.map (·.2)) = Term.tuple (a2.map (·.2)) := by
      intro a1 a2 ha; rw [ha]
    exact key _ _ h1

theorem applyOp_nil_eq (op : COp) : applyOp op [] =
    (match op with | .user f => Term.app f [] [] | .argsToTuple => Term.tuple []) := by
  cases op <;> rfl



/-! ### structure of the compiled net -/

def keepF (env : Env) (s : Source) (outputs : List Nat) (n : Nat) : Bool :=
  outputs.any (fun o => reaches (compileAll env s).2 (compileAll env s).1.length n o)

theorem compile_ok {env : Env} {s : Source} {outputs : List Nat} {c : CNet}
    (hc : compile env s outputs = .ok c) :
    c = ⟨(compileAll env s).1.filter (fun x => keepF env s outputs x.name),
         (compileAll env s).2.filter (fun e => keepF env s outputs e.src && keepF env s outputs e.dst),
         outputs⟩ := by
  unfold compile at hc
  split at hc
  · cases hc
  · simp only [Except.ok.injEq] at hc
    rw [← hc]; rfl

theorem mem_compileAll_names_user (env : Env) (s : Source) {x : SNode} (hx : x ∈ s.nodes) :
    x.name ∈ (compileAll env s).1.map (·.name) := by
  simp only [compileAll, List.map_append, List.mem_append, List.mem_map]
  refine Or.inl (Or.inl ⟨compiledOf x, ⟨x, hx, rfl⟩, ?_⟩)
  unfold compiledOf; split <;> rfl

theorem mem_compileAll_names_twin (env : Env) (s : Source) {x : SNode} (hx : x ∈ s.nodes)
    (ht : hasTwin x = true) : env.twin x.name ∈ (compileAll env s).1.map (·.name) := by
  simp only [compileAll, List.map_append, List.mem_append, List.mem_map, List.mem_filter]
  refine Or.inl (Or.inr ⟨_, ⟨x, ⟨hx, ht⟩, rfl⟩, ?_⟩)
  split <;> rfl

theorem mem_compileAll_names_bs (env : Env) (s : Source) {x : SNode} (hx : x ∈ s.nodes)
    (h : x.usesBatchSize = true) : env.bs ∈ (compileAll env s).1.map (·.name) := by
  have : s.nodes.any (·.usesBatchSize) = true := List.any_eq_true.2 ⟨x, hx, h⟩
  simp [compileAll, this]

theorem mem_compileAll_names_mt (env : Env) (s : Source) {x : SNode} (hx : x ∈ s.nodes)
    (h : x.usesMeta = true) : env.mt ∈ (compileAll env s).1.map (·.name) := by
  have : s.nodes.any (·.usesMeta) = true := List.any_eq_true.2 ⟨x, hx, h⟩
  simp [compileAll, this]

theorem mem_compileAll_names_rs (env : Env) (s : Source) {x : SNode} (hx : x ∈ s.nodes)
    (h : x.stochastic = true) : env.rs ∈ (compileAll env s).1.map (·.name) := by
  have : s.nodes.any (·.stochastic) = true := List.any_eq_true.2 ⟨x, hx, h⟩
  simp [compileAll, this]

theorem Source.isObservable_eq {env : Env} {s : Source} (hwf : SourceWF env s) {z : SNode} (hz : z ∈ s.nodes) :
    s.isObservable z.name = z.observable := by
  have : s.find z.name = some z := by
    unfold Source.find
    rw [List.find?_eq_some_iff_append]
    refine ⟨by simp, ?_⟩
    obtain ⟨as, bs, hab⟩ := List.append_of_mem hz
    refine ⟨as, bs, hab, ?_⟩
    intro a ha
    simp only [Bool.not_eq_eq_eq_not, Bool.not_true, beq_eq_false_iff_ne, ne_eq]
    intro hn
    have hnd := hwf.names_nodup
    rw [hab] at hnd
    simp only [List.map_append, List.map_cons] at hnd
    have := (List.nodup_append.1 hnd).2.2 a.name (List.mem_map.2 ⟨a, ha, rfl⟩) z.name (by simp)
    exact this hn
  simp [Source.isObservable, this]

theorem compileAll_edge_src_mem {env : Env} {s : Source} (hwf : SourceWF env s) :
    ∀ e ∈ (compileAll env s).2, e.src ∈ (compileAll env s).1.map (·.name) := by
  intro e he
  rcases (mem_compileAll_edges env s _).1 he with h | ⟨y, hy, hp, rfl⟩ | ⟨y, hy, hp, e', he', rfl⟩ |
      ⟨y, hy, hp, rfl⟩ | ⟨y, hy, hp, rfl⟩ | ⟨y, hy, hp, rfl⟩
  · obtain ⟨z, hz, hzn⟩ := (hwf.edges_in _ h).1
    rw [← hzn]; exact mem_compileAll_names_user env s hz
  · simp only [Bool.and_eq_true, Bool.not_eq_true'] at hp
    exact mem_compileAll_names_twin env s hy (by simp [hasTwin, hp.2])
  · have he'' : e' ∈ s.edges := (List.mem_filter.1 he').1
    obtain ⟨z, hz, hzn⟩ := (hwf.edges_in _ he'').1
    dsimp only
    rw [← hzn, Source.isObservable_eq hwf hz]
    split
    · rename_i h; exact mem_compileAll_names_twin env s hz (by simp [hasTwin, h])
    · exact mem_compileAll_names_user env s hz
  · exact mem_compileAll_names_bs env s hy hp
  · exact mem_compileAll_names_mt env s hy hp
  · exact mem_compileAll_names_rs env s hy hp

/-- a rank function on the compiled graph -/
def crk (env : Env) (s : Source) (r : Nat → Nat) (m : Nat) : Nat :=
  if s.nodes.any (fun x => x.name == m) then 2 * r m + 2
  else match s.nodes.find? (fun x => env.twin x.name == m) with
    | some x => 2 * r x.name + 1
    | none => 0

theorem crk_user (env : Env) (s : Source) (r : Nat → Nat) {x : SNode} (hx : x ∈ s.nodes) :
    crk env s r x.name = 2 * r x.name + 2 := by
  have : s.nodes.any (fun y => y.name == x.name) = true := List.any_eq_true.2 ⟨x, hx, by simp⟩
  simp [crk, this]

theorem crk_twin {env : Env} {s : Source} (hwf : SourceWF env s) (r : Nat → Nat) {x : SNode} (hx : x ∈ s.nodes) :
    crk env s r (env.twin x.name) = 2 * r x.name + 1 := by
  have h1 : s.nodes.any (fun y => y.name == env.twin x.name) = false := by
    rw [Bool.eq_false_iff]
    intro h
    obtain ⟨y, hy, hyn⟩ := List.any_eq_true.1 h
    exact hwf.twin_fresh x hx ⟨y, hy, by simpa using hyn⟩
  unfold crk
  rw [h1]
  simp only [Bool.false_eq_true, if_false]
  cases hf : s.nodes.find? (fun y => env.twin y.name == env.twin x.name) with
  | none =>
    have := List.find?_eq_none.1 hf x hx
    simp at this
  | some y =>
    have h2 := List.find?_some hf
    have h3 := List.mem_of_find?_eq_some hf
    simp only [beq_iff_eq] at h2
    simp only
    rw [hwf.twin_inj y h3 x hx h2]

theorem crk_instr {env : Env} {s : Source} (hwf : SourceWF env s) (r : Nat → Nat) {n : Nat}
    (hn : n = env.bs ∨ n = env.mt ∨ n = env.rs) : crk env s r n = 0 := by
  have hI := hwf.instr_fresh n hn
  have h1 : s.nodes.any (fun y => y.name == n) = false := by
    rw [Bool.eq_false_iff]
    intro h
    obtain ⟨y, hy, hyn⟩ := List.any_eq_true.1 h
    exact hI.1 ⟨y, hy, by simpa using hyn⟩
  unfold crk
  rw [h1]
  simp only [Bool.false_eq_true, if_false]
  cases hf : s.nodes.find? (fun y => env.twin y.name == n) with
  | none => rfl
  | some y =>
    have h2 := List.find?_some hf
    have h3 := List.mem_of_find?_eq_some hf
    simp only [beq_iff_eq] at h2
    exact absurd h2 (hI.2 y h3)

theorem compileAll_edge_rank {env : Env} {s : Source} (hwf : SourceWF env s) (r : Nat → Nat)
    (hr : ∀ e ∈ s.edges, r e.src < r e.dst) :
    ∀ e ∈ (compileAll env s).2, crk env s r e.src < crk env s r e.dst := by
  intro e he
  rcases (mem_compileAll_edges env s _).1 he with h | ⟨y, hy, hp, rfl⟩ | ⟨y, hy, hp, e', he', rfl⟩ |
      ⟨y, hy, hp, rfl⟩ | ⟨y, hy, hp, rfl⟩ | ⟨y, hy, hp, rfl⟩
  · obtain ⟨z, hz, hzn⟩ := (hwf.edges_in _ h).1
    obtain ⟨w, hw, hwn⟩ := (hwf.edges_in _ h).2
    have := hr e h
    rw [← hzn, ← hwn, crk_user env s r hz, crk_user env s r hw, hzn, hwn]; omega
  · rw [crk_user env s r hy, crk_twin hwf r hy]; omega
  · have he'' : e' ∈ s.edges := (List.mem_filter.1 he').1
    have hd : e'.dst = y.name := by simpa using (List.mem_filter.1 he').2
    obtain ⟨z, hz, hzn⟩ := (hwf.edges_in _ he'').1
    have := hr e' he''
    rw [hd, ← hzn] at this
    dsimp only
    rw [crk_twin hwf r hy]
    split
    · rw [← hzn, crk_twin hwf r hz]; omega
    · rw [← hzn, crk_user env s r hz]; omega
  · rw [crk_user env s r hy, crk_instr hwf r (Or.inl rfl)]; omega
  · rw [crk_user env s r hy, crk_instr hwf r (Or.inr (Or.inl rfl))]; omega
  · rw [crk_user env s r hy, crk_instr hwf r (Or.inr (Or.inr rfl))]; omega

theorem keepF_closed {env : Env} {s : Source} (hwf : SourceWF env s) (outputs : List Nat)
    {e : Edge} (he : e ∈ (compileAll env s).2) (hk : keepF env s outputs e.dst = true) :
    keepF env s outputs e.src = true := by
  obtain ⟨r, hr, _⟩ := hwf.acyclic
  unfold keepF at hk ⊢
  obtain ⟨o, ho, hre⟩ := List.any_eq_true.1 hk
  refine List.any_eq_true.2 ⟨o, ho, ?_⟩
  have h1 := reaches_step _ he hre
  have := reaches_complete (compileAll env s).2 ((compileAll env s).1.map (·.name)) (crk env s r)
    (compileAll_edge_rank hwf r hr) (compileAll_edge_src_mem hwf) h1
  simpa using this

theorem keepF_output (env : Env) (s : Source) {outputs : List Nat} {o : Nat} (ho : o ∈ outputs) :
    keepF env s outputs o = true :=
  List.any_eq_true.2 ⟨o, ho, reaches_self _ _ _⟩

/-! ### one evaluation step, parameterised by the evaluation of the parents -/

/-- the inputs of node `n`: one entry per in-edge -/
def insOf (edges : List Edge) (ev : Nat → Option Term) (n : Nat) : List (Option (Param × Term)) :=
  (edges.filter (fun e => e.dst == n)).map (fun e => (ev e.src).map (fun t => (e.param, t)))

theorem insOf_congr {edges : List Edge} {ev ev' : Nat → Option Term} {n : Nat}
    (h : ∀ e ∈ edges, e.dst = n → ev e.src = ev' e.src) : insOf edges ev n = insOf edges ev' n := by
  unfold insOf
  apply List.map_congr_left
  intro e he
  simp only [List.mem_filter, beq_iff_eq] at he
  rw [h e he.1 he.2]

theorem insOf_all {edges : List Edge} {ev : Nat → Option Term} {n : Nat} :
    (insOf edges ev n).all (·.isSome) = true ↔
      ∀ e ∈ edges, e.dst = n → (ev e.src).isSome = true := by
  unfold insOf
  simp only [List.all_eq_true, List.mem_map, List.mem_filter, beq_iff_eq]
  constructor
  · intro h e he hd
    have := h _ ⟨e, ⟨he, hd⟩, rfl⟩
    simpa using this
  · rintro h _ ⟨e, ⟨he, hd⟩, rfl⟩
    simpa using h e he hd

def evalStep (c : CNet) (ev : Nat → Option Term) (n : Nat) : Option Term :=
  match c.find n with
  | none => none
  | some x =>
    match x.output, x.op with
    | some t, _ => some t
    | none, none => none
    | none, some op =>
      if (insOf c.edges ev n).all (·.isSome) then
        some (applyOp op ((insOf c.edges ev n).filterMap id)) else none

theorem evalNode_zero (c : CNet) (n : Nat) : evalNode c 0 n = none := by
  rw [evalNode]

theorem evalNode_succ_eq (c : CNet) (f n : Nat) :
    evalNode c (f + 1) n = evalStep c (evalNode c f) n := by
  rw [evalNode]; rfl

theorem evalStep_eq_some {c : CNet} {ev : Nat → Option Term} {n : Nat} {t : Term} :
    evalStep c ev n = some t ↔
      ∃ x, c.find n = some x ∧
        (x.output = some t ∨
          (x.output = none ∧ ∃ op, x.op = some op ∧
            (insOf c.edges ev n).all (·.isSome) = true ∧
            t = applyOp op ((insOf c.edges ev n).filterMap id))) := by
  unfold evalStep
  cases hx : c.find n with
  | none => simp
  | some x =>
    simp only [Option.some.injEq, exists_eq_left']
    cases ho : x.output with
    | some t' => simp
    | none =>
      cases hop : x.op with
      | none => simp
      | some op =>
        simp only [Option.some.injEq, exists_eq_left', true_and, reduceCtorEq, false_or]
        split
        · rename_i hall
          simp only [Option.some.injEq, hall, true_and]
          exact eq_comm
        · rename_i hall
          simp [hall]

theorem evalStep_mono_local {c : CNet} {ev ev' : Nat → Option Term} {n : Nat} {t : Term}
    (h : ∀ e ∈ c.edges, e.dst = n → ∀ t, ev e.src = some t → ev' e.src = some t)
    (hs : evalStep c ev n = some t) : evalStep c ev' n = some t := by
  rw [evalStep_eq_some] at hs ⊢
  obtain ⟨x, hx, hcase⟩ := hs
  refine ⟨x, hx, ?_⟩
  rcases hcase with ho | ⟨ho, op, hop, hall, ht⟩
  · exact Or.inl ho
  · have hc : insOf c.edges ev n = insOf c.edges ev' n := by
      apply insOf_congr
      intro e he hd
      have := (insOf_all.mp hall) e he hd
      obtain ⟨te, hte⟩ := Option.isSome_iff_exists.mp this
      rw [hte, h e he hd te hte]
    exact Or.inr ⟨ho, op, hop, hc ▸ hall, hc ▸ ht⟩

/-! ### fuel monotonicity -/

theorem evalNode_succ_mono (l : CNet) :
    ∀ (f n : Nat) (t : Term), evalNode l f n = some t → evalNode l (f + 1) n = some t := by
  intro f
  induction f with
  | zero => intro n t h; simp [evalNode_zero] at h
  | succ f ih =>
    intro n t h
    rw [evalNode_succ_eq] at h ⊢
    exact evalStep_mono_local (fun e _ _ t ht => ih e.src t ht) h

theorem evalNode_mono (l : CNet) {f f' : Nat} (hff : f ≤ f') {n : Nat} {t : Term}
    (h : evalNode l f n = some t) : evalNode l f' n = some t := by
  induction hff with
  | refl => exact h
  | step _ ih => exact evalNode_succ_mono l _ n t ih

theorem CNet.find_some {c : CNet} {n : Nat} {x : CNode} (h : c.find n = some x) :
    x ∈ c.nodes ∧ x.name = n := by
  unfold CNet.find at h
  exact ⟨List.mem_of_find?_eq_some h, by simpa using List.find?_some h⟩

theorem evalNode_some_mem {l : CNet} {f n : Nat} {t : Term} (h : evalNode l f n = some t) :
    n ∈ l.nodes.map (·.name) := by
  cases f with
  | zero => simp [evalNode_zero] at h
  | succ f =>
    rw [evalNode_succ_eq, evalStep_eq_some] at h
    obtain ⟨x, hx, _⟩ := h
    have := CNet.find_some hx
    exact List.mem_map.mpr ⟨x, this.1, this.2⟩

/-- with a rank function along the edges, the compressed rank of a node (+1) is enough fuel -/
theorem evalNode_crank (l : CNet) (r : Nat → Nat) (hr : ∀ e ∈ l.edges, r e.src < r e.dst) :
    ∀ (F n : Nat) (t : Term), evalNode l F n = some t →
      evalNode l (crank (l.nodes.map (·.name)) r n + 1) n = some t := by
  intro F
  induction F with
  | zero => intro n t h; simp [evalNode_zero] at h
  | succ F ih =>
    intro n t h
    rw [evalNode_succ_eq] at h ⊢
    refine evalStep_mono_local ?_ h
    intro e he hd te hte
    have h1 := ih e.src te hte
    have hmem := evalNode_some_mem hte
    have hlt : r e.src < r n := hd ▸ hr e he
    exact evalNode_mono l (crank_lt_of_lt _ r hmem hlt) h1

/-- for an acyclic net, any fuel above the number of nodes is enough -/
theorem evalNode_of_exists_fuel (l : CNet)
    (hacy : ∃ r : Nat → Nat, ∀ e ∈ l.edges, r e.src < r e.dst)
    {fuel : Nat} (hf : l.nodes.length < fuel) {n : Nat} {t : Term}
    (h : ∃ F, evalNode l F n = some t) : evalNode l fuel n = some t := by
  obtain ⟨r, hr⟩ := hacy
  obtain ⟨F, hF⟩ := h
  have h1 := evalNode_crank l r hr F n t hF
  have hmem := evalNode_some_mem hF
  have h2 := crank_lt_length _ r hmem
  simp only [List.length_map] at h2
  exact evalNode_mono l (by omega) h1

/-! ### the invariant of the execution loop -/

/-- the output currently stored for node `m` -/
def outOf (g : CNet) (m : Nat) : Option Term := (g.find m).bind (·.output)

def Sem (l : CNet) (n : Nat) (t : Term) : Prop := ∃ F, evalNode l F n = some t

/-- `g` is an intermediate net of the execution of `l` -/
def Inv (l g : CNet) : Prop :=
  g.edges = l.edges ∧
  ∀ n y, g.find n = some y → ∃ x, l.find n = some x ∧
    (y = x ∨ (y.op = none ∧ ∃ t, y.output = some t ∧ Sem l n t))

theorem Inv.refl (l : CNet) : Inv l l := ⟨rfl, fun _ y hy => ⟨y, hy, Or.inl rfl⟩⟩

theorem Inv.out {l g : CNet} (h : Inv l g) {m : Nat} {t : Term} (ho : outOf g m = some t) :
    Sem l m t := by
  unfold outOf at ho
  rw [Option.bind_eq_some_iff] at ho
  obtain ⟨y, hy, hyo⟩ := ho
  obtain ⟨x, hx, hcase⟩ := h.2 m y hy
  rcases hcase with rfl | ⟨_, t', ht', hs⟩
  · refine ⟨1, ?_⟩
    rw [evalNode_succ_eq, evalStep_eq_some]
    exact ⟨_, hx, Or.inl hyo⟩
  · rw [ht'] at hyo
    cases hyo
    exact hs

/-- a common fuel for finitely many parents -/
theorem common_fuel (l : CNet) (ev : Nat → Option Term) (es : List Edge)
    (h : ∀ e ∈ es, ∀ t, ev e.src = some t → Sem l e.src t) :
    ∃ F, ∀ e ∈ es, ∀ t, ev e.src = some t → evalNode l F e.src = some t := by
  induction es with
  | nil => exact ⟨0, fun _ he => by cases he⟩
  | cons e es ih =>
    obtain ⟨F1, hF1⟩ := ih (fun e' he' => h e' (List.mem_cons_of_mem _ he'))
    cases hev : ev e.src with
    | none =>
      refine ⟨F1, fun e' he' t ht => ?_⟩
      rcases List.mem_cons.mp he' with rfl | he'
      · rw [hev] at ht; cases ht
      · exact hF1 e' he' t ht
    | some t0 =>
      obtain ⟨F0, hF0⟩ := h e List.mem_cons_self t0 hev
      refine ⟨max F0 F1, fun e' he' t ht => ?_⟩
      rcases List.mem_cons.mp he' with rfl | he'
      · rw [hev] at ht
        cases ht
        exact evalNode_mono l (Nat.le_max_left _ _) hF0
      · exact evalNode_mono l (Nat.le_max_right _ _) (hF1 e' he' t ht)

/-- the node update of `execNode` -/
def upd (n : Nat) (t : Term) (y : CNode) : CNode :=
  if y.name == n then { y with output := some t, op := none } else y

/-- the net update of `execNode` -/
def setOut (g : CNet) (n : Nat) (t : Term) : CNet := { g with nodes := g.nodes.map (upd n t) }

theorem execNode_eq_some {g g' : CNet} {n : Nat} (h : execNode g n = some g') :
    ∃ x, g.find n = some x ∧
      ((x.op = none ∧ g' = g) ∨
        (∃ op, x.op = some op ∧ (insOf g.edges (outOf g) n).all (·.isSome) = true ∧
          g' = setOut g n (applyOp op ((insOf g.edges (outOf g) n).filterMap id)))) := by
  unfold execNode at h
  cases hx : g.find n with
  | none => simp [hx] at h
  | some x =>
    simp only [hx] at h
    refine ⟨x, rfl, ?_⟩
    cases hop : x.op with
    | none =>
      simp only [hop] at h
      split at h
      · exact Or.inl ⟨rfl, (Option.some.inj h).symm⟩
      · cases h
    | some op =>
      simp only [hop] at h
      split at h
      · rename_i hall
        exact Or.inr ⟨op, rfl, hall, (Option.some.inj h).symm⟩
      · cases h

theorem find_upd (g : CNet) (n : Nat) (t : Term) (m : Nat) :
    (setOut g n t).find m = (g.find m).map (upd n t) := by
  unfold CNet.find setOut
  simp only
  rw [List.find?_map]
  have : ((fun x : CNode => x.name == m) ∘ upd n t) = (fun x => x.name == m) := by
    funext y
    simp only [Function.comp, upd]
    split <;> rfl
  rw [this]

theorem Inv.step {l g g' : CNet} {n : Nat}
    (hop : ∀ x ∈ l.nodes, x.output.isSome = true → x.op = none)
    (hI : Inv l g) (h : execNode g n = some g') : Inv l g' := by
  obtain ⟨x, hx, hcase⟩ := execNode_eq_some h
  rcases hcase with ⟨_, rfl⟩ | ⟨op, hxop, hall, rfl⟩
  · exact hI
  · obtain ⟨x0, hx0, hc⟩ := hI.2 n x hx
    have hxx : x = x0 := by
      rcases hc with h | ⟨h, _⟩
      · exact h
      · rw [h] at hxop; cases hxop
    subst hxx
    have hxout : x.output = none := by
      cases ho : x.output with
      | none => rfl
      | some t0 =>
        have := hop x (CNet.find_some hx0).1 (by simp [ho])
        rw [this] at hxop; cases hxop
    obtain ⟨F, hF⟩ := common_fuel l (outOf g) l.edges (fun e _ t ht => hI.out ht)
    have hins : insOf l.edges (evalNode l F) n = insOf g.edges (outOf g) n := by
      rw [hI.1]
      apply insOf_congr
      intro e he hd
      have := (insOf_all.mp hall) e (hI.1 ▸ he) hd
      obtain ⟨te, hte⟩ := Option.isSome_iff_exists.mp this
      rw [hte, hF e he te hte]
    have hsem : Sem l n (applyOp op ((insOf g.edges (outOf g) n).filterMap id)) := by
      refine ⟨F + 1, ?_⟩
      rw [evalNode_succ_eq, evalStep_eq_some]
      exact ⟨x, hx0, Or.inr ⟨hxout, op, hxop, hins ▸ hall, by rw [hins]⟩⟩
    refine ⟨hI.1, ?_⟩
    intro m y hy
    rw [find_upd, Option.map_eq_some_iff] at hy
    obtain ⟨y0, hy0, rfl⟩ := hy
    have hname := (CNet.find_some hy0).2
    by_cases hmn : m = n
    · subst hmn
      rw [hx] at hy0
      cases hy0
      refine ⟨x, hx0, Or.inr ?_⟩
      simp only [upd, hname, beq_self_eq_true, if_true]
      exact ⟨trivial, _, rfl, hsem⟩
    · have : upd n (applyOp op ((insOf g.edges (outOf g) n).filterMap id)) y0 = y0 := by
        simp only [upd, hname]
        rw [if_neg]
        simpa using hmn
      rw [this]
      exact hI.2 m y0 hy0

theorem foldl_exec_none (order : List Nat) :
    order.foldl (fun acc n => acc.bind (fun g => execNode g n)) none = none := by
  induction order with
  | nil => rfl
  | cons a as ih => simpa using ih

theorem Inv.fold {l : CNet} (hop : ∀ x ∈ l.nodes, x.output.isSome = true → x.op = none) :
    ∀ (order : List Nat) (g g' : CNet), Inv l g →
      order.foldl (fun acc n => acc.bind (fun g => execNode g n)) (some g) = some g' →
      Inv l g' := by
  intro order
  induction order with
  | nil =>
    intro g g' hI h
    simp only [List.foldl_nil, Option.some.injEq] at h
    subst h
    exact hI
  | cons a as ih =>
    intro g g' hI h
    simp only [List.foldl_cons, Option.bind_some] at h
    cases he : execNode g a with
    | none => rw [he, foldl_exec_none] at h; cases h
    | some g1 =>
      rw [he] at h
      exact ih g1 g' (hI.step hop he) h

theorem mapM_option_mem {α β : Type} (f : α → Option β) :
    ∀ (l : List α) (res : List β), l.mapM f = some res → ∀ p ∈ res, ∃ a ∈ l, f a = some p := by
  intro l
  induction l with
  | nil =>
    intro res h p hp
    simp at h
    subst h
    cases hp
  | cons a as ih =>
    intro res h p hp
    rw [List.mapM_cons] at h
    cases hfa : f a with
    | none => simp [hfa] at h
    | some b =>
      cases has : as.mapM f with
      | none => simp [hfa, has] at h
      | some bs =>
        simp [hfa, has] at h
        subst h
        rcases List.mem_cons.mp hp with rfl | hp'
        · exact ⟨a, List.mem_cons_self, hfa⟩
        · obtain ⟨a', ha', hfa'⟩ := ih bs has p hp'
          exact ⟨a', List.mem_cons_of_mem _ ha', hfa'⟩

/-! ### the theorem -/

theorem execute_eq_eval_corrected (l : CNet) (hn : (l.nodes.map (·.name)).Nodup)
    (hop : ∀ x ∈ l.nodes, x.output.isSome = true → x.op = none)
    (order : List Nat)
    (res : List (Nat × Term)) (h : execute l order = some res) (fuel : Nat) (hf : l.nodes.length < fuel)
    (hacy : ∃ r : Nat → Nat, ∀ e ∈ l.edges, r e.src < r e.dst) :
    ∀ p ∈ res, evalNode l fuel p.1 = some p.2 := by
  have _ := hn
  intro p hp
  unfold execute at h
  cases hfold : order.foldl (fun acc n => acc.bind (fun g => execNode g n)) (some l) with
  | none => rw [hfold] at h; cases h
  | some g =>
    rw [hfold] at h
    simp only at h
    have hI : Inv l g := Inv.fold hop order l g (Inv.refl l) hfold
    obtain ⟨o, _, ho⟩ := mapM_option_mem _ _ _ h p hp
    rw [Option.map_eq_some_iff] at ho
    obtain ⟨t, ht, rfl⟩ := ho
    exact evalNode_of_exists_fuel l hacy hf (hI.out ht)

/-! ### the loaders, node by node -/

theorem upd_name (n : Nat) (t : Term) (y : CNode) : (upd n t y).name = y.name := by
  unfold upd; split <;> rfl

theorem upd_ne {n : Nat} {t : Term} {y : CNode} (h : y.name ≠ n) : upd n t y = y := by
  unfold upd; simp [h]

theorem upd_eq {n : Nat} {t : Term} {y : CNode} (h : y.name = n) : upd n t y = ⟨y.name, none, some t⟩ := by
  unfold upd; simp [h]

theorem foldl_map_comm {α β : Type _} (g : β → α → α) (ps : List β) (l : List α) :
    ps.foldl (fun acc p => acc.map (g p)) l = l.map (fun x => ps.foldl (fun y p => g p y) x) := by
  induction ps generalizing l with
  | nil => simp
  | cons p ps ih => simp only [List.foldl_cons]; rw [ih, List.map_map]; rfl

theorem foldl_upd_name {β : Type _} (k : β → Nat) (v : β → Term) (ps : List β) (x : CNode) :
    (ps.foldl (fun y p => upd (k p) (v p) y) x).name = x.name := by
  induction ps generalizing x with
  | nil => rfl
  | cons p ps ih => simp only [List.foldl_cons]; rw [ih, upd_name]

theorem foldl_upd_stable {β : Type _} (k : β → Nat) (v : β → Term) (ps : List β) (x : CNode)
    (h : ∀ q ∈ ps, k q = x.name → x.op = none ∧ x.output = some (v q)) :
    ps.foldl (fun y p => upd (k p) (v p) y) x = x := by
  induction ps with
  | nil => rfl
  | cons p ps ih =>
    simp only [List.foldl_cons]
    have hx : upd (k p) (v p) x = x := by
      by_cases hk : x.name = k p
      · obtain ⟨h1, h2⟩ := h p List.mem_cons_self hk.symm
        rw [upd_eq hk]
        cases x; simp_all
      · exact upd_ne hk
    rw [hx]
    exact ih (fun q hq => h q (List.mem_cons_of_mem _ hq))

theorem foldl_upd_mem {β : Type _} (k : β → Nat) (v : β → Term) (ps : List β) (x : CNode) (p : β)
    (hp : p ∈ ps) (hk : k p = x.name) (hv : ∀ q ∈ ps, k q = x.name → v q = v p) :
    ps.foldl (fun y p => upd (k p) (v p) y) x = ⟨x.name, none, some (v p)⟩ := by
  induction ps generalizing x with
  | nil => simp at hp
  | cons q ps ih =>
    simp only [List.foldl_cons]
    by_cases hq : x.name = k q
    · rw [upd_eq hq, hv q List.mem_cons_self hq.symm]
      apply foldl_upd_stable
      intro q' hq' hk'
      exact ⟨rfl, by rw [hv q' (List.mem_cons_of_mem _ hq') hk']⟩
    · rw [upd_ne hq]
      rcases List.mem_cons.1 hp with rfl | hp'
      · exact absurd hk.symm hq
      · exact ih x hp' hk (fun q' hq' => hv q' (List.mem_cons_of_mem _ hq'))

/-- what the loaders do to a single node -/
def loadNode (env : Env) (s : Source) (supplied : List (Nat × Nat)) (x : CNode) : CNode :=
  supplied.foldl (fun y p => upd p.1 (.const p.2) y)
    (upd env.rs .tRandomState (upd env.mt .tMeta (upd env.bs .tBatchSize
      (s.observed.foldl (fun y p => upd (env.twin p.1) (.const p.2) y) x))))

theorem load_nodes (env : Env) (s : Source) (supplied : List (Nat × Nat)) (ms : List Nat) (c : CNet) :
    (load env s supplied ms c).nodes = c.nodes.map (loadNode env s supplied) := by
  unfold load
  dsimp only
  have h1 := foldl_map_comm (fun (p : Nat × Nat) y => upd (env.twin p.1) (.const p.2) y) s.observed c.nodes
  have h3 := fun l => foldl_map_comm (fun (p : Nat × Nat) y => upd p.1 (.const p.2) y) supplied l
  simp only [upd] at h1 h3
  rw [h1, List.map_map, List.map_map, List.map_map, h3, List.map_map]
  rfl

theorem load_edges (env : Env) (s : Source) (supplied : List (Nat × Nat)) (ms : List Nat) (c : CNet) :
    (load env s supplied ms c).edges = c.edges := rfl

theorem loadNode_name (env : Env) (s : Source) (supplied : List (Nat × Nat)) (x : CNode) :
    (loadNode env s supplied x).name = x.name := by
  unfold loadNode
  rw [foldl_upd_name (fun p : Nat × Nat => p.1) (fun p => .const p.2), upd_name, upd_name, upd_name,
    foldl_upd_name (fun p : Nat × Nat => env.twin p.1) (fun p => .const p.2)]

theorem load_find (env : Env) (s : Source) (supplied : List (Nat × Nat)) (ms : List Nat) (c : CNet) (m : Nat) :
    (load env s supplied ms c).find m = (c.find m).map (loadNode env s supplied) := by
  unfold CNet.find
  rw [load_nodes, List.find?_map]
  have : ((fun x : CNode => x.name == m) ∘ loadNode env s supplied) = (fun x => x.name == m) := by
    funext y
    simp only [Function.comp, loadNode_name]
  rw [this]

theorem find?_eq_some_of_unique {α : Type _} (p : α → Bool) (l : List α) (x : α) (hx : x ∈ l)
    (hp : p x = true) (hu : ∀ y ∈ l, p y = true → y = x) : l.find? p = some x := by
  induction l with
  | nil => simp at hx
  | cons a l ih =>
    rw [List.find?_cons]
    by_cases ha : p a = true
    · rw [ha, hu a List.mem_cons_self ha]
    · have hane : a ≠ x := fun h => ha (h ▸ hp)
      simp only [ha]
      rcases List.mem_cons.1 hx with rfl | hx'
      · exact absurd rfl hane
      · exact ih hx' (fun y hy => hu y (List.mem_cons_of_mem _ hy))

theorem find?_congr' {α : Type _} {p q : α → Bool} {l : List α} (h : ∀ x ∈ l, p x = q x) :
    l.find? p = l.find? q := by
  induction l with
  | nil => rfl
  | cons a l ih =>
    rw [List.find?_cons, List.find?_cons, h a List.mem_cons_self,
      ih (fun x hx => h x (List.mem_cons_of_mem _ hx))]

theorem compiledOf_name (x : SNode) : (compiledOf x).name = x.name := by
  unfold compiledOf; split <;> rfl

theorem Source.find_eq {env : Env} {s : Source} (hwf : SourceWF env s) {x : SNode} (hx : x ∈ s.nodes) :
    s.find x.name = some x :=
  find?_eq_some_of_unique _ _ x hx (by simp) (fun y hy h => hwf.node_ext hy hx (by simpa using h))

/-- the twin node the ObservedCompiler creates -/
def twinNode (env : Env) (x : SNode) : CNode :=
  if x.observable then { compiledOf x with name := env.twin x.name }
  else ⟨env.twin x.name, some .argsToTuple, none⟩

theorem twinNode_name (env : Env) (x : SNode) : (twinNode env x).name = env.twin x.name := by
  unfold twinNode; split <;> rfl

theorem compileAll_nodes (env : Env) (s : Source) : (compileAll env s).1 =
    s.nodes.map compiledOf ++ (s.nodes.filter hasTwin).map (twinNode env) ++
    ((if s.nodes.any (·.usesBatchSize) then [⟨env.bs, none, none⟩] else []) ++
     (if s.nodes.any (·.usesMeta) then [⟨env.mt, none, none⟩] else []) ++
     (if s.nodes.any (·.stochastic) then [(⟨env.rs, none, none⟩ : CNode)] else [])) := rfl

theorem compileAll_find_user {env : Env} {s : Source} (hwf : SourceWF env s) {x : SNode} (hx : x ∈ s.nodes) :
    (compileAll env s).1.find? (fun y => y.name == x.name) = some (compiledOf x) := by
  rw [compileAll_nodes, List.find?_append, List.find?_append, List.find?_map]
  have : ((fun y : CNode => y.name == x.name) ∘ compiledOf) = (fun y => y.name == x.name) := by
    funext y; simp only [Function.comp, compiledOf_name]
  rw [this]
  have := Source.find_eq hwf hx
  unfold Source.find at this
  rw [this]; rfl

theorem compileAll_find_twin {env : Env} {s : Source} (hwf : SourceWF env s) {x : SNode} (hx : x ∈ s.nodes)
    (ht : hasTwin x = true) :
    (compileAll env s).1.find? (fun y => y.name == env.twin x.name) = some (twinNode env x) := by
  rw [compileAll_nodes, List.find?_append, List.find?_append, List.find?_map, List.find?_map]
  have h1 : s.nodes.find? ((fun y : CNode => y.name == env.twin x.name) ∘ compiledOf) = none := by
    rw [List.find?_eq_none]
    intro y hy
    simp only [Function.comp, compiledOf_name, beq_iff_eq]
    intro h
    exact hwf.twin_fresh x hx ⟨y, hy, h⟩
  have h2 : (s.nodes.filter hasTwin).find? ((fun y : CNode => y.name == env.twin x.name) ∘ twinNode env) = some x := by
    apply find?_eq_some_of_unique
    · exact List.mem_filter.2 ⟨hx, ht⟩
    · simp [twinNode_name]
    · intro y hy h
      simp only [Function.comp, twinNode_name, beq_iff_eq] at h
      have hy' := (List.mem_filter.1 hy).1
      exact hwf.node_ext hy' hx (hwf.twin_inj y hy' x hx h)
  rw [h1, h2]; rfl

theorem compileAll_find_instr {env : Env} {s : Source} (hwf : SourceWF env s) {n : Nat}
    (hn : n = env.bs ∨ n = env.mt ∨ n = env.rs) (hm : n ∈ (compileAll env s).1.map (·.name)) :
    (compileAll env s).1.find? (fun y => y.name == n) = some ⟨n, none, none⟩ := by
  have hI := hwf.instr_fresh n hn
  obtain ⟨d1, d2, d3⟩ := hwf.instr_distinct
  rw [compileAll_nodes] at hm ⊢
  rw [List.find?_append, List.find?_append, List.find?_map, List.find?_map]
  have h1 : s.nodes.find? ((fun y : CNode => y.name == n) ∘ compiledOf) = none := by
    rw [List.find?_eq_none]
    intro y hy
    simp only [Function.comp, compiledOf_name, beq_iff_eq]
    intro h
    exact hI.1 ⟨y, hy, h⟩
  have h2 : (s.nodes.filter hasTwin).find? ((fun y : CNode => y.name == n) ∘ twinNode env) = none := by
    rw [List.find?_eq_none]
    intro y hy
    simp only [Function.comp, twinNode_name, beq_iff_eq]
    exact hI.2 y (List.mem_filter.1 hy).1
  rw [h1, h2]
  simp only [List.map_append, List.mem_append, List.mem_map] at hm
  rcases hm with (⟨y, ⟨z, hz, rfl⟩, hy⟩ | ⟨y, ⟨z, hz, rfl⟩, hy⟩) | hm
  · rw [compiledOf_name] at hy; exact absurd ⟨z, hz, hy⟩ hI.1
  · rw [twinNode_name] at hy; exact absurd hy (hI.2 z (List.mem_filter.1 hz).1)
  · rcases hn with rfl | rfl | rfl
    · by_cases hb : s.nodes.any (·.usesBatchSize) = true
      · simp [hb]
      · exfalso
        simp only [hb] at hm
        rcases hm with (⟨y, hy, hyn⟩ | ⟨y, hy, hyn⟩) | ⟨y, hy, hyn⟩
        · simp at hy
        · split at hy
          · simp at hy; subst hy; exact d1 hyn.symm
          · simp at hy
        · split at hy
          · simp at hy; subst hy; exact d2 hyn.symm
          · simp at hy
    · by_cases hb : s.nodes.any (·.usesMeta) = true
      · have : (env.bs == env.mt) = false := by simpa using d1
        simp [hb, List.find?_append]
        split <;> simp [this]
      · exfalso
        simp only [hb] at hm
        rcases hm with (⟨y, hy, hyn⟩ | ⟨y, hy, hyn⟩) | ⟨y, hy, hyn⟩
        · split at hy
          · simp at hy; subst hy; exact d1 hyn
          · simp at hy
        · simp at hy
        · split at hy
          · simp at hy; subst hy; exact d3 hyn.symm
          · simp at hy
    · by_cases hb : s.nodes.any (·.stochastic) = true
      · have h1 : (env.bs == env.rs) = false := by simpa using d2
        have h2 : (env.mt == env.rs) = false := by simpa using d3
        simp [hb, List.find?_append]
        split <;> split <;> simp [h1, h2]
      · exfalso
        simp only [hb] at hm
        rcases hm with (⟨y, hy, hyn⟩ | ⟨y, hy, hyn⟩) | ⟨y, hy, hyn⟩
        · split at hy
          · simp at hy; subst hy; exact d2 hyn
          · simp at hy
        · split at hy
          · simp at hy; subst hy; exact d3 hyn
          · simp at hy
        · simp at hy

/-! ### in-edges of the compiled net -/

theorem filter_flatMap_none {α β : Type _} (l : List α) (P : α → Bool) (g : α → List β) (q : β → Bool)
    (h : ∀ y ∈ l, ∀ b ∈ g y, q b = false) : ((l.filter P).flatMap g).filter q = [] := by
  rw [List.filter_eq_nil_iff]
  intro b hb
  obtain ⟨y, hy, hby⟩ := List.mem_flatMap.1 hb
  rw [h y (List.mem_filter.1 hy).1 b hby]; simp

theorem filter_flatMap_single {α β : Type _} (l : List α) (x : α) (hnd : l.Nodup) (hx : x ∈ l)
    (P : α → Bool) (g : α → List β) (q : β → Bool)
    (h1 : ∀ y ∈ l, y ≠ x → ∀ b ∈ g y, q b = false) (h2 : ∀ b ∈ g x, q b = true) :
    ((l.filter P).flatMap g).filter q = if P x then g x else [] := by
  induction l with
  | nil => simp at hx
  | cons a l ih =>
    obtain ⟨hal, hnd'⟩ := List.nodup_cons.1 hnd
    by_cases hax : a = x
    · subst hax
      have hrest : ((l.filter P).flatMap g).filter q = [] := by
        apply filter_flatMap_none
        intro y hy
        exact h1 y (List.mem_cons_of_mem _ hy) (fun h => hal (h ▸ hy))
      have hgx : (g a).filter q = g a := List.filter_eq_self.2 h2
      by_cases hp : P a = true
      · simp only [List.filter_cons, hp, if_true, List.flatMap_cons, List.filter_append, hrest, hgx,
          List.append_nil]
      · have hp' : P a = false := by simpa using hp
        simp only [List.filter_cons, hp', Bool.false_eq_true, if_false]; exact hrest
    · have hx' : x ∈ l := by
        rcases List.mem_cons.1 hx with h | h
        · exact absurd h.symm hax
        · exact h
      have ih' := ih hnd' hx' (fun y hy => h1 y (List.mem_cons_of_mem _ hy))
      have hga : (g a).filter q = [] := by
        rw [List.filter_eq_nil_iff]
        intro b hb
        rw [h1 a List.mem_cons_self hax b hb]; simp
      by_cases hp : P a = true
      · simp only [List.filter_cons, hp, if_true, List.flatMap_cons, List.filter_append, hga,
          List.nil_append, ih']
      · have hp' : P a = false := by simpa using hp
        simp only [List.filter_cons, hp', Bool.false_eq_true, if_false]; exact ih'

theorem filter_map_single {α β : Type _} (l : List α) (x : α) (hnd : l.Nodup) (hx : x ∈ l)
    (P : α → Bool) (f : α → β) (q : β → Bool)
    (h1 : ∀ y ∈ l, y ≠ x → q (f y) = false) (h2 : q (f x) = true) :
    ((l.filter P).map f).filter q = if P x then [f x] else [] := by
  rw [List.map_eq_flatMap]
  apply filter_flatMap_single l x hnd hx P (fun y => [f y]) q
  · intro y hy hne b hb
    simp only [List.mem_singleton] at hb; subst hb; exact h1 y hy hne
  · intro b hb
    simp only [List.mem_singleton] at hb; subst hb; exact h2

theorem filter_map_none {α β : Type _} (l : List α) (P : α → Bool) (f : α → β) (q : β → Bool)
    (h : ∀ y ∈ l, q (f y) = false) : ((l.filter P).map f).filter q = [] := by
  rw [List.filter_eq_nil_iff]
  intro b hb
  obtain ⟨y, hy, rfl⟩ := List.mem_map.1 hb
  rw [h y (List.mem_filter.1 hy).1]; simp

theorem compileAll_edges (env : Env) (s : Source) : (compileAll env s).2 =
    s.edges ++
    (s.nodes.filter (fun x => !x.observable && x.usesObserved)).map
      (fun x => (⟨env.twin x.name, x.name, .named env.kwObserved⟩ : Edge)) ++
    (s.nodes.filter (fun x => hasTwin x && !x.stochastic)).flatMap (fun x =>
      (s.inEdges x.name).map (fun e =>
        (⟨if s.isObservable e.src then env.twin e.src else e.src, env.twin x.name, e.param⟩ : Edge))) ++
    (s.nodes.filter (·.usesBatchSize)).map (fun x => (⟨env.bs, x.name, .named env.kwBatchSize⟩ : Edge)) ++
    (s.nodes.filter (·.usesMeta)).map (fun x => (⟨env.mt, x.name, .named env.kwMeta⟩ : Edge)) ++
    (s.nodes.filter (·.stochastic)).map (fun x => (⟨env.rs, x.name, .named env.kwRandomState⟩ : Edge)) := rfl

theorem SourceWF.nodes_nodup {env : Env} {s : Source} (hwf : SourceWF env s) : s.nodes.Nodup :=
  List.Nodup.of_map _ hwf.names_nodup

theorem compileAll_inEdges_user {env : Env} {s : Source} (hwf : SourceWF env s) {x : SNode} (hx : x ∈ s.nodes) :
    (compileAll env s).2.filter (fun e => e.dst == x.name) =
      s.inEdges x.name ++
      (if (!x.observable && x.usesObserved) then [(⟨env.twin x.name, x.name, .named env.kwObserved⟩ : Edge)] else []) ++
      (if x.usesBatchSize then [(⟨env.bs, x.name, .named env.kwBatchSize⟩ : Edge)] else []) ++
      (if x.usesMeta then [(⟨env.mt, x.name, .named env.kwMeta⟩ : Edge)] else []) ++
      (if x.stochastic then [(⟨env.rs, x.name, .named env.kwRandomState⟩ : Edge)] else []) := by
  have hnd := hwf.nodes_nodup
  have hne : ∀ y ∈ s.nodes, y ≠ x → (y.name == x.name) = false := by
    intro y hy hyx
    simp only [beq_eq_false_iff_ne, ne_eq]
    exact fun h => hyx (hwf.node_ext hy hx h)
  rw [compileAll_edges]
  simp only [List.filter_append]
  rw [filter_map_single s.nodes x hnd hx _ _ _ (fun y hy hyx => hne y hy hyx) (by simp),
    filter_map_single s.nodes x hnd hx _ _ _ (fun y hy hyx => hne y hy hyx) (by simp),
    filter_map_single s.nodes x hnd hx _ _ _ (fun y hy hyx => hne y hy hyx) (by simp),
    filter_map_single s.nodes x hnd hx _ _ _ (fun y hy hyx => hne y hy hyx) (by simp),
    filter_flatMap_none]
  · simp only [List.append_nil]; rfl
  · intro y hy b hb
    obtain ⟨e', _, rfl⟩ := List.mem_map.1 hb
    simp only [beq_eq_false_iff_ne, ne_eq]
    exact fun h => hwf.twin_fresh y hy ⟨x, hx, h.symm⟩

theorem compileAll_inEdges_twin {env : Env} {s : Source} (hwf : SourceWF env s) {x : SNode} (hx : x ∈ s.nodes) :
    (compileAll env s).2.filter (fun e => e.dst == env.twin x.name) =
      if (hasTwin x && !x.stochastic) then
        (s.inEdges x.name).map (fun e =>
          (⟨if s.isObservable e.src then env.twin e.src else e.src, env.twin x.name, e.param⟩ : Edge))
      else [] := by
  have hnd := hwf.nodes_nodup
  have hne : ∀ y ∈ s.nodes, (y.name == env.twin x.name) = false := by
    intro y hy
    simp only [beq_eq_false_iff_ne, ne_eq]
    exact fun h => hwf.twin_fresh x hx ⟨y, hy, h⟩
  rw [compileAll_edges]
  simp only [List.filter_append]
  rw [filter_map_none s.nodes _ _ _ (fun y hy => hne y hy),
    filter_map_none s.nodes _ _ _ (fun y hy => hne y hy),
    filter_map_none s.nodes _ _ _ (fun y hy => hne y hy),
    filter_map_none s.nodes _ _ _ (fun y hy => hne y hy),
    filter_flatMap_single s.nodes x hnd hx]
  · have : s.edges.filter (fun e => e.dst == env.twin x.name) = [] := by
      rw [List.filter_eq_nil_iff]
      intro e he
      obtain ⟨w, hw, hwn⟩ := (hwf.edges_in e he).2
      have := hne w hw
      rw [hwn] at this
      simp [this]
    rw [this]; simp
  · intro y hy hyx b hb
    obtain ⟨e', _, rfl⟩ := List.mem_map.1 hb
    simp only [beq_eq_false_iff_ne, ne_eq]
    exact fun h => hyx (hwf.node_ext hy hx (hwf.twin_inj y hy x hx h))
  · intro b hb
    obtain ⟨e', _, rfl⟩ := List.mem_map.1 hb
    simp

/-- the compiled net, explicitly -/
def cnet (env : Env) (s : Source) (outputs : List Nat) : CNet :=
  ⟨(compileAll env s).1.filter (fun x => keepF env s outputs x.name),
   (compileAll env s).2.filter (fun e => keepF env s outputs e.src && keepF env s outputs e.dst),
   outputs⟩

theorem cnet_find (env : Env) (s : Source) (outputs : List Nat) {m : Nat} (hk : keepF env s outputs m = true) :
    (cnet env s outputs).find m = (compileAll env s).1.find? (fun y => y.name == m) := by
  unfold CNet.find cnet
  simp only
  rw [List.find?_filter]
  apply find?_congr'
  intro y _
  by_cases h : y.name = m
  · simp [h, hk]
  · simp [h]

theorem cnet_insOf {env : Env} {s : Source} (hwf : SourceWF env s) (outputs : List Nat) (ev : Nat → Option Term)
    {m : Nat} (hk : keepF env s outputs m = true) :
    insOf (cnet env s outputs).edges ev m = insOf (compileAll env s).2 ev m := by
  unfold insOf cnet
  simp only
  rw [List.filter_filter]
  congr 1
  apply List.filter_congr
  intro e he
  by_cases h : e.dst = m
  · have h2 : keepF env s outputs e.dst = true := by rw [h]; exact hk
    have h1 := keepF_closed hwf outputs he h2
    simp [h, h1, hk]
  · simp [h]

/-! ### the loaded net, node by node -/

/-- the hypotheses of the corrected meaning theorems -/
structure LoadHyp (env : Env) (s : Source) (supplied : List (Nat × Nat)) : Prop where
  wf : SourceWF env s
  sup : ∀ p ∈ supplied, IsUser s p.1 ∨ IsTwin env s p.1
  sup_nodup : (supplied.map (·.1)).Nodup
  obs_user : ∀ p ∈ s.observed, IsUser s p.1

theorem supFold_some (supplied : List (Nat × Nat)) (hnd : (supplied.map (·.1)).Nodup) (z : CNode) (p : Nat × Nat)
    (h : supplied.find? (fun q => q.1 == z.name) = some p) :
    supplied.foldl (fun y p => upd p.1 (.const p.2) y) z = ⟨z.name, none, some (.const p.2)⟩ := by
  have hp := List.mem_of_find?_eq_some h
  have hk : p.1 = z.name := by simpa using List.find?_some h
  apply foldl_upd_mem (fun q : Nat × Nat => q.1) (fun q => Term.const q.2) supplied z p hp hk
  intro q hq hqk
  rw [List.inj_on_of_nodup_map hnd hq hp (hqk.trans hk.symm)]

theorem supFold_none (supplied : List (Nat × Nat)) (z : CNode)
    (h : supplied.find? (fun q => q.1 == z.name) = none) :
    supplied.foldl (fun y p => upd p.1 (.const p.2) y) z = z := by
  apply foldl_upd_stable (fun q : Nat × Nat => q.1) (fun q => Term.const q.2)
  intro q hq hqk
  have := List.find?_eq_none.1 h q hq
  simp [hqk] at this

theorem LoadHyp.user_ne_instr {env : Env} {s : Source} {supplied : List (Nat × Nat)} (H : LoadHyp env s supplied)
    {n : Nat} (hn : IsUser s n) : n ≠ env.bs ∧ n ≠ env.mt ∧ n ≠ env.rs :=
  ⟨fun h => (H.wf.instr_fresh _ (Or.inl rfl)).1 (h ▸ hn),
   fun h => (H.wf.instr_fresh _ (Or.inr (Or.inl rfl))).1 (h ▸ hn),
   fun h => (H.wf.instr_fresh _ (Or.inr (Or.inr rfl))).1 (h ▸ hn)⟩

theorem LoadHyp.twin_ne_instr {env : Env} {s : Source} {supplied : List (Nat × Nat)} (H : LoadHyp env s supplied)
    {x : SNode} (hx : x ∈ s.nodes) :
    env.twin x.name ≠ env.bs ∧ env.twin x.name ≠ env.mt ∧ env.twin x.name ≠ env.rs :=
  ⟨(H.wf.instr_fresh _ (Or.inl rfl)).2 x hx, (H.wf.instr_fresh _ (Or.inr (Or.inl rfl))).2 x hx,
   (H.wf.instr_fresh _ (Or.inr (Or.inr rfl))).2 x hx⟩

theorem upd3_ne {a b c : Nat} {ta tb tc : Term} {z : CNode} (h1 : z.name ≠ a) (h2 : z.name ≠ b)
    (h3 : z.name ≠ c) : upd c tc (upd b tb (upd a ta z)) = z := by
  rw [upd_ne (y := z) h1, upd_ne (y := z) h2, upd_ne h3]

theorem loadNode_user {env : Env} {s : Source} {supplied : List (Nat × Nat)} (H : LoadHyp env s supplied)
    {x : SNode} (hx : x ∈ s.nodes) :
    loadNode env s supplied (compiledOf x) =
      match supplied.find? (fun q => q.1 == x.name) with
      | some p => ⟨x.name, none, some (.const p.2)⟩
      | none => compiledOf x := by
  unfold loadNode
  have h1 : s.observed.foldl (fun y p => upd (env.twin p.1) (.const p.2) y) (compiledOf x) = compiledOf x := by
    apply foldl_upd_stable (fun q : Nat × Nat => env.twin q.1) (fun q => Term.const q.2)
    intro q hq hqk
    obtain ⟨z, hz, hzn⟩ := H.obs_user q hq
    rw [compiledOf_name] at hqk
    exact absurd ⟨x, hx, by rw [hzn]; exact hqk.symm⟩ (H.wf.twin_fresh z hz)
  obtain ⟨n1, n2, n3⟩ := H.user_ne_instr ⟨x, hx, rfl⟩
  rw [h1, upd3_ne (by rw [compiledOf_name]; exact n1) (by rw [compiledOf_name]; exact n2)
    (by rw [compiledOf_name]; exact n3)]
  cases hs : supplied.find? (fun q => q.1 == x.name) with
  | none => exact supFold_none supplied _ (by rw [compiledOf_name]; exact hs)
  | some p =>
    have := supFold_some supplied H.sup_nodup (compiledOf x) p (by rw [compiledOf_name]; exact hs)
    rw [this, compiledOf_name]

theorem loadNode_twin {env : Env} {s : Source} {supplied : List (Nat × Nat)} (H : LoadHyp env s supplied)
    {x : SNode} (hx : x ∈ s.nodes) :
    loadNode env s supplied (twinNode env x) =
      match supplied.find? (fun q => q.1 == env.twin x.name) with
      | some p => ⟨env.twin x.name, none, some (.const p.2)⟩
      | none =>
        match s.observed.find? (fun q => q.1 == x.name) with
        | some p => ⟨env.twin x.name, none, some (.const p.2)⟩
        | none => twinNode env x := by
  unfold loadNode
  obtain ⟨n1, n2, n3⟩ := H.twin_ne_instr hx
  have hname : ∀ z : CNode, z.name = env.twin x.name →
      (upd env.rs .tRandomState (upd env.mt .tMeta (upd env.bs .tBatchSize z))) = z := by
    intro z hz
    exact upd3_ne (by rw [hz]; exact n1) (by rw [hz]; exact n2) (by rw [hz]; exact n3)
  have hon := foldl_upd_name (fun q : Nat × Nat => env.twin q.1) (fun q => Term.const q.2) s.observed (twinNode env x)
  rw [hname _ (by rw [hon, twinNode_name])]
  cases hs : supplied.find? (fun q => q.1 == env.twin x.name) with
  | some p =>
    have := supFold_some supplied H.sup_nodup _ p (by rw [hon, twinNode_name]; exact hs)
    rw [this, hon, twinNode_name]
  | none =>
    rw [supFold_none supplied _ (by rw [hon, twinNode_name]; exact hs)]
    cases ho : s.observed.find? (fun q => q.1 == x.name) with
    | none =>
      apply foldl_upd_stable (fun q : Nat × Nat => env.twin q.1) (fun q => Term.const q.2)
      intro q hq hqk
      exfalso
      obtain ⟨z, hz, hzn⟩ := H.obs_user q hq
      rw [twinNode_name, ← hzn] at hqk
      have := H.wf.twin_inj z hz x hx hqk
      have h2 := List.find?_eq_none.1 ho q hq
      simp [← hzn, this] at h2
    | some p =>
      have hp := List.mem_of_find?_eq_some ho
      have hk : p.1 = x.name := by simpa using List.find?_some ho
      have := foldl_upd_mem (fun q : Nat × Nat => env.twin q.1) (fun q => Term.const q.2) s.observed
        (twinNode env x) p hp (by rw [twinNode_name, hk]) (by
          intro q hq hqk
          obtain ⟨z, hz, hzn⟩ := H.obs_user q hq
          rw [twinNode_name, ← hzn] at hqk
          have h3 := H.wf.twin_inj z hz x hx hqk
          rw [List.inj_on_of_nodup_map H.wf.observed_nodup hq hp (by rw [← hzn, h3, hk])])
      rw [this, twinNode_name]

theorem loadNode_instr {env : Env} {s : Source} {supplied : List (Nat × Nat)} (H : LoadHyp env s supplied)
    {n : Nat} (hn : n = env.bs ∨ n = env.mt ∨ n = env.rs) :
    loadNode env s supplied ⟨n, none, none⟩ = ⟨n, none, some
      (if n = env.bs then .tBatchSize else if n = env.mt then .tMeta else .tRandomState)⟩ := by
  unfold loadNode
  have hI := H.wf.instr_fresh n hn
  obtain ⟨d1, d2, d3⟩ := H.wf.instr_distinct
  have h1 : s.observed.foldl (fun y p => upd (env.twin p.1) (.const p.2) y) ⟨n, none, none⟩ = ⟨n, none, none⟩ := by
    apply foldl_upd_stable (fun q : Nat × Nat => env.twin q.1) (fun q => Term.const q.2)
    intro q hq hqk
    obtain ⟨z, hz, hzn⟩ := H.obs_user q hq
    exact absurd (by rw [hzn]; exact hqk) (hI.2 z hz)
  rw [h1]
  have hsup : ∀ z : CNode, z.name = n → supplied.foldl (fun y p => upd p.1 (.const p.2) y) z = z := by
    intro z hz
    apply foldl_upd_stable (fun q : Nat × Nat => q.1) (fun q => Term.const q.2)
    intro q hq hqk
    exfalso
    rcases H.sup q hq with hu | ⟨w, hw, _, hwn⟩
    · exact hI.1 (by rw [← hz, ← hqk]; exact hu)
    · exact hI.2 w hw (by rw [hwn, hqk, hz])
  rcases hn with rfl | rfl | rfl
  · have e1 : upd env.bs .tBatchSize ⟨env.bs, none, none⟩ = ⟨env.bs, none, some .tBatchSize⟩ := upd_eq rfl
    rw [e1, upd_ne (y := ⟨env.bs, none, some .tBatchSize⟩) d1,
      upd_ne (y := ⟨env.bs, none, some .tBatchSize⟩) d2, hsup _ rfl]
    simp
  · have e1 : upd env.bs .tBatchSize ⟨env.mt, none, none⟩ = ⟨env.mt, none, none⟩ := upd_ne (fun h => d1 h.symm)
    have e2 : upd env.mt .tMeta ⟨env.mt, none, none⟩ = ⟨env.mt, none, some .tMeta⟩ := upd_eq rfl
    rw [e1, e2, upd_ne (y := ⟨env.mt, none, some .tMeta⟩) d3, hsup _ rfl]
    have d1' : ¬ env.mt = env.bs := fun h => d1 h.symm
    simp [d1']
  · have e1 : upd env.bs .tBatchSize ⟨env.rs, none, none⟩ = ⟨env.rs, none, none⟩ := upd_ne (fun h => d2 h.symm)
    have e2 : upd env.mt .tMeta ⟨env.rs, none, none⟩ = ⟨env.rs, none, none⟩ := upd_ne (fun h => d3 h.symm)
    have e3 : upd env.rs .tRandomState ⟨env.rs, none, none⟩ = ⟨env.rs, none, some .tRandomState⟩ := upd_eq rfl
    rw [e1, e2, e3, hsup _ rfl]
    have d2' : ¬ env.rs = env.bs := fun h => d2 h.symm
    have d3' : ¬ env.rs = env.mt := fun h => d3 h.symm
    simp [d2', d3']

/-! ### one-step unfolding of the evaluators -/

def optApply (op : COp) (l : List (Option (Param × Term))) : Option Term :=
  if l.all (·.isSome) then some (applyOp op (l.filterMap id)) else none

theorem evalNode_of_output {c : CNet} {f n : Nat} {y : CNode} {t : Term} (hf : c.find n = some y)
    (ho : y.output = some t) : evalNode c (f + 1) n = some t := by
  rw [evalNode_succ_eq]; unfold evalStep; simp only [hf, ho]

theorem evalNode_of_op {c : CNet} {f n : Nat} {y : CNode} {op : COp} (hf : c.find n = some y)
    (ho : y.output = none) (hop : y.op = some op) :
    evalNode c (f + 1) n = optApply op (insOf c.edges (evalNode c f) n) := by
  rw [evalNode_succ_eq]; unfold evalStep; simp only [hf, ho, hop]; rfl

theorem denote_supplied {env : Env} {s : Source} {supplied : List (Nat × Nat)} {f n : Nat} {p : Nat × Nat}
    (h : supplied.find? (fun p => p.1 == n) = some p) :
    denote env s supplied (f + 1) n = some (.const p.2) := by
  rw [denote]; simp only [h]

theorem denote_const {env : Env} {s : Source} {supplied : List (Nat × Nat)} {f n : Nat} {x : SNode}
    (h : supplied.find? (fun p => p.1 == n) = none) (hf : s.find n = some x) (hop : x.op = none) :
    denote env s supplied (f + 1) n = some (.const x.output) := by
  rw [denote]; simp only [h, hf, hop]

theorem denote_op {env : Env} {s : Source} {supplied : List (Nat × Nat)} {f n : Nat} {x : SNode} {fn : Nat}
    (h : supplied.find? (fun p => p.1 == n) = none) (hf : s.find n = some x) (hop : x.op = some fn) :
    denote env s supplied (f + 1) n = optApply (.user fn)
      ((s.inEdges n).map (fun e => (denote env s supplied f e.src).map (fun t => (e.param, t))) ++
        ((((if x.usesBatchSize then [some (Param.named env.kwBatchSize, Term.tBatchSize)] else []) ++
          (if x.usesMeta then [some (Param.named env.kwMeta, Term.tMeta)] else [])) ++
          (if x.stochastic then [some (Param.named env.kwRandomState, Term.tRandomState)] else [])) ++
          (if (!x.observable && x.usesObserved) then
            [(denoteObs env s supplied f n).map (fun t => (Param.named env.kwObserved, t))] else []))) := by
  rw [denote]; simp only [h, hf, hop]; rfl

theorem denoteObs_supplied {env : Env} {s : Source} {supplied : List (Nat × Nat)} {f n : Nat} {p : Nat × Nat}
    (h : supplied.find? (fun p => p.1 == env.twin n) = some p) :
    denoteObs env s supplied (f + 1) n = some (.const p.2) := by
  rw [denoteObs]; simp only [h]

theorem denoteObs_observed {env : Env} {s : Source} {supplied : List (Nat × Nat)} {f n : Nat} {p : Nat × Nat}
    (h : supplied.find? (fun p => p.1 == env.twin n) = none)
    (ho : s.observed.find? (fun p => p.1 == n) = some p) :
    denoteObs env s supplied (f + 1) n = some (.const p.2) := by
  rw [denoteObs]; simp only [h, ho]

theorem denoteObs_stochastic {env : Env} {s : Source} {supplied : List (Nat × Nat)} {f n : Nat} {x : SNode} {o : COp}
    (h : supplied.find? (fun p => p.1 == env.twin n) = none)
    (ho : s.observed.find? (fun p => p.1 == n) = none) (hf : s.find n = some x)
    (hop : (if x.observable then x.op.map COp.user else some .argsToTuple) = some o)
    (hst : x.stochastic = true) :
    denoteObs env s supplied (f + 1) n = some (applyOp o []) := by
  rw [denoteObs]; simp only [h, ho, hf, hop, hst, if_true]

theorem denoteObs_op {env : Env} {s : Source} {supplied : List (Nat × Nat)} {f n : Nat} {x : SNode} {o : COp}
    (h : supplied.find? (fun p => p.1 == env.twin n) = none)
    (ho : s.observed.find? (fun p => p.1 == n) = none) (hf : s.find n = some x)
    (hop : (if x.observable then x.op.map COp.user else some .argsToTuple) = some o)
    (hst : x.stochastic = false) :
    denoteObs env s supplied (f + 1) n = optApply o
      ((s.inEdges n).map (fun e =>
        (if s.isObservable e.src then denoteObs env s supplied f e.src
         else denote env s supplied f e.src).map (fun t => (e.param, t)))) := by
  rw [denoteObs]; simp only [h, ho, hf, hop, hst]; rfl

theorem optApply_perm (op : COp) (l1 l2 : List (Option (Param × Term))) (hp : l1.Perm l2)
    (hall : ∀ a ∈ l2, a.isSome = true)
    (hk : ∀ a b, some a ∈ l2 → some b ∈ l2 → a.1 = b.1 → a = b) :
    optApply op l1 = optApply op l2 ∧ (optApply op l2).isSome = true := by
  have h2 : l2.all (·.isSome) = true := List.all_eq_true.2 hall
  have h1 : l1.all (·.isSome) = true := List.all_eq_true.2 (fun a ha => hall a (hp.mem_iff.1 ha))
  unfold optApply
  rw [h1, h2]
  simp only [if_true, Option.isSome_some, and_true, Option.some.injEq]
  apply applyOp_perm op _ _ (hp.filterMap id)
  intro a ha b hb hab
  have ha' : some a ∈ l2 := hp.mem_iff.1 (by simpa using ha)
  have hb' : some b ∈ l2 := hp.mem_iff.1 (by simpa using hb)
  exact hk a b ha' hb' hab

theorem optApply_isSome (op : COp) (l : List (Option (Param × Term)))
    (hall : ∀ a ∈ l, a.isSome = true) : (optApply op l).isSome = true := by
  unfold optApply
  rw [List.all_eq_true.2 hall]; rfl

/-! ### the main induction -/

/-- the loaded compiled net -/
def LN (env : Env) (s : Source) (supplied : List (Nat × Nat)) (outputs : List Nat) : CNet :=
  load env s supplied [] (cnet env s outputs)

section
variable {env : Env} {s : Source} {supplied : List (Nat × Nat)}

theorem LN_find_user (H : LoadHyp env s supplied) (outputs : List Nat) {x : SNode} (hx : x ∈ s.nodes)
    (hk : keepF env s outputs x.name = true) :
    (LN env s supplied outputs).find x.name = some (loadNode env s supplied (compiledOf x)) := by
  unfold LN; rw [load_find, cnet_find _ _ _ hk, compileAll_find_user H.wf hx]; rfl

theorem LN_find_twin (H : LoadHyp env s supplied) (outputs : List Nat) {x : SNode} (hx : x ∈ s.nodes)
    (ht : hasTwin x = true) (hk : keepF env s outputs (env.twin x.name) = true) :
    (LN env s supplied outputs).find (env.twin x.name) = some (loadNode env s supplied (twinNode env x)) := by
  unfold LN; rw [load_find, cnet_find _ _ _ hk, compileAll_find_twin H.wf hx ht]; rfl

theorem LN_eval_instr (H : LoadHyp env s supplied) (outputs : List Nat) {n : Nat}
    (hn : n = env.bs ∨ n = env.mt ∨ n = env.rs) (hm : n ∈ (compileAll env s).1.map (·.name))
    (hk : keepF env s outputs n = true) (f : Nat) :
    evalNode (LN env s supplied outputs) (f + 1) n =
      some (if n = env.bs then .tBatchSize else if n = env.mt then .tMeta else .tRandomState) := by
  have hf : (LN env s supplied outputs).find n = some (loadNode env s supplied ⟨n, none, none⟩) := by
    unfold LN; rw [load_find, cnet_find _ _ _ hk, compileAll_find_instr H.wf hn hm]; rfl
  rw [loadNode_instr H hn] at hf
  exact evalNode_of_output hf rfl

theorem LN_insOf (H : LoadHyp env s supplied) (outputs : List Nat) (ev : Nat → Option Term) {m : Nat}
    (hk : keepF env s outputs m = true) :
    insOf (LN env s supplied outputs).edges ev m = insOf (compileAll env s).2 ev m :=
  cnet_insOf H.wf outputs ev hk

theorem twinNode_op (hwf : SourceWF env s) {x : SNode} (hx : x ∈ s.nodes) :
    ∃ o, twinNode env x = ⟨env.twin x.name, some o, none⟩ ∧
      (if x.observable then x.op.map COp.user else some .argsToTuple) = some o := by
  by_cases ho : x.observable = true
  · cases hop : x.op with
    | none => have := (hwf.const_plain x hx hop).1; rw [ho] at this; cases this
    | some f => exact ⟨.user f, by simp [twinNode, compiledOf, ho, hop], by simp [ho]⟩
  · exact ⟨.argsToTuple, by simp [twinNode, ho], by simp [ho]⟩

theorem map_ite_single {α β : Type _} (c : Bool) (a : α) (g : α → β) :
    (if c then [a] else []).map g = if c then [g a] else [] := by cases c <;> rfl

theorem optApply_reorder (op : COp) (I O B M R : List (Option (Param × Term)))
    (hall : ∀ a ∈ I ++ (((B ++ M) ++ R) ++ O), a.isSome = true)
    (hk : ∀ a b, some a ∈ I ++ (((B ++ M) ++ R) ++ O) → some b ∈ I ++ (((B ++ M) ++ R) ++ O) →
      a.1 = b.1 → a = b) :
    optApply op ((((I ++ O) ++ B) ++ M) ++ R) = optApply op (I ++ (((B ++ M) ++ R) ++ O)) ∧
      (optApply op (I ++ (((B ++ M) ++ R) ++ O))).isSome = true := by
  apply optApply_perm _ _ _ _ hall hk
  have : (((I ++ O) ++ B) ++ M) ++ R = I ++ (O ++ ((B ++ M) ++ R)) := by simp only [List.append_assoc]
  rw [this]
  exact List.Perm.append_left _ List.perm_append_comm

theorem meaning_aux (H : LoadHyp env s supplied) (outputs : List Nat) (r : Nat → Nat)
    (hr : ∀ e ∈ s.edges, r e.src < r e.dst) :
    ∀ k, ∀ x ∈ s.nodes, r x.name < k →
      (hasTwin x = true → keepF env s outputs (env.twin x.name) = true → ∀ fE fD,
        2 * r x.name + 2 ≤ fE → 2 * r x.name + 1 ≤ fD →
        evalNode (LN env s supplied outputs) fE (env.twin x.name) = denoteObs env s supplied fD x.name ∧
          (denoteObs env s supplied fD x.name).isSome = true) ∧
      (keepF env s outputs x.name = true → ∀ fE fD,
        2 * r x.name + 3 ≤ fE → 2 * r x.name + 2 ≤ fD →
        evalNode (LN env s supplied outputs) fE x.name = denote env s supplied fD x.name ∧
          (denote env s supplied fD x.name).isSome = true) := by
  intro k
  induction k with
  | zero => intro x _ h; omega
  | succ k ih =>
    intro x hx hrk
    have hfind := Source.find_eq H.wf hx
    have hpar : ∀ e ∈ s.inEdges x.name, e ∈ s.edges ∧ e.dst = x.name ∧
        ∃ z ∈ s.nodes, z.name = e.src ∧ r z.name < r x.name := by
      intro e he
      have he' := (List.mem_filter.1 he).1
      have hd : e.dst = x.name := by simpa using (List.mem_filter.1 he).2
      obtain ⟨z, hz, hzn⟩ := (H.wf.edges_in e he').1
      refine ⟨he', hd, z, hz, hzn, ?_⟩
      have := hr e he'
      rw [hzn, ← hd]; exact this
    have hB : hasTwin x = true → keepF env s outputs (env.twin x.name) = true → ∀ fE fD,
        2 * r x.name + 2 ≤ fE → 2 * r x.name + 1 ≤ fD →
        evalNode (LN env s supplied outputs) fE (env.twin x.name) = denoteObs env s supplied fD x.name ∧
          (denoteObs env s supplied fD x.name).isSome = true := by
      intro ht hkeep fE fD hE hD
      obtain ⟨fE', rfl⟩ : ∃ f, fE = f + 1 := ⟨fE - 1, by omega⟩
      obtain ⟨fD', rfl⟩ : ∃ f, fD = f + 1 := ⟨fD - 1, by omega⟩
      have hLf := LN_find_twin H outputs hx ht hkeep
      rw [loadNode_twin H hx] at hLf
      cases hs : supplied.find? (fun q => q.1 == env.twin x.name) with
      | some p =>
        simp only [hs] at hLf
        rw [evalNode_of_output hLf rfl, denoteObs_supplied hs]; exact ⟨rfl, rfl⟩
      | none =>
        simp only [hs] at hLf
        cases ho : s.observed.find? (fun q => q.1 == x.name) with
        | some p =>
          simp only [ho] at hLf
          rw [evalNode_of_output hLf rfl, denoteObs_observed hs ho]; exact ⟨rfl, rfl⟩
        | none =>
          simp only [ho] at hLf
          obtain ⟨o, hto, hop⟩ := twinNode_op H.wf hx
          rw [hto] at hLf
          rw [evalNode_of_op hLf rfl rfl, LN_insOf H outputs _ hkeep]
          unfold insOf
          rw [compileAll_inEdges_twin H.wf hx]
          by_cases hst : x.stochastic = true
          · rw [denoteObs_stochastic hs ho hfind hop hst]
            simp [hst, optApply]
          · have hst' : x.stochastic = false := by simpa using hst
            rw [denoteObs_op hs ho hfind hop hst']
            simp only [ht, hst', Bool.not_false, Bool.and_self, if_true, List.map_map]
            have hedge : ∀ e ∈ s.inEdges x.name,
                evalNode (LN env s supplied outputs) fE' (if s.isObservable e.src then env.twin e.src else e.src) =
                  (if s.isObservable e.src then denoteObs env s supplied fD' e.src
                    else denote env s supplied fD' e.src) ∧
                (if s.isObservable e.src then denoteObs env s supplied fD' e.src
                    else denote env s supplied fD' e.src).isSome = true := by
              intro e he
              obtain ⟨he', hd, z, hz, hzn, hrz⟩ := hpar e he
              have hmem : (⟨if s.isObservable e.src then env.twin e.src else e.src, env.twin x.name, e.param⟩ : Edge) ∈
                  (compileAll env s).2 :=
                (mem_compileAll_edges env s _).2 (Or.inr (Or.inr (Or.inl
                  ⟨x, hx, by simp [ht, hst'], e, he, rfl⟩)))
              have hks := keepF_closed H.wf outputs hmem hkeep
              have hih := ih z hz (by omega)
              rw [← hzn] at hks ⊢
              rw [Source.isObservable_eq H.wf hz] at hks ⊢
              by_cases hzo : z.observable = true
              · simp only [hzo, if_true] at hks ⊢
                exact hih.1 (by simp [hasTwin, hzo]) hks fE' fD' (by omega) (by omega)
              · simp only [hzo] at hks ⊢
                exact hih.2 hks fE' fD' (by omega) (by omega)
            have hcongr : (s.inEdges x.name).map
                ((fun e : Edge => Option.map (fun t => (e.param, t)) (evalNode (LN env s supplied outputs) fE' e.src)) ∘
                  (fun e : Edge => (⟨if s.isObservable e.src then env.twin e.src else e.src, env.twin x.name, e.param⟩ : Edge))) =
                (s.inEdges x.name).map (fun e =>
                  (if s.isObservable e.src then denoteObs env s supplied fD' e.src
                    else denote env s supplied fD' e.src).map (fun t => (e.param, t))) := by
              apply List.map_congr_left
              intro e he
              simp only [Function.comp]
              rw [(hedge e he).1]
            rw [hcongr]
            refine ⟨rfl, optApply_isSome _ _ ?_⟩
            intro a ha
            obtain ⟨e, he, rfl⟩ := List.mem_map.1 ha
            have := (hedge e he).2
            rw [Option.isSome_map]; exact this
    refine ⟨hB, ?_⟩
    intro hkeep fE fD hE hD
    obtain ⟨fE', rfl⟩ : ∃ f, fE = f + 1 := ⟨fE - 1, by omega⟩
    obtain ⟨fD', rfl⟩ : ∃ f, fD = f + 1 := ⟨fD - 1, by omega⟩
    have hLf := LN_find_user H outputs hx hkeep
    rw [loadNode_user H hx] at hLf
    cases hs : supplied.find? (fun q => q.1 == x.name) with
    | some p =>
      simp only [hs] at hLf
      rw [evalNode_of_output hLf rfl, denote_supplied hs]; exact ⟨rfl, rfl⟩
    | none =>
      simp only [hs] at hLf
      cases hop : x.op with
      | none =>
        have hco : compiledOf x = ⟨x.name, none, some (.const x.output)⟩ := by simp [compiledOf, hop]
        rw [hco] at hLf
        rw [evalNode_of_output hLf rfl, denote_const hs hfind hop]; exact ⟨rfl, rfl⟩
      | some fn =>
        have hco : compiledOf x = ⟨x.name, some (.user fn), none⟩ := by simp [compiledOf, hop]
        rw [hco] at hLf
        rw [evalNode_of_op hLf rfl rfl, LN_insOf H outputs _ hkeep, denote_op hs hfind hop]
        unfold insOf
        rw [compileAll_inEdges_user H.wf hx]
        simp only [List.map_append]
        -- ordinary parents
        have hedge : ∀ e ∈ s.inEdges x.name,
            evalNode (LN env s supplied outputs) fE' e.src = denote env s supplied fD' e.src ∧
              (denote env s supplied fD' e.src).isSome = true := by
          intro e he
          obtain ⟨he', hd, z, hz, hzn, hrz⟩ := hpar e he
          have hmem : e ∈ (compileAll env s).2 := (mem_compileAll_edges env s _).2 (Or.inl he')
          have hks := keepF_closed H.wf outputs hmem (by rw [hd]; exact hkeep)
          rw [← hzn] at hks ⊢
          exact (ih z hz (by omega)).2 hks fE' fD' (by omega) (by omega)
        have hI : (s.inEdges x.name).map
            (fun e : Edge => Option.map (fun t => (e.param, t)) (evalNode (LN env s supplied outputs) fE' e.src)) =
            (s.inEdges x.name).map (fun e => (denote env s supplied fD' e.src).map (fun t => (e.param, t))) := by
          apply List.map_congr_left
          intro e he
          rw [(hedge e he).1]
        -- the observed twin
        have hobsv : (!x.observable && x.usesObserved) = true →
            evalNode (LN env s supplied outputs) fE' (env.twin x.name) = denoteObs env s supplied fD' x.name ∧
              (denoteObs env s supplied fD' x.name).isSome = true := by
          intro hc
          have hmem : (⟨env.twin x.name, x.name, .named env.kwObserved⟩ : Edge) ∈ (compileAll env s).2 :=
            (mem_compileAll_edges env s _).2 (Or.inr (Or.inl ⟨x, hx, hc, rfl⟩))
          have hks := keepF_closed H.wf outputs hmem hkeep
          simp only [Bool.and_eq_true] at hc
          exact hB (by simp [hasTwin, hc.2]) hks fE' fD' (by omega) (by omega)
        have hO : (if (!x.observable && x.usesObserved) then
              [(⟨env.twin x.name, x.name, .named env.kwObserved⟩ : Edge)] else []).map
            (fun e : Edge => Option.map (fun t => (e.param, t)) (evalNode (LN env s supplied outputs) fE' e.src)) =
            (if (!x.observable && x.usesObserved) then
              [(denoteObs env s supplied fD' x.name).map (fun t => (Param.named env.kwObserved, t))] else []) := by
          rw [map_ite_single]
          by_cases hc : (!x.observable && x.usesObserved) = true
          · simp only [hc, if_true]
            rw [(hobsv hc).1]
          · simp only [hc]; rfl
        obtain ⟨fE'', rfl⟩ : ∃ f, fE' = f + 1 := ⟨fE' - 1, by omega⟩
        have hBs : (if x.usesBatchSize then [(⟨env.bs, x.name, .named env.kwBatchSize⟩ : Edge)] else []).map
            (fun e : Edge => Option.map (fun t => (e.param, t)) (evalNode (LN env s supplied outputs) (fE'' + 1) e.src)) =
            (if x.usesBatchSize then [some (Param.named env.kwBatchSize, Term.tBatchSize)] else []) := by
          rw [map_ite_single]
          by_cases hc : x.usesBatchSize = true
          · simp only [hc, if_true]
            have hmem : (⟨env.bs, x.name, .named env.kwBatchSize⟩ : Edge) ∈ (compileAll env s).2 :=
              (mem_compileAll_edges env s _).2 (Or.inr (Or.inr (Or.inr (Or.inl ⟨x, hx, hc, rfl⟩))))
            have hks := keepF_closed H.wf outputs hmem hkeep
            rw [LN_eval_instr H outputs (Or.inl rfl) (mem_compileAll_names_bs env s hx hc) hks]
            simp
          · simp only [hc]; rfl
        have hMt : (if x.usesMeta then [(⟨env.mt, x.name, .named env.kwMeta⟩ : Edge)] else []).map
            (fun e : Edge => Option.map (fun t => (e.param, t)) (evalNode (LN env s supplied outputs) (fE'' + 1) e.src)) =
            (if x.usesMeta then [some (Param.named env.kwMeta, Term.tMeta)] else []) := by
          rw [map_ite_single]
          by_cases hc : x.usesMeta = true
          · simp only [hc, if_true]
            have hmem : (⟨env.mt, x.name, .named env.kwMeta⟩ : Edge) ∈ (compileAll env s).2 :=
              (mem_compileAll_edges env s _).2 (Or.inr (Or.inr (Or.inr (Or.inr (Or.inl ⟨x, hx, hc, rfl⟩)))))
            have hks := keepF_closed H.wf outputs hmem hkeep
            rw [LN_eval_instr H outputs (Or.inr (Or.inl rfl)) (mem_compileAll_names_mt env s hx hc) hks]
            have d1 : ¬ env.mt = env.bs := fun h => H.wf.instr_distinct.1 h.symm
            simp [d1]
          · simp only [hc]; rfl
        have hRs : (if x.stochastic then [(⟨env.rs, x.name, .named env.kwRandomState⟩ : Edge)] else []).map
            (fun e : Edge => Option.map (fun t => (e.param, t)) (evalNode (LN env s supplied outputs) (fE'' + 1) e.src)) =
            (if x.stochastic then [some (Param.named env.kwRandomState, Term.tRandomState)] else []) := by
          rw [map_ite_single]
          by_cases hc : x.stochastic = true
          · simp only [hc, if_true]
            have hmem : (⟨env.rs, x.name, .named env.kwRandomState⟩ : Edge) ∈ (compileAll env s).2 :=
              (mem_compileAll_edges env s _).2 (Or.inr (Or.inr (Or.inr (Or.inr (Or.inr ⟨x, hx, hc, rfl⟩)))))
            have hks := keepF_closed H.wf outputs hmem hkeep
            rw [LN_eval_instr H outputs (Or.inr (Or.inr rfl)) (mem_compileAll_names_rs env s hx hc) hks]
            have d2 : ¬ env.rs = env.bs := fun h => H.wf.instr_distinct.2.1 h.symm
            have d3 : ¬ env.rs = env.mt := fun h => H.wf.instr_distinct.2.2 h.symm
            simp [d2, d3]
          · simp only [hc]; rfl
        rw [hI, hO, hBs, hMt, hRs]
        -- classification of the inputs on the denotation side
        have hcls : ∀ a : Option (Param × Term), a ∈
            (s.inEdges x.name).map (fun e => (denote env s supplied fD' e.src).map (fun t => (e.param, t))) ++
            ((((if x.usesBatchSize then [some (Param.named env.kwBatchSize, Term.tBatchSize)] else []) ++
              (if x.usesMeta then [some (Param.named env.kwMeta, Term.tMeta)] else [])) ++
              (if x.stochastic then [some (Param.named env.kwRandomState, Term.tRandomState)] else [])) ++
              (if (!x.observable && x.usesObserved) then
                [(denoteObs env s supplied fD' x.name).map (fun t => (Param.named env.kwObserved, t))] else [])) →
            (∃ e ∈ s.inEdges x.name, ∃ t, denote env s supplied fD' e.src = some t ∧ a = some (e.param, t)) ∨
            a = some (Param.named env.kwBatchSize, Term.tBatchSize) ∨
            a = some (Param.named env.kwMeta, Term.tMeta) ∨
            a = some (Param.named env.kwRandomState, Term.tRandomState) ∨
            (∃ t, denoteObs env s supplied fD' x.name = some t ∧ a = some (Param.named env.kwObserved, t)) := by
          intro a ha
          simp only [List.mem_append, List.mem_map] at ha
          rcases ha with ⟨e, he, rfl⟩ | ((hb | hm) | hrs) | hob
          · obtain ⟨t, ht⟩ := Option.isSome_iff_exists.1 (hedge e he).2
            exact Or.inl ⟨e, he, t, ht, by rw [ht]; rfl⟩
          · split at hb
            · exact Or.inr (Or.inl (by simpa using hb))
            · simp at hb
          · split at hm
            · exact Or.inr (Or.inr (Or.inl (by simpa using hm)))
            · simp at hm
          · split at hrs
            · exact Or.inr (Or.inr (Or.inr (Or.inl (by simpa using hrs))))
            · simp at hrs
          · split at hob
            · rename_i hc
              obtain ⟨t, ht⟩ := Option.isSome_iff_exists.1 (hobsv hc).2
              refine Or.inr (Or.inr (Or.inr (Or.inr ⟨t, ht, ?_⟩)))
              rw [ht] at hob; simpa using hob
            · simp at hob
        have hres := H.wf.kw_reserved
        obtain ⟨k1, k2, k3, k4, k5, k6⟩ := H.wf.kw_distinct
        apply optApply_reorder
        · intro a ha
          rcases hcls a ha with ⟨e, he, t, ht, rfl⟩ | rfl | rfl | rfl | ⟨t, ht, rfl⟩ <;> rfl
        · intro a b ha hb hab
          rcases hcls _ ha with ⟨e1, he1, t1, ht1, h1⟩ | h1 | h1 | h1 | ⟨t1, ht1, h1⟩ <;>
          rcases hcls _ hb with ⟨e2, he2, t2, ht2, h2⟩ | h2 | h2 | h2 | ⟨t2, ht2, h2⟩ <;>
          cases h1 <;> cases h2
          · obtain ⟨he1', hd1, -⟩ := hpar e1 he1
            obtain ⟨he2', hd2, -⟩ := hpar e2 he2
            have := H.wf.params_distinct e1 he1' e2 he2' (hd1.trans hd2.symm) hab
            subst this
            rw [ht1] at ht2; cases ht2; rfl
          all_goals first
            | rfl
            | exact absurd hab (hres _ (hpar _ he1).1).1
            | exact absurd hab (hres _ (hpar _ he1).1).2.1
            | exact absurd hab (hres _ (hpar _ he1).1).2.2.1
            | exact absurd hab (hres _ (hpar _ he1).1).2.2.2
            | exact absurd hab.symm (hres _ (hpar _ he2).1).1
            | exact absurd hab.symm (hres _ (hpar _ he2).1).2.1
            | exact absurd hab.symm (hres _ (hpar _ he2).1).2.2.1
            | exact absurd hab.symm (hres _ (hpar _ he2).1).2.2.2
            | (rw [ht1] at ht2; cases ht2; rfl)
            | (exfalso; simp only [Param.named.injEq] at hab; first
                | exact k1 hab | exact k2 hab | exact k3 hab | exact k4 hab | exact k5 hab | exact k6 hab
                | exact k1 hab.symm | exact k2 hab.symm | exact k3 hab.symm | exact k4 hab.symm
                | exact k5 hab.symm | exact k6 hab.symm)

end

/-! ### corrected versions of the statements that are false as written

`compiled_meaning_user'` / `compiled_meaning_twin'` fail when `supplied` lists the same key twice with
different values (the loader lets the LAST entry win, `denote` reads the FIRST) and when `s.observed`
mentions a name that is not a node (its `env.twin` is then unconstrained and may collide with a real
node).  `execute_eq_eval'` fails for a start net with a node that has BOTH an output and an operation
(`execNode` re-runs it, `evalNode` returns the stored output).  See `*_counterexample` below. -/

theorem compiled_meaning_user_corrected (env : Env) (s : Source) (hwf : SourceWF env s) (outputs : List Nat)
    (supplied : List (Nat × Nat)) (hsup : ∀ p ∈ supplied, IsUser s p.1 ∨ IsTwin env s p.1)
    (hsupnd : (supplied.map (·.1)).Nodup) (hobs : ∀ p ∈ s.observed, IsUser s p.1)
    (c : CNet) (hc : compile env s outputs = .ok c) (o : Nat) (ho : o ∈ outputs) (hu : IsUser s o)
    (fuelE fuelD : Nat) (hE : 2 * s.nodes.length + 3 ≤ fuelE) (hD : 2 * s.nodes.length + 2 ≤ fuelD) :
    evalNode (load env s supplied [] c) fuelE o = denote env s supplied fuelD o ∧
      (denote env s supplied fuelD o).isSome = true := by
  have H : LoadHyp env s supplied := ⟨hwf, hsup, hsupnd, hobs⟩
  obtain ⟨r, hr, hb⟩ := hwf.acyclic
  obtain ⟨x, hx, rfl⟩ := hu
  have hbx := hb x hx
  have := (meaning_aux H outputs r hr (r x.name + 1) x hx (by omega)).2 (keepF_output env s ho)
    fuelE fuelD (by omega) (by omega)
  rw [compile_ok hc]
  exact this

theorem compiled_meaning_twin_corrected (env : Env) (s : Source) (hwf : SourceWF env s) (outputs : List Nat)
    (supplied : List (Nat × Nat)) (hsup : ∀ p ∈ supplied, IsUser s p.1 ∨ IsTwin env s p.1)
    (hsupnd : (supplied.map (·.1)).Nodup) (hobs : ∀ p ∈ s.observed, IsUser s p.1)
    (c : CNet) (hc : compile env s outputs = .ok c) (x : SNode) (hx : x ∈ s.nodes) (ht : hasTwin x = true)
    (ho : env.twin x.name ∈ outputs)
    (fuelE fuelD : Nat) (hE : 2 * s.nodes.length + 3 ≤ fuelE) (hD : 2 * s.nodes.length + 2 ≤ fuelD) :
    evalNode (load env s supplied [] c) fuelE (env.twin x.name) = denoteObs env s supplied fuelD x.name ∧
      (denoteObs env s supplied fuelD x.name).isSome = true := by
  have H : LoadHyp env s supplied := ⟨hwf, hsup, hsupnd, hobs⟩
  obtain ⟨r, hr, hb⟩ := hwf.acyclic
  have hbx := hb x hx
  have := (meaning_aux H outputs r hr (r x.name + 1) x hx (by omega)).1 ht (keepF_output env s ho)
    fuelE fuelD (by omega) (by omega)
  rw [compile_ok hc]
  exact this

/-! ### formal counterexamples to the three statements that are false as written -/

/-- a node with both an output and an operation: `execute` re-runs it, `evalNode` returns the output -/
theorem execute_eq_eval'_counterexample :
    ¬ (∀ (l : CNet) (_ : (l.nodes.map (·.name)).Nodup) (order : List Nat)
        (res : List (Nat × Term)) (_ : execute l order = some res) (fuel : Nat) (_ : l.nodes.length < fuel)
        (_ : ∃ r : Nat → Nat, ∀ e ∈ l.edges, r e.src < r e.dst),
        ∀ p ∈ res, evalNode l fuel p.1 = some p.2) := by
  intro h
  have := h ⟨[⟨0, some (.user 5), some (.const 1)⟩], [], [0]⟩ (by simp) [0] [(0, .app 5 [] [])] rfl 2
    (by simp) ⟨id, by simp⟩ (0, .app 5 [] []) (by simp)
  have h2 : evalNode ⟨[⟨0, some (.user 5), some (.const 1)⟩], [], [0]⟩ 2 0 = some (.const 1) := rfl
  rw [h2] at this
  cases this

def cexEnv : Env where
  twin := fun n => n + 100
  bs := 50
  mt := 51
  rs := 52
  kwBatchSize := 0
  kwMeta := 1
  kwRandomState := 2
  kwObserved := 3

/-- a single constant node -/
def cexSrc (obs : List (Nat × Nat)) : Source :=
  { nodes := [{ name := 0, op := none, output := 7 }], edges := [], observed := obs }

theorem cexSrc_wf (env : Env) (obs : List (Nat × Nat)) (hobs : (obs.map (·.1)).Nodup)
    (ht : env.twin 0 ≠ 0) (hbs : env.bs = 50) (hmt : env.mt = 51) (hrs : env.rs = 52)
    (ht2 : env.twin 0 = 100)
    (hk : env.kwBatchSize = 0 ∧ env.kwMeta = 1 ∧ env.kwRandomState = 2 ∧ env.kwObserved = 3) :
    SourceWF env (cexSrc obs) where
  names_nodup := by simp [cexSrc]
  twin_inj := by simp [cexSrc]
  twin_fresh := by simp [cexSrc, IsUser]; exact fun h => ht h.symm
  instr_distinct := by simp [hbs, hmt, hrs]
  instr_fresh := by
    intro n hn
    rcases hn with rfl | rfl | rfl <;> simp [cexSrc, IsUser, hbs, hmt, hrs, ht2]
  edges_in := by simp [cexSrc]
  edge_unique := by simp [cexSrc]
  acyclic := ⟨fun _ => 0, by simp [cexSrc], by simp [cexSrc]⟩
  params_distinct := by simp [cexSrc]
  kw_reserved := by simp [cexSrc]
  kw_distinct := by obtain ⟨h1, h2, h3, h4⟩ := hk; simp [h1, h2, h3, h4]
  observed_nodup := hobs
  const_plain := by simp [cexSrc, Source.inEdges]

/-- `supplied` with the same key twice: the loader keeps the LAST value, `denote` reads the FIRST -/
theorem compiled_meaning_user'_counterexample_dup :
    ¬ (∀ (env : Env) (s : Source) (_ : SourceWF env s) (outputs : List Nat)
        (supplied : List (Nat × Nat)) (_ : ∀ p ∈ supplied, IsUser s p.1 ∨ IsTwin env s p.1)
        (c : CNet) (_ : compile env s outputs = .ok c) (o : Nat) (_ : o ∈ outputs) (_ : IsUser s o)
        (fuelE fuelD : Nat) (_ : 2 * s.nodes.length + 3 ≤ fuelE) (_ : 2 * s.nodes.length + 2 ≤ fuelD),
        evalNode (load env s supplied [] c) fuelE o = denote env s supplied fuelD o ∧
          (denote env s supplied fuelD o).isSome = true) := by
  intro h
  have hwf : SourceWF cexEnv (cexSrc []) :=
    cexSrc_wf cexEnv [] (by simp) (by simp [cexEnv]) rfl rfl rfl rfl ⟨rfl, rfl, rfl, rfl⟩
  have hu : IsUser (cexSrc []) 0 := ⟨_, List.mem_singleton.2 rfl, rfl⟩
  have := (h cexEnv (cexSrc []) hwf [0] [(0, 1), (0, 2)]
    (by intro p hp; simp at hp; rcases hp with rfl | rfl <;> exact Or.inl hu)
    ⟨[⟨0, none, some (.const 7)⟩], [], [0]⟩ rfl 0 (by simp) hu 5 4 (by simp [cexSrc]) (by simp [cexSrc])).1
  have h1 : evalNode (load cexEnv (cexSrc []) [(0, 1), (0, 2)] []
      ⟨[⟨0, none, some (.const 7)⟩], [], [0]⟩) 5 0 = some (.const 2) := rfl
  have h2 : denote cexEnv (cexSrc []) [(0, 1), (0, 2)] 4 0 = some (.const 1) := rfl
  rw [h1, h2] at this
  cases this

def cexEnv2 : Env := { cexEnv with twin := (fun n => if n = 999 then 0 else n + 100) }

/-- `s.observed` mentions a name that is not a node and whose twin name collides with a user node -/
theorem compiled_meaning_user'_counterexample_obs :
    ¬ (∀ (env : Env) (s : Source) (_ : SourceWF env s) (outputs : List Nat)
        (supplied : List (Nat × Nat)) (_ : ∀ p ∈ supplied, IsUser s p.1 ∨ IsTwin env s p.1)
        (c : CNet) (_ : compile env s outputs = .ok c) (o : Nat) (_ : o ∈ outputs) (_ : IsUser s o)
        (fuelE fuelD : Nat) (_ : 2 * s.nodes.length + 3 ≤ fuelE) (_ : 2 * s.nodes.length + 2 ≤ fuelD),
        evalNode (load env s supplied [] c) fuelE o = denote env s supplied fuelD o ∧
          (denote env s supplied fuelD o).isSome = true) := by
  intro h
  have hwf : SourceWF cexEnv2 (cexSrc [(999, 5)]) :=
    cexSrc_wf cexEnv2 [(999, 5)] (by simp) (by simp [cexEnv2]) rfl rfl rfl rfl ⟨rfl, rfl, rfl, rfl⟩
  have hu : IsUser (cexSrc [(999, 5)]) 0 := ⟨_, List.mem_singleton.2 rfl, rfl⟩
  have := (h cexEnv2 (cexSrc [(999, 5)]) hwf [0] [] (by simp)
    ⟨[⟨0, none, some (.const 7)⟩], [], [0]⟩ rfl 0 (by simp) hu 5 4 (by simp [cexSrc]) (by simp [cexSrc])).1
  have h1 : evalNode (load cexEnv2 (cexSrc [(999, 5)]) [] []
      ⟨[⟨0, none, some (.const 7)⟩], [], [0]⟩) 5 0 = some (.const 5) := rfl
  have h2 : denote cexEnv2 (cexSrc [(999, 5)]) [] 4 0 = some (.const 7) := rfl
  rw [h1, h2] at this
  cases this

/-- a single observable node with an operation -/
def cexSrc3 : Source :=
  { nodes := [{ name := 0, op := some 1, output := 0, observable := true }], edges := [], observed := [] }

theorem cexSrc3_wf : SourceWF cexEnv cexSrc3 where
  names_nodup := by simp [cexSrc3]
  twin_inj := by simp [cexSrc3]
  twin_fresh := by simp [cexSrc3, IsUser, cexEnv]
  instr_distinct := by simp [cexEnv]
  instr_fresh := by
    intro n hn
    rcases hn with rfl | rfl | rfl <;> simp [cexSrc3, IsUser, cexEnv]
  edges_in := by simp [cexSrc3]
  edge_unique := by simp [cexSrc3]
  acyclic := ⟨fun _ => 0, by simp [cexSrc3], by simp [cexSrc3]⟩
  params_distinct := by simp [cexSrc3]
  kw_reserved := by simp [cexSrc3]
  kw_distinct := by simp [cexEnv]
  observed_nodup := by simp [cexSrc3]
  const_plain := by simp [cexSrc3]

/-- the same duplicate-key defect at a twin -/
theorem compiled_meaning_twin'_counterexample_dup :
    ¬ (∀ (env : Env) (s : Source) (_ : SourceWF env s) (outputs : List Nat)
        (supplied : List (Nat × Nat)) (_ : ∀ p ∈ supplied, IsUser s p.1 ∨ IsTwin env s p.1)
        (c : CNet) (_ : compile env s outputs = .ok c) (x : SNode) (_ : x ∈ s.nodes) (_ : hasTwin x = true)
        (_ : env.twin x.name ∈ outputs)
        (fuelE fuelD : Nat) (_ : 2 * s.nodes.length + 3 ≤ fuelE) (_ : 2 * s.nodes.length + 2 ≤ fuelD),
        evalNode (load env s supplied [] c) fuelE (env.twin x.name) = denoteObs env s supplied fuelD x.name ∧
          (denoteObs env s supplied fuelD x.name).isSome = true) := by
  intro h
  have hx : ({ name := 0, op := some 1, output := 0, observable := true } : SNode) ∈ cexSrc3.nodes :=
    List.mem_singleton.2 rfl
  have htw : IsTwin cexEnv cexSrc3 100 := ⟨_, hx, rfl, rfl⟩
  have := (h cexEnv cexSrc3 cexSrc3_wf [100] [(100, 1), (100, 2)]
    (by intro p hp; simp at hp; rcases hp with rfl | rfl <;> exact Or.inr htw)
    ⟨[⟨100, some (.user 1), none⟩], [], [100]⟩ rfl _ hx rfl (by simp [cexEnv]) 5 4
    (by simp [cexSrc3]) (by simp [cexSrc3])).1
  have h1 : evalNode (load cexEnv cexSrc3 [(100, 1), (100, 2)] []
      ⟨[⟨100, some (.user 1), none⟩], [], [100]⟩) 5 100 = some (.const 2) := rfl
  have h2 : denoteObs cexEnv cexSrc3 [(100, 1), (100, 2)] 4 0 = some (.const 1) := rfl
  have e : cexEnv.twin 0 = 100 := rfl
  simp only [e] at this
  rw [h1, h2] at this
  cases this

/-! ### the three statements that hold as written -/

theorem needed_spec' (l : CNet) (hn : (l.nodes.map (·.name)).Nodup) :
    (needed l).Nodup ∧
    ∀ n ∈ needed l, (∃ x ∈ l.nodes, x.name = n ∧ x.op.isSome = true) ∧
      ∃ o ∈ l.outputs, reaches (l.edges.filter (fun e => ((l.find e.src).map (·.output.isNone)).getD false))
        l.nodes.length n o = true := by
  constructor
  · unfold needed
    exact (hn.sublist ((List.filter_sublist).map _))
  · intro n hmem
    unfold needed at hmem
    simp only [List.mem_map, List.mem_filter, Bool.and_eq_true, List.any_eq_true] at hmem
    obtain ⟨x, ⟨hx, hop, o, ⟨ho, _⟩, hr⟩, rfl⟩ := hmem
    exact ⟨⟨x, hx, rfl, hop⟩, o, ho, hr⟩

theorem stochastic_observed_rejected' (env : Env) (s : Source) (outputs : List Nat) :
    (observedDependsOnStochastic env s = true → compile env s outputs = .error .valueError) ∧
    (observedDependsOnStochastic env s = false → ∃ c, compile env s outputs = .ok c) := by
  constructor
  · intro h; unfold compile; simp [h]
  · intro h; unfold compile; simp [h]

theorem instruction_edges_exact' (env : Env) (s : Source) (hwf : SourceWF env s) (x : SNode) (hx : x ∈ s.nodes) :
    let es := (compileAll env s).2
    ((⟨env.bs, x.name, .named env.kwBatchSize⟩ : Edge) ∈ es ↔ x.usesBatchSize = true) ∧
    ((⟨env.mt, x.name, .named env.kwMeta⟩ : Edge) ∈ es ↔ x.usesMeta = true) ∧
    ((⟨env.rs, x.name, .named env.kwRandomState⟩ : Edge) ∈ es ↔ x.stochastic = true) ∧
    (∀ e ∈ es, e.dst = env.twin x.name → e.src ≠ env.bs ∧ e.src ≠ env.mt ∧ e.src ≠ env.rs) := by
  have hI := hwf.instr_fresh
  have hbs := hI env.bs (Or.inl rfl)
  have hmt := hI env.mt (Or.inr (Or.inl rfl))
  have hrs := hI env.rs (Or.inr (Or.inr rfl))
  obtain ⟨d1, d2, d3⟩ := hwf.instr_distinct
  intro es
  refine ⟨⟨fun h => ?_, fun h => ?_⟩, ⟨fun h => ?_, fun h => ?_⟩, ⟨fun h => ?_, fun h => ?_⟩, ?_⟩
  · rcases (mem_compileAll_edges env s _).1 h with h | ⟨y, hy, hp, he⟩ | ⟨y, hy, hp, e', he', he⟩ |
      ⟨y, hy, hp, he⟩ | ⟨y, hy, hp, he⟩ | ⟨y, hy, hp, he⟩
    · exact absurd (hwf.edges_in _ h).1 hbs.1
    · simp only [Edge.mk.injEq] at he; exact absurd he.1.symm (hbs.2 y hy)
    · simp only [Edge.mk.injEq] at he; exact absurd ⟨x, hx, he.2.1⟩ (hwf.twin_fresh y hy)
    · simp only [Edge.mk.injEq] at he; rw [hwf.node_ext hx hy he.2.1]; exact hp
    · simp only [Edge.mk.injEq] at he; exact absurd he.1 d1
    · simp only [Edge.mk.injEq] at he; exact absurd he.1 d2
  · exact (mem_compileAll_edges env s _).2 (Or.inr (Or.inr (Or.inr (Or.inl ⟨x, hx, h, rfl⟩))))
  · rcases (mem_compileAll_edges env s _).1 h with h | ⟨y, hy, hp, he⟩ | ⟨y, hy, hp, e', he', he⟩ |
      ⟨y, hy, hp, he⟩ | ⟨y, hy, hp, he⟩ | ⟨y, hy, hp, he⟩
    · exact absurd (hwf.edges_in _ h).1 hmt.1
    · simp only [Edge.mk.injEq] at he; exact absurd he.1.symm (hmt.2 y hy)
    · simp only [Edge.mk.injEq] at he; exact absurd ⟨x, hx, he.2.1⟩ (hwf.twin_fresh y hy)
    · simp only [Edge.mk.injEq] at he; exact absurd he.1.symm d1
    · simp only [Edge.mk.injEq] at he; rw [hwf.node_ext hx hy he.2.1]; exact hp
    · simp only [Edge.mk.injEq] at he; exact absurd he.1 d3
  · exact (mem_compileAll_edges env s _).2 (Or.inr (Or.inr (Or.inr (Or.inr (Or.inl ⟨x, hx, h, rfl⟩)))))
  · rcases (mem_compileAll_edges env s _).1 h with h | ⟨y, hy, hp, he⟩ | ⟨y, hy, hp, e', he', he⟩ |
      ⟨y, hy, hp, he⟩ | ⟨y, hy, hp, he⟩ | ⟨y, hy, hp, he⟩
    · exact absurd (hwf.edges_in _ h).1 hrs.1
    · simp only [Edge.mk.injEq] at he; exact absurd he.1.symm (hrs.2 y hy)
    · simp only [Edge.mk.injEq] at he; exact absurd ⟨x, hx, he.2.1⟩ (hwf.twin_fresh y hy)
    · simp only [Edge.mk.injEq] at he; exact absurd he.1.symm d2
    · simp only [Edge.mk.injEq] at he; exact absurd he.1.symm d3
    · simp only [Edge.mk.injEq] at he; rw [hwf.node_ext hx hy he.2.1]; exact hp
  · exact (mem_compileAll_edges env s _).2 (Or.inr (Or.inr (Or.inr (Or.inr (Or.inr ⟨x, hx, h, rfl⟩)))))
  · intro e he hd
    have huser : ∀ n, IsUser s n → n ≠ env.bs ∧ n ≠ env.mt ∧ n ≠ env.rs := fun n hn =>
      ⟨fun h => hbs.1 (h ▸ hn), fun h => hmt.1 (h ▸ hn), fun h => hrs.1 (h ▸ hn)⟩
    have htwin : ∀ y ∈ s.nodes, env.twin y.name ≠ env.bs ∧ env.twin y.name ≠ env.mt ∧ env.twin y.name ≠ env.rs :=
      fun y hy => ⟨hbs.2 y hy, hmt.2 y hy, hrs.2 y hy⟩
    rcases (mem_compileAll_edges env s _).1 he with h | ⟨y, hy, hp, rfl⟩ | ⟨y, hy, hp, e', he', rfl⟩ |
      ⟨y, hy, hp, rfl⟩ | ⟨y, hy, hp, rfl⟩ | ⟨y, hy, hp, rfl⟩
    · exact huser _ (hwf.edges_in _ h).1
    · exact htwin y hy
    · have he'' : e' ∈ s.edges := (List.mem_filter.1 he').1
      obtain ⟨z, hz, hzn⟩ := (hwf.edges_in _ he'').1
      dsimp only
      split
      · rw [← hzn]; exact htwin z hz
      · exact huser _ ⟨z, hz, hzn⟩
    · exact absurd ⟨y, hy, hd⟩ (hwf.twin_fresh x hx)
    · exact absurd ⟨y, hy, hd⟩ (hwf.twin_fresh x hx)
    · exact absurd ⟨y, hy, hd⟩ (hwf.twin_fresh x hx)

end ElfiVerif.Compile
