import ElfiVerif.Model.Compile
import Mathlib.Data.List.Basic
import Mathlib.Data.List.Nodup
import Mathlib.Tactic.Linarith

/-! Specification vocabulary and proofs for C03 (statements are repeated in Props/C03.lean). -/
namespace ElfiVerif.Compile

def IsUser (s : Source) (n : Nat) : Prop := ∃ x ∈ s.nodes, x.name = n
def IsTwin (env : Env) (s : Source) (n : Nat) : Prop := ∃ x ∈ s.nodes, hasTwin x = true ∧ env.twin x.name = n

/-- well-formed source graph with its naming environment -/
structure SourceWF (env : Env) (s : Source) : Prop where
  names_nodup : (s.nodes.map (·.name)).Nodup
  twin_inj : ∀ x ∈ s.nodes, ∀ y ∈ s.nodes, env.twin x.name = env.twin y.name → x.name = y.name
  twin_fresh : ∀ x ∈ s.nodes, ¬ IsUser s (env.twin x.name)
  instr_distinct : env.bs ≠ env.mt ∧ env.bs ≠ env.rs ∧ env.mt ≠ env.rs
  instr_fresh : ∀ n, n = env.bs ∨ n = env.mt ∨ n = env.rs → ¬ IsUser s n ∧ ∀ x ∈ s.nodes, env.twin x.name ≠ n
  edges_in : ∀ e ∈ s.edges, IsUser s e.src ∧ IsUser s e.dst
  edge_unique : ∀ e₁ ∈ s.edges, ∀ e₂ ∈ s.edges, e₁.src = e₂.src → e₁.dst = e₂.dst → e₁ = e₂
  /-- a topological numbering below the number of nodes (exists for every finite DAG) -/
  acyclic : ∃ r : Nat → Nat, (∀ e ∈ s.edges, r e.src < r e.dst) ∧ ∀ x ∈ s.nodes, r x.name < s.nodes.length
  /-- per child: positions are distinct and keywords are distinct -/
  params_distinct : ∀ e₁ ∈ s.edges, ∀ e₂ ∈ s.edges, e₁.dst = e₂.dst → e₁.param = e₂.param → e₁ = e₂
  kw_reserved : ∀ e ∈ s.edges, e.param ≠ .named env.kwBatchSize ∧ e.param ≠ .named env.kwMeta ∧
    e.param ≠ .named env.kwRandomState ∧ e.param ≠ .named env.kwObserved
  kw_distinct : env.kwBatchSize ≠ env.kwMeta ∧ env.kwBatchSize ≠ env.kwRandomState ∧ env.kwBatchSize ≠ env.kwObserved ∧
    env.kwMeta ≠ env.kwRandomState ∧ env.kwMeta ≠ env.kwObserved ∧ env.kwRandomState ≠ env.kwObserved
  observed_nodup : (s.observed.map (·.1)).Nodup
  /-- constants (nodes with an output instead of an operation) have no parents and no flags -/
  const_plain : ∀ x ∈ s.nodes, x.op = none → x.observable = false ∧ x.usesObserved = false ∧ x.stochastic = false ∧
    x.usesBatchSize = false ∧ x.usesMeta = false ∧ s.inEdges x.name = []

theorem compiled_meaning_user' (env : Env) (s : Source) (hwf : SourceWF env s) (outputs : List Nat)
    (supplied : List (Nat × Nat)) (hsup : ∀ p ∈ supplied, IsUser s p.1 ∨ IsTwin env s p.1)
    (c : CNet) (hc : compile env s outputs = .ok c) (o : Nat) (ho : o ∈ outputs) (hu : IsUser s o)
    (fuelE fuelD : Nat) (hE : 2 * s.nodes.length + 3 ≤ fuelE) (hD : 2 * s.nodes.length + 2 ≤ fuelD) :
    evalNode (load env s supplied [] c) fuelE o = denote env s supplied fuelD o ∧
      (denote env s supplied fuelD o).isSome = true := by
  sorry

theorem compiled_meaning_twin' (env : Env) (s : Source) (hwf : SourceWF env s) (outputs : List Nat)
    (supplied : List (Nat × Nat)) (hsup : ∀ p ∈ supplied, IsUser s p.1 ∨ IsTwin env s p.1)
    (c : CNet) (hc : compile env s outputs = .ok c) (x : SNode) (hx : x ∈ s.nodes) (ht : hasTwin x = true)
    (ho : env.twin x.name ∈ outputs)
    (fuelE fuelD : Nat) (hE : 2 * s.nodes.length + 3 ≤ fuelE) (hD : 2 * s.nodes.length + 2 ≤ fuelD) :
    evalNode (load env s supplied [] c) fuelE (env.twin x.name) = denoteObs env s supplied fuelD x.name ∧
      (denoteObs env s supplied fuelD x.name).isSome = true := by
  sorry

theorem execute_eq_eval' (l : CNet) (hn : (l.nodes.map (·.name)).Nodup) (order : List Nat)
    (res : List (Nat × Term)) (h : execute l order = some res) (fuel : Nat) (hf : l.nodes.length < fuel)
    (hacy : ∃ r : Nat → Nat, ∀ e ∈ l.edges, r e.src < r e.dst) :
    ∀ p ∈ res, evalNode l fuel p.1 = some p.2 := by
  sorry

theorem needed_spec' (l : CNet) (hn : (l.nodes.map (·.name)).Nodup) :
    (needed l).Nodup ∧
    ∀ n ∈ needed l, (∃ x ∈ l.nodes, x.name = n ∧ x.op.isSome = true) ∧
      ∃ o ∈ l.outputs, reaches (l.edges.filter (fun e => ((l.find e.src).map (·.output.isNone)).getD false))
        l.nodes.length n o = true := by
  sorry

theorem stochastic_observed_rejected' (env : Env) (s : Source) (outputs : List Nat) :
    (observedDependsOnStochastic env s = true → compile env s outputs = .error .valueError) ∧
    (observedDependsOnStochastic env s = false → ∃ c, compile env s outputs = .ok c) := by
  sorry

theorem instruction_edges_exact' (env : Env) (s : Source) (hwf : SourceWF env s) (x : SNode) (hx : x ∈ s.nodes) :
    let es := (compileAll env s).2
    ((⟨env.bs, x.name, .named env.kwBatchSize⟩ : Edge) ∈ es ↔ x.usesBatchSize = true) ∧
    ((⟨env.mt, x.name, .named env.kwMeta⟩ : Edge) ∈ es ↔ x.usesMeta = true) ∧
    ((⟨env.rs, x.name, .named env.kwRandomState⟩ : Edge) ∈ es ↔ x.stochastic = true) ∧
    (∀ e ∈ es, e.dst = env.twin x.name → e.src ≠ env.bs ∧ e.src ≠ env.mt ∧ e.src ≠ env.rs) := by
  sorry

end ElfiVerif.Compile
