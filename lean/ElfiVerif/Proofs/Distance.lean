import ElfiVerif.Model.Distance
import Mathlib.Algebra.Field.Basic
import Mathlib.Algebra.CharZero.Defs
import Mathlib.Algebra.BigOperators.Group.List.Basic
import Mathlib.Order.Defs.LinearOrder
import Mathlib.Tactic.Ring
import Mathlib.Tactic.FieldSimp
import Mathlib.Tactic.Linarith

/-! Proofs for C12 (statements are repeated in Props/C12.lean). -/
namespace ElfiVerif.Distance

set_option linter.unusedSectionVars false

variable {K : Type} [Field K] [CharZero K]

/-! ### list-sum helper lemmas -/

private theorem sum_map_sub_const (l : List K) (c : K) :
    (l.map (fun x => x - c)).sum = l.sum - (l.length : K) * c := by
  induction l with
  | nil => simp
  | cons a l ih =>
    simp only [List.map_cons, List.sum_cons, List.length_cons, ih]; push_cast; ring

private theorem sum_zip_sub (l : List K) (a b : K) :
    (((l.map (fun x => x - a)).zip (l.map (fun x => x - b))).map (fun p => p.1 * p.2)).sum
      = (l.map (fun x => x * x)).sum - (a + b) * l.sum + (l.length : K) * (a * b) := by
  induction l with
  | nil => simp
  | cons x l ih =>
    simp only [List.map_cons, List.zip_cons_cons, List.sum_cons, List.length_cons, ih]
    push_cast; ring

private theorem sum_sq_dev (l : List K) (c : K) :
    (l.map (fun x => (x - c) ^ 2)).sum
      = (l.map (fun x => x * x)).sum - 2 * c * l.sum + (l.length : K) * c ^ 2 := by
  induction l with
  | nil => simp
  | cons x l ih =>
    simp only [List.map_cons, List.sum_cons, List.length_cons, ih]; push_cast; ring

/-- the store summarises the data list `ys` (moment form of the Welford invariant) -/
private def Inv (st : Store K) (ys : List K) : Prop :=
  st.cnt = (ys.length : K) ∧ st.cnt * st.mean = ys.sum ∧
    st.m2 = (ys.map (fun x => x * x)).sum - st.cnt * (st.mean * st.mean)

private theorem addData_inv (st : Store K) (ys b : List K) (h : Inv st ys) (hb : b ≠ []) :
    Inv (addDataOld st b) (ys ++ b) := by
  obtain ⟨c, m, q⟩ := st
  obtain ⟨h1, h2, h3⟩ := h
  simp only at h1 h2 h3
  subst h1 h3
  have hN : (ys.length : K) + (b.length : K) ≠ 0 := by
    have hpos := List.length_pos_iff.mpr hb
    have : ys.length + b.length ≠ 0 := by omega
    exact_mod_cast this
  simp only [Inv, addDataOld, sum_map_sub_const, sum_zip_sub, List.length_append, List.sum_append,
    List.map_append, Nat.cast_add]
  refine ⟨trivial, ?_, ?_⟩
  · rw [← h2]; field_simp; ring
  · have hS : b.sum = ((ys.length : K) + (b.length : K)) *
        (m + (b.sum - (b.length : K) * m) / ((ys.length : K) + (b.length : K)))
        - (ys.length : K) * m := by
      field_simp; ring
    generalize m + (b.sum - (b.length : K) * m) / ((ys.length : K) + (b.length : K)) = μ at hS ⊢
    rw [hS]; ring

private theorem foldl_inv (parts : List (List K)) (hne : ∀ p ∈ parts, p ≠ []) :
    ∀ (st : Store K) (ys : List K), Inv st ys → Inv (parts.foldl addDataOld st) (ys ++ parts.flatten) := by
  induction parts with
  | nil => intro st ys h; simpa using h
  | cons b parts ih =>
    intro st ys h
    have hb : b ≠ [] := hne b (by simp)
    have := ih (fun p hp => hne p (by simp [hp])) (addDataOld st b) (ys ++ b) (addData_inv st ys b h hb)
    simpa [List.foldl_cons, List.flatten_cons, List.append_assoc] using this

private theorem inv_final (st : Store K) (xs : List K) (h : Inv st xs) :
    st.cnt = (xs.length : K) ∧
    (xs ≠ [] → st.mean = xs.sum / (xs.length : K)) ∧
    st.m2 = (xs.map (fun x => (x - xs.sum / (xs.length : K)) ^ 2)).sum := by
  obtain ⟨h1, h2, h3⟩ := h
  refine ⟨h1, ?_, ?_⟩
  · intro hx
    have hN : (xs.length : K) ≠ 0 := by
      have := List.length_pos_iff.mpr hx
      exact_mod_cast (by omega : xs.length ≠ 0)
    rw [← h2, h1]; field_simp
  · by_cases hx : xs = []
    · subst hx; simp [h3, h1]
    · have hN : (xs.length : K) ≠ 0 := by
        have := List.length_pos_iff.mpr hx
        exact_mod_cast (by omega : xs.length ≠ 0)
      have hm : st.mean = xs.sum / (xs.length : K) := by rw [← h2, h1]; field_simp
      rw [h3, sum_sq_dev, ← hm, ← h2, h1]; ring

theorem welford_partition_invariant_old' (parts : List (List K)) (hne : ∀ p ∈ parts, p ≠ []) :
    let xs := parts.flatten
    let st := parts.foldl addDataOld Store.init
    st.cnt = (xs.length : K) ∧
    (xs ≠ [] → st.mean = xs.sum / (xs.length : K)) ∧
    st.m2 = (xs.map (fun x => (x - xs.sum / (xs.length : K)) ^ 2)).sum := by
  intro xs st
  have h := foldl_inv parts hne Store.init [] (by simp [Inv, Store.init])
  simp only [List.nil_append] at h
  exact inv_final _ _ h

theorem welford_same_for_all_partitions_old' (p₁ p₂ : List (List K)) (h₁ : ∀ p ∈ p₁, p ≠ [])
    (h₂ : ∀ p ∈ p₂, p ≠ []) (hflat : p₁.flatten = p₂.flatten) (hne : p₁.flatten ≠ []) :
    p₁.foldl addDataOld Store.init = p₂.foldl addDataOld Store.init := by
  obtain ⟨a1, a2, a3⟩ := welford_partition_invariant_old' p₁ h₁
  obtain ⟨b1, b2, b3⟩ := welford_partition_invariant_old' p₂ h₂
  have a2' := a2 hne
  have b2' := b2 (hflat ▸ hne)
  rw [← hflat] at b1 b2' b3
  generalize p₁.foldl addDataOld Store.init = s1 at *
  generalize p₂.foldl addDataOld Store.init = s2 at *
  cases s1; cases s2
  simp only [Store.mk.injEq]
  simp only at a1 a2' a3 b1 b2' b3
  exact ⟨a1.trans b1.symm, a2'.trans b2'.symm, a3.trans b3.symm⟩

theorem scale_is_population_std_old' (parts : List (List K)) (hne : ∀ p ∈ parts, p ≠ [])
    (hdata : parts.flatten ≠ []) :
    let xs := parts.flatten
    scaleSq (parts.foldl addDataOld Store.init) =
      (xs.map (fun x => (x - xs.sum / (xs.length : K)) ^ 2)).sum / (xs.length : K) := by
  intro xs
  have _ := hdata
  obtain ⟨a1, _, a3⟩ := welford_partition_invariant_old' parts hne
  simp only [scaleSq, a1, a3, xs]

/-! ### the code's current merge (`addData`, /repo 734a2d7) equals the old update on every reachable store -/

private theorem sum_sq_dev_mul (l : List K) (c : K) :
    (l.map (fun x => (x - c) * (x - c))).sum
      = (l.map (fun x => x * x)).sum - 2 * c * l.sum + (l.length : K) * (c * c) := by
  induction l with
  | nil => simp
  | cons x l ih =>
    simp only [List.map_cons, List.sum_cons, List.length_cons, ih]; push_cast; ring

theorem addData_eq_old (st : Store K) (batch : List K) (hb : batch ≠ []) (c : Nat) (hc : st.cnt = (c : K)) :
    addData st batch = addDataOld st batch := by
  obtain ⟨c0, m, q⟩ := st
  simp only at hc
  subst hc
  have hpos := List.length_pos_iff.mpr hb
  have hnb : (batch.length : K) ≠ 0 := by
    exact_mod_cast (by omega : batch.length ≠ 0)
  have hN : (c : K) + (batch.length : K) ≠ 0 := by
    exact_mod_cast (by omega : c + batch.length ≠ 0)
  simp only [addData, addDataOld, sum_map_sub_const, sum_zip_sub, sum_sq_dev_mul, Store.mk.injEq]
  refine ⟨trivial, ?_, ?_⟩
  · field_simp
  · field_simp; ring

private theorem foldl_addData_eq_old (parts : List (List K)) (hne : ∀ p ∈ parts, p ≠ []) :
    ∀ (st : Store K) (c : Nat), st.cnt = (c : K) →
      parts.foldl addData st = parts.foldl addDataOld st := by
  induction parts with
  | nil => intro st c _; rfl
  | cons b parts ih =>
    intro st c hc
    have hb : b ≠ [] := hne b (by simp)
    simp only [List.foldl_cons]
    rw [addData_eq_old st b hb c hc]
    refine ih (fun p hp => hne p (by simp [hp])) (addDataOld st b) (c + b.length) ?_
    simp only [addDataOld, hc, Nat.cast_add]

private theorem foldl_addData_init_eq_old (parts : List (List K)) (hne : ∀ p ∈ parts, p ≠ []) :
    parts.foldl addData (Store.init : Store K) = parts.foldl addDataOld Store.init :=
  foldl_addData_eq_old parts hne Store.init 0 (by simp [Store.init])

theorem welford_partition_invariant' (parts : List (List K)) (hne : ∀ p ∈ parts, p ≠ []) :
    let xs := parts.flatten
    let st := parts.foldl addData Store.init
    st.cnt = (xs.length : K) ∧
    (xs ≠ [] → st.mean = xs.sum / (xs.length : K)) ∧
    st.m2 = (xs.map (fun x => (x - xs.sum / (xs.length : K)) ^ 2)).sum := by
  rw [foldl_addData_init_eq_old parts hne]
  exact welford_partition_invariant_old' parts hne

theorem welford_same_for_all_partitions' (p₁ p₂ : List (List K)) (h₁ : ∀ p ∈ p₁, p ≠ [])
    (h₂ : ∀ p ∈ p₂, p ≠ []) (hflat : p₁.flatten = p₂.flatten) (hne : p₁.flatten ≠ []) :
    p₁.foldl addData Store.init = p₂.foldl addData Store.init := by
  rw [foldl_addData_init_eq_old p₁ h₁, foldl_addData_init_eq_old p₂ h₂]
  exact welford_same_for_all_partitions_old' p₁ p₂ h₁ h₂ hflat hne

theorem scale_is_population_std' (parts : List (List K)) (hne : ∀ p ∈ parts, p ≠ [])
    (hdata : parts.flatten ≠ []) :
    let xs := parts.flatten
    scaleSq (parts.foldl addData Store.init) =
      (xs.map (fun x => (x - xs.sum / (xs.length : K)) ^ 2)).sum / (xs.length : K) := by
  rw [foldl_addData_init_eq_old parts hne]
  exact scale_is_population_std_old' parts hne hdata

theorem newest_is_scaled_euclid' (scale u v : List K) :
    weightedEuclidSq scale u v = scaledEuclidSq scale u v := by
  unfold weightedEuclidSq scaledEuclidSq
  congr 1
  apply List.map_congr_left
  intro p _
  by_cases h : p.1 = 0
  · simp [h]
  · field_simp

theorem nested_keeps_old' (fns : List (List K → List K → K)) (newest : List K → List K → K)
    (u : List (List K)) (v : List K) :
    nestedDistance (updateDistance fns newest) u v =
      List.zipWith (fun old row => old ++ [newest row v]) (nestedDistance fns u v) u := by
  induction u with
  | nil => simp [nestedDistance]
  | cons r u ih =>
    simp only [nestedDistance, updateDistance, List.map_cons, List.zipWith_cons_cons,
      List.map_append, List.map_nil] at ih ⊢
    rw [ih]

theorem distance_rowwise' (metric : List K → List K → K) (summaries : List (Arr K)) (observed : List (Obs K))
    (s : List (List K)) (o : List K)
    (hs : hcat (summaries.map Arr.rows2d) = some s) (ho : hcat (observed.map Obs.rows2d) = some [o]) :
    distanceAsDiscrepancy (cdist metric) summaries observed = .ok (.vec (s.map (fun r => metric r o))) := by
  have h1 : cdist metric s [o] = s.map (fun a => [metric a o]) := by simp [cdist]
  have h2 : ∀ (l : List (List K)) (f : List K → K), (l.map (fun a => [f a])).flatten = l.map f := by
    intro l f
    induction l with
    | nil => rfl
    | cons a l ih => simp [ih]
  unfold distanceAsDiscrepancy
  rw [hs, ho]
  simp only [h1, h2]
  rw [if_pos]
  simp

theorem hcat_rows' (blocks : List (List (List K))) (s : List (List K)) (h : hcat blocks = some s)
    (i : Nat) (hi : i < s.length) :
    (∀ b ∈ blocks, b.length = s.length) ∧
    s[i] = (blocks.map (fun b => b[i]?.getD [])).flatten := by
  induction blocks generalizing s with
  | nil => simp [hcat] at h
  | cons b bs ih =>
    cases bs with
    | nil =>
      simp only [hcat, Option.some.injEq] at h
      subst h
      simp [hi]
    | cons b' bs' =>
      rw [hcat.eq_3 b (b' :: bs') (by simp)] at h
      cases h' : hcat (b' :: bs') with
      | none => simp [h'] at h
      | some rest =>
        simp only [h'] at h
        split at h
        · rename_i hlen
          simp only [Option.some.injEq] at h
          subst h
          have hl : (List.zipWith (· ++ ·) b rest).length = rest.length := by
            simp [List.length_zipWith, hlen]
          have hi' : i < rest.length := hl ▸ hi
          obtain ⟨ihl, ihr⟩ := ih rest h' hi'
          refine ⟨?_, ?_⟩
          · intro x hx
            rw [hl]
            rcases List.mem_cons.mp hx with rfl | hx
            · exact hlen
            · exact ihl x hx
          · have hib : i < b.length := hlen ▸ hi'
            rw [List.getElem_zipWith, ihr]
            simp [hib]
        · simp at h

theorem hcat_mismatch_rejected' (b₁ b₂ : List (List K)) (rest : List (List (List K)))
    (s : List (List K)) (h : hcat (b₂ :: rest) = some s) (hne : b₁.length ≠ s.length) :
    hcat (b₁ :: b₂ :: rest) = none := by
  rw [hcat.eq_3 b₁ (b₂ :: rest) (by simp), h]
  simp [hne]

private theorem gather_map {α β : Type} (f : α → β) (l : List α) (mask : List Nat) :
    gather (l.map f) mask = (gather l mask).map f := by
  unfold gather
  rw [List.map_filterMap]
  congr 1
  funext i
  simp [List.getElem?_map]

private theorem gather_range {α : Type} (l : List α) : gather l (List.range l.length) = l := by
  induction l with
  | nil => simp [gather]
  | cons a l ih =>
    unfold gather at ih ⊢
    rw [List.length_cons, List.range_succ_eq_map, List.filterMap_cons, List.filterMap_map]
    simp only [List.getElem?_cons_zero, Function.comp_def, Nat.succ_eq_add_one,
      List.getElem?_cons_succ]
    rw [ih]

private theorem gather_perm {α : Type} (l : List α) (m₁ m₂ : List Nat) (h : m₁.Perm m₂) :
    (gather l m₁).Perm (gather l m₂) := h.filterMap _

theorem resort_alignment' {κ ρ : Type} [LinearOrder κ] (argsort : List κ → List Nat) (newDist : ρ → κ)
    (rows : List ρ)
    (hperm : (argsort (rows.map newDist)).Perm (List.range rows.length))
    (hsorted : (gather (rows.map newDist) (argsort (rows.map newDist))).Pairwise (· ≤ ·)) :
    let r := updateDistances argsort newDist rows
    r.1 = r.2.map newDist ∧ r.1.Pairwise (· ≤ ·) ∧ r.2.Perm rows := by
  intro r
  refine ⟨?_, ?_, ?_⟩
  · simp only [r, updateDistances, gather_map]
  · exact hsorted
  · simp only [r, updateDistances]
    have := gather_perm rows _ _ hperm
    rw [gather_range] at this
    exact this

theorem resort_old_counterexample' :
    let r := updateDistancesOld (κ := Nat) (ρ := Nat) (fun _ => [2, 0, 1]) (fun r => 10 - r) [3, 1, 5]
    r.1 ≠ r.2.map (fun r => 10 - r) ∧ ¬ r.1.Pairwise (· ≤ ·) := by
  decide

end ElfiVerif.Distance
