import ElfiVerif.Model.Engine
import Mathlib.Data.List.Basic
import Mathlib.Data.List.Range
import Mathlib.Tactic.Linarith

/-! Proofs for C04 (statements are repeated in Props/C04.lean). -/
namespace ElfiVerif.Engine

variable {γ τ : Type}

open ElfiVerif.Rejection (Slot Cfg St initObj initSt initBuf mergeBatch)

/-- within a round, what a later index yields does not depend on batches consumed meanwhile
    (Rejection: the batch is a function of the index alone; SMC: of the round's population and
    generator, which change only at a round switch) -/
def RoundStable (S : Sampler γ τ) : Prop :=
  ∀ g i t, S.reset g i t = false → S.compute (S.upd g i t) = S.compute g

/-! ### Checker replay state -/

structure CS where
  out : List Nat
  next : Nat
  cons : List Nat

def ctStep (mpb : Nat) (s : CS) : Ev → Option CS
  | .submitted i =>
    if i = s.next ∧ s.out.length < mpb then some ⟨s.out ++ [i], s.next + 1, s.cons⟩ else none
  | .got i =>
    match s.out with
    | j :: out' => if i = j then some ⟨out', s.next, s.cons ++ [i]⟩ else none
    | [] => none
  | .removed i =>
    match s.out.getLast? with
    | some j => if i = j ∧ i + 1 = s.next then some ⟨s.out.dropLast, i, s.cons⟩ else none
    | none => none

def ctState (mpb : Nat) : List Ev → CS → Option CS
  | [], s => some s
  | ev :: rest, s => (ctStep mpb s ev).bind (ctState mpb rest)

def ctFinal (s : CS) : Option (List Nat) := if s.out.isEmpty then some s.cons else none

theorem checkTrace_eq (mpb : Nat) (tr : List Ev) (out : List Nat) (next : Nat) (cons : List Nat) :
    checkTrace mpb tr out next cons = (ctState mpb tr ⟨out, next, cons⟩).bind ctFinal := by
  induction tr generalizing out next cons with
  | nil => simp [checkTrace, ctState, ctFinal]
  | cons ev rest ih =>
    cases ev with
    | submitted i =>
      simp only [checkTrace, ctState, ctStep]
      split <;> simp [ih]
    | got i =>
      cases out with
      | nil => simp [checkTrace, ctState, ctStep]
      | cons j out' =>
        simp only [checkTrace, ctState, ctStep]
        split <;> simp [ih]
    | removed i =>
      simp only [checkTrace, ctState, ctStep]
      cases hl : out.getLast? with
      | none => simp
      | some j =>
        simp only []
        split <;> simp [ih]

theorem ctState_append (mpb : Nat) (a b : List Ev) (s : CS) :
    ctState mpb (a ++ b) s = (ctState mpb a s).bind (ctState mpb b) := by
  induction a generalizing s with
  | nil => simp [ctState]
  | cons ev rest ih =>
    simp only [List.cons_append, ctState]
    cases ctStep mpb s ev with
    | none => simp
    | some s' => simp [ih]

def liveStep (live : List Nat) : Ev → List Nat
  | .submitted i => live ++ [i]
  | .got i => live.erase i
  | .removed i => live.erase i

theorem liveTasks_eq (tr : List Ev) : liveTasks tr = tr.foldl liveStep [] := by
  rfl

def gotF : Ev → Option Nat
  | .got i => some i
  | _ => none

/-- canonical checker state: `a` consumed, `n` outstanding -/
def canon (a n : Nat) : CS := ⟨List.range' a n, a + n, List.range a⟩

theorem ctStep_canon (mpb a n : Nat) (ev : Ev) (s' : CS) (hn : n ≤ mpb)
    (h : ctStep mpb (canon a n) ev = some s') :
    ∃ a' n', s' = canon a' n' ∧ n' ≤ mpb ∧ liveStep (List.range' a n) ev = List.range' a' n' ∧
      List.range a' = List.range a ++ [ev].filterMap gotF := by
  cases ev with
  | submitted i =>
    simp only [ctStep, canon, Option.ite_none_right_eq_some, Option.some.injEq,
      List.length_range'] at h
    obtain ⟨⟨rfl, hlt⟩, h⟩ := h
    refine ⟨a, n + 1, ?_, by omega, ?_, ?_⟩
    · rw [← h]; simp only [canon, List.range'_1_concat]; rfl
    · simp [liveStep, List.range'_1_concat]
    · simp [gotF]
  | got i =>
    cases n with
    | zero => simp [ctStep, canon] at h
    | succ n' =>
      simp only [ctStep, canon, List.range'_succ, Option.ite_none_right_eq_some,
        Option.some.injEq] at h
      obtain ⟨rfl, h⟩ := h
      refine ⟨i + 1, n', ?_, by omega, ?_, ?_⟩
      · rw [← h]; simp only [canon, List.range_succ]
        congr 1; omega
      · simp [liveStep, List.range'_succ]
      · simp [gotF, List.range_succ]
  | removed i =>
    cases n with
    | zero => simp [ctStep, canon] at h
    | succ n' =>
      simp only [ctStep, canon, List.range'_1_concat, List.getLast?_concat, List.dropLast_concat,
        Option.ite_none_right_eq_some, Option.some.injEq] at h
      obtain ⟨⟨rfl, -⟩, h⟩ := h
      refine ⟨a, n', ?_, by omega, ?_, ?_⟩
      · rw [← h]; rfl
      · have hnm : a + n' ∉ List.range' a n' := by simp
        simp only [liveStep, List.range'_1_concat]
        rw [List.erase_append_right _ hnm]; simp
      · simp [gotF]

theorem ctState_canon (mpb : Nat) (tr : List Ev) (a n : Nat) (s' : CS) (hn : n ≤ mpb)
    (h : ctState mpb tr (canon a n) = some s') :
    ∃ a' n', s' = canon a' n' ∧ n' ≤ mpb ∧ tr.foldl liveStep (List.range' a n) = List.range' a' n' ∧
      List.range a' = List.range a ++ tr.filterMap gotF := by
  induction tr generalizing a n with
  | nil =>
    simp only [ctState, Option.some.injEq] at h
    exact ⟨a, n, h.symm, hn, by simp, by simp⟩
  | cons ev rest ih =>
    simp only [ctState] at h
    cases h1 : ctStep mpb (canon a n) ev with
    | none => simp [h1] at h
    | some s1 =>
      simp only [h1, Option.bind_some] at h
      obtain ⟨a1, n1, rfl, hn1, hl1, hr1⟩ := ctStep_canon mpb a n ev s1 hn h1
      obtain ⟨a2, n2, rfl, hn2, hl2, hr2⟩ := ih a1 n1 hn1 h
      refine ⟨a2, n2, rfl, hn2, ?_, ?_⟩
      · simp only [List.foldl_cons, hl1, hl2]
      · rw [hr2, hr1]
        simp [List.filterMap_cons]
        cases gotF ev <;> simp

/-! ### Engine invariants -/

structure EInv (mpb : Nat) (e : Eng γ τ) (a n : Nat) : Prop where
  cons : e.consumed = List.range a
  pend : e.pending.map (·.1) = List.range' a n
  nxt : e.next = a + n
  le : n ≤ mpb
  tr : ctState mpb e.trace (canon 0 0) = some (canon a n)

theorem EInv.clen {mpb : Nat} {e : Eng γ τ} {a n : Nat} (h : EInv mpb e a n) :
    e.consumed.length = a := by
  rw [h.cons]; simp

theorem EInv.plen {mpb : Nat} {e : Eng γ τ} {a n : Nat} (h : EInv mpb e a n) :
    e.pending.length = n := by
  have := congrArg List.length h.pend
  simpa using this

theorem EInv_init (mpb : Nat) (c : γ) : EInv mpb (Eng.init c : Eng γ τ) 0 0 :=
  ⟨rfl, rfl, rfl, Nat.zero_le _, rfl⟩

theorem ctState_removed (mpb a n : Nat) :
    ctState mpb ((List.range' a n).reverse.map Ev.removed) (canon a n) = some (canon a 0) := by
  induction n with
  | zero => rfl
  | succ n ih =>
    have h1 : ctStep mpb (canon a (n + 1)) (Ev.removed (a + n)) = some (canon a n) := by
      simp only [ctStep, canon, List.range'_1_concat, List.getLast?_concat, List.dropLast_concat]
      simp [Nat.add_assoc]
    simp only [List.range'_1_concat, List.reverse_append, List.reverse_singleton,
      List.singleton_append, List.map_cons, ctState, h1, Option.bind_some]
    exact ih

theorem EInv_cancel {mpb : Nat} {e : Eng γ τ} {a n : Nat} (h : EInv mpb e a n) :
    EInv mpb e.cancel a 0 := by
  refine ⟨h.cons, rfl, ?_, Nat.zero_le _, ?_⟩
  · have hp := h.pend
    have hn := h.nxt
    simp only [Eng.cancel]
    cases hpe : e.pending with
    | nil =>
      rw [hpe] at hp
      have : n = 0 := by
        have := congrArg List.length hp
        simpa using this.symm
      simp only []
      omega
    | cons p rest =>
      rw [hpe] at hp
      cases n with
      | zero => simp at hp
      | succ n' =>
        simp only [List.map_cons, List.range'_succ, List.cons.injEq] at hp
        simp only []
        omega
  · have hev : e.pending.reverse.map (fun p => Ev.removed p.1) =
        (List.range' a n).reverse.map Ev.removed := by
      rw [← h.pend, ← List.map_reverse, List.map_map]; rfl
    simp only [Eng.cancel, hev, ctState_append, h.tr, Option.bind_some]
    exact ctState_removed mpb a n

/-- the engine after popping `(i, t) :: rest` and updating, before any round switch -/
def consumeCore (S : Sampler γ τ) (e : Eng γ τ) (i : Nat) (t : τ) (rest : List (Nat × τ)) :
    Eng γ τ :=
  { e with core := S.upd e.core i t, consumed := e.consumed ++ [i], pending := rest,
           trace := e.trace ++ [Ev.got i] }

theorem step_submit_eq {S : Sampler γ τ} {mpb : Nat} {e e' : Eng γ τ}
    (h : e.step S mpb .submit = some e') :
    e.pending.length < mpb ∧ S.fin e.core = false ∧
    e' = { e with pending := e.pending ++ [(e.next, S.compute e.core e.next)], next := e.next + 1,
                  trace := e.trace ++ [Ev.submitted e.next] } := by
  simp only [Eng.step, Option.ite_none_right_eq_some, Option.some.injEq] at h
  obtain ⟨⟨h1, h2⟩, h3⟩ := h
  exact ⟨h1, h2, h3.symm⟩

theorem step_consume_eq {S : Sampler γ τ} {mpb : Nat} {e e' : Eng γ τ}
    (h : e.step S mpb .consume = some e') :
    ∃ i t rest, S.fin e.core = false ∧ e.pending = (i, t) :: rest ∧
      e' = (if S.reset e.core i t then (consumeCore S e i t rest).cancel
            else consumeCore S e i t rest) := by
  simp only [Eng.step] at h
  cases hf : S.fin e.core with
  | true => simp [hf] at h
  | false =>
    simp only [hf, Bool.false_eq_true, if_false] at h
    cases hp : e.pending with
    | nil => simp [hp] at h
    | cons p rest =>
      obtain ⟨i, t⟩ := p
      refine ⟨i, t, rest, rfl, rfl, ?_⟩
      simp only [hp] at h
      cases hr : S.reset e.core i t with
      | true =>
        simp only [hr, if_true, Option.some.injEq] at h
        simp only [if_true, consumeCore]
        exact h.symm
      | false =>
        simp only [hr, Bool.false_eq_true, if_false, Option.some.injEq] at h
        simp only [Bool.false_eq_true, if_false, consumeCore]
        exact h.symm

theorem EInv_consumeCore {S : Sampler γ τ} {mpb : Nat} {e : Eng γ τ} {a n : Nat} {i : Nat} {t : τ}
    {rest : List (Nat × τ)} (h : EInv mpb e a n) (hp : e.pending = (i, t) :: rest) :
    i = a ∧ ∃ n', n = n' + 1 ∧ EInv mpb (consumeCore S e i t rest) (a + 1) n' := by
  have hpend := h.pend
  rw [hp] at hpend
  cases n with
  | zero => simp at hpend
  | succ n' =>
    simp only [List.map_cons, List.range'_succ, List.cons.injEq] at hpend
    obtain ⟨rfl, hrest⟩ := hpend
    refine ⟨rfl, n', rfl, ?_⟩
    refine ⟨?_, hrest, ?_, ?_, ?_⟩
    · simp [consumeCore, h.cons, List.range_succ]
    · simp only [consumeCore, h.nxt]; omega
    · have := h.le; omega
    · have h1 : ctStep mpb (canon i (n' + 1)) (Ev.got i) = some (canon (i + 1) n') := by
        simp only [ctStep, canon, List.range'_succ, if_true, List.range_succ]
        congr 2; omega
      simp only [consumeCore, ctState_append, h.tr, Option.bind_some, ctState, h1]

theorem EInv_step {S : Sampler γ τ} {mpb : Nat} {e e' : Eng γ τ} {act : Act} {a n : Nat}
    (hI : EInv mpb e a n) (h : e.step S mpb act = some e') : ∃ a' n', EInv mpb e' a' n' := by
  cases act with
  | submit =>
    obtain ⟨hlt, -, rfl⟩ := step_submit_eq h
    rw [hI.plen] at hlt
    refine ⟨a, n + 1, ⟨hI.cons, ?_, ?_, by omega, ?_⟩⟩
    · simp [hI.pend, hI.nxt, List.range'_1_concat]
    · simp only [hI.nxt]; omega
    · have h1 : ctStep mpb (canon a n) (Ev.submitted (a + n)) = some (canon a (n + 1)) := by
        simp only [ctStep, canon, List.length_range', List.range'_1_concat]
        simp [hlt, Nat.add_assoc]
      simp only [ctState_append, hI.tr, Option.bind_some, ctState, hI.nxt, h1]
  | consume =>
    obtain ⟨i, t, rest, -, hp, rfl⟩ := step_consume_eq h
    obtain ⟨-, n', -, hI'⟩ := EInv_consumeCore (S := S) hI hp
    split
    · exact ⟨_, _, EInv_cancel hI'⟩
    · exact ⟨_, _, hI'⟩

theorem run_induction {S : Sampler γ τ} {mpb : Nat} (P : Eng γ τ → Prop)
    (hstep : ∀ e act e', P e → e.step S mpb act = some e' → P e')
    (sched : List Act) (e e' : Eng γ τ) (h0 : P e) (h : Eng.run S mpb e sched = some e') : P e' := by
  induction sched generalizing e with
  | nil =>
    simp only [Eng.run, Option.some.injEq] at h
    exact h ▸ h0
  | cons act rest ih =>
    simp only [Eng.run] at h
    cases h1 : e.step S mpb act with
    | none => simp [h1] at h
    | some e1 =>
      simp only [h1] at h
      exact ih e1 (hstep e act e1 h0 h1) h

theorem EInv_run {S : Sampler γ τ} {mpb : Nat} {c : γ} {sched : List Act} {e : Eng γ τ}
    (h : Eng.run S mpb (Eng.init c) sched = some e) : ∃ a n, EInv mpb e a n :=
  run_induction (S := S) (mpb := mpb) (fun e => ∃ a n, EInv mpb e a n)
    (fun _ _ _ ⟨_, _, hI⟩ hs => EInv_step hI hs) sched _ e ⟨0, 0, EInv_init mpb c⟩ h

theorem run_invariants' (S : Sampler γ τ) (mpb : Nat) (c : γ) (sched : List Act) (e : Eng γ τ)
    (h : Eng.run S mpb (Eng.init c) sched = some e) :
    e.pending.length ≤ mpb ∧
    e.pending.map (·.1) = List.range' e.consumed.length e.pending.length ∧
    e.next = e.consumed.length + e.pending.length ∧
    e.consumed = List.range e.consumed.length := by
  obtain ⟨a, n, hI⟩ := EInv_run h
  rw [hI.clen, hI.plen]
  exact ⟨hI.le, hI.pend, hI.nxt, hI.cons⟩

/-! ### Schedule independence -/

structure SInv (S : Sampler γ τ) (c : γ) (e : Eng γ τ) : Prop where
  comp : ∀ p ∈ e.pending, p.2 = S.compute e.core p.1
  seq : ∀ fuel, seqRun S (fuel + e.consumed.length) c 0 = seqRun S fuel e.core e.consumed.length

theorem SInv_init (S : Sampler γ τ) (c : γ) : SInv S c (Eng.init c : Eng γ τ) :=
  ⟨by simp [Eng.init], fun _ => rfl⟩

theorem SInv_cancel {S : Sampler γ τ} {c : γ} {e : Eng γ τ} (h : SInv S c e) : SInv S c e.cancel :=
  ⟨by simp [Eng.cancel], h.seq⟩

theorem SInv_step {S : Sampler γ τ} (hS : RoundStable S) {mpb : Nat} {c : γ} {e e' : Eng γ τ}
    {act : Act} {a n : Nat} (hI : EInv mpb e a n) (hV : SInv S c e)
    (h : e.step S mpb act = some e') : SInv S c e' := by
  cases act with
  | submit =>
    obtain ⟨-, -, rfl⟩ := step_submit_eq h
    refine ⟨?_, hV.seq⟩
    intro p hp
    simp only [List.mem_append, List.mem_singleton] at hp
    rcases hp with hp | rfl
    · exact hV.comp p hp
    · rfl
  | consume =>
    obtain ⟨i, t, rest, hf, hp, rfl⟩ := step_consume_eq h
    obtain ⟨rfl, n', -, -⟩ := EInv_consumeCore (S := S) hI hp
    have ht : t = S.compute e.core i := hV.comp (i, t) (by rw [hp]; simp)
    have hlen : e.consumed.length = i := hI.clen
    have hseq : ∀ fuel, seqRun S (fuel + (consumeCore S e i t rest).consumed.length) c 0 =
        seqRun S fuel (consumeCore S e i t rest).core (consumeCore S e i t rest).consumed.length := by
      intro fuel
      have h1 := hV.seq (fuel + 1)
      simp only [consumeCore, List.length_append, List.length_singleton, hlen] at h1 ⊢
      rw [show fuel + (i + 1) = fuel + 1 + i by omega, h1]
      simp only [seqRun, hf, Bool.false_eq_true, if_false, ← ht]
    cases hr : S.reset e.core i t with
    | true =>
      simp only [if_true]
      exact ⟨by simp [Eng.cancel], hseq⟩
    | false =>
      simp only [Bool.false_eq_true, if_false]
      refine ⟨?_, hseq⟩
      intro p hp'
      have hmem : p ∈ e.pending := by rw [hp]; exact List.mem_cons_of_mem _ hp'
      simp only [consumeCore] at hp' ⊢
      rw [hS _ _ _ hr]
      exact hV.comp p hmem

theorem canon_zero : (⟨[], 0, []⟩ : CS) = canon 0 0 := rfl

theorem checkTrace_some (mpb : Nat) (tr : List Ev) (cons : List Nat)
    (h : checkTrace mpb tr [] 0 [] = some cons) :
    ctState mpb tr (canon 0 0) = some (canon cons.length 0) ∧ cons = List.range cons.length := by
  rw [checkTrace_eq, canon_zero] at h
  cases h1 : ctState mpb tr (canon 0 0) with
  | none => simp [h1] at h
  | some s1 =>
    simp only [h1, Option.bind_some] at h
    obtain ⟨a, n, rfl, -, -, -⟩ := ctState_canon mpb tr 0 0 s1 (Nat.zero_le _) h1
    simp only [ctFinal, canon, Option.ite_none_right_eq_some, Option.some.injEq,
      List.isEmpty_iff, List.range'_eq_nil_iff] at h
    obtain ⟨rfl, rfl⟩ := h
    simp

theorem checkTrace_sound' (mpb : Nat) (tr : List Ev) (cons : List Nat)
    (h : checkTrace mpb tr [] 0 [] = some cons) :
    cons = List.range cons.length ∧ liveTasks tr = [] ∧
    (tr.filterMap (fun ev => match ev with | .got i => some i | _ => none)) = cons := by
  obtain ⟨h1, h2⟩ := checkTrace_some mpb tr cons h
  obtain ⟨a, n, he, -, hl, hr⟩ := ctState_canon mpb tr 0 0 _ (Nat.zero_le _) h1
  simp only [canon, CS.mk.injEq] at he
  obtain ⟨he1, he2, he3⟩ := he
  have ha : a = cons.length := by
    have := congrArg List.length he3
    simpa using this.symm
  have hn : n = 0 := by omega
  subst ha hn
  refine ⟨h2, ?_, ?_⟩
  · rw [liveTasks_eq]; simpa using hl
  · have : tr.filterMap gotF = cons := by
      rw [h2]; simpa using hr.symm
    exact this

theorem checkTrace_bounded' (mpb : Nat) (tr : List Ev) (cons : List Nat)
    (h : checkTrace mpb tr [] 0 [] = some cons) (k : Nat) :
    (liveTasks (tr.take k)).length ≤ mpb := by
  obtain ⟨h1, -⟩ := checkTrace_some mpb tr cons h
  rw [← List.take_append_drop k tr, ctState_append] at h1
  cases h2 : ctState mpb (tr.take k) (canon 0 0) with
  | none => simp [h2] at h1
  | some s1 =>
    obtain ⟨a, n, -, hn, hl, -⟩ := ctState_canon mpb (tr.take k) 0 0 s1 (Nat.zero_le _) h2
    rw [liveTasks_eq]
    simp only [List.range'_zero] at hl
    rw [hl]; simpa using hn

theorem SInv_run {S : Sampler γ τ} (hS : RoundStable S) {mpb : Nat} {c : γ} {sched : List Act}
    {e : Eng γ τ} (h : Eng.run S mpb (Eng.init c) sched = some e) :
    (∃ a n, EInv mpb e a n) ∧ SInv S c e :=
  run_induction (S := S) (mpb := mpb) (fun e => (∃ a n, EInv mpb e a n) ∧ SInv S c e)
    (fun _ _ _ ⟨⟨_, _, hI⟩, hV⟩ hs => ⟨EInv_step hI hs, SInv_step hS hI hV hs⟩) sched _ e
    ⟨⟨0, 0, EInv_init mpb c⟩, SInv_init S c⟩ h

theorem infer_some {S : Sampler γ τ} {mpb : Nat} {c : γ} {sched : List Act} {e : Eng γ τ}
    (h : infer S mpb c sched = some e) :
    ∃ e0, Eng.run S mpb (Eng.init c) sched = some e0 ∧ S.fin e0.core = true ∧ e = e0.cancel := by
  simp only [infer] at h
  cases h1 : Eng.run S mpb (Eng.init c) sched with
  | none => simp [h1] at h
  | some e0 =>
    simp only [h1, Option.ite_none_right_eq_some, Option.some.injEq] at h
    exact ⟨e0, rfl, h.1, h.2.symm⟩

theorem seqRun_unique (S : Sampler γ τ) (f₁ f₂ : Nat) (c : γ) (k : Nat) (r₁ r₂ : γ × Nat)
    (h₁ : seqRun S f₁ c k = some r₁) (h₂ : seqRun S f₂ c k = some r₂) : r₁ = r₂ := by
  induction f₁ generalizing f₂ c k with
  | zero =>
    simp only [seqRun, Option.ite_none_right_eq_some, Option.some.injEq] at h₁
    obtain ⟨hf, rfl⟩ := h₁
    cases f₂ <;> simp only [seqRun, hf, if_true, Option.some.injEq] at h₂ <;> exact h₂
  | succ f₁ ih =>
    cases hf : S.fin c with
    | true =>
      simp only [seqRun, hf, if_true, Option.some.injEq] at h₁
      cases f₂ <;> simp only [seqRun, hf, if_true, Option.some.injEq] at h₂ <;> rw [← h₁, ← h₂]
    | false =>
      simp only [seqRun, hf, Bool.false_eq_true, if_false] at h₁
      cases f₂ with
      | zero => simp [seqRun, hf] at h₂
      | succ f₂ =>
        simp only [seqRun, hf, Bool.false_eq_true, if_false] at h₂
        exact ih f₂ _ _ h₁ h₂

theorem schedule_independent' (S : Sampler γ τ) (hS : RoundStable S) (mpb : Nat) (c : γ)
    (sched : List Act) (e : Eng γ τ) (h : infer S mpb c sched = some e) :
    ∃ fuel, seqRun S fuel c 0 = some (e.core, e.consumed.length) := by
  obtain ⟨e0, hrun, hfin, rfl⟩ := infer_some h
  obtain ⟨-, hV⟩ := SInv_run hS hrun
  refine ⟨e0.consumed.length, ?_⟩
  have := hV.seq 0
  rw [Nat.zero_add] at this
  rw [this]
  simp only [seqRun, hfin, if_true]
  rfl

theorem schedule_independent_pair' (S : Sampler γ τ) (hS : RoundStable S) (m₁ m₂ : Nat) (c : γ)
    (s₁ s₂ : List Act) (e₁ e₂ : Eng γ τ)
    (h₁ : infer S m₁ c s₁ = some e₁) (h₂ : infer S m₂ c s₂ = some e₂) :
    e₁.core = e₂.core ∧ e₁.consumed = e₂.consumed := by
  obtain ⟨f₁, hf₁⟩ := schedule_independent' S hS m₁ c s₁ e₁ h₁
  obtain ⟨f₂, hf₂⟩ := schedule_independent' S hS m₂ c s₂ e₂ h₂
  have heq := seqRun_unique S f₁ f₂ c 0 _ _ hf₁ hf₂
  simp only [Prod.mk.injEq] at heq
  refine ⟨heq.1, ?_⟩
  obtain ⟨e0, hrun, -, rfl⟩ := infer_some h₁
  obtain ⟨e0', hrun', -, rfl⟩ := infer_some h₂
  obtain ⟨a, n, hI⟩ := EInv_run hrun
  obtain ⟨a', n', hI'⟩ := EInv_run hrun'
  have hl : e0.consumed.length = e0'.consumed.length := heq.2
  rw [hI.clen, hI'.clen] at hl
  show e0.consumed = e0'.consumed
  rw [hI.cons, hI'.cons, hl]

theorem no_task_left' (S : Sampler γ τ) (mpb : Nat) (c : γ) (sched : List Act) (e : Eng γ τ)
    (h : infer S mpb c sched = some e) :
    e.pending = [] ∧ liveTasks e.trace = [] ∧ checkTrace mpb e.trace [] 0 [] = some e.consumed := by
  obtain ⟨e0, hrun, -, rfl⟩ := infer_some h
  obtain ⟨a, n, hI0⟩ := EInv_run hrun
  have hI := EInv_cancel hI0
  refine ⟨rfl, ?_, ?_⟩
  · obtain ⟨a', n', he, -, hl, -⟩ := ctState_canon mpb _ 0 0 _ (Nat.zero_le _) hI.tr
    rw [liveTasks_eq]
    simp only [List.range'_zero] at hl
    rw [hl]
    simp only [canon, CS.mk.injEq] at he
    have := congrArg List.length he.1
    simp only [List.length_range'] at this
    rw [← this]; rfl
  · rw [checkTrace_eq, canon_zero, hI.tr, hI.cons]
    rfl

theorem rejSampler_stable' {κ : Type} [LE κ] [DecidableLE κ] (sort : List (Slot κ) → List (Slot κ))
    (est : Nat → Nat → Nat → Nat → Nat) (c : Cfg κ) (batch : Nat → List (Slot κ)) :
    RoundStable (rejSampler sort est c batch) := by
  intro g i t _
  rfl

/-! ### The sequential rejection model is the engine's sequential run -/

section Rej
variable {κ : Type} [LE κ] [DecidableLE κ]

/-- relation between the objective counter of `Rejection.run` and the engine core -/
def RInv (est : Nat → Nat → Nat → Nat → Nat) (c : Cfg κ) (st : St κ) : Prop :=
  (c.thr = none → st.obj = initObj c) ∧
  (∀ t, c.thr = some t →
    (st.nBatches = 0 → st.obj = initObj c) ∧
    (0 < st.nBatches →
      (st.buf.countP (fun s => decide (s.key ≤ t)) = 0 → st.nBatches < st.obj) ∧
      (st.buf.countP (fun s => decide (s.key ≤ t)) ≠ 0 →
        st.obj = est c.n (st.buf.countP (fun s => decide (s.key ≤ t))) (st.nBatches * c.b) c.b)))

theorem RInv_fin (est : Nat → Nat → Nat → Nat → Nat) (c : Cfg κ) (st : St κ)
    (hobj : 0 < initObj c) (h : RInv est c st) :
    rejFin est c ⟨st.buf, st.nBatches⟩ = decide (st.obj ≤ st.nBatches) := by
  unfold rejFin
  cases hthr : c.thr with
  | none =>
    simp only [h.1 hthr]
  | some t =>
    obtain ⟨h0, hpos⟩ := h.2 t hthr
    simp only []
    by_cases hnb : st.nBatches = 0
    · have := h0 hnb
      simp only [hnb, if_true]
      symm; rw [decide_eq_false_iff_not]; omega
    · obtain ⟨ha, hb⟩ := hpos (Nat.pos_of_ne_zero hnb)
      simp only [hnb, if_false]
      by_cases hacc : st.buf.countP (fun s => decide (s.key ≤ t)) = 0
      · have := ha hacc
        simp only [hacc, if_true]
        symm; rw [decide_eq_false_iff_not]; omega
      · simp only [hacc, if_false]
        rw [← hb hacc]

theorem RInv_step (sort : List (Slot κ) → List (Slot κ)) (est : Nat → Nat → Nat → Nat → Nat)
    (c : Cfg κ) (b : List (Slot κ)) (st : St κ) (h : RInv est c st) (hlt : ¬ st.obj ≤ st.nBatches) :
    RInv est c (Rejection.step sort est c b st) := by
  refine ⟨?_, ?_⟩
  · intro hthr
    simp only [Rejection.step, hthr]
    exact h.1 hthr
  · intro t hthr
    simp only [Rejection.step, hthr]
    refine ⟨by omega, fun _ => ⟨?_, ?_⟩⟩
    · intro hacc
      simp only [hacc, if_true]
      omega
    · intro hacc
      simp only [hacc, if_false]

theorem rej_seq_gen (sort : List (Slot κ) → List (Slot κ)) (est : Nat → Nat → Nat → Nat → Nat)
    (c : Cfg κ) (batch : Nat → List (Slot κ)) (hobj : 0 < initObj c) (fuel : Nat) (st st' : St κ)
    (hI : RInv est c st) (hrun : Rejection.run sort est c batch fuel st = some st') :
    seqRun (rejSampler sort est c batch) fuel ⟨st.buf, st.nBatches⟩ st.nBatches =
      some (⟨st'.buf, st'.nBatches⟩, st'.nBatches) := by
  induction fuel generalizing st with
  | zero => simp [Rejection.run] at hrun
  | succ fuel ih =>
    have hfin : (rejSampler sort est c batch).fin ⟨st.buf, st.nBatches⟩ =
        decide (st.obj ≤ st.nBatches) := RInv_fin est c st hobj hI
    simp only [Rejection.run] at hrun
    by_cases hle : st.obj ≤ st.nBatches
    · simp only [hle, if_true, Option.some.injEq] at hrun
      subst hrun
      simp only [seqRun, hfin, hle, decide_true, if_true]
    · simp only [hle, if_false] at hrun
      have := ih _ (RInv_step sort est c _ st hI hle) hrun
      simp only [seqRun, hfin, hle, decide_false, Bool.false_eq_true, if_false]
      exact this

end Rej

set_option linter.unusedVariables false in
theorem rejection_run_is_seqRun' {κ : Type} [LE κ] [DecidableLE κ] (sort : List (Slot κ) → List (Slot κ))
    (est : Nat → Nat → Nat → Nat → Nat) (top : κ) (c : Cfg κ) (batch : Nat → List (Slot κ)) (fuel : Nat)
    (st : St κ) (hobj : 0 < initObj c) (hbud : c.thr = none → ∃ s, c.nSim = some s ∧ 0 < s)
    (hrun : Rejection.run sort est c batch fuel (initSt top c) = some st) :
    seqRun (rejSampler sort est c batch) fuel ⟨initBuf top c.n c.b, 0⟩ 0 =
      some (⟨st.buf, st.nBatches⟩, st.nBatches) := by
  have hI : RInv est c (initSt top c) := by
    refine ⟨fun _ => rfl, fun t _ => ⟨fun _ => rfl, fun h => ?_⟩⟩
    exact absurd h (Nat.lt_irrefl 0)
  exact rej_seq_gen sort est c batch hobj fuel (initSt top c) st hI hrun

theorem toy_rounds_example' :
    let S : Sampler (Nat × Nat) Nat :=
      { fin := fun g => decide (2 ≤ g.1), compute := fun g i => 100 * g.1 + i,
        upd := fun g _ _ => if g.2 + 1 = 2 then (g.1 + 1, 0) else (g.1, g.2 + 1),
        reset := fun g _ _ => decide (g.2 + 1 = 2) }
    let sched := [Act.submit, .submit, .submit, .consume, .submit, .consume, .submit, .consume, .submit, .consume]
    RoundStable S ∧
    (infer S 3 (0, 0) sched).map (fun e => (e.core, e.consumed, e.trace)) =
      some ((2, 0), [0, 1, 2, 3],
        [.submitted 0, .submitted 1, .submitted 2, .got 0, .submitted 3, .got 1, .removed 3, .removed 2,
         .submitted 2, .got 2, .submitted 3, .got 3]) ∧
    seqRun S 10 (0, 0) 0 = some ((2, 0), 4) := by
  intro S sched
  refine ⟨?_, ?_, ?_⟩
  · intro g i t h
    funext j
    simp only [S, decide_eq_false_iff_not] at h ⊢
    simp only [h, if_false]
  · decide
  · decide

end ElfiVerif.Engine
