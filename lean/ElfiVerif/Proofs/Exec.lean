import ElfiVerif.Model.Exec
import Mathlib.Data.List.Basic
import Mathlib.Data.List.Perm.Basic
import Mathlib.Data.List.Sort
import Mathlib.Tactic.Linarith

/-! Proofs for C02 and C05 (statements are repeated in Props/C02.lean and Props/C05.lean). -/
namespace ElfiVerif.Exec

variable {Val Gen : Type}

def isSto (nodes : Nat → Option ENode) (n : Nat) : Bool := ((nodes n).map (·.stochastic)).getD false

/-! ### the sort is insertion-order independent -/

theorem insertNat_eq (x : Nat) (l : List Nat) : insertNat x l = l.orderedInsert (· ≤ ·) x := by
  induction l with
  | nil => rfl
  | cons y ys ih => simp only [insertNat, List.orderedInsert_cons, ih]

theorem sortNat_eq (l : List Nat) : sortNat l = l.insertionSort (· ≤ ·) := by
  induction l with
  | nil => rfl
  | cons y ys ih =>
    have : sortNat (y :: ys) = insertNat y (sortNat ys) := rfl
    rw [this, ih, insertNat_eq, List.insertionSort_cons]

theorem sortNat_perm (l : List Nat) : (sortNat l).Perm l := by
  rw [sortNat_eq]; exact List.perm_insertionSort _ l

theorem sortNat_pairwise (l : List Nat) : (sortNat l).Pairwise (· ≤ ·) := by
  rw [sortNat_eq]; exact List.pairwise_insertionSort _ l

theorem sortNat_congr {l₁ l₂ : List Nat} (h : l₁.Perm l₂) : sortNat l₁ = sortNat l₂ :=
  List.Perm.eq_of_pairwise' (r := (· ≤ ·)) (sortNat_pairwise l₁) (sortNat_pairwise l₂)
    ((sortNat_perm l₁).trans (h.trans (sortNat_perm l₂).symm))

theorem succs_congr {g₁ g₂ : Graph} (he : g₁.edges.Perm g₂.edges) (w : Nat) :
    g₁.succs w = g₂.succs w := by
  unfold Graph.succs
  exact sortNat_congr ((he.filter _).map _)

theorem dfsStep_congr {g₁ g₂ : Graph} (he : g₁.edges.Perm g₂.edges) (s : Dfs) :
    dfsStep g₁ s = dfsStep g₂ s := by
  unfold dfsStep
  cases s.fringe with
  | nil => rfl
  | cons w rest => simp only [succs_congr he w]

theorem dfsLoop_congr {g₁ g₂ : Graph} (he : g₁.edges.Perm g₂.edges) (fuel : Nat) (s : Dfs) :
    dfsLoop g₁ fuel s = dfsLoop g₂ fuel s := by
  induction fuel generalizing s with
  | zero => rfl
  | succ n ih =>
    simp only [dfsLoop, dfsStep_congr he s]
    cases dfsStep g₂ s with
    | cont s' => exact ih s'
    | done s' => rfl
    | cycle => rfl

theorem constTopo_perm_invariant' (g₁ g₂ : Graph) (hn : g₁.nodes.Perm g₂.nodes) (he : g₁.edges.Perm g₂.edges) :
    constTopo g₁ = constTopo g₂ := by
  unfold constTopo
  have h1 : (fun w => dfsLoop g₁ w) = (fun w => dfsLoop g₂ w) := by
    funext w s; exact dfsLoop_congr he w s
  have h1' : dfsLoop g₁ = dfsLoop g₂ := h1
  simp only [sortNat_congr hn, hn.length_eq, he.length_eq, h1']

/-! ### the order checker -/

theorem eraseDups_length_le (l : List Nat) : l.eraseDups.length ≤ l.length := by
  induction h : l.length using Nat.strong_induction_on generalizing l with
  | _ n ih =>
    cases l with
    | nil => simp
    | cons a as =>
      rw [List.eraseDups_cons]
      simp only [List.length_cons] at h ⊢
      have h1 := ih (as.filter fun b => !b == a).length
        (by have := List.length_filter_le (fun b => !b == a) as; omega) _ rfl
      have h2 := List.length_filter_le (fun b => !b == a) as
      omega

theorem nodup_of_eraseDups_length (l : List Nat) (h : l.eraseDups.length = l.length) : l.Nodup := by
  induction l with
  | nil => simp
  | cons a as ih =>
    rw [List.eraseDups_cons] at h
    simp only [List.length_cons] at h
    have h1 := eraseDups_length_le (as.filter fun b => !b == a)
    have h2 := List.length_filter_le (fun b => !b == a) as
    have h3 : (as.filter fun b => !b == a).length = as.length := by omega
    have h4 : as.filter (fun b => !b == a) = as := by
      rwa [List.length_filter_eq_length_iff, ← List.filter_eq_self] at h3
    rw [h4] at h
    rw [List.nodup_cons]
    refine ⟨?_, ih (by omega)⟩
    intro hmem
    rw [List.filter_eq_self] at h4
    have := h4 a hmem
    simp at this

theorem isTopoOrder_sound' (g : Graph) (order : List Nat) (h : isTopoOrder g order = true) :
    order.Nodup ∧ (∀ n, n ∈ order ↔ n ∈ g.nodes) ∧
    ∀ e ∈ g.edges, ∃ i j : Nat, order[i]? = some e.1 ∧ order[j]? = some e.2 ∧ i < j := by
  unfold isTopoOrder at h
  simp only [Bool.and_eq_true, beq_iff_eq, List.all_eq_true] at h
  obtain ⟨⟨h1, h2⟩, h3⟩ := h
  refine ⟨nodup_of_eraseDups_length order h2, ?_, ?_⟩
  · intro n
    have hp : order.Perm g.nodes := by
      have := (sortNat_perm order).symm.trans (h1 ▸ sortNat_perm g.nodes)
      exact this
    exact hp.mem_iff
  · intro e he
    have := h3 e he
    cases hi : order.idxOf? e.1 with
    | none => simp [hi] at this
    | some i =>
      cases hj : order.idxOf? e.2 with
      | none => simp [hi, hj] at this
      | some j =>
        simp only [hi, hj, decide_eq_true_eq] at this
        rw [List.idxOf?_eq_some_iff] at hi hj
        obtain ⟨hil, hie, _⟩ := hi
        obtain ⟨hjl, hje, _⟩ := hj
        exact ⟨i, j, by rw [List.getElem?_eq_getElem hil, hie], by rw [List.getElem?_eq_getElem hjl, hje], this⟩

/-! ### execution order, stream discipline -/

theorem executionOrder_spec' (sortOrder t₁ t₂ : List Nat) (h : ∀ n, n ∈ t₁ ↔ n ∈ t₂) :
    executionOrder sortOrder t₁ = executionOrder sortOrder t₂ ∧
    (executionOrder sortOrder t₁).Sublist sortOrder ∧
    ∀ n, n ∈ executionOrder sortOrder t₁ ↔ n ∈ sortOrder ∧ n ∈ t₁ := by
  unfold executionOrder
  refine ⟨?_, List.filter_sublist, ?_⟩
  · apply List.filter_congr
    intro n _
    have := h n
    by_cases h1 : n ∈ t₁
    · simp [h1, this.mp h1]
    · have h2 : n ∉ t₂ := fun h2 => h1 (this.mpr h2)
      simp [h1, h2]
  · intro n
    simp [List.mem_filter]

theorem runOrder_append' (S : Sem Val Gen) (nodes : Nat → Option ENode) (stored : Nat → Option Val)
    (l₁ l₂ : List Nat) (env : List (Nat × Val)) (g : Gen) :
    runOrder S nodes stored (l₁ ++ l₂) env g =
      (runOrder S nodes stored l₁ env g).bind (fun r => runOrder S nodes stored l₂ r.1 r.2) := by
  induction l₁ generalizing env g with
  | nil => simp [runOrder]
  | cons n rest ih =>
    simp only [List.cons_append, runOrder]
    split
    · exact ih _ _
    · split
      · rfl
      · split
        · rfl
        · split <;> exact ih _ _

theorem runOrder_gen_untouched' (S : Sem Val Gen) (nodes : Nat → Option ENode) (stored : Nat → Option Val)
    (l : List Nat) (env env' : List (Nat × Val)) (g g' : Gen)
    (hdet : ∀ n ∈ l, (stored n).isSome = true ∨ ∃ x, nodes n = some x ∧ x.stochastic = false)
    (h : runOrder S nodes stored l env g = some (env', g')) : g' = g := by
  induction l generalizing env g with
  | nil =>
    simp only [runOrder, Option.some.injEq, Prod.mk.injEq] at h
    exact h.2.symm
  | cons n rest ih =>
    have hrest : ∀ m ∈ rest, (stored m).isSome = true ∨ ∃ x, nodes m = some x ∧ x.stochastic = false :=
      fun m hm => hdet m (List.mem_cons_of_mem _ hm)
    have hn := hdet n List.mem_cons_self
    simp only [runOrder] at h
    cases hs : stored n with
    | some v =>
      simp only [hs] at h
      exact ih _ _ hrest h
    | none =>
      simp only [hs] at h
      rcases hn with hn | ⟨x, hx, hxs⟩
      · simp [hs] at hn
      · simp only [hx] at h
        cases hm : x.parents.mapM (lookup env) with
        | none => simp [hm] at h
        | some args =>
          simp only [hm, hxs] at h
          exact ih _ _ hrest h

/-! ### pool transparency -/

/-- value and new generator state of a node that runs -/
def stepVal (S : Sem Val Gen) (x : ENode) (n : Nat) (args : List Val) (g : Gen) : Val × Gen :=
  if x.stochastic then S.sto n args g else (S.det n args, g)

theorem runOrder_cons_stored (S : Sem Val Gen) (nodes : Nat → Option ENode) (stored : Nat → Option Val)
    (n : Nat) (rest : List Nat) (env : List (Nat × Val)) (g : Gen) (v : Val) (h : stored n = some v) :
    runOrder S nodes stored (n :: rest) env g = runOrder S nodes stored rest (env ++ [(n, v)]) g := by
  simp only [runOrder, h]

theorem runOrder_cons_run (S : Sem Val Gen) (nodes : Nat → Option ENode) (stored : Nat → Option Val)
    (n : Nat) (rest : List Nat) (env : List (Nat × Val)) (g : Gen) (x : ENode) (args : List Val)
    (hs : stored n = none) (hx : nodes n = some x) (hm : x.parents.mapM (lookup env) = some args) :
    runOrder S nodes stored (n :: rest) env g =
      runOrder S nodes stored rest (env ++ [(n, (stepVal S x n args g).1)]) (stepVal S x n args g).2 := by
  simp only [runOrder, hs, hx, hm, stepVal]
  split <;> rfl

theorem runOrder_cons_inv (S : Sem Val Gen) (nodes : Nat → Option ENode) (stored : Nat → Option Val)
    (n : Nat) (rest : List Nat) (env : List (Nat × Val)) (g : Gen) (r : List (Nat × Val) × Gen)
    (hs : stored n = none) (h : runOrder S nodes stored (n :: rest) env g = some r) :
    ∃ x args, nodes n = some x ∧ x.parents.mapM (lookup env) = some args := by
  simp only [runOrder, hs] at h
  split at h
  · simp at h
  · rename_i x hx
    split at h
    · simp at h
    · rename_i args hm
      exact ⟨x, args, hx, hm⟩

theorem lookup_append_single (env : List (Nat × Val)) (n : Nat) (v : Val) (p : Nat) :
    lookup (env ++ [(n, v)]) p = (lookup env p).or (if n = p then some v else none) := by
  unfold lookup
  rw [List.find?_append]
  cases env.find? (fun q => q.1 == p) with
  | some q => simp
  | none =>
    by_cases h : n = p <;> simp [h]

theorem mapM_lookup_congr (f f' : Nat → Option Val) (ps : List Nat) (args : List Val)
    (h : ps.mapM f = some args) (hf : ∀ p ∈ ps, ∀ v, f p = some v → f' p = some v) :
    ps.mapM f' = some args := by
  induction ps generalizing args with
  | nil => simpa using h
  | cons p ps ih =>
    simp only [List.mapM_cons] at h ⊢
    cases hp : f p with
    | none => simp [hp] at h
    | some v =>
      cases hq : ps.mapM f with
      | none => simp [hp, hq] at h
      | some vs =>
        simp [hp, hq] at h
        rw [hf p List.mem_cons_self v hp, ih vs hq (fun q hq' => hf q (List.mem_cons_of_mem _ hq'))]
        simp [h]

theorem mapM_some_mem (f : Nat → Option Val) (ps : List Nat) (args : List Val)
    (h : ps.mapM f = some args) : ∀ p ∈ ps, (f p).isSome = true := by
  induction ps generalizing args with
  | nil => simp
  | cons p ps ih =>
    simp only [List.mapM_cons] at h
    cases hp : f p with
    | none => simp [hp] at h
    | some v =>
      cases hq : ps.mapM f with
      | none => simp [hp, hq] at h
      | some vs =>
        intro q hq'
        rcases List.mem_cons.mp hq' with rfl | hq'
        · simp [hp]
        · exact ih vs hq q hq'

/-- bindings are never shadowed or removed by running more nodes -/
theorem runOrder_lookup_mono (S : Sem Val Gen) (nodes : Nat → Option ENode) (stored : Nat → Option Val)
    (l : List Nat) (env envEnd : List (Nat × Val)) (g gEnd : Gen)
    (h : runOrder S nodes stored l env g = some (envEnd, gEnd)) (p : Nat) (v : Val)
    (hp : lookup env p = some v) : lookup envEnd p = some v := by
  induction l generalizing env g with
  | nil =>
    simp only [runOrder, Option.some.injEq, Prod.mk.injEq] at h
    rw [← h.1]; exact hp
  | cons n rest ih =>
    have hstep : ∀ w, lookup (env ++ [(n, w)]) p = some v := by
      intro w; rw [lookup_append_single, hp]; rfl
    cases hs : stored n with
    | some w =>
      rw [runOrder_cons_stored S nodes stored n rest env g w hs] at h
      exact ih _ _ h (hstep w)
    | none =>
      obtain ⟨x, args, hx, hm⟩ := runOrder_cons_inv S nodes stored n rest env g _ hs h
      rw [runOrder_cons_run S nodes stored n rest env g x args hs hx hm] at h
      exact ih _ _ h (hstep _)


theorem lookup_ext_both (e e' : List (Nat × Val)) (n : Nat) (w : Val)
    (h1 : lookup e n = none) (h2 : ∀ p v, lookup e' p = some v → lookup e p = some v) :
    ∀ p v, lookup (e' ++ [(n, w)]) p = some v → lookup (e ++ [(n, w)]) p = some v := by
  intro p v h
  rw [lookup_append_single] at h ⊢
  cases h' : lookup e' p with
  | some u =>
    rw [h'] at h
    simp only [Option.some_or, Option.some.injEq] at h
    subst h
    rw [h2 p u h']; rfl
  | none =>
    rw [h'] at h
    by_cases hnp : n = p
    · subst hnp
      simp only [if_true, Option.or_some, Option.some.injEq] at h
      subst h
      rw [h1]; simp
    · simp [hnp] at h

theorem lookup_ext_left (e e' : List (Nat × Val)) (n : Nat) (w : Val)
    (h2 : ∀ p v, lookup e' p = some v → lookup e p = some v) :
    ∀ p v, lookup e' p = some v → lookup (e ++ [(n, w)]) p = some v := by
  intro p v h
  rw [lookup_append_single, h2 p v h]; rfl

theorem lookup_isSome_ext (e' : List (Nat × Val)) (n : Nat) (w : Val) (p : Nat)
    (h : (lookup e' p).isSome = true ∨ p = n) : (lookup (e' ++ [(n, w)]) p).isSome = true := by
  rw [lookup_append_single]
  rcases h with h | rfl
  · obtain ⟨u, hu⟩ := Option.isSome_iff_exists.mp h
    rw [hu]; rfl
  · cases lookup e' p <;> simp

theorem lookup_fresh_ext (e : List (Nat × Val)) (n : Nat) (w : Val) (rest : List Nat)
    (hnd : (n :: rest).Nodup) (h1 : ∀ m ∈ n :: rest, lookup e m = none) :
    ∀ m ∈ rest, lookup (e ++ [(n, w)]) m = none := by
  intro m hm
  rw [lookup_append_single, h1 m (List.mem_cons_of_mem _ hm)]
  have : n ≠ m := by
    rintro rfl
    exact (List.nodup_cons.mp hnd).1 hm
  simp [this]

theorem lookup_self_ext (e : List (Nat × Val)) (n : Nat) (w : Val) (h1 : lookup e n = none) :
    lookup (e ++ [(n, w)]) n = some w := by
  rw [lookup_append_single, h1]; simp

/-- generator phases of the simulation: in sync (and the running stochastic nodes of the pool run
    are a prefix of the stochastic nodes of the fresh run), or no stochastic node will run anymore -/
def Phase (q s : Nat → Bool) (l' l : List Nat) (gp gf : Gen) : Prop :=
  (gp = gf ∧ ∃ k, l'.filter q = (l.filter s).take k) ∨ (∀ n ∈ l', q n = false)

theorem Phase.skip {q s : Nat → Bool} {l' rest : List Nat} {n : Nat} {gp gf gf' : Gen}
    (h : Phase q s l' (n :: rest) gp gf) (hn : n ∉ l') (hg : s n = false → gf' = gf) :
    Phase q s l' rest gp gf' := by
  rcases h with ⟨rfl, k, hk⟩ | h
  · by_cases hs : s n = true
    · rw [List.filter_cons_of_pos hs] at hk
      cases k with
      | zero =>
        right
        simp only [List.take_zero, List.filter_eq_nil_iff] at hk
        intro m hm
        simpa using hk m hm
      | succ k =>
        exfalso
        rw [List.take_succ_cons] at hk
        have : n ∈ l'.filter q := by rw [hk]; exact List.mem_cons_self
        exact hn (List.mem_filter.mp this).1
    · have hs' : s n = false := by simpa using hs
      rw [List.filter_cons_of_neg hs] at hk
      left
      exact ⟨(hg hs').symm, k, hk⟩
  · right; exact h

theorem Phase.drop {q s : Nat → Bool} {l₁ l : List Nat} {n : Nat} {gp gf : Gen}
    (h : Phase q s (n :: l₁) l gp gf) (hq : q n = false) : Phase q s l₁ l gp gf := by
  rcases h with ⟨rfl, k, hk⟩ | h
  · left
    refine ⟨rfl, k, ?_⟩
    rwa [List.filter_cons_of_neg (by simp [hq])] at hk
  · right
    exact fun m hm => h m (List.mem_cons_of_mem _ hm)

theorem Phase.both {q s : Nat → Bool} {l₁ rest : List Nat} {n : Nat} {gp gf : Gen}
    (h : Phase q s (n :: l₁) (n :: rest) gp gf) (hq : q n = true) (hs : s n = true) :
    gp = gf ∧ ∀ g'' : Gen, Phase q s l₁ rest g'' g'' := by
  rcases h with ⟨rfl, k, hk⟩ | h
  · refine ⟨rfl, fun g'' => ?_⟩
    rw [List.filter_cons_of_pos hq, List.filter_cons_of_pos hs] at hk
    cases k with
    | zero => simp at hk
    | succ k =>
      rw [List.take_succ_cons] at hk
      left
      exact ⟨rfl, k, (List.cons.inj hk).2⟩
  · have := h n List.mem_cons_self
    rw [hq] at this
    exact absurd this (by simp)

theorem stepVal_det (S : Sem Val Gen) (x : ENode) (n : Nat) (args : List Val) (g : Gen)
    (h : x.stochastic = false) : stepVal S x n args g = (S.det n args, g) := by
  simp [stepVal, h]

theorem isSto_eq (nodes : Nat → Option ENode) (n : Nat) (x : ENode) (hx : nodes n = some x) :
    isSto nodes n = x.stochastic := by
  simp [isSto, hx]


theorem pool_sim (S : Sem Val Gen) (nodes : Nat → Option ENode) (stored : Nat → Option Val)
    (env₀ : List (Nat × Val)) (gEnd : Gen)
    (hstored : ∀ n v, stored n = some v → lookup env₀ n = some v)
    (l' l : List Nat) (hsub : l'.Sublist l) :
    ∀ (e e' : List (Nat × Val)) (gf gp : Gen),
      runOrder S nodes (fun _ => none) l e gf = some (env₀, gEnd) →
      l.Nodup →
      (∀ n ∈ l, lookup e n = none) →
      (∀ p v, lookup e' p = some v → lookup e p = some v) →
      (∀ n ∈ l', stored n = none → ∀ x, nodes n = some x → ∀ p ∈ x.parents,
          p ∈ l' ∨ (lookup e' p).isSome = true) →
      Phase (fun n => isSto nodes n && (stored n).isNone) (isSto nodes) l' l gp gf →
      ∃ env' g', runOrder S nodes stored l' e' gp = some (env', g') ∧
        (∀ p v, lookup env' p = some v → lookup env₀ p = some v) ∧
        (∀ p, ((lookup e' p).isSome = true ∨ p ∈ l') → (lookup env' p).isSome = true) := by
  induction hsub with
  | slnil =>
    intro e e' gf gp hrun _ _ hI2 _ _
    simp only [runOrder, Option.some.injEq, Prod.mk.injEq] at hrun
    obtain ⟨rfl, rfl⟩ := hrun
    refine ⟨e', gp, by simp [runOrder], hI2, ?_⟩
    intro p hp
    simpa using hp
  | @cons l₁ rest n hsub ih =>
    intro e e' gf gp hrun hnd hI1 hI2 hI3 hph
    obtain ⟨x, args, hx, hm⟩ := runOrder_cons_inv S nodes (fun _ => none) n rest e gf _ rfl hrun
    rw [runOrder_cons_run S nodes (fun _ => none) n rest e gf x args rfl hx hm] at hrun
    have hn : n ∉ l₁ := fun h => (List.nodup_cons.mp hnd).1 (hsub.subset h)
    refine ih _ e' _ gp hrun (List.nodup_cons.mp hnd).2 (lookup_fresh_ext e n _ rest hnd hI1)
      (lookup_ext_left e e' n _ hI2) hI3 (hph.skip hn ?_)
    intro hs
    rw [isSto_eq nodes n x hx] at hs
    rw [stepVal_det S x n args gf hs]
  | @cons_cons l₁ rest n hsub ih =>
    intro e e' gf gp hrun hnd hI1 hI2 hI3 hph
    obtain ⟨x, args, hx, hm⟩ := runOrder_cons_inv S nodes (fun _ => none) n rest e gf _ rfl hrun
    rw [runOrder_cons_run S nodes (fun _ => none) n rest e gf x args rfl hx hm] at hrun
    have hn : n ∉ l₁ := fun h => (List.nodup_cons.mp hnd).1 (hsub.subset h)
    have hnd' := (List.nodup_cons.mp hnd).2
    have hI1n : lookup e n = none := hI1 n List.mem_cons_self
    have hI3' : ∀ w : Val, ∀ m ∈ l₁, stored m = none → ∀ y, nodes m = some y → ∀ p ∈ y.parents,
        p ∈ l₁ ∨ (lookup (e' ++ [(n, w)]) p).isSome = true := by
      intro w m hm' hsm y hy p hp
      rcases hI3 m (List.mem_cons_of_mem _ hm') hsm y hy p hp with h | h
      · rcases List.mem_cons.mp h with rfl | h
        · right; exact lookup_isSome_ext e' _ w _ (Or.inr rfl)
        · left; exact h
      · right; exact lookup_isSome_ext e' n w p (Or.inl h)
    have hC2 : ∀ (w : Val) (env' : List (Nat × Val)),
        (∀ p, ((lookup (e' ++ [(n, w)]) p).isSome = true ∨ p ∈ l₁) → (lookup env' p).isSome = true) →
        ∀ p, ((lookup e' p).isSome = true ∨ p ∈ n :: l₁) → (lookup env' p).isSome = true := by
      intro w env' hC p hp
      rcases hp with hp | hp
      · exact hC p (Or.inl (lookup_isSome_ext e' n w p (Or.inl hp)))
      · rcases List.mem_cons.mp hp with rfl | hp
        · exact hC _ (Or.inl (lookup_isSome_ext e' _ w _ (Or.inr rfl)))
        · exact hC p (Or.inr hp)
    cases hs : stored n with
    | some v =>
      -- the stored value is the fresh value
      have hv : v = (stepVal S x n args gf).1 := by
        have h1 := hstored n v hs
        have h2 := runOrder_lookup_mono S nodes _ rest _ env₀ _ gEnd hrun n _
          (lookup_self_ext e n (stepVal S x n args gf).1 hI1n)
        rw [h1] at h2
        exact Option.some.inj h2
      have hq : (fun n => isSto nodes n && (stored n).isNone) n = false := by simp [hs]
      have hph' : Phase (fun n => isSto nodes n && (stored n).isNone) (isSto nodes) l₁ rest gp
          (stepVal S x n args gf).2 := by
        refine (hph.drop hq).skip hn ?_
        intro hs'
        rw [isSto_eq nodes n x hx] at hs'
        rw [stepVal_det S x n args gf hs']
      obtain ⟨env', g', hrun', hC1, hC2'⟩ := ih _ (e' ++ [(n, v)]) _ gp hrun hnd'
        (lookup_fresh_ext e n _ rest hnd hI1)
        (hv ▸ lookup_ext_both e e' n v hI1n hI2) (hI3' v) hph'
      refine ⟨env', g', ?_, hC1, hC2 v env' hC2'⟩
      rw [runOrder_cons_stored S nodes stored n l₁ e' gp v hs]
      exact hrun'
    | none =>
      -- the node runs in the pool run too; its arguments are the fresh ones
      have hm' : x.parents.mapM (lookup e') = some args := by
        refine mapM_lookup_congr (lookup e) (lookup e') x.parents args hm ?_
        intro p hp v hv
        rcases hI3 n List.mem_cons_self hs x hx p hp with h | h
        · have : p ∈ n :: rest := (hsub.cons_cons n).subset h
          rw [hI1 p this] at hv
          exact absurd hv (by simp)
        · obtain ⟨u, hu⟩ := Option.isSome_iff_exists.mp h
          have := hI2 p u hu
          rw [hv] at this
          rw [hu, Option.some.inj this]
      rw [runOrder_cons_run S nodes stored n l₁ e' gp x args hs hx hm']
      cases hst : x.stochastic with
      | false =>
        have hq : (fun n => isSto nodes n && (stored n).isNone) n = false := by
          simp [isSto_eq nodes n x hx, hst]
        have hph' : Phase (fun n => isSto nodes n && (stored n).isNone) (isSto nodes) l₁ rest gp gf :=
          (hph.drop hq).skip hn (fun _ => rfl)
        rw [stepVal_det S x n args gf hst] at hrun
        rw [stepVal_det S x n args gp hst]
        obtain ⟨env', g', hrun', hC1, hC2'⟩ := ih _ (e' ++ [(n, S.det n args)]) _ gp hrun hnd'
          (lookup_fresh_ext e n _ rest hnd hI1)
          (lookup_ext_both e e' n _ hI1n hI2) (hI3' _) hph'
        exact ⟨env', g', hrun', hC1, hC2 _ env' hC2'⟩
      | true =>
        have hq : (fun n => isSto nodes n && (stored n).isNone) n = true := by
          simp [isSto_eq nodes n x hx, hst, hs]
        obtain ⟨rfl, hph'⟩ := hph.both hq (by rw [isSto_eq nodes n x hx, hst])
        obtain ⟨env', g', hrun', hC1, hC2'⟩ := ih _ (e' ++ [(n, (stepVal S x n args gp).1)]) _
          (stepVal S x n args gp).2 hrun hnd'
          (lookup_fresh_ext e n _ rest hnd hI1)
          (lookup_ext_both e e' n _ hI1n hI2) (hI3' _) (hph' _)
        exact ⟨env', g', hrun', hC1, hC2 _ env' hC2'⟩

theorem pool_transparent' (S : Sem Val Gen) (nodes : Nat → Option ENode) (stored : Nat → Option Val)
    (order order' : List Nat) (g gEnd : Gen) (env₀ : List (Nat × Val))
    (hfresh : runOrder S nodes (fun _ => none) order [] g = some (env₀, gEnd))
    (hnodup : order.Nodup) (hsub : order'.Sublist order)
    (hstored : ∀ n v, stored n = some v → lookup env₀ n = some v)
    (hclosed : ∀ n ∈ order', stored n = none → ∀ x, nodes n = some x → ∀ p ∈ x.parents, p ∈ order')
    (hprefix : ∃ k, order'.filter (fun n => isSto nodes n && (stored n).isNone) =
        (order.filter (isSto nodes)).take k) :
    ∃ env' g', runOrder S nodes stored order' [] g = some (env', g') ∧
      ∀ n ∈ order', lookup env' n = lookup env₀ n := by
  obtain ⟨env', g', hrun, hC1, hC2⟩ := pool_sim S nodes stored env₀ gEnd hstored order' order hsub
    [] [] g g hfresh hnodup (fun _ _ => rfl) (fun _ _ h => h)
    (fun n hn hs x hx p hp => Or.inl (hclosed n hn hs x hx p hp)) (Or.inl ⟨rfl, hprefix⟩)
  refine ⟨env', g', hrun, ?_⟩
  intro n hn
  obtain ⟨v, hv⟩ := Option.isSome_iff_exists.mp (hC2 n (Or.inr hn))
  rw [hv, hC1 n v hv]

/-! ### stored nodes, context, store -/

theorem stored_never_runs' (S S' : Sem Val Gen) (nodes : Nat → Option ENode) (stored : Nat → Option Val)
    (hdet : ∀ n, stored n = none → S.det n = S'.det n) (hsto : ∀ n, stored n = none → S.sto n = S'.sto n)
    (l : List Nat) (env : List (Nat × Val)) (g : Gen) :
    runOrder S nodes stored l env g = runOrder S' nodes stored l env g := by
  induction l generalizing env g with
  | nil => simp [runOrder]
  | cons n rest ih =>
    simp only [runOrder]
    split
    · exact ih _ _
    · rename_i hs
      split
      · rfl
      · split
        · rfl
        · simp only [hdet n hs, hsto n hs]
          split <;> exact ih _ _

theorem context_mismatch_rejected' (pc : PoolCtx) (b sd : Nat) (seed batchSize : Option Nat) (d : Nat) :
    (b ≠ pc.batchSize → makeContext (some b) seed (some (some pc)) d = .error .valueError) ∧
    (sd ≠ pc.seed → makeContext batchSize (some sd) (some (some pc)) d = .error .valueError) ∧
    makeContext none none (some (some pc)) d = .ok (pc.batchSize, pc.seed, some pc) ∧
    makeContext (some pc.batchSize) (some pc.seed) (some (some pc)) d = .ok (pc.batchSize, pc.seed, some pc) := by
  refine ⟨?_, ?_, ?_, ?_⟩
  · intro hb
    cases seed <;> simp [makeContext, hb]
  · intro hs
    cases batchSize with
    | none => simp [makeContext, hs]
    | some b' =>
      by_cases hb : b' = pc.batchSize <;> simp [makeContext, hs, hb]
  · simp [makeContext]
  · simp [makeContext]

theorem add_batch_keeps' (store : List (Nat × Val)) (idx i : Nat) (v : Val) :
    (lookup store i).isSome = true → lookup (addBatch store idx v) i = lookup store i := by
  intro h
  unfold addBatch
  split
  · rfl
  · unfold lookup at h ⊢
    rw [List.find?_append]
    cases hf : store.find? (fun p => p.1 == i) with
    | none => simp [hf] at h
    | some p => simp

theorem add_batch_records' (store : List (Nat × Val)) (idx : Nat) (v : Val)
    (h : lookup store idx = none) : lookup (addBatch store idx v) idx = some v := by
  unfold lookup at h
  simp only [Option.map_eq_none_iff] at h
  unfold addBatch
  have hany : store.any (fun p => p.1 == idx) = false := by
    rw [List.find?_eq_none] at h
    rw [List.any_eq_false]
    exact h
  simp only [hany, Bool.false_eq_true, if_false]
  unfold lookup
  rw [List.find?_append, h]
  simp

end ElfiVerif.Exec
