import ElfiVerif.Model.GraphEdit
import Mathlib.Data.List.Basic
import Mathlib.Data.List.Nodup
import Mathlib.Tactic.Linarith

/-! Specification vocabulary and proofs for C14 (statements are repeated in Props/C14.lean). -/
namespace ElfiVerif.GraphEdit

/-- well-formed model: distinct node names, edges join existing nodes, observed data belongs to
    existing nodes -/
def WF (m : Model) : Prop :=
  (m.nodes.map (·.1)).Nodup ∧
  (∀ e ∈ m.edges, m.has e.src = true ∧ m.has e.dst = true) ∧
  (∀ p ∈ m.observed, m.has p.1 = true)

/-- private (`_`-named) nodes are constants: they are never the child of an edge -/
def PrivLeaves (m : Model) : Prop := ∀ e ∈ m.edges, e.dst.priv = false

/-- heap well-formedness for a model handle: its references are allocated (below `next`) and the
    node references are pairwise distinct -/
def HeapOK (h : Heap) (m : Handle) : Prop :=
  (∀ p ∈ m.nodeRef, p.2 < h.next) ∧ m.obsRef < h.next ∧
  (∀ p ∈ h.attr, p.1 < h.next) ∧ (∀ p ∈ h.obs, p.1 < h.next)

/-! ### basic lemmas -/

theorem has_iff_mem (m : Model) (n : Name) : m.has n = true ↔ n ∈ m.nodes.map (·.1) := by
  unfold Model.has
  simp only [List.any_eq_true, beq_iff_eq, List.mem_map]

theorem has_false_iff (m : Model) (n : Name) : m.has n = false ↔ n ∉ m.nodes.map (·.1) := by
  rw [← has_iff_mem]; simp

theorem has_of_nodes_eq {m m' : Model} (h : m'.nodes = m.nodes) (x : Name) : m'.has x = m.has x := by
  unfold Model.has; rw [h]

theorem has_of_sublist {m m' : Model} (h : m'.nodes.Sublist m.nodes) {x : Name} (hx : m'.has x = true) :
    m.has x = true := by
  rw [has_iff_mem] at hx ⊢
  exact (h.map _).subset hx

theorem has_dropNode (m : Model) (n x : Name) :
    (m.dropNode n).has x = true ↔ (m.has x = true ∧ x ≠ n) := by
  simp only [has_iff_mem, Model.dropNode, List.mem_map, List.mem_filter]
  constructor
  · rintro ⟨p, ⟨hp, hne⟩, rfl⟩
    exact ⟨⟨p, hp, rfl⟩, by simpa using hne⟩
  · rintro ⟨⟨p, hp, rfl⟩, hne⟩
    exact ⟨p, ⟨hp, by simpa using hne⟩, rfl⟩

theorem has_dropNode_self (m : Model) (n : Name) : (m.dropNode n).has n = false := by
  cases h : (m.dropNode n).has n with
  | false => rfl
  | true => exact absurd rfl ((has_dropNode m n n).1 h).2

theorem wf_dropNode (m : Model) (n : Name) (h : WF m) : WF (m.dropNode n) := by
  obtain ⟨h1, h2, h3⟩ := h
  refine ⟨?_, ?_, ?_⟩
  · exact h1.sublist (List.filter_sublist.map _)
  · intro e he
    simp only [Model.dropNode, List.mem_filter, Bool.not_eq_true', Bool.or_eq_false_iff,
      beq_eq_false_iff_ne, ne_eq] at he
    obtain ⟨he, hs, hd⟩ := he
    exact ⟨(has_dropNode m n _).2 ⟨(h2 e he).1, hs⟩, (has_dropNode m n _).2 ⟨(h2 e he).2, hd⟩⟩
  · intro p hp
    simp only [Model.dropNode, List.mem_filter, Bool.not_eq_true', beq_eq_false_iff_ne, ne_eq] at hp
    exact (has_dropNode m n _).2 ⟨h3 p hp.1, hp.2⟩

theorem degree_eq_zero_iff (m : Model) (x : Name) :
    m.degree x = 0 ↔ ∀ e ∈ m.edges, e.src ≠ x ∧ e.dst ≠ x := by
  unfold Model.degree
  rw [List.length_eq_zero_iff, List.filter_eq_nil_iff]
  constructor
  · intro h e he
    have := h e he
    simpa using this
  · intro h e he
    have := h e he
    simpa using this

theorem degree_of_edges_eq {m m' : Model} (h : m'.edges = m.edges) (x : Name) :
    m'.degree x = m.degree x := by
  unfold Model.degree; rw [h]

theorem dropNode_edges_of_degree_zero (m : Model) (p : Name) (h : m.degree p = 0) :
    (m.dropNode p).edges = m.edges := by
  rw [degree_eq_zero_iff] at h
  simp only [Model.dropNode]
  rw [List.filter_eq_self]
  intro e he
  have := h e he
  simpa using this

theorem mem_insertSorted (x y : Nat × Name) (l : List (Nat × Name)) :
    y ∈ insertSorted x l ↔ y = x ∨ y ∈ l := by
  induction l with
  | nil => simp [insertSorted]
  | cons z zs ih =>
    unfold insertSorted
    split
    · simp
    · simp only [List.mem_cons, ih]; tauto

theorem mem_foldr_insertSorted (y : Nat × Name) (l : List (Nat × Name)) :
    y ∈ l.foldr insertSorted [] ↔ y ∈ l := by
  induction l with
  | nil => simp
  | cons z zs ih => simp only [List.foldr_cons, mem_insertSorted, ih, List.mem_cons]

theorem mem_parents (m : Model) (n x : Name) (h : x ∈ m.parents n) :
    ∃ i, (⟨x, n, .pos i⟩ : Edge) ∈ m.edges := by
  unfold Model.parents at h
  rw [List.mem_map] at h
  obtain ⟨⟨i, y⟩, hy, rfl⟩ := h
  rw [mem_foldr_insertSorted, List.mem_filterMap] at hy
  obtain ⟨e, he, hy⟩ := hy
  refine ⟨i, ?_⟩
  obtain ⟨s, d, prm⟩ := e
  split at hy
  · rename_i hd
    have hd' : d = n := by simpa using hd
    cases prm with
    | pos j =>
      simp only [Option.some.injEq, Prod.mk.injEq] at hy
      obtain ⟨rfl, rfl⟩ := hy
      subst hd'
      exact he
    | named k => simp at hy
  · simp at hy

theorem parents_eq_nil_of_degree_zero (m : Model) (p : Name) (h : m.degree p = 0) : m.parents p = [] := by
  rw [degree_eq_zero_iff] at h
  unfold Model.parents
  rw [List.map_eq_nil_iff]
  have key : ∀ (f : Edge → Option (Nat × Name)), (∀ e ∈ m.edges, f e = none) →
      (m.edges.filterMap f).foldr insertSorted [] = [] := by
    intro f hf
    rw [List.filterMap_eq_nil_iff.2 hf]; rfl
  apply key
  intro e he
  have := (h e he).2
  simp [this]

theorem removeNode_of_degree_zero (fuel : Nat) (m : Model) (p : Name) (h : m.degree p = 0) :
    m.removeNode fuel p = m.dropNode p := by
  cases fuel with
  | zero => rfl
  | succ f => simp only [Model.removeNode, parents_eq_nil_of_degree_zero m p h, List.foldl_nil]


/-- what `removeNode` does, relative to `m1 = m.dropNode n` and the parent list `P` of `n`:
    edges are exactly those of `m1`; nodes/observed are sublists; a node that disappeared is a
    private parent that has no edge in `m1` -/
structure Rem (m1 : Model) (P : List Name) (acc : Model) : Prop where
  edges : acc.edges = m1.edges
  nodes : acc.nodes.Sublist m1.nodes
  obs : acc.observed.Sublist m1.observed
  obsHas : ∀ o ∈ acc.observed, acc.has o.1 = true
  gone : ∀ x, m1.has x = true → acc.has x = false → x.priv = true ∧ m1.degree x = 0 ∧ x ∈ P

theorem Rem.refl (m1 : Model) (P : List Name) (h : WF m1) : Rem m1 P m1 :=
  ⟨rfl, List.Sublist.refl _, List.Sublist.refl _, h.2.2, fun x hx hx' => by rw [hx] at hx'; cases hx'⟩

theorem Rem.step {m1 : Model} {P : List Name} {acc : Model} (fuel : Nat) (p : Name) (hp : p ∈ P)
    (h : Rem m1 P acc) :
    Rem m1 P (if p.priv && acc.has p && acc.degree p == 0 then Model.removeNode fuel acc p else acc) := by
  split
  · rename_i hc
    simp only [Bool.and_eq_true, beq_iff_eq] at hc
    obtain ⟨⟨hpriv, hhas⟩, hdeg⟩ := hc
    rw [removeNode_of_degree_zero fuel acc p hdeg]
    have hdeg1 : m1.degree p = 0 := by rw [← degree_of_edges_eq h.edges p]; exact hdeg
    refine ⟨?_, ?_, ?_, ?_, ?_⟩
    · rw [dropNode_edges_of_degree_zero acc p hdeg]; exact h.edges
    · exact List.filter_sublist.trans h.nodes
    · exact List.filter_sublist.trans h.obs
    · intro o ho
      simp only [Model.dropNode, List.mem_filter, Bool.not_eq_true', beq_eq_false_iff_ne, ne_eq] at ho
      exact (has_dropNode acc p _).2 ⟨h.obsHas o ho.1, ho.2⟩
    · intro x hx hx'
      by_cases hxp : x = p
      · subst hxp; exact ⟨hpriv, hdeg1, hp⟩
      · apply h.gone x hx
        cases hax : acc.has x with
        | false => rfl
        | true =>
          rw [(has_dropNode acc p x).2 ⟨hax, hxp⟩] at hx'
          cases hx'
  · exact h

theorem Rem.fold {m1 : Model} {P : List Name} (fuel : Nat) (ps : List Name) (hps : ∀ p ∈ ps, p ∈ P) :
    ∀ acc, Rem m1 P acc →
    Rem m1 P (ps.foldl (fun acc p =>
      if p.priv && acc.has p && acc.degree p == 0 then Model.removeNode fuel acc p else acc) acc) := by
  induction ps with
  | nil => intro acc h; exact h
  | cons p ps ih =>
    intro acc h
    rw [List.foldl_cons]
    exact ih (fun q hq => hps q (List.mem_cons_of_mem _ hq)) _
      (Rem.step fuel p (hps p List.mem_cons_self) h)

theorem removeNode_rem (fuel : Nat) (m : Model) (n : Name) (h : WF m) :
    Rem (m.dropNode n) (m.parents n) (m.removeNode fuel n) := by
  cases fuel with
  | zero => exact Rem.refl _ _ (wf_dropNode m n h)
  | succ f =>
    simp only [Model.removeNode]
    exact Rem.fold f _ (fun p hp => hp) _ (Rem.refl _ _ (wf_dropNode m n h))

theorem Rem.has_of_has {m1 : Model} {P : List Name} {acc : Model} (h : Rem m1 P acc) {x : Name}
    (hx : acc.has x = true) : m1.has x = true := has_of_sublist h.nodes hx

/-- a node of `m1` that carries an edge of `m1` is kept -/
theorem Rem.has_of_edge {m1 : Model} {P : List Name} {acc : Model} (h : Rem m1 P acc) {x : Name}
    (hx : m1.has x = true) {e : Edge} (he : e ∈ m1.edges) (hxe : e.src = x ∨ e.dst = x) :
    acc.has x = true := by
  cases hax : acc.has x with
  | true => rfl
  | false =>
    have := (h.gone x hx hax).2.1
    rw [degree_eq_zero_iff] at this
    have := this e he
    rcases hxe with h' | h'
    · exact absurd h' this.1
    · exact absurd h' this.2

theorem Rem.wf {m1 : Model} {P : List Name} {acc : Model} (h : Rem m1 P acc) (hwf : WF m1) : WF acc := by
  refine ⟨hwf.1.sublist (h.nodes.map _), ?_, h.obsHas⟩
  intro e he
  rw [h.edges] at he
  exact ⟨h.has_of_edge (hwf.2.1 e he).1 he (Or.inl rfl), h.has_of_edge (hwf.2.1 e he).2 he (Or.inr rfl)⟩

theorem wf_removeNode' (fuel : Nat) (m : Model) (n : Name) (h : WF m) : WF (m.removeNode fuel n) :=
  (removeNode_rem fuel m n h).wf (wf_dropNode m n h)

theorem removeNode_spec' (fuel : Nat) (m : Model) (n : Name) (h : WF m) :
    let m' := m.removeNode fuel n
    m'.has n = false ∧ (∀ p ∈ m'.observed, p.1 ≠ n) ∧
    (∀ x, m.has x = true → x ≠ n → x.priv = false → m'.has x = true) ∧
    (∀ x, m'.has x = true → m.has x = true) := by
  intro m'
  have hr : Rem (m.dropNode n) (m.parents n) m' := removeNode_rem fuel m n h
  refine ⟨?_, ?_, ?_, ?_⟩
  · cases hn : m'.has n with
    | false => rfl
    | true => exact absurd rfl ((has_dropNode m n n).1 (hr.has_of_has hn)).2
  · intro p hp
    have := hr.obs.subset hp
    simp only [Model.dropNode, List.mem_filter, Bool.not_eq_true', beq_eq_false_iff_ne, ne_eq] at this
    exact this.2
  · intro x hx hxn hpriv
    cases hx' : m'.has x with
    | true => rfl
    | false =>
      have := (hr.gone x ((has_dropNode m n x).2 ⟨hx, hxn⟩) hx').1
      rw [hpriv] at this; cases this
  · intro x hx
    exact ((has_dropNode m n x).1 (hr.has_of_has hx)).1


theorem wf_addNode' (m m' : Model) (n : Name) (a : Attr) (h : WF m) (hr : m.addNode n a = .ok m') : WF m' := by
  unfold Model.addNode at hr
  split at hr
  · cases hr
  · rename_i hn
    simp only [Except.ok.injEq] at hr
    subst hr
    have hn' : m.has n = false := by simpa using hn
    have hsub : ∀ x, m.has x = true → Model.has { m with nodes := m.nodes ++ [(n, a)] } x = true := by
      intro x hx
      rw [has_iff_mem] at hx ⊢
      simp only [List.map_append, List.mem_append]
      exact Or.inl hx
    refine ⟨?_, ?_, ?_⟩
    · simp only [List.map_append, List.map_cons, List.map_nil]
      rw [List.nodup_append]
      refine ⟨h.1, List.nodup_singleton _, ?_⟩
      intro x hx y hy
      simp only [List.mem_singleton] at hy
      subst hy
      rintro rfl
      exact (has_false_iff m _).1 hn' hx
    · intro e he
      exact ⟨hsub _ (h.2.1 e he).1, hsub _ (h.2.1 e he).2⟩
    · intro p hp
      exact hsub _ (h.2.2 p hp)

theorem wf_addEdge' (m m' : Model) (p c : Name) (prm : Option Param) (h : WF m)
    (hr : m.addEdge p c prm = .ok m') : WF m' := by
  unfold Model.addEdge at hr
  split at hr
  · cases hr
  · rename_i hg
    simp only [Bool.or_eq_true, Bool.not_eq_true', not_or, Bool.not_eq_false] at hg
    simp only [Except.ok.injEq] at hr
    subst hr
    refine ⟨h.1, ?_, h.2.2⟩
    intro e he
    simp only [List.mem_append, List.mem_filter, List.mem_singleton] at he
    rcases he with ⟨he, _⟩ | rfl
    · exact h.2.1 e he
    · exact ⟨hg.1, hg.2⟩

theorem become_cycle_refused' (m : Model) (node upd : Name)
    (h : m.reach m.nodes.length node upd = true) : m.updateNode node upd = .error .valueError := by
  unfold Model.updateNode
  rw [if_pos h]
  split <;> rfl


theorem insertSorted_pairwise_lt (x : Nat × Name) (l : List (Nat × Name))
    (hl : l.Pairwise (fun a b => a.1 < b.1)) (hx : ∀ y ∈ l, y.1 ≠ x.1) :
    (insertSorted x l).Pairwise (fun a b => a.1 < b.1) := by
  induction l with
  | nil => simp [insertSorted]
  | cons y ys ih =>
    rw [List.pairwise_cons] at hl
    unfold insertSorted
    split
    · rename_i hle
      have hxy : x.1 < y.1 := lt_of_le_of_ne hle (fun h => hx y List.mem_cons_self h.symm)
      rw [List.pairwise_cons]
      refine ⟨?_, List.pairwise_cons.2 hl⟩
      intro w hw
      rcases List.mem_cons.1 hw with rfl | hw
      · exact hxy
      · exact lt_trans hxy (hl.1 w hw)
    · rename_i hle
      rw [List.pairwise_cons]
      refine ⟨?_, ih hl.2 (fun w hw => hx w (List.mem_cons_of_mem _ hw))⟩
      intro w hw
      rcases (mem_insertSorted x w ys).1 hw with rfl | hw
      · omega
      · exact hl.1 w hw

theorem foldr_insertSorted_pairwise_lt (l : List (Nat × Name)) (hl : (l.map (·.1)).Nodup) :
    (l.foldr insertSorted []).Pairwise (fun a b => a.1 < b.1) := by
  induction l with
  | nil => simp
  | cons z zs ih =>
    simp only [List.map_cons, List.nodup_cons] at hl
    rw [List.foldr_cons]
    apply insertSorted_pairwise_lt _ _ (ih hl.2)
    intro y hy heq
    rw [mem_foldr_insertSorted] at hy
    exact hl.1 (heq ▸ List.mem_map_of_mem hy)

theorem parameter_names_sorted_exact' (m : Model) (h : WF m) (hid : ∀ a ∈ m.nodes, ∀ b ∈ m.nodes, a.1.id = b.1.id → a = b) :
    m.parameterNames.Pairwise (· < ·) ∧
    ∀ i, i ∈ m.parameterNames ↔ ∃ p ∈ m.nodes, p.1.id = i ∧ p.2.parameter = true := by
  unfold Model.parameterNames
  constructor
  · rw [List.pairwise_map]
    apply foldr_insertSorted_pairwise_lt
    rw [List.map_map]
    have hnd : m.nodes.Nodup := List.Nodup.of_map _ h.1
    apply List.Nodup.map_on _ (hnd.filter _)
    intro a ha b hb hab
    exact hid a (List.mem_filter.1 ha).1 b (List.mem_filter.1 hb).1 hab
  · intro i
    simp only [List.mem_map, mem_foldr_insertSorted, List.mem_filter]
    constructor
    · rintro ⟨q, ⟨p, ⟨hp, hflag⟩, rfl⟩, rfl⟩
      exact ⟨p, hp, rfl, hflag⟩
    · rintro ⟨p, hp, rfl, hflag⟩
      exact ⟨_, ⟨p, ⟨hp, hflag⟩, rfl⟩, rfl⟩


/-! ### `updateNode` -/

theorem reach_of_edge (m : Model) (k : Nat) (e : Edge) (he : e ∈ m.edges) :
    m.reach (k + 1) e.src e.dst = true := by
  unfold Model.reach
  rw [List.any_eq_true]
  exact ⟨e, he, by simp⟩

theorem wf_appendNode (m : Model) (n : Name) (a : Attr) (h : WF m) (hn : m.has n = false) :
    WF { m with nodes := m.nodes ++ [(n, a)] } := by
  apply wf_addNode' m _ n a h
  unfold Model.addNode
  rw [hn]; rfl

theorem has_appendNode (m : Model) (n : Name) (a : Attr) (es : List Edge) (x : Name) :
    Model.has { m with nodes := m.nodes ++ [(n, a)], edges := es } x = true ↔ (m.has x = true ∨ x = n) := by
  simp only [has_iff_mem, List.map_append, List.mem_append, List.map_cons, List.map_nil,
    List.mem_singleton]

theorem wf_appendEdges (m : Model) (es : List Edge) (h : WF m)
    (hes : ∀ e ∈ es, m.has e.src = true ∧ m.has e.dst = true) :
    WF { m with edges := m.edges ++ es } := by
  refine ⟨h.1, ?_, h.2.2⟩
  intro e he
  rcases List.mem_append.1 he with he | he
  · exact h.2.1 e he
  · exact hes e he

def upd0 (m : Model) (upd : Name) : Model :=
  { m with observed := m.observed.filter (fun p => !(p.1 == upd)) }

def upd1 (m : Model) (node upd : Name) : Model :=
  (upd0 m upd).removeNode (upd0 m upd).nodes.length node

def upd2 (m : Model) (node upd : Name) (a : Attr) : Model :=
  { upd1 m node upd with
    nodes := (upd1 m node upd).nodes ++ [(node, a)]
    edges := (upd1 m node upd).edges ++
      ((upd0 m upd).edges.filter (fun e => e.src == node)).filter (fun e => (upd1 m node upd).has e.dst) }

def upd3 (m : Model) (node upd : Name) (a : Attr) : Model :=
  { upd2 m node upd a with
    edges := (upd2 m node upd a).edges ++
      ((upd2 m node upd a).edges.filter (fun e => e.dst == upd)).map (fun e => ⟨e.src, node, e.param⟩) }

def upd4 (m : Model) (node upd : Name) (a : Attr) : Model :=
  (upd3 m node upd a).removeNode (upd3 m node upd a).nodes.length upd

theorem updateNode_ok {m m' : Model} {node upd : Name} (hr : m.updateNode node upd = .ok m') :
    m.has node = true ∧ m.has upd = true ∧ node ≠ upd ∧ m.reach m.nodes.length node upd = false ∧
    ∃ a, m.attr upd = some a ∧
      m' = (match m.observed.find? (fun p => p.1 == upd) with
        | some o => { upd4 m node upd a with observed := (upd4 m node upd a).observed ++ [(node, o.2)] }
        | none => upd4 m node upd a) := by
  unfold Model.updateNode at hr
  split at hr
  · cases hr
  · rename_i hg
    split at hr
    · cases hr
    · rename_i hreach
      split at hr
      · cases hr
      · rename_i a ha
        simp only [Bool.or_eq_true, Bool.not_eq_true', not_or, Bool.not_eq_false, beq_iff_eq] at hg
        simp only [Except.ok.injEq] at hr
        refine ⟨hg.1.1, hg.1.2, hg.2, by simpa using hreach, a, ha, ?_⟩
        exact hr.symm


theorem wf_upd0 (m : Model) (upd : Name) (h : WF m) : WF (upd0 m upd) :=
  ⟨h.1, h.2.1, fun p hp => h.2.2 p (List.mem_filter.1 hp).1⟩

theorem rem_upd1 (m : Model) (node upd : Name) (h : WF m) :
    Rem ((upd0 m upd).dropNode node) ((upd0 m upd).parents node) (upd1 m node upd) :=
  removeNode_rem _ _ _ (wf_upd0 m upd h)

theorem wf_upd1 (m : Model) (node upd : Name) (h : WF m) : WF (upd1 m node upd) :=
  wf_removeNode' _ _ _ (wf_upd0 m upd h)

theorem upd1_has_node (m : Model) (node upd : Name) (h : WF m) : (upd1 m node upd).has node = false :=
  (removeNode_spec' _ _ node (wf_upd0 m upd h)).1

theorem mem_upd1_edges (m : Model) (node upd : Name) (h : WF m) (e : Edge) :
    e ∈ (upd1 m node upd).edges ↔ (e ∈ m.edges ∧ e.src ≠ node ∧ e.dst ≠ node) := by
  rw [(rem_upd1 m node upd h).edges]
  simp only [Model.dropNode, upd0, List.mem_filter, Bool.not_eq_true', Bool.or_eq_false_iff,
    beq_eq_false_iff_ne, ne_eq]

theorem mem_upd2_edges (m : Model) (node upd : Name) (a : Attr) (e : Edge) :
    e ∈ (upd2 m node upd a).edges ↔
      (e ∈ (upd1 m node upd).edges ∨ (e ∈ m.edges ∧ e.src = node ∧ (upd1 m node upd).has e.dst = true)) := by
  simp only [upd2, upd0, List.mem_append, List.mem_filter, beq_iff_eq, and_assoc]

theorem has_upd2 (m : Model) (node upd : Name) (a : Attr) (x : Name) :
    (upd2 m node upd a).has x = true ↔ ((upd1 m node upd).has x = true ∨ x = node) :=
  has_appendNode _ _ _ _ _

theorem wf_upd2 (m : Model) (node upd : Name) (a : Attr) (h : WF m) : WF (upd2 m node upd a) := by
  have h1 := wf_upd1 m node upd h
  have := wf_appendEdges _ (((upd0 m upd).edges.filter (fun e => e.src == node)).filter
      (fun e => (upd1 m node upd).has e.dst))
    (wf_appendNode (upd1 m node upd) node a h1 (upd1_has_node m node upd h)) ?_
  · exact this
  · intro e he
    simp only [List.mem_filter, beq_iff_eq] at he
    constructor
    · exact (has_appendNode _ _ _ _ _).2 (Or.inr he.1.2)
    · exact (has_appendNode _ _ _ _ _).2 (Or.inl he.2)

theorem mem_upd3_edges (m : Model) (node upd : Name) (a : Attr) (e : Edge) :
    e ∈ (upd3 m node upd a).edges ↔
      (e ∈ (upd2 m node upd a).edges ∨
        ∃ e' ∈ (upd2 m node upd a).edges, e'.dst = upd ∧ e = ⟨e'.src, node, e'.param⟩) := by
  simp only [upd3, List.mem_append, List.mem_map, List.mem_filter, beq_iff_eq, and_assoc]
  constructor
  · rintro (h | ⟨e', he', hd, rfl⟩)
    · exact Or.inl h
    · exact Or.inr ⟨e', he', hd, rfl⟩
  · rintro (h | ⟨e', he', hd, rfl⟩)
    · exact Or.inl h
    · exact Or.inr ⟨e', he', hd, rfl⟩

theorem has_upd3 (m : Model) (node upd : Name) (a : Attr) (x : Name) :
    (upd3 m node upd a).has x = (upd2 m node upd a).has x := rfl

theorem wf_upd3 (m : Model) (node upd : Name) (a : Attr) (h : WF m) : WF (upd3 m node upd a) := by
  have h2 := wf_upd2 m node upd a h
  apply wf_appendEdges _ _ h2
  intro e he
  simp only [List.mem_map, List.mem_filter] at he
  obtain ⟨e', ⟨he', _⟩, rfl⟩ := he
  exact ⟨(h2.2.1 e' he').1, (has_upd2 m node upd a node).2 (Or.inr rfl)⟩

theorem rem_upd4 (m : Model) (node upd : Name) (a : Attr) (h : WF m) :
    Rem ((upd3 m node upd a).dropNode upd) ((upd3 m node upd a).parents upd) (upd4 m node upd a) :=
  removeNode_rem _ _ _ (wf_upd3 m node upd a h)

theorem wf_upd4 (m : Model) (node upd : Name) (a : Attr) (h : WF m) : WF (upd4 m node upd a) :=
  wf_removeNode' _ _ _ (wf_upd3 m node upd a h)

theorem upd4_has_node (m : Model) (node upd : Name) (a : Attr) (h : WF m)
    (hnode : m.has node = true) (hne : node ≠ upd) (hreach : m.reach m.nodes.length node upd = false) :
    (upd4 m node upd a).has node = true := by
  cases h4 : (upd4 m node upd a).has node with
  | true => rfl
  | false =>
    exfalso
    have h3 : ((upd3 m node upd a).dropNode upd).has node = true :=
      (has_dropNode _ _ _).2 ⟨(has_upd2 m node upd a node).2 (Or.inr rfl), hne⟩
    obtain ⟨i, hi⟩ := mem_parents _ _ _ ((rem_upd4 m node upd a h).gone node h3 h4).2.2
    rw [mem_upd3_edges, mem_upd2_edges, mem_upd1_edges m node upd h] at hi
    rcases hi with (⟨_, hs, _⟩ | ⟨he, _, _⟩) | ⟨e', _, _, heq⟩
    · exact hs rfl
    · have hlen : ∃ k, m.nodes.length = k + 1 := by
        rw [has_iff_mem] at hnode
        cases hm : m.nodes with
        | nil => rw [hm] at hnode; simp at hnode
        | cons x xs => exact ⟨xs.length, rfl⟩
      obtain ⟨k, hk⟩ := hlen
      have := reach_of_edge m k _ he
      rw [hk] at hreach
      simp only at this
      rw [this] at hreach
      cases hreach
    · simp only [Edge.mk.injEq] at heq
      exact hne heq.2.1.symm


theorem no_edge_of_reach_false (m : Model) (node upd : Name) (hnode : m.has node = true)
    (hreach : m.reach m.nodes.length node upd = false) (e : Edge) (he : e ∈ m.edges)
    (hs : e.src = node) (hd : e.dst = upd) : False := by
  have hlen : ∃ k, m.nodes.length = k + 1 := by
    rw [has_iff_mem] at hnode
    cases hm : m.nodes with
    | nil => rw [hm] at hnode; simp at hnode
    | cons x xs => exact ⟨xs.length, rfl⟩
  obtain ⟨k, hk⟩ := hlen
  have := reach_of_edge m k _ he
  rw [hk, ← hs, ← hd, this] at hreach
  cases hreach

theorem mem_upd4_edges (m : Model) (node upd : Name) (a : Attr) (h : WF m) (e : Edge) :
    e ∈ (upd4 m node upd a).edges ↔ (e ∈ (upd3 m node upd a).edges ∧ e.src ≠ upd ∧ e.dst ≠ upd) := by
  rw [(rem_upd4 m node upd a h).edges]
  simp only [Model.dropNode, List.mem_filter, Bool.not_eq_true', Bool.or_eq_false_iff,
    beq_eq_false_iff_ne, ne_eq]

theorem upd4_obs_no_node (m : Model) (node upd : Name) (a : Attr) (h : WF m) :
    ∀ o ∈ (upd4 m node upd a).observed, o.1 ≠ node := by
  intro o ho hon
  have h1 : o ∈ ((upd3 m node upd a).dropNode upd).observed := (rem_upd4 m node upd a h).obs.subset ho
  have h2 : o ∈ (upd1 m node upd).observed := (List.mem_filter.1 h1).1
  have h3 := (wf_upd1 m node upd h).2.2 o h2
  rw [hon, upd1_has_node m node upd h] at h3
  cases h3

theorem wf_updateNode' (m m' : Model) (node upd : Name) (h : WF m) (hr : m.updateNode node upd = .ok m') :
    WF m' := by
  obtain ⟨hnode, _, hne, hreach, a, _, hm'⟩ := updateNode_ok hr
  have h4 := wf_upd4 m node upd a h
  cases hobs : m.observed.find? (fun p => p.1 == upd) with
  | none => rw [hobs] at hm'; subst hm'; exact h4
  | some o =>
    rw [hobs] at hm'
    subst hm'
    refine ⟨h4.1, h4.2.1, ?_⟩
    intro p hp
    rcases List.mem_append.1 hp with hp | hp
    · exact h4.2.2 p hp
    · rw [List.mem_singleton] at hp
      subst hp
      exact upd4_has_node m node upd a h hnode hne hreach

/-- the general form of `become_spec`: self-loops on `node` and on `upd` are not carried over -/
theorem become_spec_general (m m' : Model) (node upd : Name) (h : WF m) (hleaf : PrivLeaves m)
    (hr : m.updateNode node upd = .ok m') :
    m'.has node = true ∧ m'.has upd = false ∧
    m'.attr node = m.attr upd ∧
    (∀ c prm, (⟨node, c, prm⟩ : Edge) ∈ m.edges → c ≠ upd → c ≠ node → (⟨node, c, prm⟩ : Edge) ∈ m'.edges) ∧
    (∀ p prm, (⟨p, upd, prm⟩ : Edge) ∈ m.edges → p ≠ upd → (⟨p, node, prm⟩ : Edge) ∈ m'.edges) ∧
    (∀ p prm, (⟨p, node, prm⟩ : Edge) ∈ m'.edges → (⟨p, upd, prm⟩ : Edge) ∈ m.edges) ∧
    ((m'.observed.find? (fun p => p.1 == node)).map (·.2) =
      (m.observed.find? (fun p => p.1 == upd)).map (·.2)) := by
  obtain ⟨hnode, hupd, hne, hreach, a, ha, hm'⟩ := updateNode_ok hr
  have hnodes : m'.nodes = (upd4 m node upd a).nodes := by
    rw [hm']; split <;> rfl
  have hedges : m'.edges = (upd4 m node upd a).edges := by
    rw [hm']; split <;> rfl
  have h4node := upd4_has_node m node upd a h hnode hne hreach
  have hr4 := rem_upd4 m node upd a h
  have h1node := upd1_has_node m node upd h
  refine ⟨?_, ?_, ?_, ?_, ?_, ?_, ?_⟩
  · rw [has_of_nodes_eq hnodes]; exact h4node
  · rw [has_of_nodes_eq hnodes]
    exact (removeNode_spec' _ _ upd (wf_upd3 m node upd a h)).1
  · rw [ha]
    unfold Model.attr
    rw [hnodes]
    cases hf : (upd4 m node upd a).nodes.find? (fun p => p.1 == node) with
    | none =>
      exfalso
      rw [List.find?_eq_none] at hf
      rw [has_iff_mem, List.mem_map] at h4node
      obtain ⟨p, hp, hpn⟩ := h4node
      exact hf p hp (by simpa using hpn)
    | some p =>
      have hp1 : p.1 = node := by simpa using List.find?_some hf
      have hp2 : p ∈ (upd4 m node upd a).nodes := List.mem_of_find?_eq_some hf
      have hp3 : p ∈ ((upd3 m node upd a).dropNode upd).nodes := hr4.nodes.subset hp2
      have hp4 : p ∈ (upd1 m node upd).nodes ++ [(node, a)] := (List.mem_filter.1 hp3).1
      rcases List.mem_append.1 hp4 with hp5 | hp5
      · exfalso
        have : (upd1 m node upd).has node = true := by
          rw [has_iff_mem, List.mem_map]; exact ⟨p, hp5, hp1⟩
        rw [h1node] at this; cases this
      · rw [List.mem_singleton] at hp5
        subst hp5; rfl
  · intro c prm he hcu hcn
    rw [hedges, mem_upd4_edges m node upd a h, mem_upd3_edges, mem_upd2_edges]
    refine ⟨Or.inl (Or.inr ⟨he, rfl, ?_⟩), hne, hcu⟩
    exact (removeNode_spec' _ _ node (wf_upd0 m upd h)).2.2.1 c (h.2.1 _ he).2 hcn (hleaf _ he)
  · intro p prm he hpu
    have hpn : p ≠ node := fun hpn => no_edge_of_reach_false m node upd hnode hreach _ he hpn rfl
    rw [hedges, mem_upd4_edges m node upd a h, mem_upd3_edges]
    refine ⟨Or.inr ⟨⟨p, upd, prm⟩, ?_, rfl, rfl⟩, hpu, hne⟩
    rw [mem_upd2_edges, mem_upd1_edges m node upd h]
    exact Or.inl ⟨he, hpn, hne.symm⟩
  · intro p prm he
    rw [hedges, mem_upd4_edges m node upd a h, mem_upd3_edges, mem_upd2_edges,
      mem_upd1_edges m node upd h] at he
    rcases he.1 with (⟨_, _, hd⟩ | ⟨_, _, hd⟩) | ⟨e', he', hd', heq⟩
    · exact absurd rfl hd
    · rw [h1node] at hd; cases hd
    · obtain ⟨s, d, q⟩ := e'
      simp only [Edge.mk.injEq, true_and] at heq
      simp only at hd'
      obtain ⟨rfl, rfl⟩ := heq
      rw [hd', mem_upd2_edges, mem_upd1_edges m node upd h] at he'
      rcases he' with ⟨he', _, _⟩ | ⟨he', _, _⟩ <;> exact he'
  · have hno := upd4_obs_no_node m node upd a h
    have hnone : (upd4 m node upd a).observed.find? (fun p => p.1 == node) = none := by
      rw [List.find?_eq_none]
      intro o ho
      simpa using hno o ho
    cases hobs : m.observed.find? (fun p => p.1 == upd) with
    | none =>
      rw [hobs] at hm'; subst hm'
      rw [hnone]
    | some o =>
      rw [hobs] at hm'; subst hm'
      simp only [List.find?_append, hnone, Option.none_or, List.find?_cons, beq_self_eq_true,
        Option.map_some]


/-- `become_spec'` with the extra hypothesis that the graph has no self-loop (see the
    counterexample below: a self-loop on `node` or on `upd` is silently dropped) -/
theorem become_spec_corrected (m m' : Model) (node upd : Name) (h : WF m) (hleaf : PrivLeaves m)
    (hloop : ∀ e ∈ m.edges, e.src ≠ e.dst)
    (hr : m.updateNode node upd = .ok m') :
    m'.has node = true ∧ m'.has upd = false ∧
    m'.attr node = m.attr upd ∧
    (∀ c prm, (⟨node, c, prm⟩ : Edge) ∈ m.edges → c ≠ upd → (⟨node, c, prm⟩ : Edge) ∈ m'.edges) ∧
    (∀ p prm, (⟨p, upd, prm⟩ : Edge) ∈ m.edges → (⟨p, node, prm⟩ : Edge) ∈ m'.edges) ∧
    (∀ p prm, (⟨p, node, prm⟩ : Edge) ∈ m'.edges → (⟨p, upd, prm⟩ : Edge) ∈ m.edges) ∧
    ((m'.observed.find? (fun p => p.1 == node)).map (·.2) =
      (m.observed.find? (fun p => p.1 == upd)).map (·.2)) := by
  obtain ⟨h1, h2, h3, h4, h5, h6, h7⟩ := become_spec_general m m' node upd h hleaf hr
  refine ⟨h1, h2, h3, ?_, ?_, h6, h7⟩
  · intro c prm he hcu
    exact h4 c prm he hcu (fun hc => hloop _ he hc.symm)
  · intro p prm he
    exact h5 p prm he (hloop _ he)

/-- `become_spec'` is false as stated: a self-loop on `node` is not kept -/
theorem become_spec_counterexample :
    let A : Name := ⟨0, false⟩
    let B : Name := ⟨1, false⟩
    let m : Model := ⟨[(A, ⟨0, 0, false⟩), (B, ⟨1, 1, false⟩)], [⟨A, A, .pos 0⟩], []⟩
    let m' : Model := ⟨[(A, ⟨1, 1, false⟩)], [], []⟩
    WF m ∧ PrivLeaves m ∧ m.updateNode A B = .ok m' ∧
      (⟨A, A, .pos 0⟩ : Edge) ∈ m.edges ∧ A ≠ B ∧ (⟨A, A, .pos 0⟩ : Edge) ∉ m'.edges := by
  unfold WF PrivLeaves
  decide

/-- ... and so is a self-loop on `upd` -/
theorem become_spec_counterexample2 :
    let A : Name := ⟨0, false⟩
    let B : Name := ⟨1, false⟩
    let m : Model := ⟨[(A, ⟨0, 0, false⟩), (B, ⟨1, 1, false⟩)], [⟨B, B, .pos 0⟩], []⟩
    let m' : Model := ⟨[(A, ⟨1, 1, false⟩)], [], []⟩
    WF m ∧ PrivLeaves m ∧ m.updateNode A B = .ok m' ∧
      (⟨B, B, .pos 0⟩ : Edge) ∈ m.edges ∧ (⟨B, A, .pos 0⟩ : Edge) ∉ m'.edges := by
  unfold WF PrivLeaves
  decide

/-! ### heap part -/

theorem lookupD_nil {β : Type} (k : Nat) (d : β) : lookupD ([] : List (Nat × β)) k d = d := rfl

theorem lookupD_cons_self {β : Type} (k : Nat) (v : β) (l : List (Nat × β)) (d : β) :
    lookupD ((k, v) :: l) k d = v := by
  simp [lookupD]

theorem lookupD_cons_ne {β : Type} (k k' : Nat) (v : β) (l : List (Nat × β)) (d : β) (h : k ≠ k') :
    lookupD ((k, v) :: l) k' d = lookupD l k' d := by
  simp [lookupD, h]

theorem lookupD_append_right {β : Type} (l ext : List (Nat × β)) (k : Nat) (d : β)
    (h : ∀ p ∈ ext, p.1 ≠ k) : lookupD (l ++ ext) k d = lookupD l k d := by
  have : ext.find? (fun p => p.1 == k) = none := by
    rw [List.find?_eq_none]; intro p hp; simpa using h p hp
  simp [lookupD, List.find?_append, this]

theorem lookupD_append_left {β : Type} (l ext : List (Nat × β)) (k : Nat) (d : β)
    (h : ∀ p ∈ l, p.1 ≠ k) : lookupD (l ++ ext) k d = lookupD ext k d := by
  have : l.find? (fun p => p.1 == k) = none := by
    rw [List.find?_eq_none]; intro p hp; simpa using h p hp
  simp [lookupD, List.find?_append, this]

theorem lookupD_filter_ne {β : Type} (l : List (Nat × β)) (k k' : Nat) (d : β) (h : k' ≠ k) :
    lookupD (l.filter (fun p => !(p.1 == k))) k' d = lookupD l k' d := by
  induction l with
  | nil => rfl
  | cons x xs ih =>
    obtain ⟨kx, vx⟩ := x
    by_cases hk : kx = k
    · subst hk
      have : ((kx, vx) :: xs).filter (fun p => !(p.1 == kx)) = xs.filter (fun p => !(p.1 == kx)) := by
        simp
      rw [this, ih, lookupD_cons_ne _ _ _ _ _ (Ne.symm h)]
    · have : ((kx, vx) :: xs).filter (fun p => !(p.1 == k)) = (kx, vx) :: xs.filter (fun p => !(p.1 == k)) := by
        simp [hk]
      rw [this]
      by_cases hk' : kx = k'
      · subst hk'; rw [lookupD_cons_self, lookupD_cons_self]
      · rw [lookupD_cons_ne _ _ _ _ _ hk', lookupD_cons_ne _ _ _ _ _ hk', ih]

theorem lookupD_update_self {β : Type} (l : List (Nat × β)) (k : Nat) (v d : β) :
    lookupD (update l k v) k d = v := by
  unfold update
  rw [lookupD_append_left, lookupD_cons_self]
  intro p hp
  simpa using (List.mem_filter.1 hp).2

theorem lookupD_update_ne {β : Type} (l : List (Nat × β)) (k k' : Nat) (v d : β) (h : k' ≠ k) :
    lookupD (update l k v) k' d = lookupD l k' d := by
  unfold update
  rw [lookupD_append_right, lookupD_filter_ne _ _ _ _ h]
  intro p hp
  rw [List.mem_singleton] at hp
  subst hp
  exact Ne.symm h

theorem lookupD_mem {β : Type} (l : List (Nat × β)) (k : Nat) (d : β) (h : k ∈ l.map (·.1)) :
    ∃ p ∈ l, p.1 = k ∧ lookupD l k d = p.2 := by
  induction l with
  | nil => simp at h
  | cons x xs ih =>
    obtain ⟨kx, vx⟩ := x
    by_cases hk : kx = k
    · subst hk
      exact ⟨(kx, vx), List.mem_cons_self, rfl, lookupD_cons_self _ _ _ _⟩
    · simp only [List.map_cons, List.mem_cons] at h
      rcases h with h | h
      · exact absurd h.symm hk
      · obtain ⟨p, hp, hpk, hl⟩ := ih h
        exact ⟨p, List.mem_cons_of_mem _ hp, hpk, by rw [lookupD_cons_ne _ _ _ _ _ hk, hl]⟩

/-- the heap after allocating one fresh copy of the dictionary at `r0` -/
def allocCopy (h : Heap) (r0 : Nat) : Heap :=
  { h with attr := h.attr ++ [(h.next, lookupD h.attr r0 false)], next := h.next + 1 }

theorem freshRefs_cons (h : Heap) (n0 r0 : Nat) (rest : List (Nat × Nat)) :
    freshRefs h ((n0, r0) :: rest) =
      ((freshRefs (allocCopy h r0) rest).1, (n0, h.next) :: (freshRefs (allocCopy h r0) rest).2) := rfl

theorem freshRefs_spec (l : List (Nat × Nat)) : ∀ (h : Heap), (∀ p ∈ h.attr, p.1 < h.next) →
    (∀ p ∈ l, p.2 < h.next) →
    (freshRefs h l).1.obs = h.obs ∧ h.next ≤ (freshRefs h l).1.next ∧
    (∃ ext, (freshRefs h l).1.attr = h.attr ++ ext ∧
      ∀ p ∈ ext, h.next ≤ p.1 ∧ p.1 < (freshRefs h l).1.next) ∧
    (∀ p ∈ (freshRefs h l).2, h.next ≤ p.2) ∧
    (freshRefs h l).2.map (·.1) = l.map (·.1) ∧
    (∀ node ∈ l.map (·.1), lookupD (freshRefs h l).1.attr (lookupD (freshRefs h l).2 node 0) false =
      lookupD h.attr (lookupD l node 0) false) := by
  induction l with
  | nil =>
    intro h _ _
    exact ⟨rfl, le_refl _, ⟨[], by simp [freshRefs], by simp⟩, by simp [freshRefs], rfl, by simp⟩
  | cons x rest ih =>
    obtain ⟨n0, r0⟩ := x
    intro h hattr hl
    rw [freshRefs_cons]
    dsimp only
    have hattr1 : ∀ p ∈ (allocCopy h r0).attr, p.1 < (allocCopy h r0).next := by
      intro p hp
      simp only [allocCopy, List.mem_append, List.mem_singleton] at hp ⊢
      rcases hp with hp | rfl
      · have := hattr p hp; omega
      · simp
    have hl1 : ∀ p ∈ rest, p.2 < (allocCopy h r0).next := by
      intro p hp
      have := hl p (List.mem_cons_of_mem _ hp)
      simp only [allocCopy]; omega
    obtain ⟨i1, i2, ⟨ext, i3, i4⟩, i5, i6, i7⟩ := ih (allocCopy h r0) hattr1 hl1
    have hnext : (allocCopy h r0).next = h.next + 1 := rfl
    have hat : (allocCopy h r0).attr = h.attr ++ [(h.next, lookupD h.attr r0 false)] := rfl
    -- lookups in the heap with one more allocated cell, at old references
    have hold : ∀ r, r < h.next → lookupD (allocCopy h r0).attr r false = lookupD h.attr r false := by
      intro r hr
      rw [hat, lookupD_append_right]
      intro p hp
      rw [List.mem_singleton] at hp; subst hp
      simp only; omega
    refine ⟨i1, by omega, ⟨(h.next, lookupD h.attr r0 false) :: ext, ?_, ?_⟩, ?_, ?_, ?_⟩
    · simp only [i3, hat, List.append_assoc, List.singleton_append]
    · intro p hp
      rcases List.mem_cons.1 hp with rfl | hp
      · simp only; omega
      · have := i4 p hp; omega
    · intro p hp
      rcases List.mem_cons.1 hp with rfl | hp
      · exact le_refl _
      · have := i5 p hp; omega
    · simp only [List.map_cons, i6]
    · intro node hnode
      by_cases hn : n0 = node
      · subst hn
        rw [lookupD_cons_self, lookupD_cons_self, i3, lookupD_append_right, hat, lookupD_append_left,
          lookupD_cons_self]
        · intro p hp
          have := hattr p hp; omega
        · intro p hp
          have := (i4 p hp).1; omega
      · rw [lookupD_cons_ne _ _ _ _ _ hn, lookupD_cons_ne _ _ _ _ _ hn]
        simp only [List.map_cons, List.mem_cons] at hnode
        rcases hnode with hnode | hnode
        · exact absurd hnode.symm hn
        · rw [i7 node hnode]
          obtain ⟨p, hp, _, hlp⟩ := lookupD_mem rest node 0 hnode
          rw [hlp]
          exact hold _ (hl p (List.mem_cons_of_mem _ hp))


theorem lookupD_not_mem {β : Type} (l : List (Nat × β)) (k : Nat) (d : β) (h : k ∉ l.map (·.1)) :
    lookupD l k d = d := by
  have : l.find? (fun p => p.1 == k) = none := by
    rw [List.find?_eq_none]
    intro p hp hpk
    exact h (List.mem_map.2 ⟨p, hp, by simpa using hpk⟩)
  simp [lookupD, this]

theorem copyOwn_eq (h : Heap) (m : Handle) :
    copyOwn h m =
      (⟨(freshRefs h m.nodeRef).1.attr,
        (freshRefs h m.nodeRef).1.obs ++
          [((freshRefs h m.nodeRef).1.next, lookupD (freshRefs h m.nodeRef).1.obs m.obsRef [])],
        (freshRefs h m.nodeRef).1.next + 1⟩,
       ⟨(freshRefs h m.nodeRef).2, (freshRefs h m.nodeRef).1.next⟩) := rfl

theorem copy_same_view' (h : Heap) (m : Handle) (hwf : HeapOK h m) :
    let hc := copyOwn h m
    (∀ node, node ∈ m.nodeRef.map (·.1) → hc.1.flag hc.2 node = h.flag m node) ∧ hc.1.observed hc.2 = h.observed m := by
  obtain ⟨w1, w2, w3, w4⟩ := hwf
  obtain ⟨i1, i2, _, _, _, i7⟩ := freshRefs_spec m.nodeRef h w3 w1
  intro hc
  have hhc : hc = copyOwn h m := rfl
  rw [copyOwn_eq] at hhc
  rw [hhc]
  constructor
  · intro node hnode
    exact i7 node hnode
  · simp only [Heap.observed]
    rw [lookupD_append_left, lookupD_cons_self, i1]
    intro p hp
    rw [i1] at hp
    have := w4 p hp
    omega

theorem foldl_apply_inv (hd : Handle) (Inv : Heap → Prop) (ops : List CopyOp)
    (hstep : ∀ acc, ∀ op ∈ ops, Inv acc → Inv (acc.apply hd op)) :
    ∀ acc, Inv acc → Inv (ops.foldl (fun acc op => acc.apply hd op) acc) := by
  induction ops with
  | nil => intro acc h; exact h
  | cons op ops ih =>
    intro acc h
    rw [List.foldl_cons]
    exact ih (fun acc' op' hop' => hstep acc' op' (List.mem_cons_of_mem _ hop')) _
      (hstep acc op List.mem_cons_self h)

/-- `copy_independent'` with the extra hypothesis that flags are only set on nodes the model has
    (for an unknown node the handle lookup defaults to reference `0`, which may belong to the
    original: see the counterexample below) -/
theorem copy_independent_corrected (h : Heap) (m : Handle) (hwf : HeapOK h m) (ops : List CopyOp)
    (hops : ∀ op ∈ ops, ∀ node v, op = .setFlag node v → node ∈ m.nodeRef.map (·.1)) :
    let hc := copyOwn h m
    let h' := ops.foldl (fun acc op => acc.apply hc.2 op) hc.1
    (∀ node, h'.flag m node = h.flag m node) ∧ h'.observed m = h.observed m := by
  obtain ⟨w1, w2, w3, w4⟩ := hwf
  obtain ⟨i1, i2, ⟨ext, i3, i4⟩, i5, i6, _⟩ := freshRefs_spec m.nodeRef h w3 w1
  intro hc h'
  have hhc : hc = copyOwn h m := rfl
  rw [copyOwn_eq] at hhc
  have hinv : (∀ r, r < h.next → lookupD h'.attr r false = lookupD h.attr r false) ∧
      (∀ r, r < h.next → lookupD h'.obs r [] = lookupD h.obs r []) := by
    apply foldl_apply_inv hc.2 (fun acc => (∀ r, r < h.next → lookupD acc.attr r false = lookupD h.attr r false) ∧
      (∀ r, r < h.next → lookupD acc.obs r [] = lookupD h.obs r [])) ops
    · intro acc op hop ⟨ha, ho⟩
      have hobsRef : hc.2.obsRef = (freshRefs h m.nodeRef).1.next := by rw [hhc]
      cases op with
      | setFlag node v =>
        refine ⟨?_, ho⟩
        intro r hr
        simp only [Heap.apply]
        have hmem : node ∈ hc.2.nodeRef.map (·.1) := by
          rw [hhc]; simp only; rw [i6]; exact hops _ hop node v rfl
        obtain ⟨p, hp, _, hlp⟩ := lookupD_mem hc.2.nodeRef node 0 hmem
        rw [hlp, lookupD_update_ne, ha r hr]
        have : h.next ≤ p.2 := by
          rw [hhc] at hp; exact i5 p hp
        omega
      | setObserved node d =>
        refine ⟨ha, ?_⟩
        intro r hr
        simp only [Heap.apply]
        rw [lookupD_update_ne, ho r hr]
        rw [hobsRef]; omega
      | delObserved node =>
        refine ⟨ha, ?_⟩
        intro r hr
        simp only [Heap.apply]
        rw [lookupD_update_ne, ho r hr]
        rw [hobsRef]; omega
    · rw [hhc]
      constructor
      · intro r hr
        simp only
        rw [i3, lookupD_append_right]
        intro p hp
        have := (i4 p hp).1; omega
      · intro r hr
        simp only
        rw [i1, lookupD_append_right]
        intro p hp
        rw [List.mem_singleton] at hp; subst hp
        simp only; omega
  constructor
  · intro node
    simp only [Heap.flag]
    apply hinv.1
    by_cases hnode : node ∈ m.nodeRef.map (·.1)
    · obtain ⟨p, hp, _, hlp⟩ := lookupD_mem m.nodeRef node 0 hnode
      rw [hlp]; exact w1 p hp
    · rw [lookupD_not_mem _ _ _ hnode]; omega
  · simp only [Heap.observed]
    exact hinv.2 _ w2

/-- `copy_independent'` is false as stated: setting a flag on a node the copy does not know writes
    to reference `0` (the lookup default), which is a dictionary of the original -/
theorem copy_independent_counterexample :
    let h : Heap := ⟨[(0, false)], [(1, [])], 2⟩
    let m : Handle := ⟨[(7, 0)], 1⟩
    let hc := copyOwn h m
    let h' := [CopyOp.setFlag 8 true].foldl (fun acc op => acc.apply hc.2 op) hc.1
    HeapOK h m ∧ h'.flag m 7 ≠ h.flag m 7 := by
  unfold HeapOK
  decide

theorem copy_alias_counterexample' :
    let h : Heap := ⟨[(0, false)], [(1, [])], 2⟩
    let m : Handle := ⟨[(7, 0)], 1⟩
    let hc := copyShallow h m
    (hc.1.apply hc.2 (.setFlag 7 true)).flag m 7 ≠ h.flag m 7 ∧
    (hc.1.apply hc.2 (.setObserved 7 5)).observed m ≠ h.observed m := by
  decide

end ElfiVerif.GraphEdit
