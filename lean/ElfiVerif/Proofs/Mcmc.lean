import ElfiVerif.Model.Mcmc
import Mathlib.Data.List.Basic
import Mathlib.Tactic.Linarith

/-! Proofs for C09 (statements are repeated in Props/C09.lean). -/
namespace ElfiVerif.Mcmc

variable {α ζ U T : Type}

/-- a log-target value the chain may sit on -/
def okT (M : MTarget α ζ U T) (t : T) : Bool := !M.isInf t && !M.isNan t

variable {σ S : Type}

theorem good_ite {β : Type} (P : β → Prop) (c : Prop) [Decidable c] (a b : β)
    (ha : P a) (hb : P b) : P (if c then a else b) := by
  split <;> assumption

theorem metroStates_length (M : MTarget α ζ U T) (st : α × T) (draws : List (ζ × U)) :
    (metroStates M st draws).length = draws.length + 1 := by
  induction draws generalizing st with
  | nil => simp [metroStates]
  | cons zu rest ih => simp [metroStates, ih]

theorem metroStates_head (M : MTarget α ζ U T) (st : α × T) (draws : List (ζ × U)) :
    (metroStates M st draws)[0]? = some st := by
  cases draws <;> simp [metroStates]

theorem metroStates_succ (M : MTarget α ζ U T) (st : α × T) (draws : List (ζ × U))
    (i : Nat) (hi : i < draws.length) (h₁ : i < (metroStates M st draws).length)
    (h₂ : i + 1 < (metroStates M st draws).length) :
    (metroStates M st draws)[i + 1]'h₂ = metroStep M ((metroStates M st draws)[i]'h₁) (draws[i]'hi) := by
  induction draws generalizing st i with
  | nil => simp at hi
  | cons zu rest ih =>
    cases i with
    | zero =>
      simp only [metroStates, List.getElem_cons_succ, List.getElem_cons_zero]
      cases rest <;> simp [metroStates]
    | succ j =>
      simp only [metroStates, List.getElem_cons_succ]
      apply ih

theorem metroStep_inv (M : MTarget α ζ U T) (st : α × T) (zu : ζ × U)
    (h : st.2 = M.lt st.1) : (metroStep M st zu).2 = M.lt (metroStep M st zu).1 := by
  unfold metroStep
  simp only
  split
  · exact h
  · rfl

theorem metroStep_ok (M : MTarget α ζ U T) (st : α × T) (zu : ζ × U)
    (h : okT M (M.lt st.1) = true) : okT M (M.lt (metroStep M st zu).1) = true := by
  unfold metroStep
  simp only
  split
  · exact h
  · rename_i hc
    simp only [Bool.or_eq_true, not_or, Bool.not_eq_true] at hc
    simp [okT, hc.1.2, hc.2]

theorem metroStates_inv (M : MTarget α ζ U T) (st : α × T) (draws : List (ζ × U))
    (h : st.2 = M.lt st.1) : ∀ s ∈ metroStates M st draws, s.2 = M.lt s.1 := by
  induction draws generalizing st with
  | nil => simp [metroStates, h]
  | cons zu rest ih =>
    intro s hs
    simp only [metroStates, List.mem_cons] at hs
    rcases hs with rfl | hs
    · exact h
    · exact ih _ (metroStep_inv M st zu h) s hs

theorem metroStates_ok (M : MTarget α ζ U T) (st : α × T) (draws : List (ζ × U))
    (h : okT M (M.lt st.1) = true) : ∀ s ∈ metroStates M st draws, okT M (M.lt s.1) = true := by
  induction draws generalizing st with
  | nil => simp [metroStates, h]
  | cons zu rest ih =>
    intro s hs
    simp only [metroStates, List.mem_cons] at hs
    rcases hs with rfl | hs
    · exact h
    · exact ih _ (metroStep_ok M st zu h) s hs

theorem metropolis_chain' (M : MTarget α ζ U T) (x0 : α) (draws : List (ζ × U)) :
    let ch := metroChain M x0 draws
    ch.length = draws.length + 1 ∧ ch[0]? = some (x0, M.lt x0) ∧
    ∀ i (hi : i < draws.length) (h₁ : i < ch.length) (h₂ : i + 1 < ch.length),
      let x := (ch[i]'h₁).1
      let x' := M.prop x (draws[i]'hi).1
      let acc := !(M.ratioLt (M.lt x') (M.lt x) (draws[i]'hi).2) && okT M (M.lt x')
      (ch[i]'h₁).2 = M.lt x ∧ (ch[i + 1]'h₂) = (if acc then (x', M.lt x') else (x, M.lt x)) := by
  intro ch
  refine ⟨metroStates_length M _ draws, metroStates_head M _ draws, ?_⟩
  intro i hi h₁ h₂
  have hinv : (ch[i]'h₁).2 = M.lt (ch[i]'h₁).1 :=
    metroStates_inv M (x0, M.lt x0) draws rfl _ (List.getElem_mem h₁)
  refine ⟨hinv, ?_⟩
  have hs : ch[i + 1]'h₂ = metroStep M (ch[i]'h₁) (draws[i]'hi) :=
    metroStates_succ M (x0, M.lt x0) draws i hi h₁ h₂
  show ch[i + 1] = _
  rw [hs]
  unfold metroStep
  simp only
  rw [hinv]
  cases h1 : M.ratioLt (M.lt (M.prop (ch[i]'h₁).1 (draws[i]'hi).1)) (M.lt (ch[i]'h₁).1) (draws[i]'hi).2 <;>
  cases h2 : M.isInf (M.lt (M.prop (ch[i]'h₁).1 (draws[i]'hi).1)) <;>
  cases h3 : M.isNan (M.lt (M.prop (ch[i]'h₁).1 (draws[i]'hi).1)) <;>
  simp [okT, *] <;> exact Prod.ext rfl hinv

theorem metropolis_length' (M : MTarget α ζ U T) (n w : Nat) (x0 : α) (draws : List (ζ × U))
    (hd : n + w ≤ draws.length) (out : List α) (h : metropolis M n w x0 draws = .ok out) :
    out.length = n ∧
    out = (((metroChain M x0 (draws.take (n + w))).drop (1 + w)).map (·.1)) := by
  unfold metropolis at h
  split at h
  · cases h
  · injection h with h
    subst h
    refine ⟨?_, rfl⟩
    simp only [List.length_map, List.length_drop, metroChain, metroStates_length, List.length_take]
    omega

theorem metropolis_support' (M : MTarget α ζ U T) (x0 : α) (draws : List (ζ × U))
    (h0 : okT M (M.lt x0) = true) :
    ∀ st ∈ metroChain M x0 draws, okT M (M.lt st.1) = true ∧ st.2 = M.lt st.1 := by
  intro st hst
  exact ⟨metroStates_ok M _ draws h0 st hst, metroStates_inv M _ draws rfl st hst⟩

theorem metropolis_returns_support' (M : MTarget α ζ U T) (n w : Nat) (x0 : α) (draws : List (ζ × U))
    (h0 : okT M (M.lt x0) = true) (out : List α) (h : metropolis M n w x0 draws = .ok out) :
    ∀ x ∈ out, okT M (M.lt x) = true := by
  unfold metropolis at h
  split at h
  · cases h
  · injection h with h
    subst h
    intro x hx
    obtain ⟨st, hst, rfl⟩ := List.mem_map.1 hx
    exact (metropolis_support' M x0 _ h0 st (List.mem_of_mem_drop hst)).1

theorem metropolis_bad_init' (M : MTarget α ζ U T) (n w : Nat) (x0 : α) (draws : List (ζ × U))
    (h : M.isInf (M.lt x0) = true) : metropolis M n w x0 draws = .error .badInit := by
  simp [metropolis, h]

theorem tree_proposal_valid' (N : NTarget σ S U) (dflt : U) (sl : S) (fwd : Bool)
    (hacc : ∀ n u, 0 < n → N.acceptSub 0 n u = true)
    (d : Nat) (pt : σ) (us : List U) :
    let t := (buildTree N dflt sl fwd d pt us).1
    0 < t.nOk → N.sliceLe sl t.prop = true := by
  induction d generalizing pt us with
  | zero =>
    simp only [buildTree]
    intro h
    by_contra hc
    simp [hc] at h
  | succ d ih =>
    rw [buildTree]
    rcases h1 : buildTree N dflt sl fwd d pt us with ⟨t1, us1⟩
    have ih1 := ih pt us
    rw [h1] at ih1
    simp only at ih1 ⊢
    cases hs : t1.subOk
    · simpa using ih1
    · simp only [if_true]
      rcases h2 : buildTree N dflt sl fwd d (if fwd = true then t1.right else t1.left) us1 with ⟨t2, us2⟩
      have ih2 := ih (if fwd = true then t1.right else t1.left) us1
      rw [h2] at ih2
      simp only at ih2 ⊢
      by_cases hp : t2.nOk > 0
      · simp only [hp, if_true]
        intro _
        cases ha : N.acceptSub t1.nOk t2.nOk (us2.headD dflt)
        · simp only [Bool.false_eq_true, if_false]
          apply ih1
          rcases Nat.eq_zero_or_pos t1.nOk with h0 | h0
          · rw [h0, hacc _ _ hp] at ha
            cases ha
          · exact h0
        · simp only [if_true]
          exact ih2 hp
      · simp only [hp, if_false]
        intro hpos
        apply ih1
        omega

theorem nuts_transition_support' (N : NTarget σ S U) (dflt : U) (sl : S) (maxDepth : Nat) (start : σ)
    (hacc : ∀ n u, 0 < n → N.acceptSub 0 n u = true)
    (htop : ∀ m u, N.acceptTop 0 m u = false)
    (fuel depth : Nat) (left right cur : σ) (nOk : Nat) (dirs : List Bool) (us : List U)
    (good : σ → Prop) (hcur : good cur) (hgood : ∀ p, N.sliceLe sl p = true → good p) :
    good (nutsTransition N dflt sl maxDepth start fuel depth left right cur nOk dirs us) := by
  induction fuel generalizing depth left right cur nOk dirs us with
  | zero => simpa [nutsTransition] using hcur
  | succ fuel ih =>
    rw [nutsTransition]
    split
    · exact hcur
    · simp only
      rcases h1 : buildTree N dflt sl (dirs.headD true) depth
        (if dirs.headD true = true then right else left) us with ⟨t, us1⟩
      have hv := tree_proposal_valid' N dflt sl (dirs.headD true) hacc depth
        (if dirs.headD true = true then right else left) us
      rw [h1] at hv
      simp only at hv ⊢
      have hcur' : good (if t.subOk = true then
          (if N.acceptTop t.nOk nOk (us1.headD dflt) = true then t.prop else cur, us1.tail)
          else (cur, us1)).1 := by
        split
        · simp only
          split
          · rename_i ha
            apply hgood
            apply hv
            rcases Nat.eq_zero_or_pos t.nOk with h0 | h0
            · rw [h0, htop] at ha
              cases ha
            · exact h0
          · exact hcur
        · exact hcur
      exact good_ite good _ _ _ (ih _ _ _ _ _ _ _ hcur') hcur'

theorem tree_nOk_le' (N : NTarget σ S U) (dflt : U) (sl : S) (fwd : Bool) (d : Nat) (pt : σ) (us : List U) :
    (buildTree N dflt sl fwd d pt us).1.nOk ≤ 2 ^ d := by
  induction d generalizing pt us with
  | zero =>
    simp only [buildTree]
    split <;> simp
  | succ d ih =>
    rw [buildTree]
    rcases h1 : buildTree N dflt sl fwd d pt us with ⟨t1, us1⟩
    have ih1 := ih pt us
    rw [h1] at ih1
    simp only at ih1 ⊢
    cases hs : t1.subOk
    · simp only [Bool.false_eq_true, if_false]
      rw [Nat.pow_succ]; omega
    · simp only [if_true]
      rcases h2 : buildTree N dflt sl fwd d (if fwd = true then t1.right else t1.left) us1 with ⟨t2, us2⟩
      have ih2 := ih (if fwd = true then t1.right else t1.left) us1
      rw [h2] at ih2
      simp only at ih2 ⊢
      rw [Nat.pow_succ]; omega

end ElfiVerif.Mcmc
