import ElfiVerif.Model.Mcmc
import Mathlib.Analysis.SpecialFunctions.Exp
import Mathlib.MeasureTheory.Measure.Lebesgue.Basic

/-! The Metropolis acceptance test of `Model/Mcmc.lean` instantiated over the reals: which uniforms accept, with
which probability, and reversibility (detailed balance) of the resulting kernel. -/
namespace ElfiVerif.Mcmc

/-- the code's comparison `np.exp(cur - prev) < u` over the reals -/
noncomputable def realTarget {α ζ : Type} (prop : α → ζ → α) (lt : α → ℝ) : MTarget α ζ ℝ ℝ :=
  { prop := prop, lt := lt, isInf := fun _ => false, isNan := fun _ => false,
    ratioLt := fun cur prev u => decide (Real.exp (cur - prev) < u) }

theorem real_step_accepts' {α ζ : Type} (prop : α → ζ → α) (lt : α → ℝ) (x : α) (z : ζ) (u : ℝ) :
    metroStep (realTarget prop lt) (x, lt x) (z, u) =
      if u ≤ Real.exp (lt (prop x z) - lt x) then (prop x z, lt (prop x z)) else (x, lt x) := by
  unfold metroStep realTarget
  by_cases h : u ≤ Real.exp (lt (prop x z) - lt x)
  · simp [h, not_lt.mpr h]
  · simp [h, not_le.mp h]

theorem accept_set' (lc lp : ℝ) :
    {u : ℝ | 0 ≤ u ∧ u < 1 ∧ u ≤ Real.exp (lc - lp)} =
      if 1 ≤ Real.exp (lc - lp) then Set.Ico 0 1 else Set.Icc 0 (Real.exp (lc - lp)) := by
  ext u
  split_ifs with h
  · simp only [Set.mem_ofPred_eq, Set.mem_Ico]
    constructor
    · rintro ⟨h0, h1, _⟩; exact ⟨h0, h1⟩
    · rintro ⟨h0, h1⟩; exact ⟨h0, h1, by linarith⟩
  · simp only [Set.mem_ofPred_eq, Set.mem_Icc]
    have h' := not_le.mp h
    constructor
    · rintro ⟨h0, _, h2⟩; exact ⟨h0, h2⟩
    · rintro ⟨h0, h2⟩; exact ⟨h0, by linarith, h2⟩

theorem accept_prob' (lc lp : ℝ) :
    MeasureTheory.volume {u : ℝ | 0 ≤ u ∧ u < 1 ∧ u ≤ Real.exp (lc - lp)} =
      ENNReal.ofReal (min 1 (Real.exp (lc - lp))) := by
  rw [accept_set']
  split_ifs with h
  · rw [Real.volume_Ico, min_eq_left h]; simp
  · rw [Real.volume_Icc, min_eq_right (le_of_lt (not_le.mp h))]; simp

theorem detailed_balance' (lx ly q_xy q_yx : ℝ) (hq : q_xy = q_yx) :
    Real.exp lx * q_xy * min 1 (Real.exp (ly - lx)) = Real.exp ly * q_yx * min 1 (Real.exp (lx - ly)) := by
  subst hq
  rcases le_total lx ly with h | h
  · have h1 : 1 ≤ Real.exp (ly - lx) := Real.one_le_exp_iff.mpr (by linarith)
    have h2 : Real.exp (lx - ly) ≤ 1 := Real.exp_le_one_iff.mpr (by linarith)
    rw [min_eq_left h1, min_eq_right h2]
    have : Real.exp ly * Real.exp (lx - ly) = Real.exp lx := by
      rw [← Real.exp_add]; congr 1; ring
    rw [mul_one, mul_right_comm, this]
  · have h1 : 1 ≤ Real.exp (lx - ly) := Real.one_le_exp_iff.mpr (by linarith)
    have h2 : Real.exp (ly - lx) ≤ 1 := Real.exp_le_one_iff.mpr (by linarith)
    rw [min_eq_left h1, min_eq_right h2]
    have : Real.exp lx * Real.exp (ly - lx) = Real.exp ly := by
      rw [← Real.exp_add]; congr 1; ring
    rw [mul_one, mul_right_comm, this]

end ElfiVerif.Mcmc
